"""genx_table.py — slot layout rules of src/Table.c that the C02 layout theorems rely on,
re-extracted from the C source on every check (see tools/gen_params.py).

  table_size_round          Table_Size_Round as a Coq function on nat (sizeof(var) = 8 on the target):
                              ((s + sizeof(var) - 1) / sizeof(var)) * sizeof(var)   ->  ((s + 8 - 1) / 8) * 8
                              (s + sizeof(var) - 1) & ~(sizeof(var) - 1)            ->  the same
                              s & ~(sizeof(var) - 1)                                ->  (s / 8) * 8
                            any other text: no definition (broken obligation)
  table_grow_trigger, table_grow_target, table_shrink_trigger, table_shrink_target
                            the resize POLICY of Table_Resize_More / Table_Resize_Less as functions of nitems:
                              More:  if (Ideal(grow_trigger n) > nslots)   Rehash(t, Ideal(grow_target n))
                              Less:  if (Ideal(shrink_trigger n) < nslots) Rehash(t, Ideal(shrink_target n))
                            read from bodies of the form  { size_t X = Table_Ideal_Size(E); ... size_t old = t->nslots;
                            if (X > old) { Table_Rehash(t, Y); } }  where E is an expression over t->nitems, integer
                            literals, + * / and parentheses (size_t arithmetic = nat arithmetic below overflow), the
                            comparison may be written either way round, and X, Y may be inline calls.  The theorems need
                            only  n <= grow_trigger n, n <= grow_target n, n <= shrink_target n  (re-proved by lia on the
                            generated expressions); the shrink trigger is free.  Anything else: no definition.
  table_layout_shape_ok     Table_Step / Table_Key / Table_Val / Table_Key_Hash still compute
                              step = 8 + header + ksize + header + vsize, key at 8 + header,
                              value at 8 + header + ksize + header, hash word at 0; and Table_New / Table_Assign
                              still take ksize, vsize = Table_Size_Round(size(type))
"""
import re


def norm(s):
    return re.sub(r'\s+', '', s or '')


def policy(body, grow):
    """-> (trigger expr, target expr) as Coq text over n, or None"""
    b = norm(body)
    if not (b.startswith('{') and b.endswith('}')):
        return None
    b = re.sub(r'/\*.*?\*/', '', b[1:-1])
    stmts = [x for x in b.split(';') if x]
    env, old, cond = {}, None, None
    def expr(e):
        e = e.replace('t->nitems', 'n')
        if not re.fullmatch(r'[n0-9+*/()]+', e) or re.search(r'\dn|n\d|nn|\(\)', e):
            return None
        if e.count('(') != e.count(')'):
            return None
        return '(' + re.sub(r'([+*/])', r' \1 ', e) + ')'
    def size(x):
        if x in env:
            return env[x]
        m = re.fullmatch(r'Table_Ideal_Size\((.+)\)', x)
        return expr(m.group(1)) if m else None
    for i, st in enumerate(stmts):
        m = re.fullmatch(r'size_t(\w+)=Table_Ideal_Size\((.+)\)', st)
        if m:
            e = expr(m.group(2))
            if e is None:
                return None
            env[m.group(1)] = e
            continue
        m = re.fullmatch(r'size_t(\w+)=t->nslots', st)
        if m:
            old = m.group(1)
            continue
        cond = ';'.join(stmts[i:])
        break
    if cond is None:
        return None
    o = re.escape(old) if old else 't->nslots'
    alt = '(?:%s|t->nslots)' % o if old else 't->nslots'
    X = r'(\w+|Table_Ideal_Size\([^;{}]+?\))'
    gt, lt = ('>', '<') if grow else ('<', '>')
    m = re.fullmatch(r'if\(%s%s%s\)\{Table_Rehash\(t,%s\);\}' % (X, re.escape(gt), alt, X), cond)
    if m:
        a, y = m.group(1), m.group(2)
    else:
        m = re.fullmatch(r'if\(%s%s%s\)\{Table_Rehash\(t,%s\);\}' % (alt, re.escape(lt), X, X), cond)
        if not m:
            return None
        a, y = m.group(1), m.group(2)
    a, y = size(a), size(y)
    return (a, y) if a and y else None


def generate(repo, emit, src, func_body):
    t = src('src/Table.c')
    for fn, grow, names in (('Table_Resize_More', True, ('table_grow_trigger', 'table_grow_target')),
                            ('Table_Resize_Less', False, ('table_shrink_trigger', 'table_shrink_target'))):
        body = func_body(t, r'static\s+void\s+%s\s*\(\s*struct\s+Table\s*\*\s*t\s*\)\s*\{' % fn)
        # comments must go before whitespace is squeezed
        body = re.sub(r'/\*.*?\*/', '', body or '', flags=re.S)
        pol = policy(body, grow)
        for nm, e in zip(names, pol or (None, None)):
            emit(nm, ('Definition %s (n : nat) : nat := %s.' % (nm, e)) if e else None)
    b = norm(func_body(t, r'static\s+size_t\s+Table_Size_Round\s*\(\s*size_t\s+s\s*\)\s*\{'))
    b = b.replace('sizeof(var)', 'W')
    up = 'Definition table_size_round (s : nat) : nat := ((s + 8 - 1) / 8) * 8.   (* source: %s *)'
    if b in ('{return((s+W-1)/W)*W;}', '{return(s+W-1)&~(W-1);}'):
        emit('table_size_round', up % 'round up to a multiple of sizeof(var)')
    elif b == '{returns&~(W-1);}':
        emit('table_size_round',
             'Definition table_size_round (s : nat) : nat := (s / 8) * 8.   (* source: s & ~(sizeof(var) - 1) *)')
    else:
        emit('table_size_round', None)
    step = norm(func_body(t, r'static\s+size_t\s+Table_Step\s*\(\s*struct\s+Table\s*\*\s*t\s*\)\s*\{'))
    key = norm(func_body(t, r'static\s+var\s+Table_Key\s*\(\s*struct\s+Table\s*\*\s*t\s*,\s*uint64_t\s+i\s*\)\s*\{'))
    val = norm(func_body(t, r'static\s+var\s+Table_Val\s*\(\s*struct\s+Table\s*\*\s*t\s*,\s*uint64_t\s+i\s*\)\s*\{'))
    kh = norm(func_body(t, r'static\s+uint64_t\s+Table_Key_Hash\s*\(\s*struct\s+Table\s*\*\s*t\s*,\s*uint64_t\s+i\s*\)\s*\{'))
    new = norm(func_body(t, r'static\s+void\s+Table_New\s*\(\s*var\s+self\s*,\s*var\s+args\s*\)\s*\{'))
    asg = norm(func_body(t, r'static\s+void\s+Table_Assign\s*\(\s*var\s+self\s*,\s*var\s+obj\s*\)\s*\{'))
    H = 'sizeof(structHeader)'
    ok = (step == '{returnsizeof(uint64_t)+%s+t->ksize+%s+t->vsize;}' % (H, H)
          and key == '{return(char*)t->data+i*Table_Step(t)+sizeof(uint64_t)+%s;}' % H
          and val == '{return(char*)t->data+i*Table_Step(t)+sizeof(uint64_t)+%s+t->ksize+%s;}' % (H, H)
          and kh == '{return*(uint64_t*)((char*)t->data+i*Table_Step(t));}'
          and all('t->ksize=Table_Size_Round(size(t->ktype));t->vsize=Table_Size_Round(size(t->vtype));' in x
                  for x in (new, asg)))
    emit('table_layout_shape_ok', 'Definition table_layout_shape_ok : bool := true.' if ok else None)
