"""genx_table.py — slot layout rules of src/Table.c that the C02 layout theorems rely on,
re-extracted from the C source on every check (see tools/gen_params.py).

  table_size_round          Table_Size_Round as a Coq function on nat (sizeof(var) = 8 on the target):
                              ((s + sizeof(var) - 1) / sizeof(var)) * sizeof(var)   ->  ((s + 8 - 1) / 8) * 8
                              (s + sizeof(var) - 1) & ~(sizeof(var) - 1)            ->  the same
                              s & ~(sizeof(var) - 1)                                ->  (s / 8) * 8
                            any other text: no definition (broken obligation)
  table_layout_shape_ok     Table_Step / Table_Key / Table_Val / Table_Key_Hash still compute
                              step = 8 + header + ksize + header + vsize, key at 8 + header,
                              value at 8 + header + ksize + header, hash word at 0; and Table_New / Table_Assign
                              still take ksize, vsize = Table_Size_Round(size(type))
"""
import re


def norm(s):
    return re.sub(r'\s+', '', s or '')


def generate(repo, emit, src, func_body):
    t = src('src/Table.c')
    b = norm(func_body(t, r'static\s+size_t\s+Table_Size_Round\s*\(\s*size_t\s+s\s*\)\s*\{'))
    b = b.replace('sizeof(var)', 'W')
    up = 'Definition table_size_round (s : nat) : nat := ((s + 8 - 1) / 8) * 8.   (* source: %s *)'
    if b in ('{return((s+W-1)/W)*W;}', '{return(s+W-1)&~(W-1);}'):
        emit('table_size_round', up % 'round up to a multiple of sizeof(var)')
    elif b == '{returns&~(W-1);}':
        emit('table_size_round',
             'Definition table_size_round (s : nat) : nat := (s / 8) * 8.   (* source: s & ~(sizeof(var) - 1) *)')
    else:
        emit('table_size_round', None)
    step = norm(func_body(t, r'static\s+size_t\s+Table_Step\s*\(\s*struct\s+Table\s*\*\s*t\s*\)\s*\{'))
    key = norm(func_body(t, r'static\s+var\s+Table_Key\s*\(\s*struct\s+Table\s*\*\s*t\s*,\s*uint64_t\s+i\s*\)\s*\{'))
    val = norm(func_body(t, r'static\s+var\s+Table_Val\s*\(\s*struct\s+Table\s*\*\s*t\s*,\s*uint64_t\s+i\s*\)\s*\{'))
    kh = norm(func_body(t, r'static\s+uint64_t\s+Table_Key_Hash\s*\(\s*struct\s+Table\s*\*\s*t\s*,\s*uint64_t\s+i\s*\)\s*\{'))
    new = norm(func_body(t, r'static\s+void\s+Table_New\s*\(\s*var\s+self\s*,\s*var\s+args\s*\)\s*\{'))
    asg = norm(func_body(t, r'static\s+void\s+Table_Assign\s*\(\s*var\s+self\s*,\s*var\s+obj\s*\)\s*\{'))
    H = 'sizeof(structHeader)'
    ok = (step == '{returnsizeof(uint64_t)+%s+t->ksize+%s+t->vsize;}' % (H, H)
          and key == '{return(char*)t->data+i*Table_Step(t)+sizeof(uint64_t)+%s;}' % H
          and val == '{return(char*)t->data+i*Table_Step(t)+sizeof(uint64_t)+%s+t->ksize+%s;}' % (H, H)
          and kh == '{return*(uint64_t*)((char*)t->data+i*Table_Step(t));}'
          and all('t->ksize=Table_Size_Round(size(t->ktype));t->vsize=Table_Size_Round(size(t->vtype));' in x
                  for x in (new, asg)))
    emit('table_layout_shape_ok', 'Definition table_layout_shape_ok : bool := true.' if ok else None)
