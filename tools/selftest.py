#!/usr/bin/env python3
"""tools/selftest.py [--only Cxx] [--seeded] [--jobs N] — development-time self-test by mutation.

For every mutants/<id>-*.patch (and seeded/<id>*/patch.diff): take a scratch worktree of the
repository at HEAD under /tmp/st/, apply the patch, confirm that the repository's own suite
still passes (133 tests), run the property's check against it from a private copy of /verif
(so /verif/coq/Generated.v and evidence/ are not disturbed) and expect exit status 1 with a
VIOLATION line.  Also runs every check on the unmodified tree for VERIF_SEED=1,2,3 and expects
silence.  Results: selftest_results.json (committed; cited by DESIGN.md)."""
import sys, os, json, glob, subprocess, shutil, re, time
from concurrent.futures import ThreadPoolExecutor

V = os.path.dirname(os.path.dirname(os.path.abspath(__file__)))
REPO = '/repo'
ST = '/tmp/st'


def sh(cmd, **kw):
    p = subprocess.run(cmd, stdout=subprocess.PIPE, stderr=subprocess.STDOUT, text=True, errors='replace', **kw)
    return p.returncode, p.stdout


def prepare_verif_copy(tag):
    d = os.path.join(ST, 'verif_' + tag)
    os.makedirs(d, exist_ok=True)
    sh(['rsync', '-a', '--delete', '--exclude', '.git', '--exclude', 'replays', '--exclude', '.cello_repo', V + '/', d + '/'])
    return d


def run_one(job):
    kind, pid, name, patch = job
    tag = re.sub(r'[^A-Za-z0-9_]', '_', name)
    rd = os.path.join(ST, 'repo_' + tag)
    sh(['git', '-C', REPO, 'worktree', 'remove', '--force', rd])
    shutil.rmtree(rd, ignore_errors=True)
    rc, o = sh(['git', '-C', REPO, 'worktree', 'add', '--detach', '-f', rd, 'HEAD'])
    res = {'kind': kind, 'property': pid, 'name': name}
    try:
        if patch:
            rc, o = sh(['git', '-C', rd, 'apply', '--whitespace=nowarn', patch])
            if rc != 0:
                # a seeded change written against an earlier head: test it on the head it was written for
                mp = os.path.join(os.path.dirname(patch), 'meta.json')
                base = json.load(open(mp)).get('base_commit') if os.path.exists(mp) else None
                if base:
                    sh(['git', '-C', REPO, 'worktree', 'remove', '--force', rd]); shutil.rmtree(rd, ignore_errors=True)
                    sh(['git', '-C', REPO, 'worktree', 'add', '--detach', '-f', rd, base])
                    rc, o = sh(['git', '-C', rd, 'apply', '--whitespace=nowarn', patch])
                    res['base_commit'] = base
                if rc != 0:
                    res.update(status='PATCH-DOES-NOT-APPLY', detail=o[-300:])
                    return res
            rc, o = sh(['sh', os.path.join(V, 'tools', 'repo_check.sh'), rd], timeout=600)
            m = re.search(r'Tests\s+\|\|\s+Total\s+(\d+)\s+\|\s+Passed\s+(\d+)\s+\|\s+Failed\s+(\d+)', o)
            res['suite'] = m.group(0) if m else o[-200:]
            if not m or m.group(3) != '0':
                res.update(status='SUITE-FAILS')
                return res
        vd = prepare_verif_copy(tag)
        seeds = [1] if patch else [1, 2, 3]
        outs = []
        for s in seeds:
            env = dict(os.environ, CELLO_REPO=rd, VERIF_SEED=str(s))
            t = time.time()
            rc, o = sh([sys.executable, 'check.py', pid, '--tier', 'quick'], cwd=vd, env=env, timeout=3600)
            viol = [l for l in o.splitlines() if l.startswith('VIOLATION')]
            outs.append({'seed': s, 'rc': rc, 'violation': viol[:1], 'wall_s': round(time.time() - t, 1)})
        res['runs'] = outs
        if patch:
            r = outs[0]
            if r['rc'] == 1 and r['violation']:
                res['status'] = 'CAUGHT' + ('-no-failing-input' if 'no-failing-input-found' in r['violation'][0] else '')
                rp = re.search(r'replay=(\S+)', r['violation'][0])
                if rp and os.path.exists(rp.group(1)):
                    try:
                        rj = json.load(open(rp.group(1)))
                        res['replay'] = {k: (str(rj[k])[:300]) for k in ('kind', 'case', 'why', 'theorem_or_file') if k in rj}
                    except Exception:
                        pass
            else:
                res['status'] = 'MISSED'
                # a seeded change recorded as decided by ANOTHER property's check (meta.detected_by): run that one
                mp = os.path.join(os.path.dirname(patch), 'meta.json')
                det = json.load(open(mp)).get('detected_by', {}) if os.path.exists(mp) else {}
                for c in sorted(det):
                    if c == pid or not det[c].get('violation'):
                        continue
                    env = dict(os.environ, CELLO_REPO=rd, VERIF_SEED='1')
                    rc, o = sh([sys.executable, 'check.py', c, '--tier', 'quick'], cwd=vd, env=env, timeout=3600)
                    viol = [l for l in o.splitlines() if l.startswith('VIOLATION')]
                    outs.append({'seed': 1, 'check': c, 'rc': rc, 'violation': viol[:1]})
                    if rc == 1 and viol:
                        res['status'] = 'CAUGHT' + ('-no-failing-input' if 'no-failing-input-found' in viol[0] else '')
                        res['caught_by'] = c
                        break
        else:
            res['status'] = 'SILENT' if all(r['rc'] == 0 and not r['violation'] for r in outs) else 'FALSE-ALARM'
        shutil.rmtree(vd, ignore_errors=True)
    finally:
        sh(['git', '-C', REPO, 'worktree', 'remove', '--force', rd])
        shutil.rmtree(rd, ignore_errors=True)
    return res


def main():
    a = sys.argv[1:]
    only = a[a.index('--only') + 1].split(',') if '--only' in a else None
    jobs = int(a[a.index('--jobs') + 1]) if '--jobs' in a else 4
    os.makedirs(ST, exist_ok=True)
    checks = [c['property_id'] for c in json.load(open(os.path.join(V, 'MANIFEST.json')))['checks']]
    work = []
    if '--no-clean' not in a:
        for pid in checks:
            if not only or pid in only:
                work.append(('clean', pid, 'clean_' + pid, None))
    for p in sorted(glob.glob(os.path.join(V, 'mutants', 'C*-*.patch'))):
        pid = os.path.basename(p).split('-')[0]
        if pid in checks and (not only or pid in only):
            work.append(('mutant', pid, os.path.basename(p)[:-6], p))
    for p in sorted(glob.glob(os.path.join(V, 'seeded', '*', 'patch.diff'))):
        d = os.path.basename(os.path.dirname(p))
        meta = os.path.join(os.path.dirname(p), 'meta.json')
        pid = json.load(open(meta))['property'] if os.path.exists(meta) else d.split('-')[0].split('_')[0]
        if pid in checks and (not only or pid in only):
            work.append(('seeded', pid, 'seeded_' + d, p))
    with ThreadPoolExecutor(jobs) as ex:
        results = list(ex.map(run_one, work))
    out = os.path.join(V, 'selftest_results.json')
    old = {}
    if os.path.exists(out):
        old = {r['name']: r for r in json.load(open(out))['results']}
    for r in results:
        old[r['name']] = r
    json.dump({'results': sorted(old.values(), key=lambda r: (r['property'], r['name']))}, open(out, 'w'), indent=1)
    for r in results:
        print('%-8s %-4s %-40s %s' % (r['kind'], r['property'], r['name'], r['status']))
    bad = [r for r in results if r['status'] in ('MISSED', 'FALSE-ALARM')]
    return 1 if bad else 0


if __name__ == '__main__':
    sys.exit(main())
