"""genx_cfg.py — source facts for property C18 (build configurations agree).

Re-extracted from include/Cello.h and src/*.c on every run (called by gen_params.py):

  cfg_check_switches   the CELLO_*_CHECK switches; every one must be defined exactly twice, inside the
                       `#ifdef CELLO_NDEBUG … #else … #endif` block of Cello.h (0 in the first branch, 1 in
                       the second) and nowhere else — i.e. every switch is derived from CELLO_NDEBUG.
  cfg_guarded_blocks   one row per `#if CELLO_<X>_CHECK == 1 … #endif` block of src/*.c and Cello.h:
                       (file, function, switch, class).  class "test" = the block consists only of
                       `if (<pure condition>) { [return] throw(...); [return;] }` statements (and local
                       declarations initialised by pure reads): no state update.  The only other classes
                       accepted by the Coq obligation are the audited ones ("hdr" = store into a header
                       field that exists only under this switch, "poison" = overwrite of a block that is
                       freed by the next statement, "decl" = header field / header macro in Cello.h).
                       Anything else is emitted as "other:<text>" and the obligation
                       ConfigProofs.guarded_blocks_audited fails = broken obligation.
  cfg_pure_calls       functions called inside the conditions of "test" blocks (must be the audited readers).
  cfg_ngc_blocks       (file, function) of every `#ifndef CELLO_NGC` block.
  cfg_cache_uses       (file, function) of every use of CELLO_CACHE / CELLO_CACHE_NUM in src/*.c.
  cfg_header_fields    fields of struct Header with the switch that guards each.
  cfg_del_forwards     one row per call of del / del_raw / del_root inside a destructor (second member of an
                       `Instance(New, X_New, X_Del)`): (file, destructor, call text, class) with class "guarded" (the call
                       sits in `if (<arg>)` / `if (<arg> isnt NULL)`), "constructed" (the argument is a field the type's
                       constructor fills with new/new_raw/new_root) or "unguarded".  del(NULL) is a no-op only when the
                       collector is compiled in (rem(current(GC), NULL) finds nothing); under CELLO_NGC it raises / crashes.
  cfg_box_del_guarded  Box_Del forwards its content to del behind a NULL test (model: Config.owner_del).
  cfg_cache_wiring     (slot, class) of every Type_Cache_Entry line of Type_Instance (Type.c); emitted only when
                       the macro still has the audited shape (read slot; if NULL: scan, store; return) and the
                       lines sit inside `#if CELLO_CACHE == 1` followed by `return Type_Scan(self, cls);`.
  cfg_Array_*_norm / cfg_Array_*_guard   index normalisation and bounds test of the five Array functions
                       with a CELLO_BOUND_CHECK block, as Gallina functions over Z (model: coq/Config.v).
  cfg_bound_guards     (function, normalisation kind, guard kind) for every BOUND block (Array, List, Tuple, Table).
"""
import os, re, glob

PURE_CALLS = {'header', 'type_of', 'len', 'Tuple_Len', 'size'}


def _coq_str(s):
    return '"' + s.replace('"', '""') + '"'


def _strip_cpp_comments(s):
    """remove // comments that are not inside a string literal"""
    out = []
    for line in s.split('\n'):
        i, inq = 0, False
        while i < len(line):
            c = line[i]
            if inq:
                if c == '\\':
                    i += 1
                elif c == '"':
                    inq = False
            elif c == '"':
                inq = True
            elif c == "'" and i + 2 < len(line):
                i += 3 if line[i + 1] == '\\' else 2
            elif c == '/' and line[i + 1:i + 2] == '/':
                line = line[:i]
                break
            i += 1
        out.append(line)
    return '\n'.join(out)


def _balanced(s, i, op, cl):
    """s[i] == op; return index just after the matching cl (string literals skipped)."""
    assert s[i] == op
    depth, j = 0, i
    while j < len(s):
        c = s[j]
        if c == '"':
            j += 1
            while j < len(s) and s[j] != '"':
                j += 2 if s[j] == '\\' else 1
        elif c == "'":
            j += 1
            while j < len(s) and s[j] != "'":
                j += 2 if s[j] == '\\' else 1
        elif c == op:
            depth += 1
        elif c == cl:
            depth -= 1
            if depth == 0:
                return j + 1
        j += 1
    return -1


def _cond_pure(cond, calls):
    """No assignment, no ++/--, calls only to audited readers (casts and parenthesised types allowed)."""
    c = re.sub(r'"[^"]*"', '""', cond)
    if re.search(r'\+\+|--', c):
        return False
    if re.search(r'(?<![=!<>])=(?!=)', c):
        return False
    for m in re.finditer(r'\b([A-Za-z_]\w*)\s*\(', c):
        f = m.group(1)
        if f in ('or', 'and', 'not', 'is', 'isnt', 'sizeof'):
            continue
        calls.add(f)
        if f not in PURE_CALLS:
            return False
    return True


def classify_block(body, calls):
    """-> (class, [conditions])"""
    s = body.strip()
    conds = []
    i = 0
    kinds = set()
    while i < len(s):
        if s[i].isspace():
            i += 1
            continue
        m = re.match(r'if\s*\(', s[i:])
        if m:
            p = i + m.end() - 1
            q = _balanced(s, p, '(', ')')
            if q < 0:
                return 'other:unbalanced', conds
            cond = s[p + 1:q - 1]
            if not _cond_pure(cond, calls):
                return 'other:impure condition ' + re.sub(r'\s+', ' ', cond)[:60], conds
            conds.append(re.sub(r'\s+', ' ', cond).strip())
            r = q
            while r < len(s) and s[r].isspace():
                r += 1
            if r >= len(s) or s[r] != '{':
                return 'other:if without block', conds
            e = _balanced(s, r, '{', '}')
            inner = s[r + 1:e - 1].strip()
            mm = re.match(r'(return\s+)?throw\s*\(', inner)
            if not mm:
                return 'other:block is not a throw', conds
            tp = mm.end() - 1
            tq = _balanced(inner, tp, '(', ')')
            rest = inner[tq:].strip()
            if not re.fullmatch(r';(\s*return\s*;)?', rest):
                return 'other:statements after throw: ' + rest[:40], conds
            kinds.add('test')
            i = e
            continue
        m = re.match(r'(?:var|size_t|int64_t|int|struct\s+\w+\s*\*)\s+\w+\s*=\s*([^;]*);', s[i:])
        if m:
            if not _cond_pure(m.group(1), calls):
                return 'other:impure initialiser', conds
            kinds.add('test')
            i += m.end()
            continue
        m = re.match(r'self->(alloc|magic)\s*=\s*[^;]*;', s[i:])
        if m:
            kinds.add('hdr')
            i += m.end()
            continue
        m = re.match(r'for\s*\(\s*size_t\s+i\s*=\s*0\s*;[^;]*;\s*i\+\+\s*\)\s*\{\s*\(\(var\*\)header\(self\)\)\[i\]\s*=\s*\(var\)0xDeadCe110\s*;\s*\}', s[i:])
        if m:
            kinds.add('poison')
            i += m.end()
            continue
        return 'other:' + re.sub(r'\s+', ' ', s[i:i + 50]), conds
    if kinds == {'test'}:
        return 'test', conds
    if kinds == {'hdr'}:
        return 'hdr', conds
    if kinds == {'test', 'poison'} or kinds == {'poison'}:
        return 'poison', conds
    return 'other:mixed ' + '+'.join(sorted(kinds)), conds


# ---------------------------------------------------------------------------------------------------------------
# Effect-based classification (second attempt when the strict shape above does not match).  A guarded block is
# still "test" when, whatever its statement structure, it
#   * assigns only to variables it declares itself,
#   * calls only the audited readers, `throw`, same-file static helpers that are themselves PURE (no assignment
#     but to their own locals/parameters, no call but readers / pure helpers / memcpy into a local) or THROWERS
#     (pure, and every way out is `return throw(...)`),
#   * leaves the enclosing function (`return`) only after / by throwing.
# It is "poison" when in addition it stores the constant 0xDeadCe110 through pointers and the statement after the
# block frees the object.  A guarded block at file scope that only defines pure / thrower helpers is "helper".
KEYWORDS = {'if', 'for', 'while', 'switch', 'return', 'sizeof', 'case', 'else', 'do', 'default', 'break', 'continue'}
TYPE_RE = r'(?:static\s+)?(?:const\s+)?(?:unsigned\s+)?(?:var|char|size_t|int64_t|uint64_t|intptr_t|uintptr_t|int|bool|double|struct\s+\w+)(?:\s+const)?\s*\**\s*(?:const\s+)?'


def _strip_strings(s):
    return re.sub(r'"(?:[^"\\\n]|\\.)*"', '""', s)


def _strip_throw_args(s):
    out, i = [], 0
    for m in re.finditer(r'\bthrow\s*\(', s):
        if m.start() < i:
            continue
        q = _balanced(s, m.end() - 1, '(', ')')
        if q < 0:
            break
        out.append(s[i:m.start()] + 'throw()')
        i = q
    out.append(s[i:])
    return ''.join(out)


def block_effects(body, params, helpers):
    """-> (problems, throws, poison) of a piece of C code; params = names that count as local"""
    b = _strip_throw_args(_strip_strings(body))
    local = set(params)
    for m in re.finditer(TYPE_RE + r'(\w+)\s*(?=[=;\[,)])', b):
        if m.group(1) not in KEYWORDS:
            local.add(m.group(1))
    problems, poison = [], False
    throws = 'throw()' in b
    for m in re.finditer(r'(<<|>>|[+\-*/%&|^])?=(?!=)', b):
        if m.group(1) is None and m.start() > 0 and b[m.start() - 1] in '=!<>':
            continue
        st = max(b.rfind(c, 0, m.start()) for c in ';{}(,') + 1
        lhs = b[st:m.start()].strip()
        en = min([x for x in (b.find(';', m.end()), b.find(')', m.end()) if False else -1) if x >= 0] or [b.find(';', m.end())])
        rhs = re.sub(r'\s+', '', b[m.end():en if en >= 0 else len(b)])
        if m.group(1) is None and re.fullmatch(TYPE_RE + r'\w+\s*(\[[^\]]*\])?', lhs):
            continue                                            # declaration with initialiser
        if re.fullmatch(r'\w+', lhs) and lhs in local:
            continue                                            # a variable of the block itself
        if m.group(1) is None and rhs == '(var)0xDeadCe110':
            poison = True                                       # store of the poison constant through a pointer
            continue
        problems.append('assignment to `%s`' % lhs[:40])
    for m in re.finditer(r'(\w+)\s*(?:\+\+|--)|(?:\+\+|--)\s*(\w+)', b):
        v = m.group(1) or m.group(2)
        if v not in local:
            problems.append('increment of `%s`' % v)
    for m in re.finditer(r'(?<![\w$])([A-Za-z_]\w*)\s*\(', b):
        f = m.group(1)
        if f in KEYWORDS or f == 'throw' or f in ('or', 'and', 'not', 'is', 'isnt'):
            continue
        if f in PURE_CALLS:
            continue
        if f in helpers:
            if helpers[f] == 'thrower':
                throws = True
            continue
        if f == 'memcpy':
            q = _balanced(b, m.end() - 1, '(', ')')
            a0 = b[m.end():q - 1].split(',')[0].strip()
            if re.fullmatch(r'&\s*(\w+)', a0) and a0.lstrip('& ') in local:
                continue
        problems.append('call of `%s`' % f)
    return problems, throws, poison


def returns_only_by_throwing(body, helpers):
    b = _strip_throw_args(_strip_strings(body))
    thr = r'(?:throw|%s)\s*\(' % '|'.join(['throw'] + [h for h, k in helpers.items() if k == 'thrower'])
    for m in re.finditer(r'\breturn\b', b):
        if re.match(r'return\s+' + thr, b[m.start():]):
            continue
        # the innermost brace block that contains this return must throw before it
        depth, j = 0, m.start() - 1
        while j >= 0:
            if b[j] == '}':
                depth += 1
            elif b[j] == '{':
                if depth == 0:
                    break
                depth -= 1
            j -= 1
        if not re.search(thr, b[max(j, 0):m.start()]):
            return False
    return True


def file_helpers(text, funcs, blanked):
    """same-file functions that are pure readers or always-throwing helpers"""
    helpers = {}
    for rnd in range(2):                 # second round: helpers that call helpers of the first round
        for a, b_, name in funcs:
            if name in helpers or name.startswith(('struct', 'enum')) or name == '?':
                continue
            head = blanked[max(0, blanked.rfind(';', 0, a), blanked.rfind('}', 0, a)) + 1:a] if a > 0 else ''
            mh = re.search(r'\b%s\s*\(([^{}]*)\)\s*$' % re.escape(name), head, re.S)
            params = [re.findall(r'\w+', x)[-1] for x in mh.group(1).split(',') if re.findall(r'\w+', x)] if mh else []
            body = text[a:b_ + 1]
            if re.search(r'^\s*#', body, re.M):
                continue                                       # helpers with conditional code are not considered
            problems, throws, poison = block_effects(body, params, helpers)
            if problems or poison:
                continue
            if not throws:
                helpers[name] = 'pure'
            else:
                bb = _strip_throw_args(_strip_strings(body))
                rets = re.findall(r'\breturn\b[^;]*;', bb)
                if rets and all(re.match(r'return\s+throw\s*\(\)', r) for r in rets) and re.search(r'return\s+throw\(\)\s*;\s*\}\s*$', bb):
                    helpers[name] = 'thrower'
    return helpers


def classify_effects(body, helpers, after, at_file_scope, funcs_inside):
    if at_file_scope:
        rest = body
        for fbody, name, _a, _b in funcs_inside:
            if helpers.get(name) not in ('pure', 'thrower'):
                return 'other:guarded definition of `%s` is neither a pure reader nor an always-throwing helper' % name
        # nothing but those definitions
        t = body
        for a, b_, name in sorted([(x[2], x[3], x[1]) for x in funcs_inside], reverse=True):
            t = t[:a] + t[b_:]
        t = re.sub(r'(?:static\s+)?[\w\s\*]+?\b\w+\s*\([^{};]*\)\s*$', '', t.strip(), flags=re.S)
        if re.sub(r'[\s;]', '', re.sub(r'(?:static\s+)?[\w\s\*]+?\b\w+\s*\([^{};]*\)\s*', '', t)) != '':
            return 'other:file-scope block with more than helper definitions'
        return 'helper' if funcs_inside else 'other:empty file-scope block'
    problems, throws, poison = block_effects(body, [], helpers)
    if problems:
        return 'other:' + problems[0]
    if not returns_only_by_throwing(body, helpers):
        return 'other:return without throw inside a guarded block'
    if poison:
        return 'poison' if re.match(r'\s*free\s*\(', after) else 'other:poison store not followed by free'
    return 'test'


def enclosing_functions(text):
    """list of (start_offset, end_offset, name) of top-level brace blocks preceded by `name(...)`."""
    out = []
    depth, i, n = 0, 0, len(text)
    start = None
    last_top = 0
    while i < n:
        c = text[i]
        if c == '"':
            i += 1
            while i < n and text[i] != '"':
                i += 2 if text[i] == '\\' else 1
        elif c == "'":
            i += 1
            while i < n and text[i] != "'":
                i += 2 if text[i] == '\\' else 1
        elif c == '{':
            if depth == 0:
                start = i
            depth += 1
        elif c == '}':
            depth -= 1
            if depth == 0 and start is not None:
                head = text[last_top:start]
                m = re.findall(r'\b([A-Za-z_]\w*)\s*\([^{}]*\)\s*$', head, re.S)
                name = m[-1] if m else '?'
                m2 = re.search(r'\b(struct|enum)\s+(\w*)\s*$', head)
                if m2:
                    name = m2.group(1) + ' ' + m2.group(2)
                out.append((start, i, name))
                last_top = i + 1
        elif c == ';' and depth == 0:
            last_top = i + 1
        i += 1
    return out


def fn_at(funcs, off):
    for a, b, name in funcs:
        if a <= off <= b:
            return name
    return '<file scope>'


def guard_kind(cond):
    c = re.sub(r'\s+', '', cond)
    c = c.replace('(int64_t)', '').replace('a->', '').replace('l->', '').replace('t->', '')
    return {'i<0ori>=nitems': 'oob', 'i<0ori>=(nitems+1)': 'oob1',
            'nitemsis0': 'empty', 'n<nitems': 'shrink'}.get(c)


def norm_kind(fbody, upto):
    m = None
    for m in re.finditer(r'\bi\s*=\s*i\s*<\s*0\s*\?\s*([^:;]+?)\s*\+\s*i\s*:\s*i\s*;', fbody[:upto]):
        pass
    if not m:
        return 'none'
    e = re.sub(r'\s+', '', m.group(1)).replace('a->', '').replace('l->', '').replace('t->', '')
    return {'nitems': 'wrap', '(nitems+1)': 'wrap1'}.get(e)


NORM_COQ = {'wrap': 'if (i <? 0)%Z then (n + i)%Z else i',
            'wrap1': 'if (i <? 0)%Z then ((n + 1) + i)%Z else i',
            'none': 'i'}
GUARD_COQ = {'oob': 'orb (i <? 0)%Z (i >=? n)%Z', 'oob1': 'orb (i <? 0)%Z (i >=? n + 1)%Z',
             'empty': '(n =? 0)%Z'}


def generate(repo, emit, src, func_body):
    hdr = _strip_cpp_comments(src('include/Cello.h'))
    # ---------------------------------------------------------------- (a) the switches
    m = re.search(r'#\s*ifdef\s+CELLO_NDEBUG\s*\n(.*?)#\s*else\s*\n(.*?)#\s*endif', hdr, re.S)
    sw = None
    if m:
        off = re.findall(r'^\s*#\s*define\s+CELLO_(\w+)_CHECK\s+(\S+)\s*$', m.group(1), re.M)
        on = re.findall(r'^\s*#\s*define\s+CELLO_(\w+)_CHECK\s+(\S+)\s*$', m.group(2), re.M)
        other_lines_off = [l for l in m.group(1).split('\n') if l.strip() and not re.match(r'\s*#\s*define\s+CELLO_\w+_CHECK\s+0\s*$', l)]
        other_lines_on = [l for l in m.group(2).split('\n') if l.strip() and not re.match(r'\s*#\s*define\s+CELLO_\w+_CHECK\s+1\s*$', l)]
        names_off, names_on = [a for a, _ in off], [a for a, _ in on]
        ok = (names_off == names_on and len(set(names_on)) == len(names_on) and names_on
              and all(v == '0' for _, v in off) and all(v == '1' for _, v in on)
              and not other_lines_off and not other_lines_on)
        # no definition / undefinition of a check switch anywhere else (header or sources)
        all_defs = len(re.findall(r'#\s*(?:define|undef)\s+CELLO_\w+_CHECK\b', hdr))
        for f in sorted(glob.glob(os.path.join(repo, 'src', '*.c'))):
            all_defs += len(re.findall(r'#\s*(?:define|undef)\s+CELLO_\w+_CHECK\b', src('src/' + os.path.basename(f))))
        if ok and all_defs == 2 * len(names_on):
            sw = names_on
    emit('cfg_check_switches', None if sw is None else
         'Definition cfg_check_switches : list string := [%s]%%string.   (* each #defined 0 under CELLO_NDEBUG, 1 otherwise, nowhere else *)'
         % '; '.join(_coq_str(x) for x in sw))
    sw = sw or []

    # ---------------------------------------------------------------- (b) guarded blocks
    rows, calls, bounds, bad_tokens = [], set(), [], []
    used_helpers = set()
    array_defs = {}
    files = [('include/Cello.h', hdr)] + [('src/' + os.path.basename(f), _strip_cpp_comments(src('src/' + os.path.basename(f))))
                                          for f in sorted(glob.glob(os.path.join(repo, 'src', '*.c')))]
    ngc, cache = [], []
    for fname, text in files:
        funcs = enclosing_functions(re.sub(r'^\s*#[^\n]*(?:\\\n[^\n]*)*', lambda mm: ' ' * len(mm.group(0)), text, flags=re.M)
                                    if fname.endswith('.c') else '')
        covered = []
        blanked = re.sub(r'^\s*#[^\n]*(?:\\\n[^\n]*)*', lambda mm: ' ' * len(mm.group(0)), text, flags=re.M) if fname.endswith('.c') else ''
        helpers = file_helpers(text, funcs, blanked) if fname.endswith('.c') else {}
        for mm in re.finditer(r'^[ \t]*#\s*if\s+CELLO_(\w+)_CHECK\s*==\s*1\s*$', text, re.M):
            e = re.compile(r'^[ \t]*#\s*(endif|else|elif|if|ifdef|ifndef)\b', re.M).search(text, mm.end())
            if not e or e.group(1) != 'endif':
                rows.append((fname, fn_at(funcs, mm.start()), mm.group(1), 'other:nested or #else'))
                continue
            covered.append((mm.start(), e.end()))
            body = text[mm.end():e.start()]
            if fname.endswith('.h'):
                b = re.sub(r'\s+', ' ', body).strip()
                if re.fullmatch(r'var (alloc|magic);', b):
                    cls = 'decl'
                elif re.fullmatch(r'#define CELLO_\w+ .*', b) or re.fullmatch(r'(#define CELLO_\w+( \S+)* ?)+', b):
                    cls = 'decl'
                else:
                    cls = 'other:' + b[:50]
                rows.append((fname, '<header>', mm.group(1), cls))
                continue
            fn = fn_at(funcs, mm.start())
            tmp_calls = set()
            cls, conds = classify_block(body, tmp_calls)
            if not cls.startswith('other:'):
                calls |= tmp_calls
            else:
                # second attempt: by effects (refactored shapes: helpers, other loop forms)
                inside = [(text[a:b_ + 1], name, a - mm.end(), b_ + 1 - mm.end()) for a, b_, name in funcs if mm.end() <= a and b_ <= e.start()]
                after = re.sub(r'^\s*', '', text[e.end():e.end() + 200])
                cls2 = classify_effects(body, helpers, after, fn == '<file scope>', inside)
                if not cls2.startswith('other:'):
                    cls = cls2
                    used_helpers.update(h for h in helpers if re.search(r'\b%s\s*\(' % re.escape(h), body))
            if mm.group(1) not in sw:
                cls = 'other:unknown switch'
            rows.append((fname, fn, mm.group(1), cls))
            if mm.group(1) == 'BOUND' and cls == 'test':
                fb = None
                for a, b_, name in funcs:
                    if name == fn:
                        fb = (a, b_)
                gk = guard_kind(conds[0]) if len(conds) == 1 else None
                nk = norm_kind(text[fb[0]:mm.start()], mm.start() - fb[0]) if fb else None
                bounds.append((fn, nk, gk))
        # header: `#else` branches of the two header macros use `#if … == 1 … #else … #endif`
        if fname.endswith('.h'):
            for mm in re.finditer(r'^[ \t]*#\s*if\s+CELLO_(\w+)_CHECK\s*==\s*1\s*\n(.*?)^[ \t]*#\s*else\s*\n(.*?)^[ \t]*#\s*endif', text, re.M | re.S):
                a = re.sub(r'\s+', ' ', mm.group(2)).strip()
                b = re.sub(r'\s+', ' ', mm.group(3)).strip()
                if re.fullmatch(r'(#define CELLO_\w+_(HEADER|NUM) \S+ ?)+', a) and re.fullmatch(r'#define CELLO_\w+_HEADER', b):
                    # replace the provisional 'other:nested or #else' row of this block by 'decl'
                    for k, r in enumerate(rows):
                        if r[0] == fname and r[2] == mm.group(1) and r[3] == 'other:nested or #else':
                            rows[k] = (fname, '<header>', mm.group(1), 'decl')
                            break
                    covered.append((mm.start(), mm.end()))
        # every other mention of a check switch (outside the definition block and the recognised #if lines)
        for mm in re.finditer(r'CELLO_\w+_CHECK', text):
            line_start = text.rfind('\n', 0, mm.start()) + 1
            line = text[line_start:text.find('\n', mm.start())]
            if re.match(r'\s*#\s*define\s+CELLO_\w+_CHECK\s+[01]\s*$', line):
                continue
            if re.match(r'\s*#\s*if\s+CELLO_\w+_CHECK\s*==\s*1\s*$', line):
                continue
            bad_tokens.append((fname, line.strip()[:60]))
        if fname.endswith('.c'):
            for mm in re.finditer(r'^[ \t]*#\s*ifndef\s+CELLO_NGC\b', text, re.M):
                if (fname, fn_at(funcs, mm.start())) not in ngc:        # a site = (file, function), however many blocks
                    ngc.append((fname, fn_at(funcs, mm.start())))
            for mm in re.finditer(r'\bCELLO_CACHE(_NUM)?\b', text):
                row = (fname, fn_at(funcs, mm.start()))
                if row not in cache:
                    cache.append(row)
            for mm in re.finditer(r'CELLO_NGC|CELLO_NDEBUG', text):
                line_start = text.rfind('\n', 0, mm.start()) + 1
                line = text[line_start:text.find('\n', mm.start())]
                if not re.match(r'\s*#\s*ifndef\s+CELLO_NGC\s*$', line):
                    bad_tokens.append((fname, line.strip()[:60]))
    for f, l in bad_tokens:
        rows.append((f, '?', '?', 'other:unrecognised use: ' + l))

    def row4(r):
        return '(%s, %s, %s, %s)' % tuple(_coq_str(x) for x in r)
    emit('cfg_guarded_blocks',
         'Definition cfg_guarded_blocks : list (string * string * string * string) := [\n  %s]%%string.'
         % ';\n  '.join(row4(r) for r in rows) if rows else None)
    emit('cfg_pure_calls', 'Definition cfg_pure_calls : list string := [%s]%%string.'
         % '; '.join(_coq_str(x) for x in sorted(calls)))
    emit('cfg_ngc_blocks', 'Definition cfg_ngc_blocks : list (string * string) := [%s]%%string.'
         % '; '.join('(%s, %s)' % (_coq_str(a), _coq_str(b)) for a, b in ngc) if ngc else None)
    emit('cfg_cache_files', 'Definition cfg_cache_files : list string := [%s]%%string.   (* source files that mention CELLO_CACHE / CELLO_CACHE_NUM *)'
         % '; '.join(_coq_str(a) for a in sorted(set(a for a, _ in cache))) if cache else None)
    emit('cfg_guard_helpers', 'Definition cfg_guard_helpers : list string := [%s]%%string.   (* same-file helpers called from guarded blocks, verified pure / always-throwing *)'
         % '; '.join(_coq_str(a) for a in sorted(used_helpers)))
    emit('cfg_cache_uses', 'Definition cfg_cache_uses : list (string * string) := [%s]%%string.'
         % '; '.join('(%s, %s)' % (_coq_str(a), _coq_str(b)) for a, b in cache) if cache else None)

    # ---------------------------------------------------------------- header fields
    m = re.search(r'struct\s+Header\s*\{(.*?)\};', hdr, re.S)
    fields = None
    if m:
        fields, cur = [], ''
        okh = True
        for line in m.group(1).split('\n'):
            l = line.strip()
            if not l:
                continue
            mm = re.match(r'#\s*if\s+CELLO_(\w+)_CHECK\s*==\s*1$', l)
            if mm:
                cur = mm.group(1)
            elif re.match(r'#\s*endif', l):
                cur = ''
            elif re.match(r'var\s+(\w+)\s*;$', l):
                fields.append((re.match(r'var\s+(\w+)\s*;$', l).group(1), cur))
            else:
                okh = False
        if not okh:
            fields = None
    emit('cfg_header_fields', None if not fields else
         'Definition cfg_header_fields : list (string * string) := [%s]%%string.   (* field, guarding switch *)'
         % '; '.join('(%s, %s)' % (_coq_str(a), _coq_str(b)) for a, b in fields))

    # ---------------------------------------------------------------- destructors that forward to del
    fwd = []
    for fname, text in files:
        if not fname.endswith('.c'):
            continue
        for mi in re.finditer(r'Instance\(\s*New\s*,\s*(\w+)\s*,\s*(\w+)\s*\)', text):
            ctor, dtor = mi.group(1), mi.group(2)
            if dtor == 'NULL':
                continue
            db = func_body(text, r'static\s+void\s+%s\s*\(\s*var\s+self\s*\)\s*\{' % dtor)
            cb = func_body(text, r'static\s+void\s+%s\s*\(\s*var\s+self\s*,\s*var\s+args\s*\)\s*\{' % ctor) or ''
            if db is None:
                fwd.append((fname, dtor, '?', 'unguarded'))
                continue
            for mc in re.finditer(r'\b(del|del_raw|del_root)\s*\(', db):
                q = _balanced(db, mc.end() - 1, '(', ')')
                arg = re.sub(r'\s+', '', db[mc.end():q - 1])
                cls = 'unguarded'
                # innermost enclosing `if (...) {` whose condition tests exactly this argument
                for mf in re.finditer(r'if\s*\(', db[:mc.start()]):
                    pe = _balanced(db, mf.end() - 1, '(', ')')
                    cond = re.sub(r'\s+', '', db[mf.end():pe - 1])
                    rest = db[pe:].lstrip()
                    if not rest.startswith('{'):
                        continue
                    bs = pe + (len(db[pe:]) - len(rest))
                    be = _balanced(db, bs, '{', '}')
                    if bs < mc.start() < be and cond in (arg, arg + 'isntNULL', 'not(' + arg + 'isNULL)'):
                        cls = 'guarded'
                if cls == 'unguarded':
                    # early-return form: `if (<arg> is NULL) { return; }` before the call
                    a_ = re.escape(arg)
                    pre = re.sub(r'\s+', '', db[:mc.start()])
                    if re.search(r'if\((%sisNULL|not%s|!%s|notnot%s)\)\{?return;' % (a_, a_, a_, a_), pre) and \
                            not re.search(r'\b%s=' % a_, pre[pre.rfind('if(' + arg):] if ('if(' + arg) in pre else ''):
                        cls = 'guarded'
                if cls == 'unguarded':
                    mfld = re.fullmatch(r'\w+->(\w+)', arg)
                    if mfld and re.search(r'->%s\s*=\s*new(_raw|_root)?\s*\(' % mfld.group(1), cb):
                        cls = 'constructed'
                fwd.append((fname, dtor, mc.group(1) + '(' + arg + ')', cls))
    emit('cfg_del_forwards', None if not fwd else
         'Definition cfg_del_forwards : list (string * string * string * string) := [\n  %s]%%string.   (* file, destructor, forwarded call, class *)'
         % ';\n  '.join(row4(r) for r in fwd))
    box = [r for r in fwd if r[1] == 'Box_Del']
    emit('cfg_box_del_guarded', None if len(box) != 1 else
         'Definition cfg_box_del_guarded : bool := %s.   (* source: Box_Del: %s is %s *)'
         % ('true' if box[0][3] == 'guarded' else 'false', box[0][2], box[0][3]))

    # ---------------------------------------------------------------- cache wiring
    ty = src('src/Type.c')
    body = func_body(ty, r'static\s+var\s+Type_Instance\s*\(\s*var\s+self\s*,\s*var\s+cls\s*\)\s*\{')
    nb = re.sub(r'\s+', '', body or '')
    mac = re.search(r'#define\s+Type_Cache_Entry\(i,\s*lit\)((?:[^\n]*\\\n)*[^\n]*)', ty)
    shape = re.sub(r'[\s\\]+', '', mac.group(1)) if mac else ''
    # accepted forms of "slot i serves class C: read the slot; if it is NULL scan and store; return it"
    # (each denotes Config.lookup true; justification in design.d/C18.md, section Benign changes):
    SHAPE_A = 'if(clsislit){varinst=((var*)self)[i];if(instisNULL){inst=Type_Scan(self,lit);((var*)self)[i]=inst;}returninst;}'
    SHAPE_A2 = 'if(clsislit){returnType_Cache_Fetch(self,lit,i);}'
    FETCH_A2 = '{var*slot=((var*)self)+i;if(*slotisNULL){*slot=Type_Scan(self,cls);}return*slot;}'
    LOOP_B = ('var*slots=self;for(size_ti=0;i<TYPE_CACHE_CLASSES;i++){if(clsisnt*Type_Cache_Classes[i]){continue;}'
              'if(slots[i]isntNULL){returnslots[i];}varinst=Type_Scan(self,cls);if(instisntNULL){slots[i]=inst;}returninst;}')
    wiring = None
    # class numbers: position in the block of `extern var <Class>;` declarations of Cello.h that starts with Doc
    mcl = re.search(r'((?:extern\s+var\s+\w+\s*;\s*)*extern\s+var\s+Doc\s*;\s*(?:extern\s+var\s+\w+\s*;\s*)+)', hdr)
    classes = []
    if mcl:
        names = re.findall(r'extern\s+var\s+(\w+)\s*;', mcl.group(1))
        classes = names[names.index('Doc'):]
    emit('cfg_class_names', None if not classes else
         'Definition cfg_class_names : list string := [%s]%%string.   (* class number = position *)'
         % '; '.join(_coq_str(x) for x in classes))
    entries = r'((?:Type_Cache_Entry\(\d+,\w+\);)+)'
    form = None
    if body:
        m2 = re.fullmatch(r'\{#ifCELLO_CACHE==1' + entries + r'#endifreturnType_Scan\(self,cls\);\}', nb)
        if m2 and shape == SHAPE_A:
            form = 'entry macro (read slot; if NULL scan and store; return) under #if CELLO_CACHE == 1'
        if not m2:
            m2 = re.fullmatch(r'\{' + entries + r'returnType_Scan\(self,cls\);\}', nb)
            fetch = func_body(ty, r'static\s+var\s+Type_Cache_Fetch\s*\(\s*var\s+self\s*,\s*var\s+cls\s*,\s*size_t\s+i\s*\)\s*\{')
            guarded_def = re.search(r'#if\s+CELLO_CACHE\s*==\s*1\s*static\s+var\s+Type_Cache_Fetch.*?#define\s+Type_Cache_Entry\(i,\s*lit\)[^\n]*(?:\\\n[^\n]*)*\s*#else\s*#define\s+Type_Cache_Entry\(i,\s*lit\)[ \t]*\n\s*#endif', ty, re.S)
            if m2 and shape == SHAPE_A2 and fetch and re.sub(r'\s+', '', fetch) == FETCH_A2 and guarded_def:
                form = 'entry macro calling Type_Cache_Fetch (same read / scan-and-store / return), macro empty when CELLO_CACHE is 0'
            elif m2:
                m2 = None
        if m2 and form:
            wiring = [(int(a_), b_) for a_, b_ in re.findall(r'Type_Cache_Entry\((\d+),(\w+)\)', m2.group(1))]
        if wiring is None:
            # table form: the position of a class in a static table is its slot
            mt = re.search(r'#if\s+CELLO_CACHE\s*==\s*1(.*?)#endif', ty, re.S)
            tb = re.search(r'static\s+var\s*\*\s*const\s+Type_Cache_Classes\s*\[\s*\]\s*=\s*\{([^}]*)\}', mt.group(1)) if mt else None
            cnt = re.search(r'TYPE_CACHE_CLASSES\s*=\s*sizeof\s*\(\s*Type_Cache_Classes\s*\)\s*/\s*sizeof\s*\(\s*Type_Cache_Classes\s*\[\s*0\s*\]\s*\)', ty)
            if tb and cnt and nb == '{#ifCELLO_CACHE==1' + LOOP_B + '#endifreturnType_Scan(self,cls);}':
                names_t = re.findall(r'&\s*(\w+)', tb.group(1))
                if re.sub(r'[\s,]', '', re.sub(r'&\s*\w+', '', tb.group(1))) == '':
                    wiring = list(enumerate(names_t))
                    form = 'table of classes indexed by slot + loop (return a filled slot; else scan, store a non-NULL result, return)'
    if wiring is not None and not all(b_ in classes for _, b_ in wiring):
        wiring = None
    emit('cfg_cache_wiring', None if not wiring else
         'Definition cfg_cache_wiring : list (nat * nat) := [%s].   (* cache slots of Type_Instance as (slot, class number): %s; form: %s *)'
         % ('; '.join('(%d, %d)' % (a, classes.index(b)) for a, b in wiring), ' '.join('%d=%s' % (a, b) for a, b in wiring), form))

    # ---------------------------------------------------------------- bound guards
    okb = bool(bounds) and all(nk is not None and gk is not None for _, nk, gk in bounds)
    emit('cfg_bound_guards', None if not okb else
         'Definition cfg_bound_guards : list (string * string * string) := [%s]%%string.   (* function, index normalisation, test *)'
         % '; '.join('(%s, %s, %s)' % (_coq_str(a), _coq_str(b), _coq_str(c)) for a, b, c in bounds))
    bd = {fn: (nk, gk) for fn, nk, gk in bounds}
    for fn in ('Array_Get', 'Array_Set', 'Array_Pop_At', 'Array_Push_At'):
        nk, gk = bd.get(fn, (None, None))
        if nk in NORM_COQ and gk in ('oob', 'oob1'):
            emit('cfg_%s' % fn,
                 'Definition cfg_%s_norm (i n : Z) : Z := %s.   (* source: index normalisation of %s *)\n'
                 'Definition cfg_%s_guard (i n : Z) : bool := %s.   (* source: #if CELLO_BOUND_CHECK test of %s *)'
                 % (fn, NORM_COQ[nk], fn, fn, GUARD_COQ[gk], fn))
        else:
            emit('cfg_%s' % fn, None)
    nk, gk = bd.get('Array_Pop', (None, None))
    emit('cfg_Array_Pop', 'Definition cfg_Array_Pop_guard (n : Z) : bool := %s.   (* source: #if CELLO_BOUND_CHECK test of Array_Pop *)'
         % GUARD_COQ['empty'] if (nk == 'none' and gk == 'empty') else None)
