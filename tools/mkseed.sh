#!/bin/sh
# tools/mkseed.sh <id> : detached scratch worktree of /repo for an independent "seeded change" author
set -e
d=/tmp/seed/$1
mkdir -p "$d/out"
git -C /repo worktree prune
[ -d "$d/repo" ] || git -C /repo worktree add -q --detach "$d/repo" main
python3 - "$1" > "$d/PROPERTY.txt" <<'P'
import json,sys
for l in open('/verif/properties.jsonl'):
    p=json.loads(l)
    if p['id']==sys.argv[1]:
        print(p['id'],'-',p['title']); print(); print(p['statement']); print(); print('Quantified over:',p['quantifier']['text']); print(); print('Why the existing tests cannot settle it:',p['why_tests_cant']); print(); print('Relevant files:',', '.join(p['anchors']['files']))
P
echo "$d"
