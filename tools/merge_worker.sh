#!/bin/sh
# tools/merge_worker.sh <name> : integrate a worker's branches agent/<name> (development-time helper)
#  1. cherry-pick its `fix:` commits (everything on agent/<name> of /repo not on main) onto /repo main, run the suite
#  2. merge agent/<name> of /verif into main (vlib.py, check.py etc. of main win on conflict), reassemble manifest
set -e
n="$1"
rm -f /tmp/sha_map_$n
cd /repo
c=$(git rev-list --reverse main..agent/$n 2>/dev/null || true)
for s in $c; do
  msg=$(git log -1 --format=%s $s)
  case "$msg" in
    fix:*) git cherry-pick $s >/dev/null 2>&1 || { echo "CHERRY-PICK CONFLICT on $s ($msg)"; git cherry-pick --abort; exit 1; }
           echo "$(git rev-parse --short $s) $(git rev-parse --short HEAD)" >> /tmp/sha_map_$n; echo "picked $s -> $(git rev-parse --short HEAD) $msg";;
    Merge*|merge*) ;;
    *) echo "SKIP non-fix commit $s: $msg";;
  esac
done
/verif/tools/repo_check.sh /repo
cd /verif
git merge -q -X ours -m "merge agent/$n" agent/$n 2>&1 | tail -5 || { echo "MERGE CONFLICT"; git status --short | grep '^U\|^AA' ; exit 1; }
# the fix commits got new ids on main: rewrite the short ids recorded by the worker
if [ -f /tmp/sha_map_$n ]; then
  while read old new; do grep -rl "$old" findings.d design.d manifest.d props 2>/dev/null | xargs -r sed -i "s/$old/$new/g"; done < /tmp/sha_map_$n
  rm -f /tmp/sha_map_$n
fi
python3 tools/assemble.py
