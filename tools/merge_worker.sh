#!/bin/sh
# tools/merge_worker.sh <name> : integrate a worker's branches agent/<name> (development-time helper)
#  1. cherry-pick its `fix:` commits (everything on agent/<name> of /repo not on main) onto /repo main, run the suite
#  2. merge agent/<name> of /verif into main (vlib.py, check.py etc. of main win on conflict), reassemble manifest
set -e
n="$1"
cd /repo
c=$(git rev-list --reverse main..agent/$n 2>/dev/null || true)
for s in $c; do
  msg=$(git log -1 --format=%s $s)
  case "$msg" in
    fix:*) git cherry-pick -x $s >/dev/null 2>&1 || { echo "CHERRY-PICK CONFLICT on $s ($msg)"; git cherry-pick --abort; exit 1; }; echo "picked $s $msg";;
    Merge*|merge*) ;;
    *) echo "SKIP non-fix commit $s: $msg";;
  esac
done
/verif/tools/repo_check.sh /repo
cd /verif
git merge -q -m "merge agent/$n" agent/$n 2>&1 | tail -5 || { echo "MERGE CONFLICT"; git status --short | grep '^U\|^AA' ; exit 1; }
python3 tools/assemble.py
