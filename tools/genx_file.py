"""genx_file.py — what the File model (coq/FileModel.v) takes from the text of src/File.c:
whether File_Close tests for a closed File before calling fclose, whether it clears the handle
on every path once fclose has been called, and whether each stdio wrapper still starts with the
closed-handle test that raises IOError (the shape `on_open` of the model encodes)."""
import re


def generate(repo, emit, src, func_body):
    s = src('src/File.c')
    b = func_body(s, r'static\s+void\s+File_Close\s*\(\s*var\s+self\s*\)\s*\{')
    if not b or 'fclose' not in b:
        emit('file_close_tests_closed', None)
        emit('file_close_clears_always', None)
    else:
        i = b.find('fclose')
        head = b[:i]
        tests = bool(re.search(r'if\s*\(\s*f->file\s+is\s+NULL\s*\)\s*\{\s*throw\s*\(\s*IOError\b', head))
        emit('file_close_tests_closed',
             'Definition file_close_tests_closed : bool := %s.   (* File_Close: `if (f->file is NULL) { throw(IOError, …` before fclose *)'
             % ('true' if tests else 'false'))
        # the handle is cleared on every path iff `f->file = NULL` is executed before any throw that follows fclose
        tail = b[i:]
        t = tail.find('throw')
        c = re.search(r'f->file\s*=\s*NULL\s*;', tail)
        head_clear = re.search(r'f->file\s*=\s*NULL\s*;', head)      # e.g. FILE* fp = f->file; f->file = NULL; fclose(fp)
        always = bool(head_clear) or (c is not None and (t < 0 or c.start() < t))
        if c is None and not head_clear:
            emit('file_close_clears_always', None)     # File_Close never clears the handle: the model does not apply
        else:
            emit('file_close_clears_always',
                 'Definition file_close_clears_always : bool := %s.   (* File_Close: `f->file = NULL` precedes the throw on fclose failure *)'
                 % ('true' if always else 'false'))
    ok = True
    for fn, ret in [('File_Seek', 'void'), ('File_Tell', 'int64_t'), ('File_Flush', 'void'), ('File_EOF', 'bool'),
                    ('File_Read', 'size_t'), ('File_Write', 'size_t'), ('File_Format_To', 'int'), ('File_Format_From', 'int')]:
        fb = func_body(s, r'static\s+%s\s+%s\s*\([^)]*\)\s*\{' % (ret, fn))
        if not fb or not re.match(r'\{\s*struct\s+File\s*\*\s*f\s*=\s*self\s*;\s*if\s*\(\s*f->file\s+is\s+NULL\s*\)\s*\{\s*throw\s*\(\s*IOError\b', fb):
            ok = False
    emit('file_ops_guarded', 'Definition file_ops_guarded : bool := true.   (* all 8 stdio wrappers of File start with the closed-handle test *)' if ok else None)
    d = func_body(s, r'static\s+void\s+File_Del\s*\(\s*var\s+self\s*\)\s*\{')
    okd = bool(d) and re.search(r'if\s*\(\s*f->file\s+isnt\s+NULL\s*\)\s*\{\s*File_Close\s*\(\s*self\s*\)\s*;\s*\}', d)
    o = func_body(s, r'static\s+var\s+File_Open\s*\([^)]*\)\s*\{')
    oko = bool(o) and re.search(r'if\s*\(\s*f->file\s+isnt\s+NULL\s*\)\s*\{\s*File_Close\s*\(\s*self\s*\)\s*;\s*\}\s*f->file\s*=\s*fopen\s*\(', o)
    emit('file_del_open_shape', 'Definition file_del_open_shape : bool := true.   (* File_Del / File_Open close only an open File; File_Open stores the result of fopen *)' if (okd and oko) else None)
    # the Format sink: nothing between the closed test and the single vfprintf / vfscanf call on the stream
    ft = func_body(s, r'static\s+int\s+File_Format_To\s*\([^)]*\)\s*\{')
    ff = func_body(s, r'static\s+int\s+File_Format_From\s*\([^)]*\)\s*\{')
    shape = r'\{\s*struct\s+File\s*\*\s*f\s*=\s*self\s*;\s*if\s*\(\s*f->file\s+is\s+NULL\s*\)\s*\{\s*throw\s*\([^;]*\)\s*;\s*\}\s*return\s+%s\s*\(\s*f->file\s*,\s*fmt\s*,\s*va\s*\)\s*;\s*\}\s*$'
    okf = bool(ft) and bool(ff) and re.match(shape % 'vfprintf', ft) and re.match(shape % 'vfscanf', ff)
    emit('file_format_direct', 'Definition file_format_direct : bool := true.   (* File_Format_To / _From: closed test, then exactly `return vfprintf/vfscanf(f->file, fmt, va);` *)' if okf else None)
