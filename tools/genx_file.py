"""genx_file.py — what the File model (coq/FileModel.v) takes from the text of src/File.c.

The facts are computed by a small statement-level analysis of the function bodies (not by matching
one spelling), seeing through a static helper one level:

  file_ops_guarded        in each of the 8 stream wrappers the closed test dominates everything else:
                          the top-level statements are  declarations / aliases of the handle,  then the
                          guard  `if (<handle> is NULL) { throw(IOError, ...` — or a call of a GUARD HELPER
                          (a static function returning FILE* whose own body is: aliases, that guard,
                          `return <handle>`) — and only then anything else.  The helper call may sit
                          inside the first other statement as the stream argument (arguments are
                          evaluated before the call they belong to; the other arguments are plain names).
  file_format_direct      File_Format_To/_From: after the guard exactly `return vfprintf/vfscanf(<handle>, fmt, va);`
  file_close_tests_closed File_Close: that guard precedes the fclose (direct, or inside a RELEASE HELPER:
                          `FILE* x = f->file; f->file = NULL; return fclose(x);`)
  file_close_clears_always  on every path that has called fclose, `f->file = NULL` is executed before any
                          throw (it may precede the fclose when fclose is given a copy taken before)
  file_del_open_shape     File_Del closes exactly when the handle is not NULL (`if (h isnt NULL) { File_Close(self); }`
                          or `if (h is NULL) { return; } File_Close(self);`); File_Open closes an open File
                          first, then fopen; the result is stored in the File and a NULL result raises IOError
                          (stored before the test, or — the File is closed at that point, so its field IS
                          NULL — stored only when it is not NULL).
A fact that cannot be established is emitted as missing (None) or false, never guessed."""
import re


# ---------------------------------------------------------------- a tiny statement parser
def norm(text):
    """Cello keywords -> C operators, string literals emptied, white space removed inside tokens later."""
    text = re.sub(r'"(?:[^"\\]|\\.)*"', '""', text)
    for a, b in (('isnt', '!='), ('is', '=='), ('and', '&&'), ('or', '||'), ('not', '!')):
        text = re.sub(r'\b%s\b' % a, b, text)
    return text


def squash(t):
    return re.sub(r'\s+', '', t)


def match_paren(t, i, op='(', cl=')'):
    d = 0
    for j in range(i, len(t)):
        if t[j] == op: d += 1
        elif t[j] == cl:
            d -= 1
            if d == 0: return j
    return -1


def parse(t):
    """t = text inside a block -> list of statements:
    ('if', cond, [then], [else] | None) | ('block', [stmts]) | ('s', squashed text without ';')"""
    out = []
    i = 0
    n = len(t)
    while i < n:
        while i < n and t[i].isspace(): i += 1
        if i >= n: break
        m = re.match(r'if\s*\(', t[i:])
        if m:
            p = i + m.end() - 1
            q = match_paren(t, p)
            cond = squash(t[p + 1:q])
            body, j = parse_body(t, q + 1)
            els = None
            m2 = re.match(r'\s*else\b', t[j:])
            if m2:
                els, j = parse_body(t, j + m2.end())
            out.append(('if', cond, body, els))
            i = j
            continue
        if t[i] == '{':
            q = match_paren(t, i, '{', '}')
            out.append(('block', parse(t[i + 1:q])))
            i = q + 1
            continue
        # simple statement up to ';' at depth 0
        d = 0; j = i
        while j < n:
            c = t[j]
            if c in '([{': d += 1
            elif c in ')]}': d -= 1
            elif c == ';' and d == 0: break
            j += 1
        s = squash(t[i:j])
        if s: out.append(('s', s))
        i = j + 1
    return out


def parse_body(t, i):
    """statement or block starting at t[i:] -> (list of statements, index after it)"""
    while i < len(t) and t[i].isspace(): i += 1
    if i < len(t) and t[i] == '{':
        q = match_paren(t, i, '{', '}')
        return parse(t[i + 1:q]), q + 1
    m = re.match(r'if\s*\(', t[i:])
    if m:
        p = i + m.end() - 1
        q = match_paren(t, p)
        body, j = parse_body(t, q + 1)
        m2 = re.match(r'\s*else\b', t[j:])
        els = None
        if m2: els, j = parse_body(t, j + m2.end())
        return [('if', squash(t[p + 1:q]), body, els)], j
    d = 0; j = i
    while j < len(t):
        c = t[j]
        if c in '([{': d += 1
        elif c in ')]}': d -= 1
        elif c == ';' and d == 0: break
        j += 1
    s = squash(t[i:j])
    return ([('s', s)] if s else []), j + 1


def functions(src_text):
    """name -> (return type, parameter text, parsed body) for the static functions of the file"""
    fs = {}
    for m in re.finditer(r'static\s+([A-Za-z_][\w\s\*]*?)\s*\b([A-Za-z_]\w*)\s*\(([^)]*)\)\s*\{', src_text):
        i = m.end() - 1
        q = match_paren(src_text, i, '{', '}')
        if q < 0: continue
        fs[m.group(2)] = (squash(m.group(1)), m.group(3), parse(norm(src_text[i + 1:q])))
    return fs


# ---------------------------------------------------------------- the analyses
class Env:
    def __init__(self):
        self.objs = set()        # p with `struct File* p = self` (or the parameter of a helper)
        self.handles = set()     # expressions denoting the FILE* of the object: p->file and local copies

    def decl(self, s):
        m = re.match(r'structFile\*(\w+)=self$', s)
        if m:
            self.objs.add(m.group(1)); self.handles.add(m.group(1) + '->file'); return True
        m = re.match(r'FILE\*(\w+)=(.+)$', s)
        if m and m.group(2) in self.handles:
            self.handles.add(m.group(1)); return True
        return False

    def null_test(self, cond, positive=True):
        """cond says the handle is NULL (positive) / is not NULL"""
        for h in self.handles:
            if positive and cond in (h + '==NULL', 'NULL==' + h, '!' + h): return True
            if not positive and cond in (h + '!=NULL', 'NULL!=' + h, h): return True
        return False


def throws_ioerror(stmts):
    return bool(stmts) and stmts[0][0] == 's' and stmts[0][1].startswith('throw(IOError,')


def is_guard(st, env):
    return st[0] == 'if' and env.null_test(st[1]) and throws_ioerror(st[2]) and st[3] is None


def guard_helpers(fs):
    """static FILE* H(var self, ...) { aliases; if (h is NULL) { throw(IOError ...) } return h; }"""
    hs = set()
    for name, (ret, params, body) in fs.items():
        if ret != 'FILE*' or not re.match(r'\s*var\s+self\b', params): continue
        env = Env(); k = 0
        while k < len(body) and body[k][0] == 's' and env.decl(body[k][1]): k += 1
        if k + 2 == len(body) and is_guard(body[k], env) and body[k + 1][0] == 's' and \
           body[k + 1][1].startswith('return') and body[k + 1][1][6:] in env.handles:
            hs.add(name)
    return hs


def release_helpers(fs):
    """static int R(struct File* f) { FILE* x = f->file; f->file = NULL; return fclose(x); }"""
    rs = set()
    for name, (ret, params, body) in fs.items():
        m = re.match(r'\s*struct\s+File\s*\*\s*(\w+)\s*$', params)
        if ret != 'int' or not m or len(body) != 3: continue
        p = m.group(1)
        a = re.match(r'FILE\*(\w+)=%s->file$' % p, body[0][1]) if body[0][0] == 's' else None
        if a and body[1] == ('s', '%s->file=NULL' % p) and body[2] == ('s', 'returnfclose(%s)' % a.group(1)):
            rs.add(name)
    return rs


def wrapper_guarded(body, helpers):
    """-> (ok, env, rest): the closed test dominates; rest = statements after the guard"""
    env = Env(); k = 0
    while k < len(body):
        st = body[k]
        if st[0] == 's' and env.decl(st[1]): k += 1; continue
        if st[0] == 's':
            m = re.match(r'FILE\*(\w+)=(\w+)\(self(?:,[^()]*)?\)$', st[1])
            if m and m.group(2) in helpers:
                env.handles.add(m.group(1))
                return True, env, body[k + 1:]
        if is_guard(st, env):
            return True, env, body[k + 1:]
        # the first other statement: acceptable only if the helper call is its stream argument and the
        # handle is used nowhere else in it
        if st[0] == 's':
            calls = re.findall(r'(\w+)\(self(?:,"")?\)', st[1])
            if len(calls) == 1 and calls[0] in helpers and not any(h in st[1] for h in env.handles):
                env.handles.add(re.search(r'%s\(self(?:,"")?\)' % calls[0], st[1]).group(0))
                return True, env, body[k:]
        return False, env, body[k:]
    return False, env, []


def analyse_close(body, rel):
    """-> (tests_closed, clears_always) each True / False / None"""
    env = Env()
    guarded = closed = cleared = False
    tests = None; clears = None; bad_throw = False
    for st in body:
        if st[0] == 's' and env.decl(st[1]): continue
        if not closed and is_guard(st, env): guarded = True; continue
        if st[0] == 's':
            s = st[1]
            m = re.search(r'fclose\(([^()]*)\)', s)
            if m:
                arg = m.group(1)
                direct = [h for h in env.handles if h.endswith('->file')]
                if arg not in env.handles or (cleared and arg in direct): return None, None
                closed = True; tests = guarded; continue
            m = re.search(r'(\w+)\((\w+)\)', s)
            if m and m.group(1) in rel and m.group(2) in env.objs:
                closed = True; tests = guarded; cleared = True; continue
            if any(s == h + '=NULL' for h in env.handles if h.endswith('->file')):
                cleared = True; continue
            if s.startswith('throw(') and closed and not cleared: bad_throw = True
            continue
        if st[0] == 'if' and closed and not cleared:
            if 'throw(' in repr(st): bad_throw = True
    if not closed: return None, None
    clears = None if not cleared else (not bad_throw)
    return tests, clears


def analyse_del(body):
    env = Env(); k = 0
    while k < len(body) and body[k][0] == 's' and env.decl(body[k][1]): k += 1
    rest = body[k:]
    close = [('s', 'File_Close(self)')]
    if len(rest) == 1 and rest[0][0] == 'if' and env.null_test(rest[0][1], False) and rest[0][2] == close and rest[0][3] is None:
        return True
    if len(rest) == 2 and rest[0][0] == 'if' and env.null_test(rest[0][1], True) and rest[0][2] == [('s', 'return')] \
       and rest[0][3] is None and rest[1] == close[0]:
        return True
    return False


def analyse_open(body):
    env = Env(); k = 0
    while k < len(body) and body[k][0] == 's' and env.decl(body[k][1]): k += 1
    rest = body[k:]
    if not rest or not (rest[0][0] == 'if' and env.null_test(rest[0][1], False) and rest[0][2] == [('s', 'File_Close(self)')] and rest[0][3] is None):
        return False
    rest = rest[1:]
    field = [h for h in env.handles if h.endswith('->file')]
    if len(field) != 1 or len(rest) < 3: return False
    f = field[0]
    # form 1: store, test, throw
    if rest[0][0] == 's' and re.match(re.escape(f) + r'=fopen\(', rest[0][1]) and \
       rest[1][0] == 'if' and rest[1][1] in (f + '==NULL', '!' + f) and throws_ioerror(rest[1][2]) and rest[1][3] is None and \
       rest[2:] == [('s', 'returnself')]:
        return True
    # form 2: open into a local, throw when NULL, store (the field is NULL at this point: the File is closed)
    m = re.match(r'FILE\*(\w+)=fopen\(', rest[0][1]) if rest[0][0] == 's' else None
    if m and len(rest) == 4:
        x = m.group(1)
        if rest[1][0] == 'if' and rest[1][1] in (x + '==NULL', '!' + x) and throws_ioerror(rest[1][2]) and rest[1][3] is None and \
           rest[2] == ('s', '%s=%s' % (f, x)) and rest[3] == ('s', 'returnself'):
            return True
    return False


def generate(repo, emit, src, func_body):
    s = src('src/File.c')
    fs = functions(s)
    helpers = guard_helpers(fs)
    rel = release_helpers(fs)

    if 'File_Close' not in fs:
        emit('file_close_tests_closed', None); emit('file_close_clears_always', None)
    else:
        tests, clears = analyse_close(fs['File_Close'][2], rel)
        emit('file_close_tests_closed', None if tests is None else
             'Definition file_close_tests_closed : bool := %s.   (* File_Close: the closed test (throw IOError) precedes fclose *)'
             % ('true' if tests else 'false'))
        emit('file_close_clears_always', None if clears is None else
             'Definition file_close_clears_always : bool := %s.   (* File_Close: the handle is cleared before any throw that follows fclose *)'
             % ('true' if clears else 'false'))

    ok = True
    rests = {}
    for fn in ('File_Seek', 'File_Tell', 'File_Flush', 'File_EOF', 'File_Read', 'File_Write', 'File_Format_To', 'File_Format_From'):
        if fn not in fs: ok = False; continue
        g, env, rest = wrapper_guarded(fs[fn][2], helpers)
        rests[fn] = (env, rest)
        if not g: ok = False
    emit('file_ops_guarded', 'Definition file_ops_guarded : bool := true.   (* in all 8 stdio wrappers of File the closed test (own or through a guard helper) dominates everything else *)' if ok else None)

    okd = 'File_Del' in fs and analyse_del(fs['File_Del'][2])
    oko = 'File_Open' in fs and analyse_open(fs['File_Open'][2])
    emit('file_del_open_shape', 'Definition file_del_open_shape : bool := true.   (* File_Del / File_Open close only an open File; File_Open stores the result of fopen, NULL raises IOError *)' if (okd and oko) else None)

    def direct(fn, call):
        if not ok or fn not in rests: return False
        env, rest = rests[fn]
        if len(rest) != 1 or rest[0][0] != 's': return False
        m = re.match(r'return%s\((.+),fmt,va\)$' % call, rest[0][1])
        return bool(m) and m.group(1) in env.handles
    okf = direct('File_Format_To', 'vfprintf') and direct('File_Format_From', 'vfscanf')
    emit('file_format_direct', 'Definition file_format_direct : bool := true.   (* File_Format_To / _From: closed test, then exactly `return vfprintf/vfscanf(<the stream>, fmt, va);` *)' if okf else None)
