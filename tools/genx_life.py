"""genx_life.py — C06 (object life cycle): the small rules of src/GC.c, src/Alloc.c,
src/Pointer.c, src/Thread.c and include/Cello.h that coq/Lifecycle.v re-states, read off the
C text of the working tree on every run.

  gc_rem_pending_finalises : bool   GC_Rem_Ptr, pointer found in the pending list (freelist):
                                    true  = entry NULLed, object finalised, return   (D18 repair)
                                    false = entry NULLed only                        (pinned code)
  gc_sweep_nulls_first     : bool   GC_Sweep's finaliser loop clears freelist[i] before it calls
                                    dealloc(destruct(.))                             (D18 repair)
  gc_set_defers_in_sweep   : bool   GC_Set does not start a threshold collection while a sweep is
                                    running (gc->freelist non-NULL)                  (D22 repair)
  main_registers_atexit / main_tears_down_after_return : bool
                                    how the `main` wrapper arranges the collector's teardown
  exception_error_exits    : bool   Exception_Error (uncaught exception) leaves only through exit()
  gc_mitems_rule           : nat -> nat   the collection threshold rule (tuning; theorems hold for any)
  gc_life_shape            : bool   conjunction of the remaining fixed shapes (listed below); a
                                    shape that no longer matches makes it false and names itself
                                    in gc_life_shape_failed
"""
import re


def _loops_over_freenum(body):
    """bodies of the `for (...; i < gc->freenum; ...) {...}` loops of a function body"""
    out = []
    for m in re.finditer(r'for\s*\([^)]*gc->freenum[^)]*\)\s*\{', body):
        i = m.end() - 1
        depth, j = 0, i
        while j < len(body):
            if body[j] == '{':
                depth += 1
            elif body[j] == '}':
                depth -= 1
                if depth == 0:
                    break
            j += 1
        out.append(re.sub(r'\s+', ' ', body[i:j + 1]))
    return out


def _norm_sweep(sw):
    """one canonical text for the compaction loop of GC_Sweep:
       - `for (size_t i = 0; i < gc->nslots; ) {` = `size_t i = 0; while (i < gc->nslots) {`
       - a local alias `struct GCEntry* e = &gc->entries[i];` is substituted (e->x = gc->entries[i].x)
       - `gc->freelist[gc->freenum++] = X;` = `gc->freelist[gc->freenum] = X; gc->freenum++;` """
    flat = re.sub(r'\s+', ' ', sw)
    flat = re.sub(r'for \(size_t i = 0; i < gc->nslots; \) \{', 'size_t i = 0; while (i < gc->nslots) {', flat)
    m = re.search(r'struct GCEntry\* (\w+) = &gc->entries\[i\]; ', flat)
    if m:
        flat = flat.replace(m.group(0), '', 1)
        flat = re.sub(r'\b%s->' % re.escape(m.group(1)), 'gc->entries[i].', flat)
    flat = re.sub(r'gc->freelist\[gc->freenum\+\+\] = ([^;]*);', r'gc->freelist[gc->freenum] = \1; gc->freenum++;', flat)
    return flat


def _sweep_pends_unmarked_nonroot(sw):
    """The compaction loop `while (i < gc->nslots)` appends gc->entries[i].ptr to the pending list
    exactly when the entry is occupied, unmarked and not a root.  The condition under which the append
    is reached is COMPUTED from the statements before it (after _norm_sweep), it must be
    hash!=0 & !marked & !root:
      skips    if (A or B ...) { i++; continue; }      atoms among
               `gc->entries[i].hash is 0`, `gc->entries[i].marked`, `gc->entries[i].root`
      guard    if (not gc->entries[i].root and not gc->entries[i].marked) { append ...   (either order)"""
    if not sw:
        return False
    flat = _norm_sweep(sw)
    m = re.search(r'while \(i < gc->nslots\) \{(.*?)gc->freelist\[gc->freenum\] = gc->entries\[i\]\.ptr; gc->freenum\+\+;', flat)
    if not m:
        return False
    pre = m.group(1)
    atoms = {'gc->entries[i].hash is 0': 'empty', 'gc->entries[i].marked': 'marked', 'gc->entries[i].root': 'root'}
    excluded = set()
    rest = pre
    for sk in re.finditer(r'if \(([^{}]*?)\) \{ i\+\+; continue; \}', pre):
        for at in re.split(r'\s+or\s+', sk.group(1).strip()):
            at = at.strip()
            if at not in atoms:
                return False
            excluded.add(atoms[at])
        rest = rest.replace(sk.group(0), '', 1)
    rest = rest.strip()
    if rest:
        g = re.fullmatch(r'if \(([^{}]*)\) \{', rest)
        if not g:
            return False
        for at in re.split(r'\s+and\s+', g.group(1).strip()):
            mm = re.fullmatch(r'not (gc->entries\[i\]\.(?:marked|root))', at.strip())
            if not mm:
                return False
            excluded.add(atoms[mm.group(1)])
    return excluded == {'empty', 'marked', 'root'}


def _rem_ptr_table_hit(rem):
    """After the pending-list loop, GC_Rem_Ptr finalises the entry it finds, once, after taking it out:
    exactly one dealloc(destruct(X)) with X = ptr (the entry was found under `entries[i].ptr is ptr`, or
    by a lookup helper keyed on ptr) or X = freeitem with `var freeitem = gc->entries[i].ptr;` before it;
    a statement that takes slot i out of the table (inline `memset(&gc->entries[i]` or a helper
    `GC_<Name>(gc, i);`) between the hit and the finalisation; no return in between.  HOW the slot is
    emptied and the count kept is C17's subject (and is compared white-box after every operation)."""
    if not rem:
        return False
    flat = re.sub(r'\s+', ' ', rem)
    m = re.search(r'for \([^)]*gc->freenum[^)]*\) \{', flat)
    if not m:
        return False
    i, depth = m.end() - 1, 0
    while i < len(flat):
        depth += flat[i] == '{'; depth -= flat[i] == '}'
        if depth == 0:
            break
        i += 1
    rest = flat[i + 1:]
    ds = list(re.finditer(r'dealloc\(destruct\((\w+)\)\);', rest))
    if len(ds) != 1:
        return False
    x, before = ds[0].group(1), rest[:ds[0].start()]
    hit = max(before.rfind('if (gc->entries[i].ptr is ptr) {'), before.rfind('if (gc->entries[i].ptr == ptr) {'),
              (lambda mm: mm.end() if mm else -1)(re.search(r'size_t i = GC_\w+\(gc, ptr\); if \(i >= gc->nslots\) \{ return; \}', before)))
    if hit < 0:
        return False
    seg = before[hit:]
    if x == 'freeitem':
        if 'var freeitem = gc->entries[i].ptr;' not in seg:
            return False
    elif x != 'ptr':
        return False
    if 'return' in seg.replace('if (i >= gc->nslots) { return; }', ''):
        return False
    return re.search(r'memset\(&gc->entries\[i\]|\bGC_\w+\(gc, i\);', seg) is not None


def generate(repo, emit, src, func_body):
    gc = src('src/GC.c')
    rem = func_body(gc, r'static\s+void\s+GC_Rem_Ptr\s*\(struct GC\*\s*gc,\s*var\s+ptr\)\s*\{')
    val = None
    if rem:
        loops = _loops_over_freenum(rem)
        if len(loops) == 1:
            l = loops[0]
            nulls = re.search(r'gc->freelist\[i\]\s*=\s*NULL', l)
            if nulls and re.search(r'dealloc\s*\(\s*destruct\s*\(\s*ptr\s*\)\s*\)\s*;\s*return\s*;', l[nulls.end():]):
                val = 'true'
            elif nulls and 'dealloc' not in l and 'return' not in l:
                val = 'false'
    # an unrecognised shape is treated as "not repaired": the model still builds (so that the
    # correspondence and the oracle still run) while every theorem of Properties_C06.v breaks
    emit('gc_rem_pending_finalises',
         'Definition gc_rem_pending_finalises : bool := %s.   (* source: freelist loop of GC_Rem_Ptr%s *)'
         % (val or 'false', '' if val else ' — SHAPE NOT RECOGNISED'))

    sw = func_body(gc, r'void\s+GC_Sweep\s*\(struct GC\*\s*gc\)\s*\{')
    val = None
    if sw:
        loops = _loops_over_freenum(sw)
        if len(loops) == 1:
            l = loops[0]
            d = re.search(r'dealloc\s*\(\s*destruct\s*\(', l)
            n = re.search(r'gc->freelist\[i\]\s*=\s*NULL', l)
            if d and n and n.start() < d.start():
                val = 'true'
            elif d and not n and re.search(r'if\s*\(\s*gc->freelist\[i\]\s*\)', l):
                val = 'false'
    emit('gc_sweep_nulls_first',
         'Definition gc_sweep_nulls_first : bool := %s.   (* source: finaliser loop of GC_Sweep%s *)'
         % (val or 'false', '' if val else ' — SHAPE NOT RECOGNISED'))

    gset0 = func_body(gc, r'static\s+void\s+GC_Set\s*\(var self, var key, var val\)\s*\{')
    g0 = re.sub(r'\s+', ' ', gset0) if gset0 else ''
    defers = re.search(r'if \(gc->freelist isnt NULL\) \{ return; \} if \(gc->nitems > gc->mitems\)', g0) is not None
    emit('gc_set_defers_in_sweep',
         'Definition gc_set_defers_in_sweep : bool := %s.   (* source: GC_Set returns before the threshold test while gc->freelist is non-NULL *)'
         % ('true' if defers else 'false'))

    # remaining shapes
    failed = []

    def need(name, ok):
        if not ok:
            failed.append(name)

    def has(body, pat):
        return bool(body) and re.search(pat, re.sub(r'\s+', ' ', body)) is not None

    gset = func_body(gc, r'static\s+void\s+GC_Set\s*\(var self, var key, var val\)\s*\{')
    grem = func_body(gc, r'static\s+void\s+GC_Rem\s*\(var self, var key\)\s*\{')
    gdel = func_body(gc, r'static\s+void\s+GC_Del\s*\(var self\)\s*\{')
    gexit = func_body(gc, r'void\s+Cello_Exit\s*\(void\)\s*\{')
    # collection threshold: gc->mitems = <expression over gc->nitems>; the same in GC_Sweep and GC_Rem.
    # It is TUNING (when a collection runs): emitted as the function gc_mitems_rule, the theorems hold for any.
    def mitems_expr(body):
        m = re.search(r'gc->mitems = ([^;]*);', re.sub(r'\s+', ' ', body or ''))
        return m.group(1).strip() if m else None

    def to_coq(e):
        """C expression over the item count -> Coq nat expression.  Grammar: ternary `c ? a : b`,
        comparisons < <= > >= == !=, + - * /, parentheses, literals, the variable; a call F(arg) of a
        static helper `static size_t F(size_t x) { [size_t v = E;]* return E; }` is inlined (one level,
        single-assignment locals substituted).  Unsigned C arithmetic = nat on the proved domain
        (no subtraction that could go below zero is accepted: `-` is rejected)."""
        toks = re.findall(r'\d+|[A-Za-z_][A-Za-z_0-9]*(?:->[A-Za-z_]+)?|<=|>=|==|!=|[-+*/()<>?:,]', e)
        if ''.join(toks) != re.sub(r'\s+', '', e):
            return None
        pos = [0]

        def peek():
            return toks[pos[0]] if pos[0] < len(toks) else None

        def eat(t=None):
            x = peek()
            if x is None or (t is not None and x != t):
                raise ValueError(e)
            pos[0] += 1
            return x

        def primary(env):
            x = eat()
            if x == '(':
                v = ternary(env); eat(')'); return '(%s)' % v
            if re.fullmatch(r'\d+', x):
                if len(x) > 6:
                    raise ValueError(x)
                return x
            if x in env:
                return env[x]
            if peek() == '(':                      # helper call, one argument
                eat('('); arg = ternary(env); eat(')')
                return '(%s)' % inline(x, arg)
            raise ValueError(x)

        def mul(env):
            v = primary(env)
            while peek() in ('*', '/'):
                op = eat(); v = '%s %s %s' % (v, op, primary(env))
            return v

        def add(env):
            v = mul(env)
            while peek() == '+':
                eat(); v = '%s + %s' % (v, mul(env))
            return v

        def cmp_(env):
            v = add(env)
            if peek() in ('<', '<=', '>', '>=', '==', '!='):
                op = eat(); w = add(env)
                return {'<': '(%s <? %s)', '<=': '(%s <=? %s)', '>': '(%s <? %s)', '>=': '(%s <=? %s)',
                        '==': '(%s =? %s)', '!=': '(negb (%s =? %s))'}[op] % ((w, v) if op in ('>', '>=') else (v, w))
            return v

        def ternary(env):
            c = cmp_(env)
            if peek() == '?':
                eat('?'); x = ternary(env); eat(':'); y = ternary(env)
                return '(if %s then %s else %s)' % (c, x, y)
            return c

        def inline(fname, arg):
            fb = func_body(gc, r'static\s+size_t\s+%s\s*\(\s*size_t\s+(\w+)\s*\)\s*\{' % re.escape(fname))
            hm = re.search(r'static\s+size_t\s+%s\s*\(\s*size_t\s+(\w+)\s*\)' % re.escape(fname), gc)
            if not fb or not hm or depth[0] > 0:
                raise ValueError(fname)
            depth[0] += 1
            env2 = {hm.group(1): '(%s)' % arg}
            body = re.sub(r'\s+', ' ', fb).strip()[1:-1].strip()
            stmts = [x.strip() for x in body.split(';') if x.strip()]
            for st in stmts[:-1]:
                lm = re.fullmatch(r'size_t (\w+) = (.*)', st)
                if not lm or lm.group(1) in env2:
                    raise ValueError(st)
                env2[lm.group(1)] = '(%s)' % sub(lm.group(2), env2)
            rm = re.fullmatch(r'return (.*)', stmts[-1])
            if not rm:
                raise ValueError(stmts[-1])
            v = sub(rm.group(1), env2)
            depth[0] -= 1
            return v

        def sub(text, env):
            save_t, save_p = toks[:], pos[0]
            t2 = re.findall(r'\d+|[A-Za-z_][A-Za-z_0-9]*(?:->[A-Za-z_]+)?|<=|>=|==|!=|[-+*/()<>?:,]', text)
            if ''.join(t2) != re.sub(r'\s+', '', text):
                raise ValueError(text)
            toks[:] = t2; pos[0] = 0
            v = ternary(env)
            if pos[0] != len(toks):
                raise ValueError(text)
            toks[:] = save_t; pos[0] = save_p
            return v
        depth = [0]
        try:
            v = ternary({'gc->nitems': 'n'})
            if pos[0] != len(toks):
                return None
            return v
        except (ValueError, KeyError):
            return None
    e_sw, e_rem = mitems_expr(func_body(gc, r'void\s+GC_Sweep\s*\(struct GC\*\s*gc\)\s*\{')), mitems_expr(grem)
    coq_rule = to_coq(e_sw) if (e_sw is not None and e_sw == e_rem) else None
    emit('gc_mitems_rule', None if coq_rule is None else
         'Definition gc_mitems_rule (n : nat) : nat := %s.   (* source: gc->mitems = %s; in GC_Sweep and GC_Rem *)'
         % (coq_rule, e_sw))
    need('GC_Set returns when not running', has(gset, r'\{ struct GC\* gc = self; if \(not gc->running\) \{ return; \}'))
    need('GC_Set collects when nitems > mitems', has(gset, r'if \(gc->nitems > gc->mitems\) \{ GC_Mark\(gc\); GC_Sweep\(gc\); \}'))
    need('GC_Rem returns when not running', has(grem, r'if \(not gc->running\) \{ return; \} GC_Rem_Ptr\(gc, key\);'))
    need('GC_Rem applies the mitems rule after GC_Rem_Ptr and GC_Resize_Less',
         has(grem, r'GC_Rem_Ptr\(gc, key\); GC_Resize_Less\(gc\); gc->mitems = [^;]*; \}$'))
    need('GC_Sweep applies the mitems rule after GC_Resize_Less, before the finaliser loop',
         has(sw, r'GC_Resize_Less\(gc\); gc->mitems = [^;]*; for \(size_t i = 0; i < gc->freenum; i\+\+\)'))
    need('GC_Sweep pends exactly the unmarked non-root entries', _sweep_pends_unmarked_nonroot(sw))
    need('GC_Del sweeps first', has(gdel, r'\{ struct GC\* gc = self; GC_Sweep\(gc\);'))
    need('Cello_Exit deletes the collector', has(gexit, r'del_raw\(current\(GC\)\);'))
    rp = rem and re.sub(r'\s+', ' ', rem)
    # a table hit: the entry's pointer is saved, the entry is taken out (how is C17's subject: inline
    # back-shift or a helper), then the object is finalised and GC_Rem_Ptr returns
    need('GC_Rem_Ptr finalises a table hit', _rem_ptr_table_hit(rem))

    al = src('src/Alloc.c')
    delby = func_body(al, r'static\s+void\s+del_by\s*\(var self, int method\)\s*\{')
    # the allocation methods are exactly ALLOC_STANDARD, ALLOC_RAW, ALLOC_ROOT, so `method isnt ALLOC_RAW`
    # is "ALLOC_STANDARD or ALLOC_ROOT"
    three = re.search(r'enum \{ ALLOC_STANDARD, ALLOC_RAW, ALLOC_ROOT \};', re.sub(r'\s+', ' ', al)) is not None
    need('del/del_root = rem(current(GC), self)',
         has(delby, r'case ALLOC_STANDARD: case ALLOC_ROOT: #ifndef CELLO_NGC rem\(current\(GC\), self\); return; #endif')
         or (three and has(delby, r'^\{ #ifndef CELLO_NGC if \(method isnt ALLOC_RAW\) \{ rem\(current\(GC\), self\); return; \} #endif')))
    need('del_raw = dealloc(destruct(self))', has(delby, r'dealloc\(destruct\(self\)\); \}$'))
    allocby = func_body(al, r'static\s+var\s+alloc_by\s*\(var type, int method\)\s*\{')
    # registration with the root flag: switch form, or `if (method isnt ALLOC_RAW) set(.., $I(method is ALLOC_ROOT))`
    # (`is` is ==: 1 for ALLOC_ROOT, 0 for ALLOC_STANDARD; `? 1 : 0` is the same)
    ifreg = three and has(allocby, r'#ifndef CELLO_NGC if \(method isnt ALLOC_RAW\) \{ set\(current\(GC\), self, \$I\(method is ALLOC_ROOT(?: \? 1 : 0)?\)\); \} #endif return self; \}$')
    need('alloc registers managed objects', ifreg or has(allocby, r'case ALLOC_STANDARD: #ifndef CELLO_NGC set\(current\(GC\), self, \$I\(0\)\);'))
    need('alloc_root registers roots', ifreg or has(allocby, r'case ALLOC_ROOT: #ifndef CELLO_NGC set\(current\(GC\), self, \$I\(1\)\);'))

    ptr = src('src/Pointer.c')
    bdel = func_body(ptr, r'static\s+void\s+Box_Del\s*\(var self\)\s*\{')
    # Box_Del: read the pointer, del what it points at (if anything), pointer cleared.  Clearing before the
    # del is the same for the ledger: the pointer has been read, and only this Box's own destructor reads it
    need('Box_Del dels the owned object',
         has(bdel, r'^\{ var obj = Box_Deref\(self\); if \(obj\) \{ del\(obj\); \} Box_Ref\(self, NULL\); \}$')
         or has(bdel, r'^\{ struct Box\* b = self; var obj = b->val; b->val = NULL; if \(obj is NULL\) \{ return; \} del\(obj\); \}$'))

    th = src('src/Thread.c')
    run = func_body(th, r'static\s+var\s+Thread_Init_Run\s*\(var self\)\s*\{')
    need('thread creates and deletes its collector', has(run, r'var gc = new_raw\(GC, \$R\(&bottom\)\);') and has(run, r'del_raw\(gc\);'))

    h = src('include/Cello.h')
    m = re.search(r'#define main\(\.\.\.\)(.*?)int Cello_Main\(__VA_ARGS__\)', h, re.S)
    mm = re.sub(r'[\s\\]+', ' ', m.group(1)) if m else ''
    need('main macro creates the collector', 'var bottom = NULL; new_raw(GC, $R(&bottom));' in mm)
    # how the wrapper arranges the teardown (two switches of Lifecycle.terminate)
    i_main = mm.find('Cello_Main(argc, argv)')
    reg = i_main >= 0 and 'atexit(Cello_Exit);' in mm[:i_main]
    after = i_main >= 0 and re.search(r'\bCello_Exit\(\)\s*;', mm[i_main:]) is not None
    emit('main_registers_atexit', None if not m else
         'Definition main_registers_atexit : bool := %s.   (* source: `main` macro of Cello.h registers Cello_Exit with atexit before Cello_Main *)'
         % ('true' if reg else 'false'))
    emit('main_tears_down_after_return', None if not m else
         'Definition main_tears_down_after_return : bool := %s.   (* source: `main` macro calls Cello_Exit() after Cello_Main returned *)'
         % ('true' if after else 'false'))

    # Exception_Error (uncaught exception) must end in exit() on EVERY path: exit handlers = teardown
    ex = src('src/Exception.c')
    eb = func_body(ex, r'static\s+void\s+Exception_Error\s*\(struct Exception\*\s*e\)\s*\{')
    val = None
    if eb:
        flat = re.sub(r'\s+', ' ', eb)
        ends = re.search(r'exit\(EXIT_FAILURE\); \}$', flat) is not None
        other = re.search(r'\b(_Exit|_exit|abort|quick_exit|return|longjmp|raise|kill)\b', flat) is not None
        nexit = len(re.findall(r'(?<![A-Za-z_])exit\(', flat))
        val = 'true' if (ends and not other and nexit == 1) else 'false'
    emit('exception_error_exits', None if val is None else
         'Definition exception_error_exits : bool := %s.   (* source: Exception_Error ends in exit(EXIT_FAILURE), nothing else leaves it *)' % val)

    # GC_Start / GC_Stop only flip gc->running: they leave the pending list of a sweep in progress alone
    # (a destructor may open a stop/start window of its own from inside the finaliser loop).  Accepted: any
    # body that mentions neither freelist nor freenum nor entries/nitems/nslots and calls no function.
    gst = func_body(gc, r'static\s+void\s+GC_Start\s*\(var self\)\s*\{')
    gsp = func_body(gc, r'static\s+void\s+GC_Stop\s*\(var self\)\s*\{')
    keep = None
    if gst and gsp:
        def quiet(b):
            flat = re.sub(r'\s+', ' ', b)
            return (re.search(r'\b(freelist|freenum|entries|nitems|nslots|mitems)\b', flat) is None
                    and re.search(r'[A-Za-z_]\w*\s*\(', flat) is None)
        keep = 'true' if (quiet(gst) and quiet(gsp) and has(gst, r'gc->running = true;') and has(gsp, r'gc->running = false;')) else 'false'
    emit('gc_start_stop_keep_pending', None if keep is None else
         'Definition gc_start_stop_keep_pending : bool := %s.   (* source: GC_Start / GC_Stop touch gc->running only *)' % keep)

    emit('gc_life_shape', 'Definition gc_life_shape : bool := %s.\n(* shapes that no longer match: %s *)'
         % ('true' if not failed else 'false', '; '.join(failed) if failed else 'none'))
