(* SeqProofs.v — proofs about SeqModels.v (property C04): capacity rules, memory helpers,
   Array and List refine the abstract sequence.  (Sort: SortProofs.v, Tuple: SeqTupleProofs.v.) *)
From Coq Require Import List Arith Bool ZArith Lia Permutation Sorted.
From CelloV Require Import Generated SeqModels.
Import ListNotations.

(* ------------------------------------------------------------------ capacity rules *)
(* what the refinement proofs need from Array_Reserve_More / Array_Reserve_Less, proved for the
   rules re-extracted from src/Array.c (Generated.v): a grown store holds all items, a store
   that is not grown already does; a shrunk store still holds all items. *)
Definition grow_ok (cond : nat -> nat -> bool) (size : nat -> nat -> nat) : Prop :=
  forall nitems nslots,
    (cond nitems nslots = true -> nitems <= size nitems nslots) /\
    (cond nitems nslots = false -> nitems <= nslots).
Definition shrink_ok (cond : nat -> nat -> bool) (size : nat -> nat -> nat) : Prop :=
  forall nitems nslots, cond nitems nslots = true -> nitems <= size nitems nslots.

Lemma array_grow_ok : grow_ok array_grow_cond array_grow_size.
Proof.
  intros n s. unfold array_grow_cond, array_grow_size. split; intros H.
  - lia.
  - apply Nat.ltb_ge in H. exact H.
Qed.

Lemma array_shrink_ok : shrink_ok array_shrink_cond array_shrink_size.
Proof. intros n s _. unfold array_shrink_size. lia. Qed.

(* ------------------------------------------------------------------ memory helpers *)
Section MemLemmas.
  Variable X : Type.
  Implicit Types l a b : list X.

  Lemma set_at_app_l a b x y : set_at (a ++ y :: b) (length a) x = Some (a ++ x :: b).
  Proof. induction a as [|z a IH]; simpl; [reflexivity | rewrite IH; reflexivity]. Qed.

  Lemma set_at_length l i x l' : set_at l i x = Some l' -> length l' = length l.
  Proof.
    revert i l'. induction l as [|y l IH]; intros [|i] l' H; simpl in H; try discriminate.
    - injection H as <-. reflexivity.
    - destruct (set_at l i x) eqn:E; [|discriminate]. injection H as <-. simpl. f_equal. eauto.
  Qed.

  Lemma realloc_length junk l n : length (realloc junk l n) = n.
  Proof.
    unfold realloc. rewrite app_length, repeat_length, firstn_length. lia.
  Qed.

  Lemma realloc_app_ge junk a b n :
    length a <= n -> realloc junk (a ++ b) n = a ++ realloc junk b (n - length a).
  Proof.
    intros H. unfold realloc. rewrite firstn_app, app_length.
    rewrite (firstn_all2 a) by lia. rewrite <- app_assoc. do 2 f_equal. f_equal. lia.
  Qed.

  Lemma realloc_le junk l n : n <= length l -> realloc junk l n = firstn n l.
  Proof.
    intros H. unfold realloc. replace (n - length l) with 0 by lia. simpl. apply app_nil_r.
  Qed.

  Lemma memmove_cons x l d s n :
    memmove (x :: l) (S d) (S s) n =
    match memmove l d s n with Some r => Some (x :: r) | None => None end.
  Proof.
    unfold memmove. simpl length.
    replace (S s + n <=? S (length l)) with (s + n <=? length l) by (simpl; reflexivity).
    replace (S d + n <=? S (length l)) with (d + n <=? length l) by (simpl; reflexivity).
    destruct ((s + n <=? length l) && (d + n <=? length l)); reflexivity.
  Qed.

  (* push_at: shift B up by one and store x in the gap *)
  Lemma memmove_insert a b c d x :
    exists l1, memmove (a ++ b ++ c :: d) (length a + 1) (length a) (length b) = Some l1 /\
               set_at l1 (length a) x = Some (a ++ x :: b ++ d).
  Proof.
    induction a as [|y a IH].
    - simpl. unfold memmove. simpl length.
      assert (H1 : 0 + length b <=? length (b ++ c :: d) = true)
        by (apply Nat.leb_le; rewrite app_length; simpl; lia).
      assert (H2 : 1 + length b <=? length (b ++ c :: d) = true)
        by (apply Nat.leb_le; rewrite app_length; simpl; lia).
      rewrite H1, H2. simpl andb. cbv iota. eexists. split; [reflexivity|].
      assert (E1 : firstn (length b) (b ++ c :: d) = b)
        by (rewrite firstn_app, Nat.sub_diag, firstn_all; simpl; apply app_nil_r).
      assert (E2 : skipn (1 + length b) (b ++ c :: d) = d).
      { replace (1 + length b) with (length b + 1) by lia.
        rewrite skipn_app. replace (length b + 1 - length b) with 1 by lia.
        rewrite (skipn_all2 b) by lia. reflexivity. }
      rewrite skipn_O, E1, E2.
      destruct (b ++ c :: d) eqn:E; [destruct b; discriminate|]. simpl. reflexivity.
    - destruct IH as (l1 & Hm & Hs). simpl app. simpl length.
      replace (S (length a) + 1) with (S (length a + 1)) by lia.
      rewrite memmove_cons, Hm. eexists. split; [reflexivity|]. simpl. rewrite Hs. reflexivity.
  Qed.

  (* pop_at: shift B down by one; the last moved unit stays behind as a stale copy *)
  Lemma memmove_delete a b x d :
    exists y, memmove (a ++ x :: b ++ d) (length a) (length a + 1) (length b) = Some (a ++ b ++ y :: d).
  Proof.
    induction a as [|z a IH].
    - simpl. unfold memmove. simpl length.
      assert (H1 : 1 + length b <=? S (length (b ++ d)) = true)
        by (apply Nat.leb_le; rewrite app_length; lia).
      assert (H2 : 0 + length b <=? S (length (b ++ d)) = true)
        by (apply Nat.leb_le; rewrite app_length; lia).
      rewrite H1, H2. simpl andb. cbv iota. simpl skipn at 1. simpl firstn at 1.
      rewrite firstn_app, Nat.sub_diag, firstn_all. simpl firstn. rewrite app_nil_r.
      simpl plus.
      assert (exists y, skipn (length b) (x :: b ++ d) = y :: d) as [y Hy].
      { clear. revert x. induction b as [|w b IH]; intros x; simpl.
        - eauto.
        - destruct (IH w) as [y Hy]. exists y. exact Hy. }
      rewrite Hy. exists y. reflexivity.
    - destruct IH as (y & Hm). exists y. simpl app. simpl length.
      replace (S (length a) + 1) with (S (length a + 1)) by lia.
      rewrite memmove_cons, Hm. reflexivity.
  Qed.

  Lemma write_all_app a ws rest :
    length ws <= length rest ->
    write_all (a ++ rest) (length a) ws = Some (a ++ ws ++ skipn (length ws) rest).
  Proof.
    revert a rest. induction ws as [|w ws IH]; intros a rest H; simpl.
    - reflexivity.
    - destruct rest as [|r rest]; [simpl in H; lia|].
      rewrite set_at_app_l.
      replace (a ++ w :: rest) with ((a ++ [w]) ++ rest) by (rewrite <- app_assoc; reflexivity).
      replace (S (length a)) with (length (a ++ [w])) by (rewrite app_length; simpl; lia).
      rewrite IH by (simpl in H; lia). rewrite <- app_assoc. reflexivity.
  Qed.
End MemLemmas.

(* ------------------------------------------------------------------ generic list facts *)
Section ListFacts.
  Variable E : Type.
  Variable eqb : E -> E -> bool.
  Implicit Types l : list E.

  Lemma oob_inb n i : oob n i = negb (inb n i).
  Proof.
    unfold oob, inb. destruct (Z.ltb_spec i 0), (Z.leb_spec 0 i), (Z.geb_spec i (Z.of_nat n)),
      (Z.ltb_spec i (Z.of_nat n)); simpl; try reflexivity; lia.
  Qed.

  Lemma inb_pos n k : inb n (norm n k) = true ->
    Z.to_nat (norm n k) < n /\ (norm n k = Z.of_nat (Z.to_nat (norm n k))).
  Proof.
    unfold inb. intros H. apply andb_prop in H as [H1 H2].
    apply Z.leb_le in H1. apply Z.ltb_lt in H2. lia.
  Qed.

  Lemma insert_at_length i v l : i <= length l -> length (insert_at E i v l) = S (length l).
  Proof.
    intros H. unfold insert_at. rewrite app_length. cbn [length]. rewrite firstn_length, skipn_length. lia.
  Qed.

  Lemma remove_at_length i l : i < length l -> length (remove_at E i l) = length l - 1.
  Proof.
    intros H. unfold remove_at. rewrite app_length, firstn_length, skipn_length. lia.
  Qed.

  Lemma replace_at_length i v l : i < length l -> length (replace_at E i v l) = length l.
  Proof.
    intros H. unfold replace_at. rewrite app_length. cbn [length]. rewrite firstn_length, skipn_length. lia.
  Qed.

  Lemma removelast_length l : length (removelast l) = length l - 1.
  Proof.
    destruct l as [|x l] using rev_ind; [reflexivity|].
    rewrite removelast_last, app_length. simpl. lia.
  Qed.

  (* rem: the first element equal to the argument *)
  Lemma find_first_spec l i v :
    match find_first E eqb l i v with
    | Some p => i <= p /\ p - i < length l /\
                remove_first E eqb v l = remove_at E (p - i) l /\
                existsb (fun x => eqb x v) l = true /\
                (exists x, nth_error l (p - i) = Some x /\ eqb x v = true) /\
                (forall j y, j < p - i -> nth_error l j = Some y -> eqb y v = false)
    | None => existsb (fun x => eqb x v) l = false
    end.
  Proof.
    revert i. induction l as [|x l IH]; intros i; simpl; [reflexivity|].
    destruct (eqb x v) eqn:Ex.
    - rewrite Nat.sub_diag. simpl. repeat split; try lia; eauto.
    - specialize (IH (S i)). destruct (find_first E eqb l (S i) v) as [p|]; [|exact IH].
      destruct IH as (H1 & H2 & H3 & H4 & (y & H5 & H6) & H7).
      replace (p - i) with (S (p - S i)) by lia. simpl.
      repeat split; try lia.
      + unfold remove_at in *. simpl. rewrite H3. reflexivity.
      + exact H4.
      + exists y. split; assumption.
      + intros [|j] z Hj Hz; simpl in Hz.
        * injection Hz as <-. exact Ex.
        * apply (H7 j z); [lia | exact Hz].
  Qed.
End ListFacts.

(* ------------------------------------------------------------------ List refines the sequence *)
Section ListRefines.
  Variable E : Type.
  Variable eqb ltb same : E -> E -> bool.
  Variable zero : E.

  Notation l_step := (l_step E eqb zero).
  Notation spec_step := (spec_step E eqb ltb zero).
  Notation spec_ok := (spec_ok E eqb ltb zero).
  Notation in_range := (in_range E eqb).

  Ltac lsimp := cbn [SeqModels.l_step fst snd lelems lnitems].

  Lemma walk_spec (xs : list E) i pos : i < length xs -> walk E xs i pos = AtPos (pos + i).
  Proof.
    revert i pos. induction xs as [|x xs IH]; intros i pos H; simpl in *; [lia|].
    destruct i as [|i]; [f_equal; lia|]. rewrite IH by lia. f_equal. lia.
  Qed.

  (* List_At reaches the addressed position from either end *)
  Lemma l_at_spec (l : llist E) k :
    l_inv E l -> inb (lnitems E l) (norm (lnitems E l) k) = true ->
    l_at E l k = AtPos (Z.to_nat (norm (lnitems E l) k)).
  Proof.
    intros Hinv Hin. unfold l_at. rewrite oob_inb, Hin. simpl negb. cbv iota.
    apply inb_pos in Hin as [Hlt Heq]. red in Hinv.
    set (n := lnitems E l) in *. set (p := Z.to_nat (norm n k)) in *.
    destruct (Z.leb_spec (norm n k) (Z.of_nat (n / 2))).
    - unfold walk_next. rewrite walk_spec by lia. reflexivity.
    - unfold walk_prev. rewrite walk_spec by (rewrite rev_length; lia).
      f_equal. lia.
  Qed.

  Lemma l_values_from_spec (l : llist E) cnt i :
    l_inv E l -> i + cnt = lnitems E l ->
    l_values_from E l cnt i = Some (skipn i (lelems E l)).
  Proof.
    intros Hinv. revert i. induction cnt as [|cnt IH]; intros i H; simpl.
    - rewrite skipn_all2 by (red in Hinv; lia). reflexivity.
    - assert (Hin : inb (lnitems E l) (norm (lnitems E l) (Z.of_nat i)) = true).
      { unfold inb, norm. destruct (Z.ltb_spec (Z.of_nat i) 0); [lia|].
        apply andb_true_intro. split; [apply Z.leb_le | apply Z.ltb_lt]; lia. }
      rewrite (l_at_spec l _ Hinv Hin).
      assert (Hp : Z.to_nat (norm (lnitems E l) (Z.of_nat i)) = i).
      { unfold norm. destruct (Z.ltb_spec (Z.of_nat i) 0); lia. }
      rewrite Hp. rewrite IH by lia.
      red in Hinv.
      destruct (nth_error (lelems E l) i) as [v|] eqn:Hn.
      + f_equal. clear - Hn. revert i Hn. induction (lelems E l) as [|x xs IHx]; intros [|i] Hn; simpl in *; try discriminate.
        * injection Hn as ->. reflexivity.
        * apply IHx. exact Hn.
      + apply nth_error_None in Hn. lia.
  Qed.

  Theorem l_step_refines (l : llist E) (o : sop E) :
    l_inv E l -> in_range KList (l_abs E l) o = true ->
    l_inv E (fst (l_step l o)) /\
    spec_ok KList (l_abs E l) o (l_abs E (fst (l_step l o))) (snd (l_step l o)).
  Proof.
    intros Hinv Hin. pose proof Hinv as Hn. red in Hn.
    unfold l_abs in *. destruct l as [xs n]. simpl in Hn. subst n.
    cbn [lelems lnitems] in *.
    destruct o; try (simpl in Hin; discriminate);
      unfold spec_ok; unfold SeqModels.spec_step; rewrite Hin; simpl negb; cbv iota;
      simpl in Hin; simpl lelems; simpl lnitems.
    - (* push *) simpl. split; [red; simpl; rewrite app_length; simpl; lia | reflexivity].
    - (* pop *)
      lsimp. destruct (Nat.eqb_spec (length xs) 0) as [H0|H0]; [discriminate|].
      destruct xs as [|x xs]; [simpl in H0; lia|]. lsimp. split; [|reflexivity].
      red. lsimp. rewrite removelast_length. reflexivity.
    - (* push_at *)
      simpl. unfold push_at_pos in *. destruct (Z.eqb_spec k 0) as [->|Hk].
      + simpl. split; [red; reflexivity | reflexivity].
      + destruct (inb (length xs) (norm (length xs) k)) eqn:Hi; [|discriminate].
        rewrite (l_at_spec (mkL E xs (length xs)) k Hinv Hi). simpl.
        apply inb_pos in Hi as [Hlt _]. split; [|reflexivity].
        red. simpl. rewrite insert_at_length by lia. reflexivity.
    - (* pop_at *)
      simpl. rewrite (l_at_spec (mkL E xs (length xs)) k Hinv Hin). simpl.
      apply inb_pos in Hin as [Hlt _]. split; [|reflexivity].
      red. simpl. rewrite remove_at_length by lia. reflexivity.
    - (* set *)
      simpl. rewrite (l_at_spec (mkL E xs (length xs)) k Hinv Hin). simpl.
      apply inb_pos in Hin as [Hlt _]. split; [|reflexivity].
      red. simpl. rewrite replace_at_length by lia. reflexivity.
    - (* get *)
      simpl. rewrite (l_at_spec (mkL E xs (length xs)) k Hinv Hin). simpl.
      apply inb_pos in Hin as [Hlt _].
      destruct (nth_error xs (Z.to_nat (norm (length xs) k))) eqn:Hn; simpl.
      + split; [exact Hinv | reflexivity].
      + apply nth_error_None in Hn. lia.
    - (* mem *) simpl. split; [exact Hinv | reflexivity].
    - (* rem *)
      simpl. pose proof (find_first_spec E eqb xs 0 v) as Hf.
      destruct (find_first E eqb xs 0 v) as [p|]; [|congruence].
      destruct Hf as (_ & H2 & H3 & _). rewrite Nat.sub_0_r in *. simpl. split.
      * red. simpl. rewrite remove_at_length by lia. reflexivity.
      * rewrite H3. reflexivity.
    - (* concat *) simpl. split; [red; simpl; rewrite app_length; reflexivity | reflexivity].
    - (* append *) simpl. split; [red; simpl; rewrite app_length; simpl; lia | reflexivity].
    - (* resize *)
      simpl. destruct (Nat.eqb_spec n 0) as [->|Hn0].
      + simpl. split; [red; reflexivity | reflexivity].
      + destruct (Nat.ltb_spec n (length xs)) as [Hlt|Hge].
        * destruct (Nat.ltb_spec (length xs) (length xs - n)); [lia|]. simpl.
          replace (length xs - (length xs - n)) with n by lia.
          replace (n - length xs) with 0 by lia. simpl. rewrite app_nil_r.
          split; [red; simpl; rewrite firstn_length; lia | reflexivity].
        * simpl. rewrite firstn_all2 by lia.
          split; [red; simpl; rewrite app_length, repeat_length; lia | reflexivity].
    - (* assign *) simpl. split; [red; reflexivity | reflexivity].
    - (* copy *)
      lsimp. unfold l_values. lsimp.
      rewrite (l_values_from_spec (mkL E xs (length xs)) (length xs) 0 Hinv) by reflexivity.
      simpl. split; [red; reflexivity | reflexivity].
  Qed.
End ListRefines.
