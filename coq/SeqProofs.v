(* SeqProofs.v — proofs about SeqModels.v (property C04): capacity rules, memory helpers,
   Array and List refine the abstract sequence.  (Sort: SortProofs.v, Tuple: SeqTupleProofs.v.) *)
From Coq Require Import List Arith Bool ZArith Lia Permutation Sorted.
From CelloV Require Import Generated SeqModels.
Import ListNotations.

(* ------------------------------------------------------------------ capacity rules *)
(* what the refinement proofs need from Array_Reserve_More / Array_Reserve_Less, proved for the
   rules re-extracted from src/Array.c (Generated.v): a grown store holds all items, a store
   that is not grown already does; a shrunk store still holds all items. *)
Definition grow_ok (cond : nat -> nat -> bool) (size : nat -> nat -> nat) : Prop :=
  forall nitems nslots,
    (cond nitems nslots = true -> nitems <= size nitems nslots) /\
    (cond nitems nslots = false -> nitems <= nslots).
Definition shrink_ok (cond : nat -> nat -> bool) (size : nat -> nat -> nat) : Prop :=
  forall nitems nslots, cond nitems nslots = true -> nitems <= size nitems nslots.

(* decide the comparisons a policy makes, then linear arithmetic (a division by a literal is an
   unknown of its own, which is enough for every policy that adds to or multiplies nitems) *)
Ltac policy_cases :=
  repeat match goal with
         | |- context [?a <? ?b] => destruct (Nat.ltb_spec a b)
         | |- context [?a <=? ?b] => destruct (Nat.leb_spec a b)
         | |- context [?a =? ?b] => destruct (Nat.eqb_spec a b)
         end.
Ltac policy_tac := cbn [negb andb orb]; try split; intros; try discriminate; try lia.

Lemma array_grow_ok : grow_ok array_grow_cond array_grow_size.
Proof. intros n s. unfold array_grow_cond, array_grow_size. policy_cases; policy_tac. Qed.

Lemma array_shrink_ok : shrink_ok array_shrink_cond array_shrink_size.
Proof. intros n s. unfold array_shrink_cond, array_shrink_size. policy_cases; policy_tac. Qed.

(* ------------------------------------------------------------------ memory helpers *)
Section MemLemmas.
  Variable X : Type.
  Implicit Types l a b : list X.

  Lemma set_at_app_l a b x y : set_at (a ++ y :: b) (length a) x = Some (a ++ x :: b).
  Proof. induction a as [|z a IH]; simpl; [reflexivity | rewrite IH; reflexivity]. Qed.

  Lemma set_at_length l i x l' : set_at l i x = Some l' -> length l' = length l.
  Proof.
    revert i l'. induction l as [|y l IH]; intros [|i] l' H; simpl in H; try discriminate.
    - injection H as <-. reflexivity.
    - destruct (set_at l i x) eqn:E; [|discriminate]. injection H as <-. simpl. f_equal. eauto.
  Qed.

  Lemma realloc_length junk l n : length (realloc junk l n) = n.
  Proof.
    unfold realloc. rewrite app_length, repeat_length, firstn_length. lia.
  Qed.

  Lemma realloc_app_ge junk a b n :
    length a <= n -> realloc junk (a ++ b) n = a ++ realloc junk b (n - length a).
  Proof.
    intros H. unfold realloc. rewrite firstn_app, app_length.
    rewrite (firstn_all2 a) by lia. rewrite <- app_assoc. do 2 f_equal. f_equal. lia.
  Qed.

  Lemma realloc_le junk l n : n <= length l -> realloc junk l n = firstn n l.
  Proof.
    intros H. unfold realloc. replace (n - length l) with 0 by lia. simpl. apply app_nil_r.
  Qed.

  Lemma memmove_cons x l d s n :
    memmove (x :: l) (S d) (S s) n =
    match memmove l d s n with Some r => Some (x :: r) | None => None end.
  Proof.
    unfold memmove. simpl length.
    replace (S s + n <=? S (length l)) with (s + n <=? length l) by (simpl; reflexivity).
    replace (S d + n <=? S (length l)) with (d + n <=? length l) by (simpl; reflexivity).
    destruct ((s + n <=? length l) && (d + n <=? length l)); reflexivity.
  Qed.

  (* push_at: shift B up by one and store x in the gap *)
  Lemma memmove_insert a b c d x :
    exists l1, memmove (a ++ b ++ c :: d) (length a + 1) (length a) (length b) = Some l1 /\
               set_at l1 (length a) x = Some (a ++ x :: b ++ d).
  Proof.
    induction a as [|y a IH].
    - simpl. unfold memmove. simpl length.
      assert (H1 : 0 + length b <=? length (b ++ c :: d) = true)
        by (apply Nat.leb_le; rewrite app_length; simpl; lia).
      assert (H2 : 1 + length b <=? length (b ++ c :: d) = true)
        by (apply Nat.leb_le; rewrite app_length; simpl; lia).
      rewrite H1, H2. simpl andb. cbv iota. eexists. split; [reflexivity|].
      assert (E1 : firstn (length b) (b ++ c :: d) = b)
        by (rewrite firstn_app, Nat.sub_diag, firstn_all; simpl; apply app_nil_r).
      assert (E2 : skipn (1 + length b) (b ++ c :: d) = d).
      { replace (1 + length b) with (length b + 1) by lia.
        rewrite skipn_app. replace (length b + 1 - length b) with 1 by lia.
        rewrite (skipn_all2 b) by lia. reflexivity. }
      rewrite skipn_O, E1, E2.
      destruct (b ++ c :: d) eqn:E; [destruct b; discriminate|]. simpl. reflexivity.
    - destruct IH as (l1 & Hm & Hs). simpl app. simpl length.
      replace (S (length a) + 1) with (S (length a + 1)) by lia.
      rewrite memmove_cons, Hm. eexists. split; [reflexivity|]. simpl. rewrite Hs. reflexivity.
  Qed.

  (* pop_at: shift B down by one; the last moved unit stays behind as a stale copy *)
  Lemma memmove_delete a b x d :
    exists y, memmove (a ++ x :: b ++ d) (length a) (length a + 1) (length b) = Some (a ++ b ++ y :: d).
  Proof.
    induction a as [|z a IH].
    - simpl. unfold memmove. simpl length.
      assert (H1 : 1 + length b <=? S (length (b ++ d)) = true)
        by (apply Nat.leb_le; rewrite app_length; lia).
      assert (H2 : 0 + length b <=? S (length (b ++ d)) = true)
        by (apply Nat.leb_le; rewrite app_length; lia).
      rewrite H1, H2. simpl andb. cbv iota. simpl skipn at 1. simpl firstn at 1.
      rewrite firstn_app, Nat.sub_diag, firstn_all. simpl firstn. rewrite app_nil_r.
      simpl plus.
      assert (exists y, skipn (length b) (x :: b ++ d) = y :: d) as [y Hy].
      { clear. revert x. induction b as [|w b IH]; intros x; simpl.
        - eauto.
        - destruct (IH w) as [y Hy]. exists y. exact Hy. }
      rewrite Hy. exists y. reflexivity.
    - destruct IH as (y & Hm). exists y. simpl app. simpl length.
      replace (S (length a) + 1) with (S (length a + 1)) by lia.
      rewrite memmove_cons, Hm. reflexivity.
  Qed.

  Lemma skipn_S_tail l p x b : skipn p l = x :: b -> skipn (S p) l = b.
  Proof.
    revert l. induction p as [|p IH]; intros l H.
    - simpl in H. subst l. reflexivity.
    - destruct l as [|y l]; [discriminate|]. simpl in H. apply IH in H. exact H.
  Qed.

  (* swap of two neighbours, and Array_Push_At's loop that swaps the last element down *)
  Lemma swap_at_adjacent a y x r :
    swap_at (a ++ y :: x :: r) (length a + 1) (length a) = Some (a ++ x :: y :: r).
  Proof.
    unfold swap_at.
    assert (H1 : nth_error (a ++ y :: x :: r) (length a + 1) = Some x).
    { rewrite nth_error_app2 by lia. replace (length a + 1 - length a) with 1 by lia. reflexivity. }
    assert (H2 : nth_error (a ++ y :: x :: r) (length a) = Some y).
    { rewrite nth_error_app2 by lia. rewrite Nat.sub_diag. reflexivity. }
    rewrite H1, H2.
    assert (H3 : set_at (a ++ y :: x :: r) (length a + 1) y = Some (a ++ y :: y :: r)).
    { replace (a ++ y :: x :: r) with ((a ++ [y]) ++ x :: r) by (rewrite <- app_assoc; reflexivity).
      replace (length a + 1) with (length (a ++ [y])) by (rewrite app_length; reflexivity).
      rewrite set_at_app_l, <- app_assoc. reflexivity. }
    rewrite H3. apply set_at_app_l.
  Qed.

  Lemma bubble_spec b : forall a x r,
    bubble (length b) (a ++ b ++ x :: r) (length a + length b) = Some (a ++ x :: b ++ r).
  Proof.
    induction b as [|y b IH] using rev_ind; intros a x r.
    - reflexivity.
    - rewrite app_length. simpl length. replace (length b + 1) with (S (length b)) by lia.
      cbn [bubble]. rewrite <- app_assoc. simpl app.
      replace (a ++ b ++ y :: x :: r) with ((a ++ b) ++ y :: x :: r) by (rewrite <- app_assoc; reflexivity).
      replace (length a + S (length b)) with (length (a ++ b) + 1) by (rewrite app_length; lia).
      replace (length (a ++ b) + 1 - 1) with (length (a ++ b)) by lia.
      rewrite swap_at_adjacent. rewrite <- app_assoc, app_length.
      rewrite (IH a x (y :: r)). rewrite <- app_assoc. reflexivity.
  Qed.

  Lemma write_all_app a ws rest :
    length ws <= length rest ->
    write_all (a ++ rest) (length a) ws = Some (a ++ ws ++ skipn (length ws) rest).
  Proof.
    revert a rest. induction ws as [|w ws IH]; intros a rest H; simpl.
    - reflexivity.
    - destruct rest as [|r rest]; [simpl in H; lia|].
      rewrite set_at_app_l.
      replace (a ++ w :: rest) with ((a ++ [w]) ++ rest) by (rewrite <- app_assoc; reflexivity).
      replace (S (length a)) with (length (a ++ [w])) by (rewrite app_length; simpl; lia).
      rewrite IH by (simpl in H; lia). rewrite <- app_assoc. reflexivity.
  Qed.
End MemLemmas.

(* ------------------------------------------------------------------ generic list facts *)
Section ListFacts.
  Variable E : Type.
  Variable eqb : E -> E -> bool.
  Implicit Types l : list E.

  Lemma oob_inb n i : oob n i = negb (inb n i).
  Proof.
    unfold oob, inb. destruct (Z.ltb_spec i 0), (Z.leb_spec 0 i), (Z.geb_spec i (Z.of_nat n)),
      (Z.ltb_spec i (Z.of_nat n)); simpl; try reflexivity; lia.
  Qed.

  Lemma inb_pos n k : inb n (norm n k) = true ->
    Z.to_nat (norm n k) < n /\ (norm n k = Z.of_nat (Z.to_nat (norm n k))).
  Proof.
    unfold inb. intros H. apply andb_prop in H as [H1 H2].
    apply Z.leb_le in H1. apply Z.ltb_lt in H2. lia.
  Qed.

  Lemma insert_at_length i v l : i <= length l -> length (insert_at E i v l) = S (length l).
  Proof.
    intros H. unfold insert_at. rewrite app_length. cbn [length]. rewrite firstn_length, skipn_length. lia.
  Qed.

  Lemma remove_at_length i l : i < length l -> length (remove_at E i l) = length l - 1.
  Proof.
    intros H. unfold remove_at. rewrite app_length, firstn_length, skipn_length. lia.
  Qed.

  Lemma replace_at_length i v l : i < length l -> length (replace_at E i v l) = length l.
  Proof.
    intros H. unfold replace_at. rewrite app_length. cbn [length]. rewrite firstn_length, skipn_length. lia.
  Qed.

  Lemma removelast_length l : length (removelast l) = length l - 1.
  Proof.
    destruct l as [|x l] using rev_ind; [reflexivity|].
    rewrite removelast_last, app_length. simpl. lia.
  Qed.

  (* rem: the first element equal to the argument *)
  Lemma find_first_spec l i v :
    match find_first E eqb l i v with
    | Some p => i <= p /\ p - i < length l /\
                remove_first E eqb v l = remove_at E (p - i) l /\
                existsb (fun x => eqb x v) l = true /\
                (exists x, nth_error l (p - i) = Some x /\ eqb x v = true) /\
                (forall j y, j < p - i -> nth_error l j = Some y -> eqb y v = false)
    | None => existsb (fun x => eqb x v) l = false
    end.
  Proof.
    revert i. induction l as [|x l IH]; intros i; simpl; [reflexivity|].
    destruct (eqb x v) eqn:Ex.
    - rewrite Nat.sub_diag. simpl. repeat split; try lia; eauto.
    - specialize (IH (S i)). destruct (find_first E eqb l (S i) v) as [p|]; [|exact IH].
      destruct IH as (H1 & H2 & H3 & H4 & (y & H5 & H6) & H7).
      replace (p - i) with (S (p - S i)) by lia. simpl.
      repeat split; try lia.
      + unfold remove_at in *. simpl. rewrite H3. reflexivity.
      + exact H4.
      + exists y. split; assumption.
      + intros [|j] z Hj Hz; simpl in Hz.
        * injection Hz as <-. exact Ex.
        * apply (H7 j z); [lia | exact Hz].
  Qed.
End ListFacts.

(* ------------------------------------------------------------------ List refines the sequence *)
Section ListRefines.
  Variable E : Type.
  Variable eqb ltb same : E -> E -> bool.
  Variable zero : E.

  Notation l_step := (l_step E eqb zero).
  Notation spec_step := (spec_step E eqb ltb zero).
  Notation spec_ok := (spec_ok E eqb ltb zero).
  Notation in_range := (in_range E eqb).

  Ltac lsimp := cbn [SeqModels.l_step fst snd lelems lnitems].

  Lemma walk_spec (xs : list E) i pos : i < length xs -> walk E xs i pos = AtPos (pos + i).
  Proof.
    revert i pos. induction xs as [|x xs IH]; intros i pos H; simpl in *; [lia|].
    destruct i as [|i]; [f_equal; lia|]. rewrite IH by lia. f_equal. lia.
  Qed.

  (* List_At reaches the addressed position from either end *)
  Lemma l_at_spec (l : llist E) k :
    l_inv E l -> inb (lnitems E l) (norm (lnitems E l) k) = true ->
    l_at E l k = AtPos (Z.to_nat (norm (lnitems E l) k)).
  Proof.
    intros Hinv Hin. unfold l_at. rewrite oob_inb, Hin. simpl negb. cbv iota.
    apply inb_pos in Hin as [Hlt Heq]. red in Hinv.
    set (n := lnitems E l) in *. set (p := Z.to_nat (norm n k)) in *.
    destruct (Z.leb_spec (norm n k) (Z.of_nat (n / 2))).
    - unfold walk_next. rewrite walk_spec by lia. reflexivity.
    - unfold walk_prev. rewrite walk_spec by (rewrite rev_length; lia).
      f_equal. lia.
  Qed.

  Lemma l_values_from_spec (l : llist E) cnt i :
    l_inv E l -> i + cnt = lnitems E l ->
    l_values_from E l cnt i = Some (skipn i (lelems E l)).
  Proof.
    intros Hinv. revert i. induction cnt as [|cnt IH]; intros i H; simpl.
    - rewrite skipn_all2 by (red in Hinv; lia). reflexivity.
    - assert (Hin : inb (lnitems E l) (norm (lnitems E l) (Z.of_nat i)) = true).
      { unfold inb, norm. destruct (Z.ltb_spec (Z.of_nat i) 0); [lia|].
        apply andb_true_intro. split; [apply Z.leb_le | apply Z.ltb_lt]; lia. }
      rewrite (l_at_spec l _ Hinv Hin).
      assert (Hp : Z.to_nat (norm (lnitems E l) (Z.of_nat i)) = i).
      { unfold norm. destruct (Z.ltb_spec (Z.of_nat i) 0); lia. }
      rewrite Hp. rewrite IH by lia.
      red in Hinv.
      destruct (nth_error (lelems E l) i) as [v|] eqn:Hn.
      + f_equal. clear - Hn. revert i Hn. induction (lelems E l) as [|x xs IHx]; intros [|i] Hn; simpl in *; try discriminate.
        * injection Hn as ->. reflexivity.
        * apply IHx. exact Hn.
      + apply nth_error_None in Hn. lia.
  Qed.

  Theorem l_step_refines (l : llist E) (o : sop E) :
    l_inv E l -> in_range KList (l_abs E l) o = true ->
    l_inv E (fst (l_step l o)) /\
    spec_ok KList (l_abs E l) o (l_abs E (fst (l_step l o))) (snd (l_step l o)).
  Proof.
    intros Hinv Hin. pose proof Hinv as Hn. red in Hn.
    unfold l_abs in *. destruct l as [xs n]. simpl in Hn. subst n.
    cbn [lelems lnitems] in *.
    destruct o; try (simpl in Hin; discriminate);
      unfold spec_ok; unfold SeqModels.spec_step; rewrite Hin; simpl negb; cbv iota;
      simpl in Hin; simpl lelems; simpl lnitems.
    - (* push *) simpl. split; [red; simpl; rewrite app_length; simpl; lia | reflexivity].
    - (* pop *)
      lsimp. destruct (Nat.eqb_spec (length xs) 0) as [H0|H0]; [discriminate|].
      destruct xs as [|x xs]; [simpl in H0; lia|]. lsimp. split; [|reflexivity].
      red. lsimp. rewrite removelast_length. reflexivity.
    - (* push_at *)
      simpl. unfold push_at_pos in *. destruct (Z.eqb_spec k 0) as [->|Hk].
      + simpl. split; [red; reflexivity | reflexivity].
      + destruct (inb (length xs) (norm (length xs) k)) eqn:Hi; [|discriminate].
        rewrite (l_at_spec (mkL E xs (length xs)) k Hinv Hi). simpl.
        apply inb_pos in Hi as [Hlt _]. split; [|reflexivity].
        red. simpl. rewrite insert_at_length by lia. reflexivity.
    - (* pop_at *)
      simpl. rewrite (l_at_spec (mkL E xs (length xs)) k Hinv Hin). simpl.
      apply inb_pos in Hin as [Hlt _]. split; [|reflexivity].
      red. simpl. rewrite remove_at_length by lia. reflexivity.
    - (* set *)
      simpl. rewrite (l_at_spec (mkL E xs (length xs)) k Hinv Hin). simpl.
      apply inb_pos in Hin as [Hlt _]. split; [|reflexivity].
      red. simpl. rewrite replace_at_length by lia. reflexivity.
    - (* get *)
      simpl. rewrite (l_at_spec (mkL E xs (length xs)) k Hinv Hin). simpl.
      apply inb_pos in Hin as [Hlt _].
      destruct (nth_error xs (Z.to_nat (norm (length xs) k))) eqn:Hn; simpl.
      + split; [exact Hinv | reflexivity].
      + apply nth_error_None in Hn. lia.
    - (* mem *) simpl. split; [exact Hinv | reflexivity].
    - (* rem *)
      simpl. pose proof (find_first_spec E eqb xs 0 v) as Hf.
      destruct (find_first E eqb xs 0 v) as [p|]; [|congruence].
      destruct Hf as (_ & H2 & H3 & _). rewrite Nat.sub_0_r in *. simpl. split.
      * red. simpl. rewrite remove_at_length by lia. reflexivity.
      * rewrite H3. reflexivity.
    - (* concat *) simpl. split; [red; simpl; rewrite app_length; reflexivity | reflexivity].
    - (* append *) simpl. split; [red; simpl; rewrite app_length; simpl; lia | reflexivity].
    - (* resize *)
      simpl. destruct (Nat.eqb_spec n 0) as [->|Hn0].
      + simpl. split; [red; reflexivity | reflexivity].
      + destruct (Nat.ltb_spec n (length xs)) as [Hlt|Hge].
        * destruct (Nat.ltb_spec (length xs) (length xs - n)); [lia|]. simpl.
          replace (length xs - (length xs - n)) with n by lia.
          replace (n - length xs) with 0 by lia. simpl. rewrite app_nil_r.
          split; [red; simpl; rewrite firstn_length; lia | reflexivity].
        * simpl. rewrite firstn_all2 by lia.
          split; [red; simpl; rewrite app_length, repeat_length; lia | reflexivity].
    - (* assign *) simpl. split; [red; reflexivity | reflexivity].
    - (* copy *)
      lsimp. unfold l_values. lsimp.
      rewrite (l_values_from_spec (mkL E xs (length xs)) (length xs) 0 Hinv) by reflexivity.
      simpl. split; [red; reflexivity | reflexivity].
  Qed.
End ListRefines.

(* ------------------------------------------------------------------ lifting a step lemma to histories *)
Section Lift.
  Variable E : Type.
  Variable eqb ltb : E -> E -> bool.
  Variable zero : E.
  Variable St : Type.
  Variable step : St -> sop E -> St * out E.
  Variable abs : St -> list E.
  Variable inv : St -> Prop.
  Variable c : kind.
  Variable extra : list E -> sop E -> Prop.

  Lemma refines_lift :
    (forall s o, inv s -> in_range E eqb c (abs s) o = true -> extra (abs s) o ->
       inv (fst (step s o)) /\
       spec_ok E eqb ltb zero c (abs s) o (abs (fst (step s o))) (snd (step s o))) ->
    forall ops s, inv s -> refines E eqb ltb zero St step abs inv c extra s ops.
  Proof.
    intros Hstep ops. induction ops as [|o ops IH]; intros s Hs; simpl; [exact I|].
    intros Hin Hex. destruct (Hstep s o Hs Hin Hex) as [Hi Hsp].
    split; [exact Hi|]. split; [exact Hsp|]. apply IH. exact Hi.
  Qed.
End Lift.

(* ------------------------------------------------------------------ Array refines the sequence *)
Section ArrayRefines.
  Variable E : Type.
  Variable eqb ltb : E -> E -> bool.
  Variable zero : E.
  Variables grow_cond shrink_cond : nat -> nat -> bool.
  Variables grow_size shrink_size : nat -> nat -> nat.
  Hypothesis Hgrow : grow_ok grow_cond grow_size.
  Hypothesis Hshrink : shrink_ok shrink_cond shrink_size.
  (* discharged by SortProofs.qsort_correct for an asymmetric, transitive ltb *)
  Hypothesis qsort_ok : forall xs : list E,
    exists ys, qsort ltb xs = Ok ys /\ Permutation xs ys /\ sorted_by_ltb E ltb ys.

  Notation a_step := (a_step E eqb ltb grow_cond shrink_cond grow_size shrink_size).
  Notation a_reserve_more := (a_reserve_more E grow_cond grow_size).
  Notation a_reserve_less := (a_reserve_less E shrink_cond shrink_size).
  Notation spec_step := (spec_step E eqb ltb zero).
  Notation spec_ok := (spec_ok E eqb ltb zero).
  Notation in_range := (in_range E eqb).
  Notation SomeE := (@Some E).

  Ltac asimp := cbn [SeqModels.a_step SeqModels.a_pop_at SeqModels.a_pop_pos fst snd cells nitems nslots].
  Ltac asimp_in H := cbn [SeqModels.a_step SeqModels.a_pop_at fst snd cells nitems nslots] in H.

  Lemma cells_values_shape (vs : list E) rest :
    cells_values E (map SomeE vs ++ rest) (length vs) = Some vs.
  Proof. induction vs as [|v vs IH]; simpl; [reflexivity | rewrite IH; reflexivity]. Qed.

  Lemma a_abs_shape (a : array E) vs rest :
    cells E a = map SomeE vs ++ rest -> length vs = nitems E a -> a_abs E a = vs.
  Proof.
    intros Hc Hn. unfold a_abs, a_values. rewrite Hc, <- Hn, cells_values_shape. reflexivity.
  Qed.

  Lemma a_inv_intro (a : array E) vs rest :
    cells E a = map SomeE vs ++ rest -> length vs = nitems E a -> length (cells E a) = nslots E a ->
    a_inv E a /\ a_abs E a = vs.
  Proof.
    intros Hc Hn Hl. split; [exists vs, rest; auto | eapply a_abs_shape; eauto].
  Qed.

  Lemma cells_find_shape (vs : list E) rest i v :
    cells_find E eqb (map SomeE vs ++ rest) (length vs) i v = Some (find_first E eqb vs i v).
  Proof.
    revert i. induction vs as [|x vs IH]; intros i; simpl; [reflexivity|].
    destruct (eqb x v); [reflexivity | apply IH].
  Qed.

  Lemma reserve_more_shape (a : array E) vs rest :
    cells E a = map SomeE vs ++ rest -> length (cells E a) = nslots E a -> length vs <= nitems E a ->
    exists rest', cells E (a_reserve_more a) = map SomeE vs ++ rest' /\
                  length (cells E (a_reserve_more a)) = nslots E (a_reserve_more a) /\
                  nitems E (a_reserve_more a) = nitems E a /\
                  nitems E a <= nslots E (a_reserve_more a).
  Proof.
    intros Hc Hl Hn. unfold SeqModels.a_reserve_more.
    destruct (Hgrow (nitems E a) (nslots E a)) as [Ht Hf].
    destruct (grow_cond (nitems E a) (nslots E a)).
    - specialize (Ht eq_refl). cbn [cells nitems nslots]. rewrite Hc.
      rewrite realloc_app_ge by (rewrite map_length; lia).
      eexists. split; [reflexivity|]. rewrite <- realloc_app_ge by (rewrite map_length; lia).
      rewrite realloc_length. auto.
    - specialize (Hf eq_refl). exists rest. auto.
  Qed.

  Lemma reserve_less_shape (a : array E) vs rest :
    cells E a = map SomeE vs ++ rest -> length (cells E a) = nslots E a -> length vs = nitems E a ->
    exists rest', cells E (a_reserve_less a) = map SomeE vs ++ rest' /\
                  length (cells E (a_reserve_less a)) = nslots E (a_reserve_less a) /\
                  nitems E (a_reserve_less a) = nitems E a.
  Proof.
    intros Hc Hl Hn. unfold SeqModels.a_reserve_less.
    pose proof (Hshrink (nitems E a) (nslots E a)) as Ht.
    destruct (shrink_cond (nitems E a) (nslots E a)).
    - specialize (Ht eq_refl). cbn [cells nitems nslots]. rewrite Hc.
      rewrite realloc_app_ge by (rewrite map_length; lia).
      eexists. split; [reflexivity|]. rewrite <- realloc_app_ge by (rewrite map_length; lia).
      rewrite realloc_length. auto.
    - exists rest. auto.
  Qed.

  Lemma nth_error_shape (vs : list E) rest i :
    i < length vs -> exists v, nth_error vs i = Some v /\ nth_error (map SomeE vs ++ rest) i = Some (Some v).
  Proof.
    intros H. destruct (nth_error vs i) as [v|] eqn:Hn; [|apply nth_error_None in Hn; lia].
    exists v. split; [reflexivity|]. rewrite nth_error_app1 by (rewrite map_length; lia).
    apply map_nth_error. exact Hn.
  Qed.

  (* Array_Pop_At at an in-range position *)
  Lemma a_pop_pos_spec (a : array E) vs rest p :
    cells E a = map SomeE vs ++ rest -> length vs = nitems E a -> length (cells E a) = nslots E a ->
    p < length vs ->
    a_inv E (fst (a_pop_pos E shrink_cond shrink_size a p)) /\
    a_abs E (fst (a_pop_pos E shrink_cond shrink_size a p)) = remove_at E p vs /\
    snd (a_pop_pos E shrink_cond shrink_size a p) = OUnit E.
  Proof.
    intros Hc Hn Hl Hp.
    assert (Hsplit : vs = firstn p vs ++ skipn p vs) by (symmetry; apply firstn_skipn).
    destruct (skipn p vs) as [|x B] eqn:HB.
    { exfalso. assert (length (skipn p vs) = length vs - p) by apply skipn_length. rewrite HB in H. simpl in H. lia. }
    set (A := firstn p vs) in *.
    assert (HA : length A = p) by (unfold A; rewrite firstn_length; lia).
    assert (Hlen : length vs = p + S (length B)) by (rewrite Hsplit, app_length; simpl; lia).
    assert (Hrm : remove_at E p vs = A ++ B).
    { unfold remove_at. fold A. f_equal.
      apply (skipn_S_tail _ _ _ _ _ HB). }
    assert (Hcells : cells E a = map SomeE A ++ Some x :: map SomeE B ++ rest).
    { rewrite Hc. rewrite Hsplit at 1. rewrite map_app. simpl map. rewrite <- app_assoc. reflexivity. }
    destruct (memmove_delete _ (map SomeE A) (map SomeE B) (Some x) rest) as (y & Hm).
    rewrite !map_length, HA in Hm.
    assert (Heq : a_pop_pos E shrink_cond shrink_size a p =
                  (a_reserve_less (mkA E (map SomeE A ++ map SomeE B ++ y :: rest) (nitems E a - 1) (nslots E a)), OUnit E)).
    { unfold a_pop_pos. rewrite Hcells. replace (nitems E a - 1 - p) with (length B) by lia.
      rewrite Hm. reflexivity. }
    rewrite Heq. cbn [fst snd].
    set (a' := mkA E _ _ _).
    assert (Hc' : cells E a' = map SomeE (A ++ B) ++ y :: rest)
      by (unfold a'; cbn [cells]; rewrite map_app, <- app_assoc; reflexivity).
    assert (Hl' : length (cells E a') = nslots E a').
    { unfold a'. cbn [cells nslots]. rewrite <- Hl, Hcells.
      rewrite !app_length, !map_length. simpl. rewrite !app_length, !map_length. simpl. lia. }
    assert (Hn' : length (A ++ B) = nitems E a')
      by (unfold a'; cbn [nitems]; rewrite app_length; lia).
    destruct (reserve_less_shape a' _ _ Hc' Hl' Hn') as (rest' & H1 & H2 & H3).
    rewrite Hrm. split; [|split; [|reflexivity]].
    - exists (A ++ B), rest'. rewrite H3. auto.
    - eapply a_abs_shape; [exact H1 | rewrite H3; exact Hn'].
  Qed.

  Theorem a_step_refines (a : array E) (o : sop E) :
    a_inv E a -> in_range KArray (a_abs E a) o = true ->
    a_inv E (fst (a_step a o)) /\
    spec_ok KArray (a_abs E a) o (a_abs E (fst (a_step a o))) (snd (a_step a o)).
  Proof.
    intros (vs & rest & Hc & Hn & Hl) Hin.
    rewrite (a_abs_shape a vs rest Hc Hn) in *.
    destruct a as [cs n s]. cbn [cells nitems nslots] in *. subst cs n.
    set (a0 := mkA E (map SomeE vs ++ rest) (length vs) s) in *.
    assert (Hpush : forall v a2 r, a_step a0 (SPush E v) = (a2, r) ->
      a_inv E a2 /\ a_abs E a2 = vs ++ [v] /\ r = OUnit E).
    { intros v a2 r Hstep. unfold a0 in Hstep. asimp_in Hstep.
      destruct (reserve_more_shape (mkA E (map SomeE vs ++ rest) (S (length vs)) s) vs rest eq_refl Hl)
        as (rest' & H1 & H2 & H3 & H4); [cbn [nitems]; lia|].
      set (a1 := a_reserve_more _) in *.
      cbn [nitems] in *. rewrite H1 in Hstep.
      destruct rest' as [|c rest'].
      { exfalso. rewrite H1, app_nil_r, map_length in H2. lia. }
      pose proof (set_at_app_l _ (map SomeE vs) rest' (SomeE v) c) as Hset.
      rewrite map_length in Hset. rewrite Hset in Hstep.
      injection Hstep as <- <-.
      set (a' := mkA E _ _ _).
      assert (Hc' : cells E a' = map SomeE (vs ++ [v]) ++ rest')
        by (unfold a'; cbn [cells]; rewrite map_app, <- app_assoc; reflexivity).
      assert (Hn' : length (vs ++ [v]) = nitems E a')
        by (unfold a'; cbn [nitems]; rewrite app_length; simpl; lia).
      assert (Hl' : length (cells E a') = nslots E a').
      { unfold a'. cbn [cells nslots]. rewrite <- H2, H1, !app_length. simpl. lia. }
      destruct (a_inv_intro a' _ _ Hc' Hn' Hl') as [Hi Ha]. auto. }
    assert (Hself : a_inv E a0 /\ a_abs E a0 = vs)
      by (apply (a_inv_intro a0 vs rest); auto).
    destruct (a_step a0 o) as [a2 r] eqn:Hstep. cbn [fst snd].
    destruct o; try (simpl in Hin; discriminate);
      unfold spec_ok; try rewrite Hin; try (unfold SeqModels.spec_step; rewrite Hin; simpl negb; cbv iota);
      simpl in Hin.
    - (* push *) destruct (Hpush _ _ _ Hstep) as (H1 & H2 & H3). rewrite H2, H3. auto.
    - (* pop *)
      unfold a0 in Hstep. asimp_in Hstep.
      destruct (Nat.eqb_spec (length vs) 0) as [H0|H0]; [discriminate|].
      injection Hstep as <- <-.
      destruct vs as [|x vs] using rev_ind; [simpl in H0; lia|]. clear IHvs.
      rewrite removelast_last.
      set (a' := mkA E _ _ _).
      assert (Hc' : cells E a' = map SomeE vs ++ Some x :: rest)
        by (unfold a'; cbn [cells]; rewrite map_app, <- app_assoc; reflexivity).
      assert (Hn' : length vs = nitems E a')
        by (unfold a'; cbn [nitems]; rewrite app_length; simpl; lia).
      assert (Hl' : length (cells E a') = nslots E a') by (unfold a'; cbn [cells nslots]; exact Hl).
      destruct (reserve_less_shape a' _ _ Hc' Hl' Hn') as (rest' & H1 & H2 & H3).
      rewrite <- H3 in Hn'.
      destruct (a_inv_intro _ _ _ H1 Hn' H2) as [Hi Ha]. rewrite Ha. auto.
    - (* push_at *)
      unfold a0 in Hstep. asimp_in Hstep. unfold push_at_pos in *.
      destruct (inb (length vs + 1) (norm (length vs + 1) k)) eqn:Hi; [|discriminate].
      rewrite oob_inb, Hi in Hstep. simpl negb in Hstep. cbv iota in Hstep.
      apply inb_pos in Hi as [Hlt _]. set (p := Z.to_nat (norm (length vs + 1) k)) in *.
      destruct (reserve_more_shape (mkA E (map SomeE vs ++ rest) (S (length vs)) s) vs rest eq_refl Hl)
        as (rest' & H1 & H2 & H3 & H4); [cbn [nitems]; lia|].
      set (a1 := a_reserve_more _) in *.
      cbn [nitems] in *. rewrite H1 in Hstep.
      destruct rest' as [|c rest'].
      { exfalso. rewrite H1, app_nil_r, map_length in H2. lia. }
      assert (Hsplit : vs = firstn p vs ++ skipn p vs) by (symmetry; apply firstn_skipn).
      set (A := firstn p vs) in *. set (B := skipn p vs) in *.
      assert (HA : length A = p) by (unfold A; rewrite firstn_length; lia).
      assert (HB : length B = length vs - p) by (unfold B; apply skipn_length).
      assert (Hcells : map SomeE vs ++ c :: rest' = map SomeE A ++ map SomeE B ++ c :: rest')
        by (rewrite Hsplit at 1; rewrite map_app, <- app_assoc; reflexivity).
      pose proof (set_at_app_l _ (map SomeE vs) rest' (SomeE v) c) as Hset.
      rewrite map_length in Hset. rewrite Hset in Hstep.
      assert (Hcells' : map SomeE vs ++ SomeE v :: rest' = map SomeE A ++ map SomeE B ++ SomeE v :: rest')
        by (rewrite Hsplit at 1; rewrite map_app, <- app_assoc; reflexivity).
      rewrite Hcells' in Hstep.
      pose proof (bubble_spec _ (map SomeE B) (map SomeE A) (SomeE v) rest') as Hb.
      rewrite !map_length in Hb. rewrite HA in Hb.
      replace (length vs - p) with (length B) in Hstep by lia.
      replace (length vs) with (p + length B) in Hstep at 1 by lia.
      rewrite Hb in Hstep. injection Hstep as <- <-.
      set (a' := mkA E _ _ _).
      assert (Hc' : cells E a' = map SomeE (insert_at E p v vs) ++ rest').
      { unfold a', insert_at. cbn [cells]. fold A B. rewrite map_app. simpl map.
        rewrite <- app_assoc. reflexivity. }
      assert (Hn' : length (insert_at E p v vs) = nitems E a')
        by (unfold a'; cbn [nitems]; rewrite insert_at_length by lia; reflexivity).
      assert (Hl' : length (cells E a') = nslots E a').
      { rewrite Hc'. unfold a'. cbn [nslots]. rewrite <- H2, H1.
        rewrite !app_length, !map_length. rewrite insert_at_length by lia. simpl. lia. }
      destruct (a_inv_intro a' _ _ Hc' Hn' Hl') as [Hi Ha]. rewrite Ha. auto.
    - (* pop_at *)
      unfold a0 in Hstep. cbn [SeqModels.a_step] in Hstep. unfold a_pop_at in Hstep. cbn [nitems] in Hstep.
      rewrite oob_inb, Hin in Hstep. simpl negb in Hstep. cbv iota in Hstep.
      apply inb_pos in Hin as [Hlt _].
      destruct (a_pop_pos_spec a0 vs rest _ eq_refl eq_refl Hl Hlt) as (H1 & H2 & H3).
      fold a0 in Hstep. rewrite Hstep in H1, H2, H3. cbn [fst snd] in *.
      rewrite H2, H3. auto.
    - (* set *)
      unfold a0 in Hstep. asimp_in Hstep. rewrite oob_inb, Hin in Hstep. simpl negb in Hstep. cbv iota in Hstep.
      apply inb_pos in Hin as [Hlt _]. set (p := Z.to_nat (norm (length vs) k)) in *.
      assert (Hsplit : vs = firstn p vs ++ skipn p vs) by (symmetry; apply firstn_skipn).
      destruct (skipn p vs) as [|x B] eqn:HB.
      { exfalso. assert (length (skipn p vs) = length vs - p) by apply skipn_length. rewrite HB in H. simpl in H. lia. }
      set (A := firstn p vs) in *.
      assert (HA : length A = p) by (unfold A; rewrite firstn_length; lia).
      assert (Hcells : map SomeE vs ++ rest = map SomeE A ++ Some x :: map SomeE B ++ rest)
        by (rewrite Hsplit at 1; rewrite map_app; simpl map; rewrite <- app_assoc; reflexivity).
      rewrite Hcells in Hstep.
      pose proof (set_at_app_l _ (map SomeE A) (map SomeE B ++ rest) (SomeE v) (Some x)) as Hset.
      rewrite map_length, HA in Hset. rewrite Hset in Hstep. injection Hstep as <- <-.
      assert (Hrp : replace_at E p v vs = A ++ v :: B).
      { unfold replace_at. fold A. do 2 f_equal. apply (skipn_S_tail _ _ _ _ _ HB). }
      set (a' := mkA E _ _ _).
      assert (Hc' : cells E a' = map SomeE (A ++ v :: B) ++ rest)
        by (unfold a'; cbn [cells]; rewrite map_app; simpl map; rewrite <- app_assoc; reflexivity).
      assert (Hn' : length (A ++ v :: B) = nitems E a').
      { unfold a'. cbn [nitems]. rewrite Hsplit at 1. rewrite !app_length. reflexivity. }
      assert (Hl' : length (cells E a') = nslots E a').
      { rewrite Hc'. unfold a'. cbn [nslots]. rewrite <- Hl, Hcells.
        rewrite !app_length, !map_length. simpl. rewrite !app_length, !map_length. simpl. lia. }
      destruct (a_inv_intro a' _ _ Hc' Hn' Hl') as [Hi Ha]. rewrite Ha, Hrp. auto.
    - (* get *)
      unfold a0 in Hstep. asimp_in Hstep. rewrite oob_inb, Hin in Hstep. simpl negb in Hstep. cbv iota in Hstep.
      apply inb_pos in Hin as [Hlt _]. unfold a_cell in Hstep. cbn [cells] in Hstep.
      destruct (nth_error_shape vs rest _ Hlt) as (v & Hv1 & Hv2). rewrite Hv2 in Hstep. rewrite Hv1.
      injection Hstep as <- <-. destruct Hself as [Hi Ha]. fold a0. rewrite Ha. auto.
    - (* mem *)
      unfold a0 in Hstep. asimp_in Hstep. rewrite cells_find_shape in Hstep.
      pose proof (find_first_spec E eqb vs 0 v) as Hf. destruct Hself as [Hi Ha].
      destruct (find_first E eqb vs 0 v) as [p|]; injection Hstep as <- <-; fold a0; rewrite Ha.
      + destruct Hf as (_ & _ & _ & -> & _). auto.
      + rewrite Hf. auto.
    - (* rem *)
      unfold a0 in Hstep. asimp_in Hstep. rewrite cells_find_shape in Hstep.
      pose proof (find_first_spec E eqb vs 0 v) as Hf.
      destruct (find_first E eqb vs 0 v) as [p|]; [|congruence].
      unfold a_pop_at in Hstep. cbn [nitems] in Hstep.
      destruct Hf as (_ & H2 & H3 & _). rewrite Nat.sub_0_r in *.
      assert (Hnorm : norm (length vs) (Z.of_nat p) = Z.of_nat p)
        by (unfold norm; destruct (Z.ltb_spec (Z.of_nat p) 0); lia).
      rewrite Hnorm in Hstep. unfold oob in Hstep.
      destruct (Z.ltb_spec (Z.of_nat p) 0); [lia|].
      destruct (Z.geb_spec (Z.of_nat p) (Z.of_nat (length vs))); [lia|].
      simpl orb in Hstep. cbv iota in Hstep. rewrite Nat2Z.id in Hstep.
      destruct (a_pop_pos_spec a0 vs rest p eq_refl eq_refl Hl H2) as (H4 & H5 & H6).
      fold a0 in Hstep. rewrite Hstep in H4, H5, H6. cbn [fst snd] in *.
      rewrite H5, H6, H3. auto.
    - (* concat *)
      unfold a0 in Hstep. asimp_in Hstep.
      destruct (reserve_more_shape (mkA E (map SomeE vs ++ rest) (length vs + length vs0) s) vs rest eq_refl Hl)
        as (rest' & H1 & H2 & H3 & H4); [cbn [nitems]; lia|].
      set (a1 := a_reserve_more _) in *.
      cbn [nitems] in *. rewrite H1 in Hstep.
      assert (Hr : length vs0 <= length rest').
      { rewrite H1, app_length, map_length in H2. lia. }
      pose proof (write_all_app _ (map SomeE vs) (map SomeE vs0) rest') as Hw.
      rewrite !map_length in Hw. rewrite (Hw Hr) in Hstep. injection Hstep as <- <-.
      set (a' := mkA E _ _ _).
      assert (Hc' : cells E a' = map SomeE (vs ++ vs0) ++ skipn (length vs0) rest').
      { unfold a'. cbn [cells]. rewrite map_app, <- app_assoc. reflexivity. }
      assert (Hn' : length (vs ++ vs0) = nitems E a')
        by (unfold a'; cbn [nitems]; apply app_length).
      assert (Hl' : length (cells E a') = nslots E a').
      { rewrite Hc'. unfold a'. cbn [nslots]. rewrite <- H2, H1.
        rewrite !app_length, !map_length, app_length, skipn_length. lia. }
      destruct (a_inv_intro a' _ _ Hc' Hn' Hl') as [Hi Ha]. rewrite Ha. auto.
    - (* append *) destruct (Hpush _ _ _ Hstep) as (H1 & H2 & H3). rewrite H2, H3. auto.
    - (* resize *)
      unfold a0 in Hstep. asimp_in Hstep. destruct (Nat.eqb_spec n 0) as [->|Hn0]; injection Hstep as <- <-.
      + split; [exists [], []; auto | reflexivity].
      + set (a' := mkA E _ _ _).
        assert (Hc' : exists rest', cells E a' = map SomeE (firstn n vs) ++ rest').
        { unfold a'. cbn [cells]. destruct (Nat.le_gt_cases n (length vs)) as [Hle|Hgt].
          - exists []. rewrite realloc_le by (rewrite app_length, map_length; lia).
            rewrite firstn_app, map_length. replace (n - length vs) with 0 by lia.
            simpl. rewrite firstn_map. reflexivity.
          - eexists. rewrite realloc_app_ge by (rewrite map_length; lia).
            rewrite firstn_all2 by lia. reflexivity. }
        destruct Hc' as (rest' & Hc').
        assert (Hn' : length (firstn n vs) = nitems E a')
          by (unfold a'; cbn [nitems]; apply firstn_length).
        assert (Hl' : length (cells E a') = nslots E a')
          by (unfold a'; cbn [cells nslots]; apply realloc_length).
        destruct (a_inv_intro a' _ _ Hc' Hn' Hl') as [Hi Ha]. rewrite Ha. auto.
    - (* sort *)
      unfold a0 in Hstep. asimp_in Hstep. unfold a_values in Hstep. cbn [cells nitems] in Hstep.
      rewrite cells_values_shape in Hstep.
      destruct (qsort_ok vs) as (ys & Hq & Hp & Hs). rewrite Hq in Hstep. injection Hstep as <- <-.
      assert (Hlen : length ys = length vs) by (symmetry; apply Permutation_length; exact Hp).
      set (a' := mkA E _ _ _).
      assert (Hc' : cells E a' = map SomeE ys ++ rest).
      { unfold a'. cbn [cells]. f_equal. rewrite <- (map_length SomeE vs).
        rewrite skipn_app, Nat.sub_diag, skipn_all. reflexivity. }
      assert (Hn' : length ys = nitems E a') by (unfold a'; cbn [nitems]; exact Hlen).
      assert (Hl' : length (cells E a') = nslots E a').
      { rewrite Hc'. unfold a'. cbn [nslots]. rewrite <- Hl, !app_length, !map_length. lia. }
      destruct (a_inv_intro a' _ _ Hc' Hn' Hl') as [Hi Ha]. rewrite Ha. auto.
    - (* assign *)
      unfold a0 in Hstep. asimp_in Hstep. injection Hstep as <- <-. unfold a_new.
      destruct (a_inv_intro (mkA E (map SomeE vs0) (length vs0) (length vs0)) vs0 [])
        as [Hi Ha]; cbn [cells nitems nslots]; try rewrite app_nil_r; try rewrite map_length; auto.
      rewrite Ha. auto.
    - (* copy *)
      unfold a0 in Hstep. asimp_in Hstep. unfold a_values in Hstep. cbn [cells nitems] in Hstep.
      rewrite cells_values_shape in Hstep. injection Hstep as <- <-. unfold a_new.
      destruct (a_inv_intro (mkA E (map SomeE vs) (length vs) (length vs)) vs [])
        as [Hi Ha]; cbn [cells nitems nslots]; try rewrite app_nil_r; try rewrite map_length; auto.
      rewrite Ha. auto.
  Qed.
End ArrayRefines.

(* ------------------------------------------------------------------ observers: len and iteration *)
Section Observers.
  Variable E : Type.
  Notation SomeE := (@Some E).

  Lemma firstn_S_nth (vs : list E) c x :
    nth_error vs c = Some x -> firstn (S c) vs = firstn c vs ++ [x].
  Proof.
    revert c. induction vs as [|y vs IH]; intros [|c] H; simpl in *; try discriminate.
    - injection H as ->. reflexivity.
    - f_equal. apply IH. exact H.
  Qed.

  Lemma a_iter_loop_spec (a : array E) vs rest :
    cells E a = map SomeE vs ++ rest -> length vs = nitems E a ->
    forall fuel c acc, c < length vs -> fuel = length vs - c -> rev acc = firstn c vs ->
    a_iter_loop E fuel a (Z.of_nat c) acc = Ok vs.
  Proof.
    intros Hc Hn. induction fuel as [|fu IH]; intros c acc Hlt Hf Hacc; [lia|].
    cbn [a_iter_loop]. unfold a_cell. rewrite Nat2Z.id, Hc.
    destruct (nth_error vs c) as [x|] eqn:Hx; [|apply nth_error_None in Hx; lia].
    rewrite nth_error_app1 by (rewrite map_length; lia).
    rewrite (map_nth_error SomeE c vs Hx).
    assert (Hr : rev (x :: acc) = firstn (S c) vs)
      by (simpl; rewrite Hacc; symmetry; apply firstn_S_nth; exact Hx).
    destruct (Z.leb_spec (Z.of_nat (nitems E a) - 1) (Z.of_nat c)) as [Hle|Hgt].
    - rewrite Hr. rewrite firstn_all2 by lia. reflexivity.
    - replace (Z.of_nat c + 1)%Z with (Z.of_nat (S c)) by lia.
      apply IH; [lia | lia | exact Hr].
  Qed.

  Theorem a_observe (a : array E) :
    a_inv E a -> nitems E a = length (a_abs E a) /\ a_iter E a = Ok (a_abs E a).
  Proof.
    intros (vs & rest & Hc & Hn & Hl).
    assert (Ha : a_abs E a = vs) by (eapply a_abs_shape; eauto).
    rewrite Ha. split; [auto|]. unfold a_iter.
    destruct (Nat.eqb_spec (nitems E a) 0) as [H0|H0].
    - destruct vs; [reflexivity | simpl in Hn; lia].
    - apply (a_iter_loop_spec a vs rest Hc Hn (nitems E a) 0 []); simpl; lia || auto.
  Qed.

  Theorem l_observe (l : llist E) :
    l_inv E l -> lnitems E l = length (l_abs E l) /\ l_iter E l = Ok (l_abs E l).
  Proof.
    intros H. red in H. unfold l_abs, l_iter. split; [exact H|].
    destruct (Nat.eqb_spec (lnitems E l) 0) as [H0|H0].
    - destruct (lelems E l); [reflexivity | simpl in H; lia].
    - destruct (lelems E l); [simpl in H; lia | reflexivity].
  Qed.
End Observers.

(* ------------------------------------------------------------------ reading the specification *)
Section SpecFacts.
  Variable E : Type.
  Variable eqb ltb : E -> E -> bool.
  Variable zero : E.
  Notation spec_step := (spec_step E eqb ltb zero).

  (* get with a negative index counts from the end: get(-i) is element len - i *)
  Theorem spec_get_negative c (l : list E) i v :
    1 <= i <= length l -> nth_error l (length l - i) = Some v ->
    in_range E eqb c l (SGet E (- Z.of_nat i)) = true /\
    spec_step c l (SGet E (- Z.of_nat i)) = (l, OVal E v).
  Proof.
    intros Hi Hv.
    assert (Hnorm : norm (length l) (- Z.of_nat i) = Z.of_nat (length l - i)).
    { unfold norm. destruct (Z.ltb_spec (- Z.of_nat i) 0); lia. }
    assert (Hin : in_range E eqb c l (SGet E (- Z.of_nat i)) = true).
    { simpl. rewrite Hnorm. unfold inb. apply andb_true_intro.
      split; [apply Z.leb_le | apply Z.ltb_lt]; lia. }
    split; [exact Hin|]. unfold SeqModels.spec_step. rewrite Hin. simpl negb. cbv iota.
    rewrite Hnorm, Nat2Z.id, Hv. reflexivity.
  Qed.

  (* get with a non-negative index *)
  Theorem spec_get_positive c (l : list E) i v :
    nth_error l i = Some v ->
    in_range E eqb c l (SGet E (Z.of_nat i)) = true /\
    spec_step c l (SGet E (Z.of_nat i)) = (l, OVal E v).
  Proof.
    intros Hv. assert (Hi : i < length l) by (apply nth_error_Some; congruence).
    assert (Hnorm : norm (length l) (Z.of_nat i) = Z.of_nat i).
    { unfold norm. destruct (Z.ltb_spec (Z.of_nat i) 0); lia. }
    assert (Hin : in_range E eqb c l (SGet E (Z.of_nat i)) = true).
    { simpl. rewrite Hnorm. unfold inb. apply andb_true_intro.
      split; [apply Z.leb_le | apply Z.ltb_lt]; lia. }
    split; [exact Hin|]. unfold SeqModels.spec_step. rewrite Hin. simpl negb. cbv iota.
    rewrite Hnorm, Nat2Z.id, Hv. reflexivity.
  Qed.

  Lemma remove_first_app l1 x l2 v :
    eqb x v = true -> (forall y, In y l1 -> eqb y v = false) ->
    remove_first E eqb v (l1 ++ x :: l2) = l1 ++ l2.
  Proof.
    intros Hx Hl. induction l1 as [|y l1 IH]; simpl.
    - rewrite Hx. reflexivity.
    - rewrite (Hl y) by (simpl; auto). f_equal. apply IH. intros z Hz. apply Hl. simpl. auto.
  Qed.

  (* rem deletes the first element equal to its argument, and only that one *)
  Theorem spec_rem_first c (l1 : list E) x l2 v :
    eqb x v = true -> (forall y, In y l1 -> eqb y v = false) ->
    in_range E eqb c (l1 ++ x :: l2) (SRem E v) = true /\
    spec_step c (l1 ++ x :: l2) (SRem E v) = (l1 ++ l2, OUnit E).
  Proof.
    intros Hx Hl.
    assert (Hin : in_range E eqb c (l1 ++ x :: l2) (SRem E v) = true).
    { simpl. rewrite existsb_app. simpl. rewrite Hx. simpl. apply orb_true_r. }
    split; [exact Hin|]. unfold SeqModels.spec_step. rewrite Hin. simpl negb. cbv iota.
    rewrite remove_first_app; auto.
  Qed.

  (* an outcome allowed by the specification is never a crash and never fuel exhaustion *)
  Lemma spec_ok_no_crash c (l : list E) o l' r :
    spec_ok E eqb ltb zero c l o l' r -> r <> OCrash E /\ r <> OFuel E.
  Proof.
    intros H.
    assert (Hs : spec_step c l o = (l', r) \/ r = OUnit E).
    { unfold spec_ok in H. destruct o; auto.
      destruct (in_range E eqb c l (SSort E)); [right; tauto | left; exact H]. }
    destruct Hs as [Hs| ->]; [|split; discriminate].
    unfold SeqModels.spec_step in Hs.
    destruct (negb (in_range E eqb c l o)); [injection Hs as <- <-; split; discriminate|].
    destruct o; simpl in Hs;
      repeat match type of Hs with
             | context [match ?x with _ => _ end] => destruct x
             end;
      injection Hs as <- <-; split; discriminate.
  Qed.

  (* the executable reference sort of the specification driver is an instance of the sort relation *)
  Section ISort.
    Hypothesis ltb_asym : forall x y, ltb x y = true -> ltb y x = false.
    Hypothesis ltb_negtrans : forall x y z, ltb y x = false -> ltb z y = false -> ltb z x = false.

    Lemma insert_sorted_perm x l : Permutation (x :: l) (insert_sorted E ltb x l).
    Proof.
      induction l as [|y l IH]; simpl; [apply Permutation_refl|].
      destruct (le E ltb x y); [apply Permutation_refl|].
      eapply perm_trans; [apply perm_swap|]. apply perm_skip. exact IH.
    Qed.

    Lemma insert_sorted_sorted x l :
      sorted_by_ltb E ltb l -> sorted_by_ltb E ltb (insert_sorted E ltb x l).
    Proof.
      unfold sorted_by_ltb. induction l as [|y l IH]; intros Hs; simpl.
      - constructor; constructor.
      - apply StronglySorted_inv in Hs as [Hs Hy].
        unfold le. destruct (ltb y x) eqn:Eyx; simpl.
        + constructor; [apply IH; exact Hs|].
          apply Forall_forall. intros z Hz.
          eapply Permutation_in in Hz; [|symmetry; apply insert_sorted_perm].
          destruct Hz as [<-|Hz]; [apply ltb_asym; exact Eyx|].
          rewrite Forall_forall in Hy. apply Hy. exact Hz.
        + constructor; [constructor; assumption|].
          constructor; [exact Eyx|].
          rewrite Forall_forall in *. intros z Hz. eapply ltb_negtrans; [exact Eyx | apply Hy; exact Hz].
    Qed.

    Theorem isort_ok (l : list E) : Permutation l (isort E ltb l) /\ sorted_by_ltb E ltb (isort E ltb l).
    Proof.
      induction l as [|x l [IHp IHs]]; simpl.
      - split; [constructor | constructor].
      - split.
        + eapply perm_trans; [apply perm_skip; exact IHp | apply insert_sorted_perm].
        + apply insert_sorted_sorted. exact IHs.
    Qed.

    Theorem spec_sort_ok c (l : list E) :
      in_range E eqb c l (SSort E) = true ->
      spec_ok E eqb ltb zero c l (SSort E) (fst (spec_step c l (SSort E))) (snd (spec_step c l (SSort E))).
    Proof.
      intros Hin. unfold spec_ok. rewrite Hin. unfold SeqModels.spec_step. rewrite Hin. simpl.
      destruct (isort_ok l). repeat split; auto.
    Qed.
  End ISort.
End SpecFacts.
