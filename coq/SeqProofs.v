(* SeqProofs.v — proofs about SeqModels.v (property C04). *)
From Coq Require Import List Arith Bool ZArith Lia Permutation Sorted.
From CelloV Require Import Generated SeqModels.
Import ListNotations.

(* ------------------------------------------------------------------ capacity rules *)
(* what the refinement proofs need from Array_Reserve_More / Array_Reserve_Less, proved for the
   rules re-extracted from src/Array.c (Generated.v): a grown store holds all items, a store
   that is not grown already does; a shrunk store still holds all items. *)
Definition grow_ok (cond : nat -> nat -> bool) (size : nat -> nat -> nat) : Prop :=
  forall nitems nslots,
    (cond nitems nslots = true -> nitems <= size nitems nslots) /\
    (cond nitems nslots = false -> nitems <= nslots).
Definition shrink_ok (cond : nat -> nat -> bool) (size : nat -> nat -> nat) : Prop :=
  forall nitems nslots, cond nitems nslots = true -> nitems <= size nitems nslots.

Lemma array_grow_ok : grow_ok array_grow_cond array_grow_size.
Proof.
  intros n s. unfold array_grow_cond, array_grow_size. split; intros H.
  - lia.
  - apply Nat.ltb_ge in H. exact H.
Qed.

Lemma array_shrink_ok : shrink_ok array_shrink_cond array_shrink_size.
Proof. intros n s _. unfold array_shrink_size. lia. Qed.
