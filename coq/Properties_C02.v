(* Properties_C02.v — property C02: Table behaves as a finite map whatever the hashing does.
   Only statements closed by `exact`, each followed by Print Assumptions. *)
From CelloV Require Import Generated RobinHood TableModel TableProofs.

Theorem table_ideal_size_gt : forall n : nat,
  n < ideal_size table_primes table_load_num table_load_den n.
Proof. exact TableProofs.ideal_gt. Qed.
Print Assumptions table_ideal_size_gt.
