(* Properties_C02.v — property C02: Table behaves as a finite map whatever the hashing does.
   Only statements closed by `exact`, each followed by Print Assumptions.

   Reading aid.  K, V: key and value types; keq: decidable key equality (reflects =);
   hash: ANY function K -> N (collisions, wrap-around and rehash orders are all covered by the
   quantification over hash and over histories).
     T_empty / T_step / T_run : the executable model of src/Table.c (TableModel.v) with the prime
       table, the load factor and the displacement rule re-extracted from the C source (Generated.v).
     spec_step / spec_run / a_get : the finite map (association list, last set wins, rem deletes).
     t_inv  : the table invariant (table_inv_meaning spells it out).
     R t m  : table t holds exactly the bindings of map m (table_R_meaning).
     out    : OUnit | OVal v | OBool b | ORaise e | OCrash | OFuel; the map never returns the last two,
              so equal outcomes mean: no crash, no fuel exhaustion (all loops terminate).        *)
From Coq Require Import List Arith NArith ZArith Permutation.
From CelloV Require Import Generated RobinHood RobinHoodProofs TableModel TableLayout TableProofs.
Import ListNotations.

Theorem table_ideal_size_gt : forall n : nat,
  n < ideal_size table_primes table_load_num table_load_den n.
Proof. exact TableProofs.ideal_gt. Qed.
Print Assumptions table_ideal_size_gt.

(* what the invariant says: robin-hood ordering (walking forward, the probe distance grows by at
   most one; an empty slot counts 0), stored home = hash k mod nslots < nslots, no key twice,
   nitems = number of occupied slots, and a free slot exists (or there is no slot array at all) *)
Theorem table_inv_meaning : forall (K V : Type) (hash : K -> N) (t : table K V),
  t_inv K V hash t <->
  ((RHL (entry K V) (slots K V t) /\
    WF K (entry K V) fst (fun k => home K hash k (nslots K V t)) (slots K V t) /\
    UQ K (entry K V) fst (slots K V t)) /\
   nitems K V t = occupied (entry K V) (slots K V t)) /\
  (nitems K V t < nslots K V t \/ nslots K V t = 0).
Proof. exact TableProofs.t_inv_unfold. Qed.
Print Assumptions table_inv_meaning.

Theorem table_R_meaning : forall (K V : Type) (t : table K V) (m : amap K V),
  R K V t m <-> NoDup (map fst m) /\ forall e, In e (t_iter K V t) <-> In e m.
Proof. exact TableProofs.R_unfold. Qed.
Print Assumptions table_R_meaning.

(* 1. the invariant holds initially ... *)
Theorem table_inv_empty : forall (K V : Type) (hash : K -> N), t_inv K V hash (T_empty K V).
Proof. exact TableProofs.T_inv_empty. Qed.
Print Assumptions table_inv_empty.

(* ... and 2. every operation (set, rem, get, mem, resize, self-copy) keeps it, keeps the table in
   step with the map, and returns what the map returns *)
Theorem table_step_refines : forall (K V : Type) (keq : K -> K -> bool) (hash : K -> N),
  (forall a b, keq a b = true <-> a = b) ->
  forall (t : table K V) (m : amap K V) (o : op K V),
  t_inv K V hash t -> R K V t m ->
  t_inv K V hash (fst (T_step K V keq hash t o)) /\
  R K V (fst (T_step K V keq hash t o)) (fst (spec_step K V keq m o)) /\
  snd (T_step K V keq hash t o) = snd (spec_step K V keq m o).
Proof. exact TableProofs.T_step_refines. Qed.
Print Assumptions table_step_refines.

(* fuel adequacy = termination of every loop of Table.c's model, and no division by zero *)
Theorem table_step_total : forall (K V : Type) (keq : K -> K -> bool) (hash : K -> N),
  (forall a b, keq a b = true <-> a = b) ->
  forall (t : table K V) (o : op K V), t_inv K V hash t ->
  snd (T_step K V keq hash t o) <> OFuel V /\ snd (T_step K V keq hash t o) <> OCrash V.
Proof. exact TableProofs.T_step_total. Qed.
Print Assumptions table_step_total.

(* 3. every history, every hash function *)
Theorem table_refines_map : forall (K V : Type) (keq : K -> K -> bool) (hash : K -> N),
  (forall a b, keq a b = true <-> a = b) ->
  forall (ops : list (op K V)) (o : op K V),
  let t := T_run K V keq hash ops in
  let m := spec_run K V keq ops [] in
  t_inv K V hash t /\ R K V t m /\ snd (T_step K V keq hash t o) = snd (spec_step K V keq m o).
Proof. exact TableProofs.T_refines_map. Qed.
Print Assumptions table_refines_map.

(* len = number of bindings; iteration yields every bound key exactly once (with its value) *)
Theorem table_len_iter : forall (K V : Type) (keq : K -> K -> bool) (hash : K -> N),
  (forall a b, keq a b = true <-> a = b) ->
  forall (ops : list (op K V)),
  let t := T_run K V keq hash ops in
  let m := spec_run K V keq ops [] in
  t_len K V t = length m /\
  NoDup (map fst (t_iter K V t)) /\
  Permutation (t_iter K V t) m /\
  (forall k, In k (map fst (t_iter K V t)) <-> a_get K V keq m k <> None).
Proof. exact TableProofs.T_len_iter. Qed.
Print Assumptions table_len_iter.

Theorem table_get_mem : forall (K V : Type) (keq : K -> K -> bool) (hash : K -> N),
  (forall a b, keq a b = true <-> a = b) ->
  forall (ops : list (op K V)) (k : K),
  let t := T_run K V keq hash ops in
  let m := spec_run K V keq ops [] in
  snd (T_step K V keq hash t (TGet K V k)) =
    match a_get K V keq m k with Some v => OVal V v | None => ORaise V KeyError end /\
  snd (T_step K V keq hash t (TMem K V k)) =
    OBool V (match a_get K V keq m k with Some _ => true | None => false end).
Proof. exact TableProofs.T_get_mem. Qed.
Print Assumptions table_get_mem.

(* get or rem of an absent key raises KeyError and changes nothing *)
Theorem table_absent_keyerror : forall (K V : Type) (keq : K -> K -> bool) (hash : K -> N),
  (forall a b, keq a b = true <-> a = b) ->
  forall (ops : list (op K V)) (k : K),
  let t := T_run K V keq hash ops in
  let m := spec_run K V keq ops [] in
  a_get K V keq m k = None ->
  T_step K V keq hash t (TGet K V k) = (t, ORaise V KeyError) /\
  T_step K V keq hash t (TRem K V k) = (t, ORaise V KeyError).
Proof. exact TableProofs.T_absent_keyerror. Qed.
Print Assumptions table_absent_keyerror.

(* an emptied table (resize 0) keeps working: it then behaves as a new table on what follows *)
Theorem table_emptied_keeps_working : forall (K V : Type) (keq : K -> K -> bool) (hash : K -> N),
  (forall a b, keq a b = true <-> a = b) ->
  forall (ops ops' : list (op K V)) (o : op K V),
  let t := T_run K V keq hash (ops ++ TResize K V 0 :: ops') in
  let m := spec_run K V keq ops' [] in
  t_inv K V hash t /\ R K V t m /\ snd (T_step K V keq hash t o) = snd (spec_step K V keq m o).
Proof. exact TableProofs.T_emptied_keeps_working. Qed.
Print Assumptions table_emptied_keeps_working.

(* the outcome does not depend on the hash function (collisions, wrap-around, rehash order) ... *)
Theorem table_hash_independent : forall (K V : Type) (keq : K -> K -> bool) (hash1 hash2 : K -> N),
  (forall a b, keq a b = true <-> a = b) ->
  forall (ops : list (op K V)),
  let t1 := T_run K V keq hash1 ops in let t2 := T_run K V keq hash2 ops in
  (forall o, snd (T_step K V keq hash1 t1 o) = snd (T_step K V keq hash2 t2 o)) /\
  t_len K V t1 = t_len K V t2 /\ Permutation (t_iter K V t1) (t_iter K V t2).
Proof. exact TableProofs.T_hash_independent. Qed.
Print Assumptions table_hash_independent.

(* ... nor on the order in which the operations were issued, as long as they leave the same bindings *)
Theorem table_order_independent : forall (K V : Type) (keq : K -> K -> bool) (hash : K -> N),
  (forall a b, keq a b = true <-> a = b) ->
  forall (ops1 ops2 : list (op K V)),
  let t1 := T_run K V keq hash ops1 in let t2 := T_run K V keq hash ops2 in
  let m1 := spec_run K V keq ops1 [] in let m2 := spec_run K V keq ops2 [] in
  (forall k, a_get K V keq m1 k = a_get K V keq m2 k) ->
  (forall o, snd (T_step K V keq hash t1 o) = snd (T_step K V keq hash t2 o)) /\
  t_len K V t1 = t_len K V t2 /\ Permutation (t_iter K V t1) (t_iter K V t2).
Proof. exact TableProofs.T_order_independent. Qed.
Print Assumptions table_order_independent.

(* aliasing: set(t, k, get(t, k2)) — the argument is read from the table itself.  In the model arguments
   are values, so this equals set with a copy: the map becomes m[k := m(k2)].  (That the C code copies
   its arguments before it can free the slot array is validated by the aliasing histories of the check.) *)
Theorem table_set_from_get : forall (K V : Type) (keq : K -> K -> bool) (hash : K -> N),
  (forall a b, keq a b = true <-> a = b) ->
  forall (ops : list (op K V)) (k k2 : K) (v : V),
  let t := T_run K V keq hash ops in
  let m := spec_run K V keq ops [] in
  snd (T_step K V keq hash t (TGet K V k2)) = OVal V v ->
  a_get K V keq m k2 = Some v /\
  t_inv K V hash (fst (T_step K V keq hash t (TSet K V k v))) /\
  R K V (fst (T_step K V keq hash t (TSet K V k v))) (a_set K V keq m k v) /\
  snd (T_step K V keq hash t (TSet K V k v)) = OUnit V.
Proof. exact TableProofs.T_set_from_get. Qed.
Print Assumptions table_set_from_get.

(* Table_New with initial pairs (later pairs win) and Table_Assign from another Table *)
Theorem table_new_refines : forall (K V : Type) (keq : K -> K -> bool) (hash : K -> N),
  (forall a b, keq a b = true <-> a = b) ->
  forall (kvs : list (entry K V)),
  exists t, t_new K V keq hash table_swap table_primes table_load_num table_load_den kvs = Some t /\
    t_inv K V hash t /\
    R K V t (fold_left (fun m kv => a_set K V keq m (fst kv) (snd kv)) kvs []).
Proof. exact TableProofs.T_new_refines. Qed.
Print Assumptions table_new_refines.

Theorem table_assign_refines : forall (K V : Type) (keq : K -> K -> bool) (hash : K -> N),
  (forall a b, keq a b = true <-> a = b) ->
  forall (src : table K V) (m : amap K V), t_inv K V hash src -> R K V src m ->
  exists t', t_assign_from K V keq hash table_swap table_primes table_load_num table_load_den src = Some t' /\
    t_inv K V hash t' /\ R K V t' m.
Proof. exact TableProofs.T_assign_refines. Qed.
Print Assumptions table_assign_refines.

(* tuning: the resize policy of the working tree (when Table_Resize_More / Table_Resize_Less rehash and to which
   size, as functions of nitems, re-extracted from the source) is admissible — the refinement theorems above hold
   for every policy with these three inequalities, for every prime table with a positive last entry and every
   load factor 0 < num < den (table_ideal_size_gt is all they use) *)
Theorem table_resize_policy_admissible : forall n : nat,
  n <= table_grow_trigger n /\ n <= table_grow_target n /\ n <= table_shrink_target n.
Proof. exact TableProofs.resize_policy_admissible_proof. Qed.
Print Assumptions table_resize_policy_admissible.

(* slot layout: Table_Size_Round (re-extracted from the source) rounds UP to a multiple of 8, so for
   every element size the key and the value fit into the bytes the slot reserves for them *)
Theorem size_round_ge : forall s : nat,
  s <= size_round s /\ size_round s mod 8 = 0 /\ size_round s < s + 8.
Proof. exact TableProofs.size_round_ge_proof. Qed.
Print Assumptions size_round_ge.

Theorem table_slot_layout : forall hdr ks vs i : nat,
  let step := slot_step hdr ks vs in
  8 <= key_off hdr - hdr /\
  key_off hdr + ks <= val_hdr_off hdr ks /\
  val_hdr_off hdr ks + hdr = val_off hdr ks /\
  val_off hdr ks + vs <= step /\
  i * step + step = S i * step /\
  step mod 8 = (2 * hdr) mod 8.
Proof. exact TableProofs.slot_layout_proof. Qed.
Print Assumptions table_slot_layout.

Theorem table_layout_shape : table_layout_shape_ok = true.
Proof. exact TableProofs.layout_shape_proof. Qed.
Print Assumptions table_layout_shape.

(* 4. the rule of the pinned source, `if (j >= p)`, does NOT refine the map (defect D1, repaired); stated with
   literal sizes (prime table prefix, load factor 9/10) so that the witness does not depend on tuning *)
Theorem table_nonstrict_refuted :
  exists (hash : Z -> N) (ops : list (op Z Z)),
    let t := t_run Z Z Z.eqb hash (fun j p => p <=? j) [0; 1; 5; 11; 23; 53]%N 9%N 10%N ops
               (t_empty Z Z [0; 1; 5; 11; 23; 53]%N 9%N 10%N) in
    let m := spec_run Z Z Z.eqb ops [] in
    t_len Z Z t = 3 /\ length m = 2 /\
    map fst (t_iter Z Z t) = [55; 110; 55]%Z /\ map fst m = [55; 110]%Z.
Proof. exact TableProofs.T_nonstrict_refuted. Qed.
Print Assumptions table_nonstrict_refuted.

(* non-vacuity of the hypotheses `t_inv t`, `R t m` and `keq reflects =`: a table reached by a history
   in which three keys have the last of five slots as home, two of them wrapped around *)
Example table_inv_nonvacuous :
  exists (t : table Z Z) (m : amap Z Z),
    t_inv Z Z Z.to_N t /\ R Z Z t m /\
    slots Z Z t = [Some (4, (9, 2)%Z); Some (4, (14, 3)%Z); None; Some (3, (3, 4)%Z); Some (4, (4, 1)%Z)] /\
    m = [(3, 4); (14, 3); (9, 2); (4, 1)]%Z.
Proof. exact TableProofs.T_inv_nonvacuous. Qed.

Example table_refines_map_Z :=
  table_refines_map Z Z Z.eqb Z.to_N Z.eqb_eq.
