(* ConfigGlue.v — property C18: the hypotheses of the configuration theorems discharged from what other
   properties prove (no new model, only translations and instantiations).

   Part 1 (C08): the cache-soundness hypothesis `cache_ok` of ConfigProofs follows from the invariant `inv` of
           the dispatch model (DispatchProofs); restated directly over that model: with the wiring generated
           from Type.c and with no cache at all, every lookup history from a cold type returns the same
           (declared) instances.
   Part 2 (C01): the register-machine heap of Config.v is translated into a heap graph of HeapGraph.v (nodes =
           bound addresses, contents = the stored references as words of a plain struct, every node
           registered and none root-flagged, stack = the registers); reachability is preserved; the collector
           of MarkSweep.v run on the translation, with the freed addresses removed, is `collector_safe` by
           C01's `collect_safe`.  Hence collector transparency holds unconditionally for that collector.
   Part 3 (C04/C12): the Array bodies of Config.v under the default build compute exactly `spec_step KArray`
           of SeqModels.v (the abstract sequence C04's memory-level model `a_step` is proved to refine along
           every history, raising the documented exception outside the contract), so the configuration
           theorems for Array speak about the model that is compared with the library.

   Other workers' modules are only `Require`d (not imported): their names are used qualified. *)
From Coq Require Import List Arith Bool ZArith NArith String Lia.
From CelloV Require Import Generated Config ConfigProofs.
From CelloV Require Dispatch DispatchProofs HeapGraph MarkSweep MarkSweepProofs.
Import ListNotations.

(* ================================================================== Part 1: the method cache and C08 *)

Lemma cfg_wiring_nodup : NoDup (map fst cfg_cache_wiring).
Proof. apply nodupb_spec. exact wiring_nodup. Qed.

Lemma cfg_wiring_bound : forall i c, In (i, c) cfg_cache_wiring -> i < cello_cache_num.
Proof.
  intros i c H. destruct cache_wiring_audited as (_ & Hb & _).
  rewrite forallb_forall in Hb. specialize (Hb (i, c) H). simpl in Hb.
  apply andb_prop in Hb. destruct Hb as [Hb _]. apply Nat.ltb_lt. exact Hb.
Qed.

(* cache on (the wiring generated from Type_Instance, CELLO_CACHE_NUM words) and cache off (no wiring, no
   cache words) in C08's dispatch model: every history of lookups from a cold type succeeds in both and
   returns the same list — the instance the type declares for each class *)
Theorem cache_on_off_agree_for_the_generated_wiring :
  forall (cn : Dispatch.cls -> string) (sn rr : bool)   (* sn, rr: C08's two entry-shape parameters (NULL not stored; word re-read): any *)
         (D : list (string * Dispatch.inst)) (h : list (Dispatch.kind * Dispatch.cls)),
  exists Ton Toff,
    Dispatch.run_history cn cfg_cache_wiring sn rr (Dispatch.cold_type cello_cache_num D) h
      = Some (Ton, map (fun kc => DispatchProofs.dspec cn D (snd kc)) h) /\
    Dispatch.run_history cn [] sn rr (Dispatch.cold_type 0 D) h
      = Some (Toff, map (fun kc => DispatchProofs.dspec cn D (snd kc)) h).
Proof.
  intros cn sn rr D h.
  destruct (DispatchProofs.every_history_from_cold cn cfg_cache_wiring sn rr cello_cache_num
              cfg_wiring_nodup cfg_wiring_bound D h) as [Ton [Hon _]].
  assert (Hnd : NoDup (map fst (@nil (nat * Dispatch.cls)))) by constructor.
  assert (Hb : forall i c, In (i, c) (@nil (nat * Dispatch.cls)) -> i < 0) by (intros i c []).
  destruct (DispatchProofs.every_history_from_cold cn [] sn rr 0 Hnd Hb D h) as [Toff [Hoff _]].
  exists Ton, Toff. split; assumption.
Qed.

(* the same for the wiring as C08 itself reads it off the source (class = index among the builtin objects) *)
Theorem cache_on_off_agree_for_c08_wiring :
  forall (sn rr : bool) (D : list (string * Dispatch.inst)) (h : list (Dispatch.kind * Dispatch.cls)),
  exists Ton Toff,
    Dispatch.run_history DispatchProofs.cn_b DispatchProofs.wiring_b sn rr (Dispatch.cold_type cello_cache_num D) h
      = Some (Ton, map (fun kc => DispatchProofs.dspec DispatchProofs.cn_b D (snd kc)) h) /\
    Dispatch.run_history DispatchProofs.cn_b [] sn rr (Dispatch.cold_type 0 D) h
      = Some (Toff, map (fun kc => DispatchProofs.dspec DispatchProofs.cn_b D (snd kc)) h).
Proof.
  intros sn rr D h.
  destruct (DispatchProofs.every_history_from_cold DispatchProofs.cn_b DispatchProofs.wiring_b sn rr cello_cache_num
              DispatchProofs.wiring_b_nodup DispatchProofs.wiring_b_bound D h) as [Ton [Hon _]].
  assert (Hnd : NoDup (map fst (@nil (nat * Dispatch.cls)))) by constructor.
  assert (Hb : forall i c, In (i, c) (@nil (nat * Dispatch.cls)) -> i < 0) by (intros i c []).
  destruct (DispatchProofs.every_history_from_cold DispatchProofs.cn_b [] sn rr 0 Hnd Hb D h) as [Toff [Hoff _]].
  exists Ton, Toff. split; assumption.
Qed.

(* the two models read the wiring and the declaration alike *)
Lemma slot_of_wired : forall c, slot_of c = Dispatch.wired_slot cfg_cache_wiring c.
Proof.
  intro c. unfold slot_of. induction cfg_cache_wiring as [| [i l] r IH]; simpl; [reflexivity |].
  rewrite (Nat.eqb_sym c l). destruct (Nat.eqb l c); [reflexivity | exact IH].
Qed.

Lemma scan_decl_lookup : forall dl c, scan dl c = Dispatch.decl_lookup dl c.
Proof. induction dl as [| [c' i] r IH]; intro c; simpl; [reflexivity |]. rewrite IH. reflexivity. Qed.

(* C08's invariant of a type record implies the soundness hypothesis of the configuration theorems for the
   same cache words seen as a Config.tyobj (classes with pairwise distinct names, as C08 needs for the reading
   by class identity) *)
Theorem c08_invariant_gives_sound_caches :
  forall (cn : Dispatch.cls -> string) (dl : list (Dispatch.cls * Dispatch.inst)) (ncache : nat) (T : Dispatch.trec),
  (forall c c', In c' (map fst dl) -> cn c' = cn c -> c' = c) ->
  DispatchProofs.inv cn cfg_cache_wiring ncache (map (fun d => (cn (fst d), snd d)) dl) T ->
  cache_ok (mkTy (Dispatch.cache T) dl).
Proof.
  intros cn dl ncache T Hnames (Hd & (Hlen & Hc) & Hm) c i x Hs Hn. simpl in *.
  rewrite slot_of_wired in Hs.
  specialize (Hc i x c Hn Hs).
  rewrite (DispatchProofs.dspec_decl_lookup cn dl c (Hnames c)) in Hc.
  rewrite scan_decl_lookup. exact Hc.
Qed.

(* hence: after ANY history of lookups in C08's model, started from the cold type a declaration builds, the
   cache words are sound in the sense the configuration theorems need — the hypothesis `types_ok` of
   config_independent / history_config_independent is what the dispatch code maintains by itself *)
Theorem sound_caches_after_every_lookup_history :
  forall (cn : Dispatch.cls -> string) (sn rr : bool) (dl : list (Dispatch.cls * Dispatch.inst)) (h : list (Dispatch.kind * Dispatch.cls)),
  (forall c c', In c' (map fst dl) -> cn c' = cn c -> c' = c) ->
  exists T' r, Dispatch.run_history cn cfg_cache_wiring sn rr (Dispatch.type_of_decl cn cello_cache_num dl) h = Some (T', r) /\
               cache_ok (mkTy (Dispatch.cache T') dl) /\
               r = map (fun kc => scan dl (snd kc)) h.
Proof.
  intros cn sn rr dl h Hnames. unfold Dispatch.type_of_decl.
  destruct (DispatchProofs.every_history_from_cold cn cfg_cache_wiring sn rr cello_cache_num
              cfg_wiring_nodup cfg_wiring_bound (map (fun d => (cn (fst d), snd d)) dl) h) as [T' [Hr Hinv]].
  exists T', (map (fun kc => DispatchProofs.dspec cn (map (fun d => (cn (fst d), snd d)) dl) (snd kc)) h).
  split; [exact Hr |]. split.
  - eapply c08_invariant_gives_sound_caches; eassumption.
  - apply map_ext. intros [k c]. simpl.
    rewrite (DispatchProofs.dspec_decl_lookup cn dl c (Hnames c)). symmetry. apply scan_decl_lookup.
Qed.

(* ================================================================== Part 2: the collector and C01 *)

Local Open Scope N_scope.

(* addresses of the register machine as word-aligned non-NULL machine words *)
Definition gw (a : addr) : HeapGraph.word := 8 * N.of_nat (S a).

Local Arguments gw : simpl never.
Local Arguments HeapGraph.nset : simpl never.
Local Arguments HeapGraph.nget : simpl never.
Local Arguments HeapGraph.nempty : simpl never.

Lemma gw_nonzero : forall a, gw a <> 0.
Proof. intro a. unfold gw. lia. Qed.
Lemma gw_inj : forall a b, gw a = gw b -> a = b.
Proof. intros a b H. unfold gw in H. lia. Qed.
Lemma gw_mod8 : forall a, gw a mod 8 = 0.
Proof. intro a. unfold gw. rewrite N.mul_comm. apply N.mod_mul. discriminate. Qed.

(* an object of the register machine is a plain struct: the collector looks at each of its words *)
Definition emb_obj (o : gobj) : HeapGraph.contents := HeapGraph.Words (map gw (fields o)).

Fixpoint emb_heap (h : heap) : HeapGraph.heap :=
  match h with
  | [] => HeapGraph.nempty
  | (a, o) :: t => HeapGraph.nset (gw a) (emb_obj o) (emb_heap t)       (* newest binding first: it wins *)
  end.

(* every bound address is a registered, not root-flagged entry *)
Fixpoint emb_reg (h : heap) : HeapGraph.registry :=
  match h with
  | [] => HeapGraph.nempty
  | (a, _) :: t => HeapGraph.nset (gw a) false (emb_reg t)
  end.

Definition emb_stack (rs : roots) : list HeapGraph.word :=
  flat_map (fun r : option addr => match r with Some a => [gw a] | None => [] end) rs.

Definition emb_keys (h : heap) : list HeapGraph.word := map (fun e : addr * gobj => gw (fst e)) h.
Definition emb_order (h : heap) : list HeapGraph.word := nodup N.eq_dec (emb_keys h).
Definition emb_max (h : heap) : N := fold_right N.max 0 (emb_keys h).

Lemma nget_emb_heap : forall h a, HeapGraph.nget (gw a) (emb_heap h) = option_map emb_obj (hget h a).
Proof.
  induction h as [| [x o] t IH]; intro a; simpl.
  - first [reflexivity | apply MarkSweepProofs.nget_nempty].
  - destruct (Nat.eqb a x) eqn:E.
    + apply Nat.eqb_eq in E. subst. apply MarkSweepProofs.nget_nset_same. apply gw_nonzero.
    + apply Nat.eqb_neq in E. rewrite MarkSweepProofs.nget_nset_other; [apply IH |].
      intro H. apply gw_inj in H. contradiction.
Qed.

Lemma nget_emb_heap_inv : forall h p c, HeapGraph.nget p (emb_heap h) = Some c ->
  exists a o, p = gw a /\ hget h a = Some o /\ c = emb_obj o.
Proof.
  induction h as [| [x o] t IH]; intros p c H; simpl in H.
  - rewrite MarkSweepProofs.nget_nempty in H. discriminate.
  - destruct (N.eq_dec p (gw x)) as [E | E].
    + subst. rewrite MarkSweepProofs.nget_nset_same in H by apply gw_nonzero. inversion H; subst.
      exists x, o. simpl. rewrite Nat.eqb_refl. repeat split.
    + rewrite MarkSweepProofs.nget_nset_other in H by exact E.
      destruct (IH p c H) as (a & o' & Hp & Hg & Hc). exists a, o'. repeat split; try assumption.
      simpl. destruct (Nat.eqb a x) eqn:Eq; [| exact Hg].
      apply Nat.eqb_eq in Eq. subst. contradiction.
Qed.

Lemma nget_emb_reg : forall h a,
  HeapGraph.nget (gw a) (emb_reg h) = match hget h a with Some _ => Some false | None => None end.
Proof.
  induction h as [| [x o] t IH]; intro a; simpl.
  - first [reflexivity | apply MarkSweepProofs.nget_nempty].
  - destruct (Nat.eqb a x) eqn:E.
    + apply Nat.eqb_eq in E. subst. apply MarkSweepProofs.nget_nset_same. apply gw_nonzero.
    + apply Nat.eqb_neq in E. rewrite MarkSweepProofs.nget_nset_other; [apply IH |].
      intro H. apply gw_inj in H. contradiction.
Qed.

Lemma nget_emb_reg_inv : forall h p r, HeapGraph.nget p (emb_reg h) = Some r ->
  r = false /\ exists a o, p = gw a /\ hget h a = Some o.
Proof.
  induction h as [| [x o] t IH]; intros p r H; simpl in H.
  - rewrite MarkSweepProofs.nget_nempty in H. discriminate.
  - destruct (N.eq_dec p (gw x)) as [E | E].
    + subst. rewrite MarkSweepProofs.nget_nset_same in H by apply gw_nonzero. inversion H; subst.
      split; [reflexivity |]. exists x, o. simpl. rewrite Nat.eqb_refl. split; reflexivity.
    + rewrite MarkSweepProofs.nget_nset_other in H by exact E.
      destruct (IH p r H) as (Hr & a & o' & Hp & Hg). split; [exact Hr |]. exists a.
      simpl. destruct (Nat.eqb a x) eqn:Eq.
      * apply Nat.eqb_eq in Eq. subst. contradiction.
      * exists o'. split; assumption.
Qed.

Lemma registered_emb : forall h a, HeapGraph.registered (emb_reg h) (gw a) = true <-> hget h a <> None.
Proof.
  intros h a. unfold HeapGraph.registered. rewrite nget_emb_reg.
  destruct (hget h a); split; intro H; try reflexivity; try discriminate; congruence.
Qed.

Lemma registered_emb_inv : forall h p, HeapGraph.registered (emb_reg h) p = true ->
  exists a o, p = gw a /\ hget h a = Some o.
Proof.
  intros h p H. unfold HeapGraph.registered in H.
  destruct (HeapGraph.nget p (emb_reg h)) as [r |] eqn:E; [| discriminate].
  destruct (nget_emb_reg_inv h p r E) as (_ & a & o & Hp & Hg). eauto.
Qed.

Lemma is_root_emb : forall h p, HeapGraph.is_root (emb_reg h) p = false.
Proof.
  intros h p. unfold HeapGraph.is_root.
  destruct (HeapGraph.nget p (emb_reg h)) as [r |] eqn:E; [| reflexivity].
  destruct (nget_emb_reg_inv h p r E) as (Hr & _). exact Hr.
Qed.

Lemma keys_hget : forall h a, In (gw a) (emb_keys h) <-> hget h a <> None.
Proof.
  induction h as [| [x o] t IH]; intro a; simpl.
  - split; [intros [] | intro H; congruence].
  - destruct (Nat.eqb a x) eqn:E.
    + apply Nat.eqb_eq in E. subst. split; [intros _; discriminate | intros _; left; reflexivity].
    + apply Nat.eqb_neq in E. rewrite <- IH. split.
      * intros [H | H]; [apply gw_inj in H; congruence | exact H].
      * intro H. right. exact H.
Qed.

Lemma keys_form : forall h p, In p (emb_keys h) -> exists a, p = gw a.
Proof. intros h p H. unfold emb_keys in H. apply in_map_iff in H. destruct H as ([a o] & Hp & _). exists a. symmetry. exact Hp. Qed.

Lemma le_fold_max : forall l p, In p l -> p <= fold_right N.max 0 l.
Proof.
  induction l as [| x t IH]; intros p H; simpl; [destruct H |].
  destruct H as [H | H]; [subst; apply N.le_max_l |].
  etransitivity; [apply IH; exact H | apply N.le_max_r].
Qed.

(* the hypotheses of C01's theorem hold for every translated heap *)
Lemma emb_range_ok : forall h, HeapGraph.range_ok (emb_reg h) 0 (emb_max h).
Proof.
  intros h p Hp. destruct (registered_emb_inv h p Hp) as (a & o & -> & Hg).
  split; [apply gw_mod8 |]. split; [lia |].
  apply le_fold_max. apply keys_hget. congruence.
Qed.

Lemma emb_order_ok : forall h, HeapGraph.order_ok (emb_reg h) (emb_order h).
Proof.
  intro h. split; [apply NoDup_nodup |].
  intro p. unfold emb_order. rewrite nodup_In. split.
  - intro H. destruct (keys_form h p H) as [a ->]. apply registered_emb. apply keys_hget. exact H.
  - intro H. destruct (registered_emb_inv h p H) as (a & o & -> & Hg). apply keys_hget. congruence.
Qed.

Lemma emb_wf : forall h, HeapGraph.wf (emb_heap h) (emb_reg h) [].
Proof.
  intro h. constructor.
  - intros p Hp. destruct (registered_emb_inv h p Hp) as (a & o & -> & Hg).
    rewrite nget_emb_heap, Hg. discriminate.
  - intros p c Hc. destruct (nget_emb_heap_inv h p c Hc) as (a & o & _ & _ & ->).
    intros q Hq. simpl in Hq. destruct Hq.
  - intros e [].
Qed.

Lemma emb_no_raw : forall h p, HeapGraph.is_raw (emb_heap h) (emb_reg h) p = false.
Proof.
  intros h p. unfold HeapGraph.is_raw.
  destruct (HeapGraph.nget p (emb_heap h)) as [c |] eqn:E; [| reflexivity].
  destruct (nget_emb_heap_inv h p c E) as (a & o & -> & Hg & _).
  assert (HeapGraph.registered (emb_reg h) (gw a) = true) as R by (apply registered_emb; congruence).
  rewrite R. reflexivity.
Qed.

Lemma emb_raw_wf : forall h, HeapGraph.raw_wf (emb_heap h) (emb_reg h).
Proof.
  intro h. exists (fun _ => 0%nat). split.
  - intro p. apply Nat.le_0_l.
  - intros p c q Hraw. rewrite emb_no_raw in Hraw. discriminate.
Qed.

(* reachability is preserved by the translation *)
Lemma emb_reach : forall h rs a, reach h rs a ->
  HeapGraph.reach (emb_heap h) (emb_reg h) [] (emb_stack rs) (gw a).
Proof.
  intros h rs a H. induction H as [r a Hr | a o i b Ha IH Ho Hi].
  - apply HeapGraph.reach_stack. unfold emb_stack. apply in_flat_map.
    exists (Some a). split; [eapply nth_error_In; exact Hr | left; reflexivity].
  - eapply HeapGraph.reach_step with (p := gw a) (c := emb_obj o).
    + exact IH.
    + apply registered_emb. congruence.
    + rewrite nget_emb_heap, Ho. reflexivity.
    + apply HeapGraph.pts_word. apply in_map. eapply nth_error_In; exact Hi.
Qed.

(* C01's collector model in its repaired form (both switches true: TLS traced recursively, registered pointers
   marked once — the form collect_safe is proved for; whether GC.c still has that form is C01's obligation, which
   reads the switches off the source) run on the
   translated heap; the freed addresses are removed from the register machine's heap *)
Definition c01_collect (_ : nat) (h : heap) (rs : roots) : heap :=
  match MarkSweep.collect true true (emb_heap h) (emb_reg h) 0 (emb_max h)
          (MarkSweep.fuel_of (emb_heap h) (emb_reg h) (emb_order h)) (emb_order h) [] (emb_stack rs) with
  | HeapGraph.Ok (_, fin) => filter (fun e : addr * gobj => negb (existsb (N.eqb (gw (fst e))) fin)) h
  | _ => h
  end.

Lemma hget_filter_none : forall (P : addr * gobj -> bool) h a, hget h a = None -> hget (filter P h) a = None.
Proof.
  induction h as [| [x o] t IH]; intros a H; simpl in *; [reflexivity |].
  destruct (Nat.eqb a x) eqn:E; [discriminate |].
  destruct (P (x, o)); simpl; [rewrite E |]; apply IH; exact H.
Qed.

(* … and it is safe in the sense the transparency theorem needs: C01's collect_safe, through the translation *)
Theorem c01_collect_safe : collector_safe c01_collect.
Proof.
  intros n h rs a Ha. unfold c01_collect.
  destruct (MarkSweepProofs.collect_safe_thm (emb_heap h) (emb_reg h) 0 (emb_max h) (emb_order h) [] (emb_stack rs)
              (emb_range_ok h) (emb_order_ok h) (emb_wf h) (emb_raw_wf h)) as (rg' & fin & Hc & Hkeep & _).
  rewrite Hc.
  destruct (hget h a) as [o |] eqn:Hg.
  - rewrite <- Hg.
    apply (hget_filter (fun x => negb (existsb (N.eqb (gw x)) fin))).
    assert (Hr : HeapGraph.registered (emb_reg h) (gw a) = true) by (apply registered_emb; congruence).
    destruct (Hkeep (gw a) Hr (emb_reach h rs a Ha)) as [Hn _].
    apply negb_true_iff. apply not_true_is_false. intro Hex.
    apply existsb_exists in Hex. destruct Hex as (q & Hq & He). apply N.eqb_eq in He. subst q. contradiction.
  - apply hget_filter_none. exact Hg.
Qed.

Local Close Scope N_scope.

(* collector transparency without any hypothesis, for the modelled collector *)
Theorem collector_transparent_for_c01 : forall (ops : list gop) (s : gstate) (c1 c2 : config),
  snd (grun_cfg c1 c01_collect 0 ops s) = snd (grun_cfg c2 c01_collect 0 ops s).
Proof. intros. apply gc_config_independent. exact c01_collect_safe. Qed.

(* the modelled collector is not the identity: on this program it frees three of the four bindings *)
Lemma c01_collect_frees :
  let ops := [GAlloc 0 5%Z []; GAlloc 1 6%Z [(0, [])]; GDrop 0; GRead (1, [0]); GWrite (1, [0]) 9%Z;
              GMove 2 (1, [0]); GRead (2, []); GAlloc 1 7%Z []; GRead (1, []); GDrop 2; GRead (1, []); GRead (1, [])] in
  snd (grun true c01_collect 0 ops g_empty)
    = [GUnit; GUnit; GUnit; GVal 5%Z; GUnit; GUnit; GVal 9%Z; GUnit; GVal 7%Z; GUnit; GVal 7%Z; GVal 7%Z] /\
  List.length (gheap (fst (grun true c01_collect 0 ops g_empty))) = 1 /\
  List.length (gheap (fst (grun false c01_collect 0 ops g_empty))) = 4.
Proof. vm_compute. repeat split; reflexivity. Qed.

(* ================================================================== Part 3: the Array bodies and C04 / C12 *)
From CelloV Require SeqModels SeqProofs SeqTheorems.

Module SM := SeqModels.

(* the sequence operations of Config.v as operations of SeqModels.v (Array_Len has no counterpart there:
   C04 states len as the observation `nitems = length (a_abs a)`, theorem array_len_iter) *)
Definition tr (o : aop) : SM.sop Z :=
  match o with
  | AGet i => SM.SGet Z i
  | ASet i v => SM.SSet Z i v
  | APush v => SM.SPush Z v
  | APushAt v i => SM.SPushAt Z i v
  | APop => SM.SPop Z
  | APopAt i => SM.SPopAt Z i
  | AMem v => SM.SMem Z v
  | ARem v => SM.SRem Z v
  | ALen => SM.SCopy Z               (* excluded by no_len below *)
  end.

Definition no_len (h : list aop) : bool := forallb (fun o => match o with ALen => false | _ => true end) h.

(* outcomes: IndexOutOfBoundsError / ValueError are the same exception objects; mem returns a truth value *)
Definition conv (o : aop) (r : outcome Z) : SM.out Z :=
  match r with
  | ODone => SM.OUnit Z
  | OVal v => match o with AMem _ => SM.OBool Z (negb (v =? 0)%Z) | _ => SM.OVal Z v end
  | ORaise XIndexOutOfBounds => SM.ORaise Z TableModel.IndexError
  | ORaise XValueError => SM.ORaise Z TableModel.ValueError
  | ORaise _ => SM.ORaise Z TableModel.ClassError
  | OCrash => SM.OCrash Z
  end.

Definition aspec_step := SM.spec_step Z Z.eqb Z.ltb 0%Z SM.KArray.

Lemma set_nth_replace_at : forall (s : aseq) n v, (n < List.length s)%nat -> Config.set_nth s n v = SM.replace_at Z n v s.
Proof.
  unfold SM.replace_at. induction s as [| x t IH]; intros n v H; simpl in *; [lia |].
  destruct n; simpl; [reflexivity |]. f_equal. apply IH. lia.
Qed.

Lemma insert_nth_insert_at : forall (s : aseq) n v, (n <= List.length s)%nat -> insert_nth s n v = SM.insert_at Z n v s.
Proof.
  unfold SM.insert_at. induction s as [| x t IH]; intros n v H; simpl in *.
  - assert (n = 0)%nat by lia. subst. reflexivity.
  - destruct n; simpl; [reflexivity |]. f_equal. apply IH. lia.
Qed.

Lemma remove_nth_remove_at : forall (s : aseq) n, remove_nth s n = SM.remove_at Z n s.
Proof.
  unfold SM.remove_at. induction s as [| x t IH]; intros n; simpl.
  - destruct n; reflexivity.
  - destruct n; simpl; [reflexivity |]. f_equal. apply IH.
Qed.

Lemma index_of_existsb : forall (s : aseq) v k,
  existsb (fun x => Z.eqb x v) s = match index_of s v k with Some _ => true | None => false end.
Proof.
  induction s as [| x t IH]; intros v k; simpl; [reflexivity |].
  destruct (Z.eqb x v); simpl; [reflexivity | apply IH].
Qed.

Lemma index_of_remove_first : forall (s : aseq) v k j, index_of s v k = Some j ->
  (k <= j)%nat /\ remove_nth s (j - k) = SM.remove_first Z Z.eqb v s.
Proof.
  induction s as [| x t IH]; intros v k j H; simpl in *; [discriminate |].
  destruct (Z.eqb x v) eqn:E.
  - inversion H; subst. split; [lia |]. rewrite Nat.sub_diag. reflexivity.
  - destruct (IH v (S k) j H) as [Hle Hr]. split; [lia |].
    replace (j - k)%nat with (S (j - S k)) by lia. simpl. f_equal. exact Hr.
Qed.

Local Open Scope Z_scope.

Ltac zb3 :=
  repeat (match goal with
  | |- context [?a <? ?b] => destruct (Z.ltb_spec a b)
  | |- context [?a <=? ?b] => destruct (Z.leb_spec a b)
  | |- context [?a >=? ?b] => rewrite (Z.geb_leb a b)
  | |- context [?a =? ?b] => destruct (Z.eqb_spec a b)
  | |- context [Nat.eqb ?a ?b] => destruct (Nat.eqb_spec a b)
  end; simpl; try lia).

(* one call: the body of Config.v run by the DEFAULT build computes spec_step KArray — in the contract the
   result, outside it the documented exception and an unchanged sequence *)
Ltac zcases :=
  repeat (match goal with
  | |- context [Z.geb ?a ?b] => rewrite (Z.geb_leb a b)
  | |- context [Z.ltb ?a ?b] => destruct (Z.ltb_spec a b)
  | |- context [Z.leb ?a ?b] => destruct (Z.leb_spec a b)
  | |- context [Z.eqb ?a ?b] => destruct (Z.eqb_spec a b)
  | |- context [Nat.eqb ?a ?b] => destruct (Nat.eqb_spec a b)
  end; try lia; cbn [orb andb negb fst snd]).

Lemma abody_default_is_spec_step : forall (o : aop) (s : aseq) (T : types),
  o <> ALen ->
  aspec_step s (tr o) = (rst aseq Z (run aseq Z cfg_default (abody o) s T), conv o (rout aseq Z (run aseq Z cfg_default (abody o) s T))).
Proof.
  intros o s T Hlen. pose proof (Zle_0_nat (List.length s)) as Hn.
  unfold aspec_step, SM.spec_step, SM.in_range, SM.push_at_pos, SM.inb, SM.norm, rst, rout.
  destruct o; try congruence; cbn [tr abody run checks cfg_default cfg_build negb andb];
    unfold cfg_Array_Get_guard, cfg_Array_Get_norm, cfg_Array_Set_guard, cfg_Array_Set_norm,
           cfg_Array_Push_At_guard, cfg_Array_Push_At_norm, cfg_Array_Pop_guard,
           cfg_Array_Pop_At_guard, cfg_Array_Pop_At_norm, item, in_range, zlen in *;
    rewrite ?Nat2Z.inj_add; change (Z.of_nat 1) with 1.
  - (* AGet *)
    zcases; cbn [run fst snd conv];
      try reflexivity;
      match goal with |- context [nth_error s ?k] => destruct (nth_error s k) eqn:E end;
      cbn [run fst snd conv]; try reflexivity; apply nth_error_None in E; lia.
  - (* ASet *)
    zcases; cbn [run fst snd conv]; rewrite ?set_nth_replace_at by lia; reflexivity.
  - (* APush *) reflexivity.
  - (* APushAt *)
    zcases; cbn [run fst snd conv]; rewrite ?insert_nth_insert_at by lia; reflexivity.
  - (* APop *)
    zcases; cbn [run fst snd conv]; reflexivity.
  - (* APopAt *)
    zcases; cbn [run fst snd conv]; rewrite ?remove_nth_remove_at; reflexivity.
  - (* AMem *)
    rewrite (index_of_existsb s v 0). destruct (index_of s v 0); reflexivity.
  - (* ARem *)
    rewrite (index_of_existsb s v 0). destruct (index_of s v 0) as [j |] eqn:E; cbn [negb run fst snd conv]; [| reflexivity].
    destruct (index_of_remove_first s v 0%nat j E) as [_ Hr]. rewrite Nat.sub_0_r in Hr. rewrite Hr. reflexivity.
Qed.
Local Close Scope Z_scope.

(* histories *)
Fixpoint spec_run (s : aseq) (ops : list (SM.sop Z)) : aseq * list (SM.out Z) :=
  match ops with
  | [] => (s, [])
  | o :: r => let '(s', x) := aspec_step s o in let '(s'', xs) := spec_run s' r in (s'', x :: xs)
  end.

Definition conv_all (h : list aop) (rs : list (outcome Z)) : list (SM.out Z) :=
  map (fun p : aop * outcome Z => conv (fst p) (snd p)) (combine h rs).

Lemma tr_not_sort : forall o, match tr o with SM.SSort _ => False | _ => True end.
Proof. destruct o; exact I. Qed.

Lemma conv_crash : forall o r, conv o r <> SM.OCrash Z -> is_crash Z r = false.
Proof. intros o r H. destruct r as [| v | e |]; try reflexivity. exfalso. apply H. reflexivity. Qed.

(* the default build's run of a history (Config.v) IS the specification's run of C04 *)
Lemma default_run_is_spec_run : forall (h : list aop) (s : aseq) (T : types),
  no_len h = true ->
  spec_run s (map tr h) =
    (hst aseq Z (run_history aseq Z aop abody cfg_default h s T),
     conv_all h (hout aseq Z (run_history aseq Z aop abody cfg_default h s T))).
Proof.
  induction h as [| o h IH]; intros s T Hn; [reflexivity |].
  cbn [no_len forallb] in Hn. apply andb_prop in Hn. destruct Hn as [Ho Hn].
  assert (Hlen : o <> ALen) by (intro E; subst; discriminate).
  cbn [map spec_run run_history].
  pose proof (abody_default_is_spec_step o s T Hlen) as Hstep.
  destruct (run aseq Z cfg_default (abody o) s T) as [[s1 T1] r1]. unfold rst, rout in Hstep. cbn [fst snd] in Hstep.
  rewrite Hstep.
  assert (Hc : is_crash Z r1 = false).
  { apply (conv_crash o).
    assert (Hok : SM.spec_ok Z Z.eqb Z.ltb 0%Z SM.KArray s (tr o) s1 (conv o r1)).
    { unfold SM.spec_ok. pose proof (tr_not_sort o) as Hs. destruct (tr o); try exact Hstep. destruct Hs. }
    exact (proj1 (SeqProofs.spec_ok_no_crash Z Z.eqb Z.ltb 0%Z SM.KArray s (tr o) s1 (conv o r1) Hok)). }
  rewrite Hc. specialize (IH s1 T1 Hn). fold no_len in Hn.
  destruct (run_history aseq Z aop abody cfg_default h s1 T1) as [[s2 T2] rs].
  unfold hst, hout in *. cbn [fst snd] in *. rewrite IH. unfold conv_all. reflexivity.
Qed.

(* C04's memory-level model of Array.c (cells, nitems, nslots, memmove, realloc), capacity rules from the source *)
Definition c04_step := SM.a_step Z Z.eqb Z.ltb array_grow_cond array_shrink_cond array_grow_size array_shrink_size.

Fixpoint a_run (a : SM.array Z) (ops : list (SM.sop Z)) : SM.array Z * list (SM.out Z) :=
  match ops with
  | [] => (a, [])
  | o :: r => let '(a', xs) := a_run (fst (c04_step a o)) r in (a', snd (c04_step a o) :: xs)
  end.

Definition sort_free (ops : list (SM.sop Z)) : Prop := Forall (fun o => match o with SM.SSort _ => False | _ => True end) ops.

Lemma zltb_asym : forall x y, Z.ltb x y = true -> Z.ltb y x = false.
Proof. intros x y H. apply Z.ltb_lt in H. apply Z.ltb_ge. lia. Qed.
Lemma zltb_trans : forall x y z, Z.ltb x y = true -> Z.ltb y z = true -> Z.ltb x z = true.
Proof. intros x y z H1 H2. apply Z.ltb_lt in H1, H2. apply Z.ltb_lt. lia. Qed.

(* C04 + C12 (array_refines_list_all_histories), read as an equation between runs *)
Lemma c04_run_is_spec_run : forall ops a, SM.a_inv Z a -> sort_free ops ->
  SM.a_inv Z (fst (a_run a ops)) /\
  (SM.a_abs Z (fst (a_run a ops)), snd (a_run a ops)) = spec_run (SM.a_abs Z a) ops.
Proof.
  induction ops as [| o r IH]; intros a Hinv Hsf; [split; [exact Hinv | reflexivity] |].
  inversion Hsf as [| ? ? Ho Hr]; subst.
  pose proof (SeqTheorems.array_refines_list_all Z Z.eqb Z.ltb 0%Z zltb_asym zltb_trans (o :: r) a Hinv) as Href.
  cbn [SM.refines_all] in Href. destruct (Href I) as (Hinv' & Hok & _).
  fold c04_step in Hinv', Hok.
  assert (Hs : aspec_step (SM.a_abs Z a) o = (SM.a_abs Z (fst (c04_step a o)), snd (c04_step a o))).
  { unfold SM.spec_ok in Hok. destruct o; try exact Hok. destruct Ho. }
  cbn [a_run spec_run]. rewrite Hs.
  destruct (IH (fst (c04_step a o)) Hinv' Hr) as [Hi He].
  destruct (a_run (fst (c04_step a o)) r) as [a' xs]. cbn [fst snd] in *.
  destruct (spec_run (SM.a_abs Z (fst (c04_step a o))) r) as [s'' ys].
  inversion He; subst. split; [exact Hi | reflexivity].
Qed.

Lemma map_tr_sort_free : forall h, sort_free (map tr h).
Proof. induction h as [| o h IH]; constructor; [apply tr_not_sort | exact IH]. Qed.

(* the Array configuration theorem, about C04's model: start from ANY state of the memory-level model that
   satisfies its invariant; for a history on which no bounds test fires, EVERY build of Config.v computes the
   sequence contents and the outcomes that C04's model of Array.c computes *)
Theorem array_every_build_agrees_with_c04_model :
  forall (h : list aop) (a : SM.array Z) (c : config),
  no_len h = true -> SM.a_inv Z a -> afires h (SM.a_abs Z a) = false ->
  fst (arun c h (SM.a_abs Z a)) = SM.a_abs Z (fst (a_run a (map tr h))) /\
  conv_all h (snd (arun c h (SM.a_abs Z a))) = snd (a_run a (map tr h)).
Proof.
  intros h a c Hn Hinv Hf.
  rewrite (array_config_independent h (SM.a_abs Z a) c cfg_default Hf).
  pose proof (default_run_is_spec_run h (SM.a_abs Z a) [] Hn) as Hd.
  destruct (c04_run_is_spec_run (map tr h) a Hinv (map_tr_sort_free h)) as [_ Hc].
  rewrite <- Hc in Hd. unfold arun.
  destruct (run_history aseq Z aop abody cfg_default h (SM.a_abs Z a) []) as [[s' T'] rs].
  unfold hst, hout in Hd. cbn [fst snd] in *. inversion Hd. split; reflexivity.
Qed.

(* and outside the contract the DEFAULT build still follows C04/C12's model (documented exception, nothing
   changed) — only the unchecked builds leave it there *)
Theorem array_default_build_agrees_with_c04_model_on_every_history :
  forall (h : list aop) (a : SM.array Z),
  no_len h = true -> SM.a_inv Z a ->
  fst (arun cfg_default h (SM.a_abs Z a)) = SM.a_abs Z (fst (a_run a (map tr h))) /\
  conv_all h (snd (arun cfg_default h (SM.a_abs Z a))) = snd (a_run a (map tr h)).
Proof.
  intros h a Hn Hinv.
  pose proof (default_run_is_spec_run h (SM.a_abs Z a) [] Hn) as Hd.
  destruct (c04_run_is_spec_run (map tr h) a Hinv (map_tr_sort_free h)) as [_ Hc].
  rewrite <- Hc in Hd. unfold arun.
  destruct (run_history aseq Z aop abody cfg_default h (SM.a_abs Z a) []) as [[s' T'] rs].
  unfold hst, hout in Hd. cbn [fst snd] in *. inversion Hd. split; reflexivity.
Qed.

(* non-vacuity: a concrete state of C04's model and a history with negative indices, rem and mem *)
Example c04_glue_example :
  let a := SM.a_new Z [4; 5; 6]%Z in
  let h := [APush 7; APushAt 9 (-1); AGet (-5); APopAt 1; AMem 9; ARem 9; APop; ASet (-1) 8]%Z in
  no_len h = true /\ afires h (SM.a_abs Z a) = false /\
  arun (cfg_build true true true) h (SM.a_abs Z a) =
    ([4; 8]%Z, [ODone; ODone; OVal 4%Z; ODone; OVal 1%Z; ODone; ODone; ODone]) /\
  SM.a_abs Z (fst (a_run a (map tr h))) = [4; 8]%Z.
Proof. vm_compute. repeat split; reflexivity. Qed.
