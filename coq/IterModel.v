(* IterModel.v — executable model of the cursor protocols (Iter instances of Array, List, Tuple,
   Table, Tree) and of src/Iter.c (Range, Slice, Zip, Filter, Map).  MODEL ONLY (no proofs here;
   proofs are in IterProofs.v, statements in Properties_C11.v).

   Containers are modelled at the cursor level over an abstract element list:
     Array   cursor = element index in Z ("one before the first" is representable)
     List    cursor = node position
     Tree    cursor = the node (its path from the root) in an arbitrary binary tree; iter_next/prev
             follow child and parent links as coded
     Tuple   cursor = the element identity itself (object id), as in the code
     Table   cursor = slot index in Z over the slot occupancy list
   Range arithmetic is over Z with every int64 operation wrapped explicitly (wrap64).
   A cursor handed out by a view carries what the C object keeps as hidden state (the Slice's
   own Range cursor, Zip's values tuple, Map's m->curr); all callers of the protocol (foreach
   and every view) pass back the cursor they were handed last, so this is the same machine.

   The record [rules] selects, for every repaired defect, the repaired or the pre-repair text;
   tools/genx_iter.py re-reads the choice from the C source on every run (Generated.v).  *)
From Coq Require Import List ZArith Bool Arith.
Import ListNotations.
Local Open Scope Z_scope.

Inductive iexn := EClass | EIndex | EValue | EFormat | EKey.

Inductive outcome (A : Type) :=
| OVal (a : A)
| ORaise (e : iexn)
| OCrash          (* the C code reads outside the underlying storage / steps from Terminal here *)
| OFuel.          (* a while(true) loop of the model ran out of fuel: excluded by theorem *)
Arguments OVal {A} a.
Arguments ORaise {A} e.
Arguments OCrash {A}.
Arguments OFuel {A}.

Definition bind {A B} (o : outcome A) (k : A -> outcome B) : outcome B :=
  match o with OVal a => k a | ORaise e => ORaise e | OCrash => OCrash | OFuel => OFuel end.
Notation "'do' x <- o ; k" := (bind o (fun x => k)) (at level 200, x name, o at level 100, k at level 200).

Definition two63 : Z := 9223372036854775808.
Definition wrap64 (x : Z) : Z := (x + two63) mod (2 * two63) - two63.

(* items: Ints, and Tuples (what Zip hands out) *)
(* VObj id z: an Int object with a registered identity (the elements of the leaf containers and the shared
   answer object of the flag predicates); VInt z: an Int whose identity is of no interest (a Range's own
   counter, a fresh object made by a map function or a predicate) *)
Inductive val := VInt (z : Z) | VTup (vs : list val) | VObj (id : Z) (z : Z).

Record rules := mkRules {
  array_prev_incl : bool;     (* Array_Iter_Prev: curr <= Array_Item(a,0)   (pre-repair: <)          D9  *)
  tuple_last_guard : bool;    (* Tuple_Iter_Last: Terminal when empty       (pre-repair: items[-1])  D10 *)
  range_len_guard : bool;     (* Range_Len: 0 when stop <= start                                     D11 *)
  range_last_aligned : bool;  (* Range_Iter_Last: start + step*(len-1)      (pre-repair: stop-1)     D11 *)
  range_get_checked : bool;   (* Range_Get: 0 <= i < len                    (pre-repair: value test) D11 *)
  slice_arg_signed : bool;    (* Slice_Arg: signed clamp                    (pre-repair: a > n unsigned) D12 *)
  slice_bounded : bool;       (* Slice walk bounded by its own Range cursor (pre-repair: no stop test)   D12 *)
  zip_last_aligned : bool;    (* Zip_Iter_Last: every input at the last common index                 F4  *)
  table_next_strict : bool    (* Table_Iter_Next: curr > Table_Key(t, nslots-1)                          *)
}.
Definition repaired : rules := mkRules true true true true true true true true true.

Record rng := mkRng { r_start : Z; r_stop : Z; r_step : Z }.

(* Tree: any binary tree shape (the red-black balancing is C03's); a node pointer = its path *)
Inductive tree := TLeaf | TNode (l : tree) (k : val) (r : tree).
Inductive tdir := TL | TR.

Inductive cur :=
| CPos (i : Z)               (* Array element / Table slot / List node position *)
| CNode (rp : list tdir)     (* Tree: the node, as the reversed path from the root (head = last step) *)
| CObj (id : nat)            (* Tuple: the element pointer *)
| CInt (v : Z)               (* Range: value of the Range's own Int *)
| CSlice (c : cur) (rv : Z)  (* underlying cursor, value of the Slice's own Range cursor *)
| CZip (cs : list cur)       (* the values Tuple *)
| CMap (c : cur) (v : val).  (* m->curr, and the image handed out *)

Inductive iterable :=
| IArray (xs : list val)
| IList (xs : list val)
| ITuple (items : list (nat * val))       (* (object id, value); the same id twice = the same pointer twice *)
| ITable (slots : list (option val))      (* slot occupancy: the key, or empty *)
| ITree (t : tree)                        (* the node structure; iteration follows child and parent links *)
| IRange (r : rng)
| ISlice (u : iterable) (r : rng)
| IZip (us : list iterable)
| IFilter (p : val -> option val) (u : iterable)   (* the predicate's answer object; None = NULL = reject *)
| IMap (f : val -> val) (u : iterable).

Inductive dir := Fwd | Bwd.
Definition flip (d : dir) := match d with Fwd => Bwd | Bwd => Fwd end.

Definition zlen {A} (l : list A) : Z := Z.of_nat (length l).
Definition znth {A} (l : list A) (i : Z) : option A :=
  if (0 <=? i) && (i <? zlen l) then nth_error l (Z.to_nat i) else None.

Section Model.
  Variable R : rules.

  (* ------------------------------------------------------------------ Range *)
  (* Range_Len, read back as int64 *)
  Definition range_len (r : rng) : Z :=
    let s := r_step r in
    if s =? 0 then 0
    else if range_len_guard R && (r_stop r <=? r_start r) then 0
    else if 0 <? s then wrap64 (Z.quot (wrap64 (wrap64 (r_stop r - 1) - r_start r)) s + 1)
    else wrap64 (Z.quot (wrap64 (wrap64 (r_stop r - 1) - r_start r)) (wrap64 (- s)) + 1).

  Definition range_init (r : rng) : option Z :=
    let s := r_step r in
    if s =? 0 then None else
    let v := if 0 <? s then r_start r else wrap64 (r_stop r - 1) in
    if (0 <? s) && (r_stop r <=? v) then None
    else if (s <? 0) && (v <? r_start r) then None
    else Some v.

  Definition range_next (r : rng) (v : Z) : option Z :=
    let s := r_step r in
    let v' := wrap64 (v + s) in
    if s =? 0 then None
    else if (0 <? s) && (r_stop r <=? v') then None
    else if (s <? 0) && (v' <? r_start r) then None
    else Some v'.

  Definition range_last (r : rng) : option Z :=
    let s := r_step r in
    if range_last_aligned R then
      let n := range_len r in
      if n =? 0 then None
      else if 0 <? s then Some (wrap64 (r_start r + wrap64 (s * wrap64 (n - 1))))
      else if s <? 0 then Some (wrap64 (wrap64 (r_stop r - 1) + wrap64 (s * wrap64 (n - 1))))
      else None
    else
      if s =? 0 then None else
      let v := if 0 <? s then wrap64 (r_stop r - 1) else r_start r in
      if (0 <? s) && (v <? r_start r) then None
      else if (s <? 0) && (r_stop r <=? v) then None
      else Some v.

  Definition range_prev (r : rng) (v : Z) : option Z :=
    let s := r_step r in
    let v' := wrap64 (v - s) in
    if s =? 0 then None
    else if (0 <? s) && (v' <? r_start r) then None
    else if (s <? 0) && (r_stop r <=? v') then None
    else Some v'.

  Definition range_at (r : rng) (i : Z) : Z :=
    if 0 <? r_step r then wrap64 (r_start r + wrap64 (r_step r * i))
    else wrap64 (wrap64 (r_stop r - 1) + wrap64 (r_step r * i)).

  Definition range_get (r : rng) (key : Z) : outcome Z :=
    let n := range_len r in
    let i := if key <? 0 then wrap64 (n + key) else key in
    let s := r_step r in
    if s =? 0 then OVal 0
    else if range_get_checked R then
      if (0 <=? i) && (i <? n) then OVal (range_at r i) else ORaise EIndex
    else
      if (0 <? s) && (range_at r i <? r_stop r) then OVal (range_at r i)
      else if (s <? 0) && (r_start r <=? range_at r i) then OVal (range_at r i)
      else ORaise EIndex.

  (* range_stack: None = the argument `_` *)
  Definition dflt (d : Z) (a : option Z) := match a with Some x => x | None => d end.
  Definition range_stack (args : list (option Z)) : outcome rng :=
    match args with
    | [] => OVal (mkRng 0 0 1)
    | [Some b] => OVal (mkRng 0 b 1)
    | [a; Some b] => OVal (mkRng (dflt 0 a) b 1)
    | [a; Some b; c] => OVal (mkRng (dflt 0 a) b (dflt 1 c))
    | [_] | [_; _] | [_; _; _] => ORaise EClass        (* c_int(_) for the stop *)
    | _ => ORaise EFormat
    end.

  (* Slice_Arg(part, n, arg) *)
  Definition slice_arg (part : nat) (n : Z) (arg : option Z) : Z :=
    match arg with
    | None => match part with O => 0 | S O => n | _ => 1 end
    | Some a =>
      match part with
      | S (S _) => a
      | _ =>
        let a := if a <? 0 then wrap64 (n + a) else a in
        let a := if slice_arg_signed R then (if n <? a then n else a)
                 else (if n <? a mod (2 * two63) then n else a) in
        if a <? 0 then 0 else a
      end
    end.

  (* ------------------------------------------------------------------ containers *)
  Definition arr_start (d : dir) (n : Z) : option cur :=
    if n =? 0 then None else Some (CPos (match d with Fwd => 0 | Bwd => n - 1 end)).

  (* Array_Iter_Next: curr >= Array_Item(a, nitems-1) ; Array_Iter_Prev: curr <= Array_Item(a, 0) *)
  Definition arr_step (d : dir) (n i : Z) : option cur :=
    match d with
    | Fwd => if n - 1 <=? i then None else Some (CPos (i + 1))
    | Bwd => if (if array_prev_incl R then i <=? 0 else i <? 0) then None else Some (CPos (i - 1))
    end.

  (* List: *List_Next / *List_Prev is NULL at the ends *)
  Definition list_step (d : dir) (n i : Z) : option cur :=
    match d with
    | Fwd => if i + 1 <? n then Some (CPos (i + 1)) else None
    | Bwd => if 0 <=? i - 1 then Some (CPos (i - 1)) else None
    end.

  (* Tuple_Iter_Next: first i with items[i] is curr, then items[i+1] *)
  Fixpoint tup_next (items : list (nat * val)) (c : nat) : option cur :=
    match items with
    | [] => None
    | (id, _) :: rest =>
      if Nat.eqb id c then match rest with [] => None | (id', _) :: _ => Some (CObj id') end
      else tup_next rest c
    end.
  (* Tuple_Iter_Prev: Terminal if curr is items[0]; else first i with items[i] is curr, then items[i-1] *)
  Fixpoint tup_prev_from (prev : nat) (items : list (nat * val)) (c : nat) : option cur :=
    match items with
    | [] => None
    | (id, _) :: rest => if Nat.eqb id c then Some (CObj prev) else tup_prev_from id rest c
    end.
  Definition tup_prev (items : list (nat * val)) (c : nat) : option cur :=
    match items with
    | [] => None
    | (id0, _) :: rest => if Nat.eqb id0 c then None else tup_prev_from id0 rest c
    end.
  Definition tup_start (d : dir) (items : list (nat * val)) : outcome (option cur) :=
    match d with
    | Fwd => OVal (match items with [] => None | (id, _) :: _ => Some (CObj id) end)
    | Bwd => match rev items with
             | [] => if tuple_last_guard R then OVal None else OCrash
             | (id, _) :: _ => OVal (Some (CObj id))
             end
    end.

  Definition occupied (slots : list (option val)) (i : Z) : outcome bool :=
    match znth slots i with Some (Some _) => OVal true | Some None => OVal false | None => OCrash end.
  Definition nitems_of (slots : list (option val)) : Z :=
    zlen (filter (fun s => match s with Some _ => true | None => false end) slots).

  (* the while(true) loops of Table_Iter_Next / Table_Iter_Prev; fuel = nslots + 1 *)
  Fixpoint tab_scan (fuel : nat) (d : dir) (slots : list (option val)) (j : Z) : outcome (option cur) :=
    match fuel with
    | O => OFuel
    | S fuel' =>
      let stop := match d with
                  | Fwd => if table_next_strict R then zlen slots - 1 <? j else zlen slots - 1 <=? j
                  | Bwd => j <? 0
                  end in
      if stop then OVal None else
      do o <- occupied slots j;
      if o then OVal (Some (CPos j))
      else tab_scan fuel' d slots (match d with Fwd => j + 1 | Bwd => j - 1 end)
    end.
  (* Table_Iter_Init: for i in 0..nslots-1 ; Table_Iter_Last: i = nslots-1 down to 0 *)
  Fixpoint tab_first (slots : list (option val)) (i : Z) : option cur :=
    match slots with
    | [] => None
    | Some _ :: _ => Some (CPos i)
    | None :: rest => tab_first rest (i + 1)
    end.
  Definition tab_start (d : dir) (slots : list (option val)) : option cur :=
    if nitems_of slots =? 0 then None else
    match d with
    | Fwd => tab_first slots 0
    | Bwd => match tab_first (rev slots) 0 with
             | Some (CPos k) => Some (CPos (zlen slots - 1 - k))
             | _ => None
             end
    end.
  Definition tab_step (d : dir) (slots : list (option val)) (i : Z) : outcome (option cur) :=
    tab_scan (S (length slots)) d slots (match d with Fwd => i + 1 | Bwd => i - 1 end).

  (* ------------------------------------------------------------------ Tree: child and parent links *)
  Definition tdir_eqb (a b : tdir) : bool := match a, b with TL, TL | TR, TR => true | _, _ => false end.
  Definition opp (d : tdir) : tdir := match d with TL => TR | TR => TL end.
  Definition child (d : tdir) (t : tree) : tree :=
    match t with TLeaf => TLeaf | TNode l _ r => match d with TL => l | TR => r end end.
  Fixpoint subtree (t : tree) (p : list tdir) : tree :=
    match p with [] => t | d :: p' => subtree (child d t) p' end.
  Definition node_at (t : tree) (rp : list tdir) : tree := subtree t (rev rp).
  Fixpoint tree_size (t : tree) : nat :=
    match t with TLeaf => O | TNode l _ r => (tree_size l + 1 + tree_size r)%nat end.
  (* Tree_Iter_Init/Next: while (left(node) isnt NULL) { node = left(node); }   (right for Last/Prev) *)
  Fixpoint descend (near : tdir) (s : tree) (rp : list tdir) {struct s} : list tdir :=
    match s with
    | TLeaf => rp
    | TNode l _ r =>
      match near with
      | TL => match l with TLeaf => rp | TNode _ _ _ => descend near l (near :: rp) end
      | TR => match r with TLeaf => rp | TNode _ _ _ => descend near r (near :: rp) end
      end
    end.
  (* while (true) { if (prnt is NULL) return Terminal; if (node is left(prnt)) return prnt;
                    if (node is right(prnt)) { prnt = parent(prnt); node = parent(node); } }   (mirrored for Prev) *)
  Fixpoint climb (near : tdir) (rp : list tdir) : option (list tdir) :=
    match rp with
    | [] => None
    | d :: up => if tdir_eqb d near then Some up else climb near up
    end.
  Definition near_of (d : dir) : tdir := match d with Fwd => TL | Bwd => TR end.
  (* Tree_Iter_Init / Tree_Iter_Last *)
  Definition tree_start (d : dir) (t : tree) : option cur :=
    match t with TLeaf => None | TNode _ _ _ => Some (CNode (descend (near_of d) t [])) end.
  (* Tree_Iter_Next / Tree_Iter_Prev *)
  Definition tree_step (d : dir) (t : tree) (rp : list tdir) : option cur :=
    let near := near_of d in
    match child (opp near) (node_at t rp) with
    | TNode _ _ _ as c => Some (CNode (descend near c (opp near :: rp)))
    | TLeaf => option_map CNode (climb near rp)
    end.

  (* ------------------------------------------------------------------ the item a cursor denotes *)
  Definition oget {A} (o : option A) : outcome A := match o with Some a => OVal a | None => OCrash end.

  (* the Tuple a Zip hands out: the item under every input's cursor *)
  Definition zip_vals (valf : iterable -> cur -> outcome val) : list iterable -> list cur -> outcome (list val) :=
    fix go (us : list iterable) (cs : list cur) : outcome (list val) :=
      match us, cs with
      | [], [] => OVal []
      | u' :: us', c' :: cs' => do v <- valf u' c'; do r <- go us' cs'; OVal (v :: r)
      | _, _ => OCrash
      end.

  Fixpoint cur_val (u : iterable) (c : cur) {struct u} : outcome val :=
    match u, c with
    | IArray xs, CPos i => oget (znth xs i)
    | IList xs, CPos i => oget (znth xs i)
    | ITree t, CNode rp => match node_at t rp with TNode _ k _ => OVal k | TLeaf => OCrash end
    | ITuple items, CObj id =>
      match find (fun p => Nat.eqb (fst p) id) items with Some p => OVal (snd p) | None => OCrash end
    | ITable slots, CPos i => match znth slots i with Some (Some k) => OVal k | _ => OCrash end
    | IRange _, CInt v => OVal (VInt v)
    | ISlice u' _, CSlice c' _ => cur_val u' c'
    | IZip us, CZip cs => do vs <- zip_vals cur_val us cs; OVal (VTup vs)
    | IFilter _ u', c' => cur_val u' c'
    | IMap _ _, CMap _ v => OVal v
    | _, _ => OCrash
    end.

  (* ------------------------------------------------------------------ len *)
  Definition implements_len (u : iterable) : bool := match u with IFilter _ _ => false | _ => true end.

  (* Zip_Len: mlen = num < mlen ? num : mlen over the inputs after the first *)
  Definition zip_len_rest (lenf : iterable -> outcome Z) : list iterable -> Z -> outcome Z :=
    fix go (us : list iterable) (m : Z) : outcome Z :=
      match us with
      | [] => OVal m
      | u' :: r => do n <- lenf u'; go r (if n <? m then n else m)
      end.

  Fixpoint it_len (u : iterable) : outcome Z :=
    match u with
    | IArray xs => OVal (zlen xs)
    | IList xs => OVal (zlen xs)
    | ITree t => OVal (Z.of_nat (tree_size t))
    | ITuple items => OVal (zlen items)
    | ITable slots => OVal (nitems_of slots)
    | IRange r => OVal (range_len r)
    | ISlice _ r => OVal (range_len r)
    | IZip us =>
      match us with
      | [] => OVal 0
      | u0 :: rest =>
        do m <- it_len u0; zip_len_rest it_len rest m
      end
    | IFilter _ _ => ORaise EClass
    | IMap _ u' => it_len u'
    end.

  (* ------------------------------------------------------------------ iter_next / iter_prev *)
  (* k calls of the underlying step; stepping from Terminal is reading outside *)
  Definition step_n (stepf : cur -> outcome (option cur)) : nat -> option cur -> outcome (option cur) :=
    fix go (k : nat) (c : option cur) : outcome (option cur) :=
      match k with
      | O => OVal c
      | S k' => match c with None => OCrash | Some c' => do c2 <- stepf c'; go k' c2 end
      end.

  (* while (true) { if (curr is Terminal or call_with(func, curr)) return curr; curr = step(curr); } *)
  (* the answer of the predicate only decides; what is handed out is curr, the accepted element itself *)
  Definition filter_loop (stepf : cur -> outcome (option cur)) (valf : cur -> outcome val) (p : val -> option val)
    : nat -> option cur -> outcome (option cur) :=
    fix go (k : nat) (c : option cur) : outcome (option cur) :=
      match c with
      | None => OVal None
      | Some c' =>
        do v <- valf c';
        match p v with
        | Some _ => OVal (Some c')
        | None => match k with O => OFuel | S k' => do c2 <- stepf c'; go k' c2 end
        end
      end.

  Definition map_wrap (f : val -> val) (valf : cur -> outcome val) (c : option cur) : outcome (option cur) :=
    match c with
    | None => OVal None
    | Some c' => do v <- valf c'; OVal (Some (CMap c' (f v)))
    end.

  (* Zip: for every input in order, step its cursor; Terminal as soon as one input is at its end *)
  Definition zip_steps (stepf : iterable -> cur -> outcome (option cur))
    : list iterable -> list cur -> list cur -> outcome (option cur) :=
    fix go (us : list iterable) (cs acc : list cur) : outcome (option cur) :=
      match us, cs with
      | [], [] => OVal (Some (CZip (rev acc)))
      | u' :: us', c' :: cs' =>
        do n <- stepf u' c';
        match n with None => OVal None | Some c2 => go us' cs' (c2 :: acc) end
      | _, _ => OCrash
      end.
  Definition zip_starts (startf : iterable -> outcome (option cur))
    : list iterable -> list cur -> outcome (option cur) :=
    fix go (us : list iterable) (acc : list cur) : outcome (option cur) :=
      match us with
      | [] => OVal (Some (CZip (rev acc)))
      | u' :: us' =>
        do c <- startf u';
        match c with None => OVal None | Some c2 => go us' (c2 :: acc) end
      end.
  (* mlen = min over the inputs of their number of items *)
  Definition zip_minlen (lenf : iterable -> outcome Z) : list iterable -> option Z -> outcome Z :=
    fix mn (us : list iterable) (m : option Z) : outcome Z :=
      match us with
      | [] => OVal (match m with Some x => x | None => 0 end)
      | u' :: r =>
        do n <- lenf u';
        mn r (Some (match m with Some x => if n <? x then n else x | None => n end))
      end.

  Definition ostep (d : dir) (r : rng) (v : Z) := match d with Fwd => range_next r v | Bwd => range_prev r v end.
  Definition ostart (d : dir) (r : rng) := match d with Fwd => range_init r | Bwd => range_last r end.

  Fixpoint it_step (fuel : nat) (d : dir) (u : iterable) (c : cur) {struct u} : outcome (option cur) :=
    match u, c with
    | IArray xs, CPos i => OVal (arr_step d (zlen xs) i)
    | IList xs, CPos i => OVal (list_step d (zlen xs) i)
    | ITree t, CNode rp => OVal (tree_step d t rp)
    | ITuple items, CObj id => OVal (match d with Fwd => tup_next items id | Bwd => tup_prev items id end)
    | ITable slots, CPos i => tab_step d slots i
    | IRange r, CInt v => OVal (option_map CInt (ostep d r v))
    | ISlice u' r, CSlice c' rv =>
      (* Slice_Iter_Next / Slice_Iter_Prev *)
      let move (c0 : option cur) :=
        if 0 <? r_step r then step_n (it_step fuel d u') (Z.to_nat (r_step r)) c0
        else if r_step r <? 0 then step_n (it_step fuel (flip d) u') (Z.to_nat (- r_step r)) c0
        else OVal c0 in
      if slice_bounded R then
        match ostep d r rv with
        | None => OVal None
        | Some rv' => do c2 <- move (Some c'); OVal (option_map (fun x => CSlice x rv') c2)
        end
      else do c2 <- move (Some c'); OVal (option_map (fun x => CSlice x rv) c2)
    | IZip us, CZip cs =>
      match us with
      | [] => OVal None
      | _ => zip_steps (it_step fuel d) us cs []
      end
    | IFilter p u', c' =>
      do c1 <- it_step fuel d u' c';
      filter_loop (it_step fuel d u') (cur_val u') p fuel c1
    | IMap f u', CMap c' _ =>
      do c1 <- it_step fuel d u' c';
      map_wrap f (cur_val u') c1
    | _, _ => OCrash
    end.

  (* number of items of a Zip input: len if it implements Len, else a forward count (Zip_Item_Len) *)
  Definition count_loop (stepf : cur -> outcome (option cur)) : nat -> option cur -> Z -> outcome Z :=
    fix go (k : nat) (c : option cur) (n : Z) : outcome Z :=
      match c with
      | None => OVal n
      | Some c' => match k with O => OFuel | S k' => do c2 <- stepf c'; go k' c2 (n + 1) end
      end.

  (* ------------------------------------------------------------------ iter_init / iter_last *)
  Fixpoint it_start (fuel : nat) (d : dir) (u : iterable) {struct u} : outcome (option cur) :=
    match u with
    | IArray xs => OVal (arr_start d (zlen xs))
    | IList xs => OVal (arr_start d (zlen xs))
    | ITree t => OVal (tree_start d t)
    | ITuple items => tup_start d items
    | ITable slots => OVal (tab_start d slots)
    | IRange r => OVal (option_map CInt (ostart d r))
    | ISlice u' r =>
      (* Slice_Iter_Init / Slice_Iter_Last *)
      let s := r_step r in
      if slice_bounded R then
        match ostart d r with
        | None => OVal None
        | Some v =>
          do c <-
            (match d with
             | Fwd =>
               if 0 <? s then do c0 <- it_start fuel Fwd u'; step_n (it_step fuel Fwd u') (Z.to_nat (r_start r)) c0
               else if s <? 0 then
                 do c0 <- it_start fuel Bwd u'; do n <- it_len u';
                 step_n (it_step fuel Bwd u') (Z.to_nat (n - r_stop r)) c0
               else OVal None
             | Bwd =>
               if 0 <? s then
                 do c0 <- it_start fuel Bwd u'; do n <- it_len u';
                 step_n (it_step fuel Bwd u') (Z.to_nat (n - 1 - v)) c0
               else if s <? 0 then do c0 <- it_start fuel Fwd u'; step_n (it_step fuel Fwd u') (Z.to_nat v) c0
               else OVal None
             end);
          OVal (option_map (fun x => CSlice x v) c)
        end
      else
        (* pre-repair: no stop test at all; Init/Last differ only in the sign test *)
        let fromfront := match d with Fwd => 0 <? s | Bwd => s <? 0 end in
        let fromback := match d with Fwd => s <? 0 | Bwd => 0 <? s end in
        do c <-
          (if fromfront then do c0 <- it_start fuel Fwd u'; step_n (it_step fuel Fwd u') (Z.to_nat (r_start r)) c0
           else if fromback then
             do c0 <- it_start fuel Bwd u'; do n <- it_len u';
             step_n (it_step fuel Bwd u') (Z.to_nat (n - r_stop r)) c0
           else OVal None);
        OVal (option_map (fun x => CSlice x 0) c)
    | IZip us =>
      match us with
      | [] => OVal None
      | _ =>
        (* Zip_Item_Len: len if the input implements Len, else a forward count *)
        let item_len (u' : iterable) : outcome Z :=
          if implements_len u' then it_len u'
          else do c0 <- it_start fuel Fwd u'; count_loop (it_step fuel Fwd u') fuel c0 0 in
        match d with
        | Fwd => zip_starts (it_start fuel Fwd) us []
        | Bwd =>
          if zip_last_aligned R then
            do mlen <- zip_minlen item_len us None;
            zip_starts (fun u' => do n <- item_len u';
                                  do c0 <- it_start fuel Bwd u';
                                  step_n (it_step fuel Bwd u') (Z.to_nat (n - mlen)) c0) us []
          else zip_starts (it_start fuel Bwd) us []
        end
      end
    | IFilter p u' =>
      do c0 <- it_start fuel d u';
      filter_loop (it_step fuel d u') (cur_val u') p fuel c0
    | IMap f u' =>
      do c0 <- it_start fuel d u';
      map_wrap f (cur_val u') c0
    end.

  (* ------------------------------------------------------------------ get (positional) *)
  Definition seq_get (xs : list val) (key : Z) : outcome val :=
    let i := if key <? 0 then zlen xs + key else key in
    match znth xs i with Some v => OVal v | None => ORaise EIndex end.

  Definition zip_gets (getf : iterable -> outcome val) : list iterable -> outcome (list val) :=
    fix go (us : list iterable) : outcome (list val) :=
      match us with
      | [] => OVal []
      | u' :: r => do v <- getf u'; do vs <- go r; OVal (v :: vs)
      end.

  Fixpoint it_get (u : iterable) (key : Z) : outcome val :=
    match u with
    | IArray xs => seq_get xs key
    | IList xs => seq_get xs key
    | ITuple items => seq_get (map snd items) key
    | ITable _ => ORaise EKey        (* keyed get: not positional, not modelled *)
    | ITree _ => ORaise EKey
    | IRange r => do v <- range_get r key; OVal (VInt v)
    | ISlice u' r => do p <- range_get r key; it_get u' p
    | IZip us =>
      do vs <- zip_gets (fun u' => it_get u' key) us; OVal (VTup vs)
    | IFilter _ _ => ORaise EClass
    | IMap f u' => do v <- it_get u' key; OVal (f v)
    end.

  (* ------------------------------------------------------------------ foreach, cut off after [cut] items *)
  Inductive wend := WDone | WRunaway | WRaise (e : iexn) | WCrash | WFuel.
  Definition wend_of {A} (o : outcome A) : wend :=
    match o with OVal _ => WDone | ORaise e => WRaise e | OCrash => WCrash | OFuel => WFuel end.

  Fixpoint walk_loop (fuel : nat) (d : dir) (u : iterable) (cut : nat) (c : option cur) (acc : list val)
    : list val * wend :=
    match c with
    | None => (rev acc, WDone)
    | Some c' =>
      match cut with
      | O => (rev acc, WRunaway)
      | S cut' =>
        match cur_val u c' with
        | OVal v =>
          match it_step fuel d u c' with
          | OVal c2 => walk_loop fuel d u cut' c2 (v :: acc)
          | o => (rev (v :: acc), wend_of o)
          end
        | o => (rev acc, wend_of o)
        end
      end
    end.

  Definition walk (fuel : nat) (d : dir) (cut : nat) (u : iterable) : list val * wend :=
    match it_start fuel d u with
    | OVal c => walk_loop fuel d u cut c []
    | o => ([], wend_of o)
    end.

  (* ------------------------------------------------------------------ constructors of the views *)
  (* slice_stack(self, tuple(iter, args...)) *)
  Definition mk_slice (u : iterable) (args : list (option Z)) : outcome iterable :=
    do n <- it_len u;
    match args with
    | [] => OVal (ISlice u (mkRng 0 n 1))
    | [b] => OVal (ISlice u (mkRng 0 (slice_arg 1 n b) 1))
    | [a; b] => OVal (ISlice u (mkRng (slice_arg 0 n a) (slice_arg 1 n b) 1))
    | [a; b; c] => OVal (ISlice u (mkRng (slice_arg 0 n a) (slice_arg 1 n b) (slice_arg 2 n c)))
    | _ => ORaise EFormat
    end.
  Definition mk_reverse (u : iterable) := mk_slice u [None; None; Some (-1)].
  (* enumerate(I) = enumerate_stack(zip(range(), I)): the Range's stop becomes len(I) *)
  Definition mk_enumerate (u : iterable) : outcome iterable :=
    do n <- it_len u; OVal (IZip [IRange (mkRng 0 n 1); u]).
  Definition mk_range (args : list (option Z)) : outcome iterable :=
    do r <- range_stack args; OVal (IRange r).

End Model.

(* ------------------------------------------------------------------ mutation histories of the sequence containers
   The cursor model walks a container AFTER a history of mutations; at the level of this model a
   history only determines the element list (how Array.c / List.c / Tuple.c get there - memmove,
   node links, realloc - is C04's model).  None = the operation raises and leaves the container as
   it was (C12).  Index and value conventions as coded: push_at accepts 0..len for Array, 0..len-1
   (and 0 on an empty List) for List, 0..len-1 for Tuple; resize upwards only reserves for Array,
   appends zero Ints for List, raises for Tuple; rem removes the first equal element. *)
Inductive skind := KArr | KList | KTup.
Inductive hop :=
| HPush (v : Z) | HPop | HPopAt (i : Z) | HRem (v : Z) | HPushAt (i v : Z)
| HResize (n : Z) | HConcat (vs : list Z) | HSort.

Fixpoint remove_first (v : Z) (l : list Z) : option (list Z) :=
  match l with
  | [] => None
  | x :: r => if x =? v then Some r else option_map (cons x) (remove_first v r)
  end.
Fixpoint insert_sorted (v : Z) (l : list Z) : list Z :=
  match l with [] => [v] | x :: r => if v <=? x then v :: l else x :: insert_sorted v r end.
Definition sort_z (l : list Z) : list Z := fold_right insert_sorted [] l.

Definition hist_step (k : skind) (xs : list Z) (o : hop) : option (list Z) :=
  let n := zlen xs in
  match o with
  | HPush v => Some (xs ++ [v])
  | HPop => if n =? 0 then None else Some (removelast xs)
  | HPopAt i =>
    if (0 <=? i) && (i <? n) then Some (firstn (Z.to_nat i) xs ++ skipn (S (Z.to_nat i)) xs) else None
  | HRem v => remove_first v xs
  | HPushAt i v =>
    let ok := match k with
              | KArr => (0 <=? i) && (i <=? n)
              | KList => ((0 <=? i) && (i <? n)) || (i =? 0)
              | KTup => (0 <=? i) && (i <? n)
              end in
    if ok then Some (firstn (Z.to_nat i) xs ++ v :: skipn (Z.to_nat i) xs) else None
  | HResize m =>
    if m <? 0 then None
    else if m <? n then Some (firstn (Z.to_nat m) xs)
    else match k with
         | KArr => Some xs
         | KList => Some (xs ++ repeat 0 (Z.to_nat (m - n)))
         | KTup => None
         end
  | HConcat vs => Some (xs ++ vs)
  | HSort => match k with KList => None | _ => Some (sort_z xs) end
  end.

(* the element list after the history, and the number of operations that raised *)
Fixpoint hist_run (k : skind) (xs : list Z) (ops : list hop) (raised : nat) : list Z * nat :=
  match ops with
  | [] => (xs, raised)
  | o :: r => match hist_step k xs o with
              | Some xs' => hist_run k xs' r raised
              | None => hist_run k xs r (S raised)
              end
  end.

(* ------------------------------------------------------------------ the menu of the correspondence cases *)
Fixpoint vkey (v : val) : Z :=
  match v with
  | VInt z => z
  | VObj _ z => z
  | VTup vs => (fix go (l : list val) : Z := match l with [] => 0 | x :: r => wrap64 (vkey x + go r) end) vs
  end.
(* predicates 0..5 answer "accept" with their own argument; 6..8 with a DIFFERENT non-NULL object (the contract
   of Filter is only: non-NULL = accept): the shared flag object, a fresh box, a fresh copy with the same value *)
Definition flag_obj : val := VObj (-1) 777.
Definition pred_of (id : nat) (v : val) : option val :=
  let self (b : bool) := if b then Some v else None in
  match id with
  | 0%nat => Some v
  | 1%nat => None
  | 2%nat => self (Z.rem (vkey v) 2 =? 0)
  | 3%nat => self (0 <? vkey v)
  | 4%nat => self (Z.rem (vkey v) 3 =? 0)
  | 5%nat => self (vkey v <? 3)
  | 6%nat => if Z.rem (vkey v) 2 =? 0 then Some flag_obj else None
  | 7%nat => if 0 <? vkey v then Some (VTup [v]) else None
  | _ => if Z.rem (vkey v) 3 =? 0 then Some (VInt (vkey v)) else None
  end.
Definition fun_of (id : nat) (v : val) : val :=
  match id with
  | 0%nat => v
  | 1%nat => VInt (wrap64 (vkey v + 100))
  | 2%nat => VInt (wrap64 (- vkey v))
  | 3%nat => VInt (wrap64 (vkey v * vkey v))
  | 4%nat => VTup [v]
  | 5%nat => flag_obj                 (* the same shared object for every item *)
  | 6%nat => VInt (vkey v)            (* a fresh copy: same value, another object *)
  | _ => v                            (* 7: the probe, an identity that the driver wraps to record what it is applied to *)
  end.
