(* Extraction of the C12 contract table for the correspondence driver; ExtrOcamlBasic only. *)
From Coq Require Import List String NArith ZArith Extraction ExtrOcamlBasic.
From CelloV Require Import TableModel ErrorsModel.
Definition n_of_nat := N.of_nat.
Definition z_of_nat := Z.of_nat.
Extraction Language OCaml.
Extraction "../ocaml/gen/Errors.ml" contract n_of_nat z_of_nat.
