(* HashModel.v — executable model of hashing, equality, copy/assign/swap of the built-in
   value and container types (property C10).  Anchors:
     src/Hash.c   hash_data (MurmurHash64A, seed 0xCe110), hash (default = hash_data over size bytes)
     src/Cmp.c    cmp (default = memcmp over size bytes), eq
     src/Num.c    Int_Cmp Int_Hash Float_Cmp Float_Hash
     src/String.c String_Cmp String_Hash        src/Type.c  Type_Cmp Type_Hash
     src/Pointer.c Ref / Box (no Cmp, no Hash: the defaults over the 8 pointer bytes)
     src/Array.c List.c Tuple.c  *_Cmp (parallel walk) *_Hash (XOR fold) *_Assign
     src/Table.c Tree.c          *_Cmp *_Hash *_Assign
     src/Assign.c assign swap memswap           src/Alloc.c copy
   Numbers: uint64_t words are N reduced modulo 2^64 after every multiplication; int64_t is Z;
   a double is its 64-bit pattern (N), arithmetic on it is Flocq's binary64 (b64_minus).
   MODEL ONLY: no proofs in this file (HashProofs.v), so it keeps running when a proof breaks. *)
From Coq Require Import List NArith ZArith Bool.
From Flocq Require Import IEEE754.BinarySingleNaN IEEE754.Binary IEEE754.Bits.
Import ListNotations.

(* ------------------------------------------------------------------ 64-bit words *)
Definition M64 : N := 18446744073709551616%N.           (* 2^64 *)
Definition w64 (x : N) : N := N.modulo x M64.
Definition mul64 (a b : N) : N := w64 (a * b).

(* ------------------------------------------------------------------ hash_data *)
Section Murmur.
  (* constants of hash_data, re-extracted from src/Hash.c into Generated.v *)
  Variables (m : N) (r : N) (seed : N).

  (* memcpy(&k, d, 8) on a little-endian machine *)
  Fixpoint le_word (l : list N) : N :=
    match l with [] => 0 | b :: t => b + 256 * le_word t end%N.

  (* loop body:  k *= m; k ^= k >> r; k *= m; h ^= k; h *= m; *)
  Definition mix (h k : N) : N :=
    let k1 := mul64 k m in
    let k2 := N.lxor k1 (N.shiftr k1 r) in
    let k3 := mul64 k2 m in
    mul64 (N.lxor h k3) m.

  (* while (d != end): whole 8-byte blocks; returns h and the tail (size & 7 bytes) *)
  Fixpoint blocks (d : list N) (h : N) : N * list N :=
    match d with
    | b0 :: b1 :: b2 :: b3 :: b4 :: b5 :: b6 :: b7 :: rest =>
        blocks rest (mix h (le_word [b0; b1; b2; b3; b4; b5; b6; b7]))
    | tail => (h, tail)
    end.

  (* switch (size & 7) with fall-through: case n: h ^= d[n-1] << 8(n-1); ... case 1: h ^= d[0]; h *= m *)
  Fixpoint tail_xor (i : N) (t : list N) (h : N) : N :=
    match t with
    | [] => h
    | b :: t' => N.lxor (tail_xor (i + 1) t' h) (N.shiftl b (8 * i))
    end.

  (* the other shape of the tail (tail_shape = 1):
       rest = size & 7; if (rest) { k = 0; while (rest-- > 0) k = (k << 8) | d[rest]; h ^= k; h *= m; }
     the bytes from the highest index down are shifted into one little-endian word *)
  Definition tail_word (t : list N) : N :=
    fold_left (fun k b => N.lor (N.shiftl k 8) b) (rev t) 0%N.

  (* which of the two shapes the source has: Generated.hash_tail_shape *)
  Variable tail_shape : nat.

  Definition tail_step (t : list N) (h : N) : N :=
    match t with
    | [] => h
    | _ => match tail_shape with
           | O => mul64 (tail_xor 0 t h) m
           | _ => mul64 (N.lxor h (tail_word t)) m
           end
    end.

  (* h ^= h >> r; h *= m; h ^= h >> r; *)
  Definition finish (h : N) : N :=
    let h1 := N.lxor h (N.shiftr h r) in
    let h2 := mul64 h1 m in
    N.lxor h2 (N.shiftr h2 r).

  Definition hash_data (d : list N) : N :=
    let size := N.of_nat (length d) in
    let h0 := N.lxor seed (mul64 size m) in
    let '(h, t) := blocks d h0 in
    finish (tail_step t h).
End Murmur.

(* byte image of a 64-bit word in memory (little endian), n bytes *)
Fixpoint le_split (n : nat) (x : N) : list N :=
  match n with O => [] | S n' => N.modulo x 256 :: le_split n' (N.div x 256) end.

(* ------------------------------------------------------------------ memswap (src/Assign.c) *)
(* for (i = 0; i < s; i++) { t = p0[i]; p0[i] = p1[i]; p1[i] = t; }  on two disjoint byte images;
   `swap` calls it with s = size(type) after checking that both objects have the same type.
   (p0 == p1 returns at once: a value swapped with itself stays what it is.) *)
Fixpoint set_nth (i : nat) (x : N) (l : list N) : list N :=
  match l, i with
  | [], _ => []
  | _ :: t, O => x :: t
  | y :: t, S i' => y :: set_nth i' x t
  end.

Fixpoint memswap_loop (fuel i : nat) (a b : list N) : list N * list N :=
  match fuel with
  | O => (a, b)
  | S f =>
    let t := nth i a 0%N in
    memswap_loop f (S i) (set_nth i (nth i b 0%N) a) (set_nth i t b)
  end.

Definition memswap (a b : list N) (s : nat) : list N * list N := memswap_loop s 0 a b.

(* The text of memswap is read by tools/genx_hash.py as a PLAN (Generated.memswap_plan): a list of
   steps (tag, w) over a cursor i that starts at 0, s = the size passed by swap:
     (0, w)  while (i + w <= s) { exchange w bytes at i; i += w; }        (also `for (; i < s; i++)`, w = 1)
     (1, w)  if (i + w <= s) { exchange w bytes at i; i += w; }
     (2, w)  if (i + w <= s) { exchange w bytes at i; }                   (cursor NOT advanced)
     (3, w)  n = s / w; while (n > 0) { exchange w bytes at the cursor; cursor += w; n--; }   (pointer form)
     (4, w)  n = s % w; while (n > 0) { exchange 1 byte at the cursor; cursor++; n--; }
   Exchanging w bytes of two disjoint regions through memcpy and a temporary is w byte exchanges.
   plan_indices = the byte indices exchanged, in order; run_plan performs the exchanges. *)
Definition step_indices (s : nat) (st : nat * nat) (i : nat) : list nat * nat :=
  let '(tag, w) := st in
  match tag with
  | 0 => let n := (s - i) / w in (seq i (n * w), i + n * w)
  | 1 => if i + w <=? s then (seq i w, i + w) else ([], i)
  | 2 => if i + w <=? s then (seq i w, i) else ([], i)
  | 3 => let n := s / w in (seq i (n * w), i + n * w)
  | 4 => let n := s mod w in (seq i n, i + n)
  | _ => ([], i)
  end.

Fixpoint plan_indices (s : nat) (plan : list (nat * nat)) (i : nat) : list nat :=
  match plan with
  | [] => []
  | st :: r => let '(l, i') := step_indices s st i in l ++ plan_indices s r i'
  end.

Definition swap_at (ab : list N * list N) (i : nat) : list N * list N :=
  (set_nth i (nth i (snd ab) 0%N) (fst ab), set_nth i (nth i (fst ab) 0%N) (snd ab)).

Definition run_plan (plan : list (nat * nat)) (s : nat) (a b : list N) : list N * list N :=
  fold_left swap_at (plan_indices s plan 0) (a, b).

(* plans for which coverage is proved (HashProofs.plan_covers): guarded advancing steps ending in a
   byte loop, or the pointer pair  s / w words then s % w bytes *)
Fixpoint tail_ok (plan : list (nat * nat)) : bool :=
  match plan with
  | [] => false
  | (0, w) :: r => match r with [] => w =? 1 | _ => (0 <? w) && tail_ok r end
  | (1, w) :: r => tail_ok r
  | _ => false
  end.

Definition plan_ok (plan : list (nat * nat)) : bool :=
  match plan with
  | [(t1, w); (t2, w')] =>
    if (t1 =? 3) && (t2 =? 4) then (0 <? w) && (w =? w') else tail_ok plan
  | _ => tail_ok plan
  end.

(* ------------------------------------------------------------------ byte-string orders *)
(* strcmp / memcmp: unsigned bytes, first difference decides, a proper prefix is smaller *)
Fixpoint bytes_cmp (a b : list N) : Z :=
  match a, b with
  | [], [] => 0
  | [], _ :: _ => -1
  | _ :: _, [] => 1
  | x :: a', y :: b' => if (x <? y)%N then -1 else if (y <? x)%N then 1 else bytes_cmp a' b'
  end%Z.

(* ------------------------------------------------------------------ Int *)
Definition int_cmp (a b : Z) : Z := (if a <? b then -1 else if b <? a then 1 else 0)%Z.
Definition int_hash (a : Z) : N := Z.to_N (Z.modulo a (Z.of_N M64)).     (* (uint64_t)c_int(self) *)

(* ------------------------------------------------------------------ Float *)
Definition f_of_bits (b : N) : binary64 := b64_of_bits (Z.of_N b).
Definition f_is_nan (b : N) : bool := Binary.is_nan 53 1024 (f_of_bits b).
Definition f_is_zero (b : N) : bool :=
  match f_of_bits b with B754_zero _ _ _ => true | _ => false end.

(* Float_Cmp:  double c = a - b;  return c > 0 ? 1 : c < 0 ? -1 : 0;   (NaN: both tests false) *)
Definition float_cmp (a b : N) : Z :=
  match b64_minus mode_NE (f_of_bits a) (f_of_bits b) with
  | B754_zero _ _ _ => 0
  | B754_nan _ _ _ _ _ => 0
  | B754_infinity _ _ s => if s then -1 else 1
  | B754_finite _ _ s _ _ _ => if s then -1 else 1
  end%Z.

(* the other shape of Float_Cmp (Generated.float_cmp_form = 1): the operands are compared directly,
     return (lhs > rhs) - (lhs < rhs);        (any comparison with NaN is false: 0)
   HashFloat.float_cmp_forms_agree: it is the same function as the sign of the difference *)
Definition float_cmp_direct (a b : N) : Z :=
  match b64_compare (f_of_bits a) (f_of_bits b) with
  | Some Lt => -1
  | Some Gt => 1
  | _ => 0
  end%Z.
Definition float_cmp_of_form (form : nat) : N -> N -> Z :=
  match form with O => float_cmp | _ => float_cmp_direct end.

(* Float_Hash, by the shape found in the source (Generated.float_hash_shape):
     0  return the raw bit pattern                               (the pinned code; float_hash_raw_refuted)
     1  if (ic.as_flt == 0.0) { ic.as_flt = 0.0; }               (FPU comparison, true for both zeros)
     2  if ((ic.as_int << 1) is 0) { return 0; }                 (sign bit shifted out of the 64-bit word) *)
Definition float_hash (shape : nat) (b : N) : N :=
  match shape with
  | O => b
  | S O => if f_is_zero b then 0%N else b
  | _ => if (w64 (N.shiftl b 1) =? 0)%N then 0%N else b
  end.
(* the shapes that map both zeros to one hash *)
Definition fh_normalising (shape : nat) : bool := (shape =? 1) || (shape =? 2).

(* ------------------------------------------------------------------ values *)
Inductive skind := KArray | KList | KTuple.
Inductive mkind := KTable | KTree.

Inductive value :=
| VInt (z : Z)                      (* struct Int   { int64_t val; }  *)
| VFloat (bits : N)                 (* struct Float { double val; } as its bit pattern *)
| VStr (s : list N)                 (* struct String: the bytes before the terminator *)
| VType (name : list N)             (* a Type object, identified by its name *)
| VRef (p : N)                      (* struct Ref { var val; }: the address held *)
| VBox (p : N)
| VBlob (bytes : list N)            (* a plain struct without Cmp/Hash/Assign instances: its bytes;
                                       the type is determined by the size *)
| VSeq (k : skind) (l : list value)            (* elements in iteration order *)
| VMap (k : mkind) (m : list (value * value)). (* bindings in iteration order *)

Section Values.
  Variable hd_ : list N -> N.        (* the byte hash: hash_data with the source's constants and shapes;
                                        nothing below depends on which function of the bytes it is *)
  Variable float_shape : nat.        (* shape of Float_Hash (Generated.v) *)
  Variable table_lookup : bool.      (* Table_Cmp compares by lookup first (Generated.v) *)


  Definition sgn (c : Z) : Z := (if c <? 0 then -1 else if 0 <? c then 1 else 0)%Z.

  (* cmp on values that are not containers; None = the call raises (TypeError/ClassError)
     or the combination is not modelled *)
  Definition s_cmp (a b : value) : option Z :=
    match a, b with
    | VInt x, VInt y => Some (int_cmp x y)
    | VFloat x, VFloat y => Some (float_cmp x y)
    | VStr x, VStr y => Some (bytes_cmp x y)
    | VStr x, VType y => Some (bytes_cmp x y)       (* c_str(Type) is its name *)
    | VType x, VType y => Some (bytes_cmp x y)
    | VRef x, VRef y => Some (bytes_cmp (le_split 8 x) (le_split 8 y))     (* memcmp, 8 bytes *)
    | VBox x, VBox y => Some (bytes_cmp (le_split 8 x) (le_split 8 y))
    | VBlob x, VBlob y => if length x =? length y then Some (bytes_cmp x y) else None
    | _, _ => None
    end.

  (* the parallel walk of Array_Cmp / List_Cmp / Tuple_Cmp *)
  Section Walk.
    Variables A B : Type.
    Variable c : A -> B -> option Z.
    Fixpoint walk (l1 : list A) (l2 : list B) : option Z :=
      match l1, l2 with
      | [], [] => Some 0%Z
      | [], _ :: _ => Some (-1)%Z
      | _ :: _, [] => Some 1%Z
      | x :: r1, y :: r2 =>
        match c x y with
        | None => None
        | Some d => if (d <? 0)%Z then Some (-1)%Z else if (0 <? d)%Z then Some 1%Z else walk r1 r2
        end
      end.
  End Walk.

  (* mem(obj, key) / get(obj, key) on a map given by its bindings: the stored key is compared
     with the probe (keys are scalars in this model) *)
  Fixpoint m_get (mp : list (value * value)) (k : value) : option value :=
    match mp with
    | [] => None
    | (k', v') :: rest => match s_cmp k' k with Some 0%Z => Some v' | _ => m_get rest k end
    end.

  (* the loop added to Table_Cmp by the repair: every binding of self is in obj with an eq value *)
  Section Same.
    Variable c : value -> value -> option Z.
    Variable m2 : list (value * value).
    Fixpoint all_in (m1 : list (value * value)) : bool :=
      match m1 with
      | [] => true
      | (k, v) :: rest =>
        match m_get m2 k with
        | Some v' => match c v v' with Some 0%Z => all_in rest | _ => false end
        | None => false
        end
      end.
  End Same.

  (* the walk of Table_Cmp / Tree_Cmp: key, then value *)
  Definition pair_c (c : value -> value -> option Z) (x y : value * value) : option Z :=
    match c (fst x) (fst y) with
    | None => None
    | Some d => if (d <? 0)%Z then Some (-1)%Z else if (0 <? d)%Z then Some 1%Z else c (snd x) (snd y)
    end.

  Fixpoint v_cmp (a b : value) {struct a} : option Z :=
    match a with
    | VSeq _ l1 =>
      match b with
      | VSeq _ l2 => walk value value (fun x y => v_cmp x y) l1 l2
      | _ => None
      end
    | VMap k m1 =>
      match b with
      | VMap _ m2 =>
        match k with
        | KTable =>
          if table_lookup && (length m1 =? length m2) && all_in (fun x y => v_cmp x y) m2 m1 then Some 0%Z
          else walk _ _ (pair_c (fun x y => v_cmp x y)) m1 m2
        | KTree => walk _ _ (pair_c (fun x y => v_cmp x y)) m1 m2
        end
      | _ => None
      end
    | _ => s_cmp a b
    end.

  Definition v_eq (a b : value) : option bool :=
    match v_cmp a b with Some c => Some (c =? 0)%Z | None => None end.

  (* hash(self) *)
  Fixpoint v_hash (a : value) : N :=
    match a with
    | VInt z => int_hash z
    | VFloat b => float_hash float_shape b
    | VStr s => hd_ s
    | VType n => hd_ n
    | VRef p => hd_ (le_split 8 p)
    | VBox p => hd_ (le_split 8 p)
    | VBlob bs => hd_ bs
    | VSeq _ l => fold_right (fun x acc => N.lxor acc (v_hash x)) 0%N l
    | VMap _ mp => fold_right (fun kv acc => N.lxor (N.lxor acc (v_hash (fst kv))) (v_hash (snd kv))) 0%N mp
    end.

  (* assign(dst, src): the new value of dst; None = raises / not modelled.
     Containers re-create their elements by assign into fresh storage of the element type. *)
  Fixpoint v_copy (a : value) : option value :=
    match a with
    | VType _ => None                         (* Type_Copy / Type_Assign raise ValueError *)
    | VSeq k l =>
      match k with
      | KTuple => Some (VSeq KTuple l)        (* Tuple_Assign stores the same element pointers *)
      | _ =>
        match fold_right (fun x acc => match v_copy x, acc with Some y, Some t => Some (y :: t) | _, _ => None end)
                         (Some []) l with
        | Some l' => Some (VSeq k l') | None => None end
      end
    | VMap k mp =>
      match fold_right (fun kv acc => match v_copy (fst kv), v_copy (snd kv), acc with
                                      | Some k', Some v', Some t => Some ((k', v') :: t) | _, _, _ => None end)
                       (Some []) mp with
      | Some m' => Some (VMap k m') | None => None end
    | _ => Some a
    end.

  (* assign(dst, src) for the combinations the check exercises; the result takes dst's kind *)
  Definition v_assign (dst src : value) : option value :=
    match dst, src with
    | VInt _, VInt z => Some (VInt z)
    | VFloat _, VFloat b => Some (VFloat b)
    | VStr _, VStr s => Some (VStr s)
    | VStr _, VType s => Some (VStr s)
    | VRef _, VRef p => Some (VRef p)         (* Ref_Assign: deref of a Pointer source *)
    | VRef _, VBox p => Some (VRef p)
    | VBox _, VBox p => Some (VBox p)
    | VBox _, VRef p => Some (VBox p)
    | VBlob x, VBlob y => if length x =? length y then Some (VBlob y) else None
    | VSeq KTuple _, VSeq _ l => Some (VSeq KTuple l)
    | VSeq _ _, VSeq KTuple _ => None         (* Array/List of Ref to the tuple's items: not modelled *)
    | VSeq k _, VSeq _ l => match v_copy (VSeq k l) with Some v => Some v | None => None end
    | VMap k _, VMap _ mp => v_copy (VMap k mp)
    | _, _ => None
    end.

  (* swap(a, b): memswap of the two structs; same type required *)
  Definition same_type (a b : value) : bool :=
    match a, b with
    | VInt _, VInt _ | VFloat _, VFloat _ | VStr _, VStr _ | VRef _, VRef _ | VBox _, VBox _ => true
    | VBlob x, VBlob y => length x =? length y
    | VSeq k _, VSeq k' _ => match k, k' with KArray, KArray | KList, KList | KTuple, KTuple => true | _, _ => false end
    | VMap k _, VMap k' _ => match k, k' with KTable, KTable | KTree, KTree => true | _, _ => false end
    | _, _ => false
    end.
  Definition v_swap (a b : value) : option (value * value) :=
    if same_type a b then Some (b, a) else None.

  (* ---------------------------------------------------------------- well-formed values *)
  Definition byte_ok (b : N) : bool := (b <? 256)%N.
  Definition char_ok (b : N) : bool := (0 <? b)%N && (b <? 256)%N.
  Definition scalar (a : value) : bool :=
    match a with VSeq _ _ | VMap _ _ => false | _ => true end.
  (* keys allowed in maps by the model: anything that is not a container *)
  Definition key_ok (a : value) : bool := scalar a.

  (* the keys of one map have one type (ktype of the Table / Tree) *)
  Definition kclass (a : value) : nat * nat :=
    match a with
    | VInt _ => (0, 0) | VFloat _ => (1, 0) | VStr _ => (2, 0) | VType _ => (3, 0)
    | VRef _ => (4, 0) | VBox _ => (5, 0) | VBlob bs => (6, length bs)
    | VSeq _ _ => (7, 0) | VMap _ _ => (8, 0)
    end.
  Definition class_eqb (c d : nat * nat) : bool := (fst c =? fst d) && (snd c =? snd d).
  Definition same_class (mp : list (value * value)) : bool :=
    match mp with
    | [] => true
    | (k0, _) :: _ => forallb (fun kv => class_eqb (kclass k0) (kclass (fst kv))) mp
    end.

  Fixpoint keys_distinct (mp : list (value * value)) : bool :=
    match mp with
    | [] => true
    | (k, _) :: rest => match m_get rest k with None => keys_distinct rest | Some _ => false end
    end.

  Fixpoint v_wf (a : value) : bool :=
    match a with
    | VInt z => (-9223372036854775808 <=? z)%Z && (z <? 9223372036854775808)%Z
    | VFloat b => (b <? M64)%N && negb (f_is_nan b)
    | VStr s => forallb char_ok s
    | VType n => forallb char_ok n
    | VRef p => (p <? M64)%N
    | VBox p => (p <? M64)%N
    | VBlob bs => forallb byte_ok bs
    | VSeq _ l => forallb (fun x => v_wf x) l
    | VMap _ mp => forallb (fun kv => key_ok (fst kv) && v_wf (fst kv) && v_wf (snd kv)) mp
                   && same_class mp && keys_distinct mp
    end.
End Values.
