(* FileTie.v — the obligations that tie FileModel.v to the TEXT of src/File.c: the facts
   tools/genx_file.py re-extracts from the working tree on every run (coq/Generated.v).
   If one of the patterns no longer matches, its definition is missing from Generated.v and this
   file does not compile; if File_Close loses its closed test or clears the handle too late the
   boolean is false and the lemma fails. *)
From Coq Require Import Bool.
From CelloV Require Import Generated.

Lemma file_c_shape :
  file_close_tests_closed = true /\      (* File_Close: `if (f->file is NULL) throw(IOError …` first *)
  file_close_clears_always = true /\     (* File_Close: `f->file = NULL` before the throw on fclose failure *)
  file_ops_guarded = true /\             (* Seek Tell Flush EOF Read Write Format_To Format_From: closed test first *)
  file_del_open_shape = true /\          (* File_Del, File_Open close only an open File; File_Open stores fopen's result *)
  file_format_direct = true.             (* File_Format_To / _From hand fmt and va straight to vfprintf / vfscanf on the stream *)
Proof. repeat split; reflexivity. Qed.
