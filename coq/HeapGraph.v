(* HeapGraph.v — abstract heap graphs for the mark phase of src/GC.c (property C01).
   Definitions only (no proofs): words, object contents, heap, registry, mark set,
   the trace-edge relation `pts`, reachability `reach`, and the well-formedness hypotheses.

   Representation.  A heap maps an address to the *contents* of the object that starts
   there.  Contents are an inductive term so that elements EMBEDDED in a container
   (Array/List/Table/Tree element storage, tagged AllocData) are structural sub-terms:
   they have no registry entry and are traced by their own kind.
     Words ws  plain struct / Ref / Box: no Mark instance, GC_Recurse tries GC_Mark_Item on
               every pointer-sized word of the object (conservative path)
     Elems es  Array / List / Table / Tree (and the thread's TLS Table): the Mark instance
               hands every embedded element to the callback (GC_Mark_And_Recurse)
     Items ps  heap Tuple: Tuple_Mark hands every item POINTER to the callback
     NoPtr      Int Float String Type File Process Function: GC_Recurse returns at once
   Registered objects (new/alloc/copy) and raw objects (new_raw, malloc'ed, not registered)
   are both heap nodes; the registry says which is which. *)
From Coq Require Export List.
From Coq Require Import Arith NArith PArith Bool FMapPositive.
Import ListNotations.

Definition word := N.

Inductive contents : Type :=
| Words (ws : list word)
| Elems (es : list contents)
| Items (ps : list word)
| NoPtr.

Inductive outcome (A : Type) : Type :=
| Ok (a : A)
| Crash            (* the C code would read the type of something that is not an object *)
| OutOfFuel.
Arguments Ok {A} a.
Arguments Crash {A}.
Arguments OutOfFuel {A}.

Definition bind {A B} (o : outcome A) (f : A -> outcome B) : outcome B :=
  match o with Ok a => f a | Crash => Crash | OutOfFuel => OutOfFuel end.

(* finite maps keyed by non-NULL words (address 0 is never a key) *)
Module PM := PositiveMap.
Definition nmap (A : Type) := PM.t A.
Definition nempty {A} : nmap A := PM.empty A.
Definition nget {A} (w : word) (m : nmap A) : option A :=
  match w with N0 => None | Npos p => PM.find p m end.
Definition nset {A} (w : word) (a : A) (m : nmap A) : nmap A :=
  match w with N0 => m | Npos p => PM.add p a m end.
Definition ndel {A} (w : word) (m : nmap A) : nmap A :=
  match w with N0 => m | Npos p => PM.remove p m end.
Definition nkeys {A} (m : nmap A) : list word := map (fun kv => Npos (fst kv)) (PM.elements m).

Definition heap := nmap contents.
Definition registry := nmap bool.          (* registered address -> root flag *)
Definition marks := nmap unit.             (* the mark bits that are set *)

Definition registered (rg : registry) (w : word) : bool :=
  match nget w rg with Some _ => true | None => false end.
Definition is_root (rg : registry) (w : word) : bool :=
  match nget w rg with Some r => r | None => false end.
Definition marked (m : marks) (w : word) : bool :=
  match nget w m with Some _ => true | None => false end.
Definition setmark (w : word) (m : marks) : marks := nset w tt m.

Section Graph.
  Variable h : heap.
  Variable rg : registry.

  (* `pts c q`: tracing contents c hands the word q to GC_Mark_Item — directly (a word of a
     plain object, an item pointer of a Tuple that is registered), through an embedded
     element, or through a RAW object an item pointer of a Tuple leads to. *)
  Inductive pts : contents -> word -> Prop :=
  | pts_word : forall ws q, In q ws -> pts (Words ws) q
  | pts_elem : forall es e q, In e es -> pts e q -> pts (Elems es) q
  | pts_item : forall ps q, In q ps -> registered rg q = true -> pts (Items ps) q
  | pts_raw  : forall ps p c q, In p ps -> registered rg p = false -> nget p h = Some c ->
                 pts c q -> pts (Items ps) q.

  (* reachable words: least set containing what the TLS values, the root-flagged entries
     and the stack/register words lead to, closed under the trace edges of REGISTERED
     objects.  (A word that is not a registered address is a dead end, exactly as for
     GC_Mark_Item.) *)
  Inductive reach (tls : list contents) (stack : list word) : word -> Prop :=
  | reach_tls   : forall e q, In e tls -> pts e q -> reach tls stack q
  | reach_root  : forall p c q, is_root rg p = true -> nget p h = Some c -> pts c q -> reach tls stack q
  | reach_stack : forall q, In q stack -> reach tls stack q
  | reach_step  : forall p c q, reach tls stack p -> registered rg p = true -> nget p h = Some c ->
                    pts c q -> reach tls stack q.

  (* item pointers of Tuples (at any embedding depth) *)
  Fixpoint item_ptrs (c : contents) : list word :=
    match c with
    | Words _ => []
    | Elems es => flat_map item_ptrs es
    | Items ps => ps
    | NoPtr => []
    end.

  (* every item pointer of a Tuple points to an object the heap knows (else the C code reads
     a type from memory that holds no object) *)
  Definition items_ok (c : contents) : Prop :=
    forall p, In p (item_ptrs c) -> nget p h <> None.

  Definition is_raw (p : word) : bool :=
    match nget p h with Some _ => negb (registered rg p) | None => false end.

  (* number of raw objects *)
  Definition nraw : nat := length (filter (fun p => negb (registered rg p)) (nkeys h)).

  Record wf (tls : list contents) : Prop := {
    wf_reg_heap : forall p, registered rg p = true -> nget p h <> None;
    wf_items    : forall p c, nget p h = Some c -> items_ok c;
    wf_tls      : forall e, In e tls -> items_ok e
  }.

  (* raw objects that Tuple item pointers lead to do not form a cycle among themselves: a
     rank decreases along every raw -> raw item edge (no mark bit can stop that descent) *)
  Definition raw_wf : Prop :=
    exists rk : word -> nat,
      (forall p, rk p <= nraw) /\
      (forall p c q, is_raw p = true -> nget p h = Some c -> In q (item_ptrs c) ->
                     is_raw q = true -> rk q < rk p).

  (* GC_Mark_Item's prefilter never rejects a registered address (C17 owns this invariant:
     minptr/maxptr only widen in GC_Set; calloc'ed blocks + header are word aligned) *)
  Definition range_ok (minptr maxptr : N) : Prop :=
    forall p, registered rg p = true -> (p mod 8 = 0 /\ minptr <= p /\ p <= maxptr)%N.

  (* `order` = the registered addresses in slot order (any order) *)
  Definition order_ok (order : list word) : Prop :=
    NoDup order /\ forall p, In p order <-> registered rg p = true.
End Graph.

(* executable checks of the hypotheses (soundness: MarkSweepProofs.v) *)
Definition is_some {A} (o : option A) : bool := match o with Some _ => true | None => false end.

Definition items_ok_b (h : heap) (c : contents) : bool :=
  forallb (fun p => is_some (nget p h)) (item_ptrs c).

Definition wf_b (h : heap) (rg : registry) (tls : list contents) : bool :=
  forallb (fun kv => is_some (nget (Npos (fst kv)) h)) (PM.elements rg) &&
  forallb (fun kv => items_ok_b h (snd kv)) (PM.elements h) &&
  forallb (items_ok_b h) tls.

Definition rawdec_b (h : heap) (rg : registry) (rk : word -> nat) : bool :=
  forallb (fun kv => let p := Npos (fst kv) in
                     negb (is_raw h rg p) ||
                     forallb (fun q => negb (is_raw h rg q) || (rk q <? rk p)) (item_ptrs (snd kv)))
          (PM.elements h).

Definition range_b (rg : registry) (minptr maxptr : N) : bool :=
  forallb (fun kv => let p := Npos (fst kv) in ((p mod 8 =? 0) && (minptr <=? p) && (p <=? maxptr))%N)
          (PM.elements rg).

(* NoDup of a list of non-NULL words, n log n: insert one by one into a set *)
Fixpoint nodup_b (l : list word) (seen : marks) : bool :=
  match l with
  | [] => true
  | a :: r => negb (marked seen a) && nodup_b r (setmark a seen)
  end.

Definition order_b (rg : registry) (order : list word) : bool :=
  forallb (registered rg) order && nodup_b order nempty &&
  (let s := fold_right setmark nempty order in
   forallb (fun kv => marked s (Npos (fst kv))) (PM.elements rg)).

(* kinds of objects the correspondence harness builds, and their contents *)
Inductive kind := KStruct | KRef | KBox | KArray | KList | KTable | KTree | KTuple | KLeaf.

Definition mk_contents (k : kind) (ptrs : list word) : contents :=
  match k with
  | KStruct | KRef | KBox => Words ptrs
  | KArray | KList => Elems (map (fun p => Words [p]) ptrs)                  (* embedded Ref *)
  | KTable | KTree => Elems (flat_map (fun p => [NoPtr; Words [p]]) ptrs)     (* Int key, Ref value *)
  | KTuple => Items ptrs
  | KLeaf => NoPtr
  end.

(* the thread's TLS Table (String -> Ref): keys are leaves, values embedded Refs *)
Definition mk_tls (vals : list word) : list contents :=
  flat_map (fun p => [NoPtr; Words [p]]) vals.
