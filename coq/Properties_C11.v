(* Properties_C11.v — property C11: iteration agrees with len and get, forwards and backwards,
   for views too.  Only statements closed by `exact`, each followed by Print Assumptions; one
   Example of non-vacuity per theorem with hypotheses.  All theorems are about the model
   coq/IterModel.v with the rules [repaired]; theorem 1 ties [repaired] to the C source.

   Reading guide.  [walk R f d cut u] is foreach over [u] (d = Fwd: iter_init/iter_next, Bwd:
   iter_last/iter_prev), cut off after [cut] items, [f] = fuel of Filter's while(true) loops.  Its
   result (items, WDone) means Terminal was reached; WCrash = a cursor step or read outside the
   underlying storage; WRunaway = cut off.  [wb f u cvs]: u is well-behaved with cursor chain cvs
   (IterProofs.v).  [iterates f u vs]: for every cut > length vs the forward walk yields exactly vs
   and the backward walk rev vs.  [lg u vs]: len u = length vs and get u i = i-th of vs. *)
From Coq Require Import List ZArith Bool.
From CelloV Require Import Generated IterModel IterSource IterProofs.
Import ListNotations.
Local Open Scope Z_scope.

(* 1. The variant of the model selected by the C source of the working tree (flags and function
      texts re-read by tools/genx_iter.py on every run) is the repaired one. *)
Theorem source_is_the_repaired_code : source_rules = repaired /\ source_shapes_ok = true.
Proof. exact (conj IterProofs.source_rules_repaired IterProofs.source_shapes). Qed.
Print Assumptions source_is_the_repaired_code.

(*    Range_Iter_Last is TRANSLATED, not matched: the two expressions it assigns to i->val (Generated.v, every int64
      operation under wrap64, whatever their form in the source) are, for every range in the box, the model's
      first + step*(len-1). *)
Theorem source_range_last_is_the_models : forall r, in_box r -> 0 < range_count r ->
  (0 < r_step r -> iter_range_last_pos wrap64 (r_start r) (r_stop r) (r_step r) (range_count r) = range_val r (range_count r - 1)) /\
  (r_step r < 0 -> iter_range_last_neg wrap64 (r_start r) (r_stop r) (r_step r) (range_count r) = range_val r (range_count r - 1)).
Proof. exact IterProofs.source_range_last_ok. Qed.
Print Assumptions source_range_last_is_the_models.

(* 2. Forward iteration over a well-behaved iterable ends with Terminal after exactly the items of
      its chain, backward iteration yields the same items in reverse order. *)
Theorem well_behaved_iterates : forall f u cvs, wb f u cvs -> iterates f u (map snd cvs).
Proof. exact IterProofs.wb_iterates. Qed.
Print Assumptions well_behaved_iterates.
Example well_behaved_iterates_nonvacuous : wb 3 (IArray [VInt 7; VInt 8]) (chain_from 0 [VInt 7; VInt 8]).
Proof. exact (IterProofs.wb_array 3 [VInt 7; VInt 8]). Qed.

(* 3. ... and no walk over a well-behaved iterable, however early it is cut off, ever steps or reads
      outside the underlying storage, raises, or runs out of fuel ("never reads outside"). *)
Theorem well_behaved_never_outside : forall f u cvs d cut, wb f u cvs ->
  snd (walk repaired f d cut u) = WDone \/ snd (walk repaired f d cut u) = WRunaway.
Proof. exact IterProofs.walk_safe. Qed.
Print Assumptions well_behaved_never_outside.

(* 4. Array (repaired Array_Iter_Prev), List: forward = the elements = [get 0 .. get (len-1)],
      backward = reverse, len = number of elements.  Every length, including 0. *)
Theorem array_iteration : forall f xs, iterates f (IArray xs) xs /\ lg (IArray xs) xs.
Proof. exact IterProofs.array_summary. Qed.
Print Assumptions array_iteration.
Theorem list_iteration : forall f xs, iterates f (IList xs) xs /\ lg (IList xs) xs.
Proof. exact IterProofs.list_summary. Qed.
Print Assumptions list_iteration.
(* Tree: iter_init/next/last/prev follow child and parent links as Tree_Iter_Init, Next, Last, Prev do; over EVERY binary tree shape
   (so whatever the red-black balancing of C03 does) the walk visits the nodes in in-order sequence,
   backward = reverse, len = number of nodes.  (Keyed get: not positional.) *)
Theorem tree_iteration : forall f T,
  iterates f (ITree T) (inorder T) /\ it_len repaired (ITree T) = OVal (zlen (inorder T)).
Proof. exact IterProofs.tree_summary. Qed.
Print Assumptions tree_iteration.
(* Tuple of DISTINCT objects (cursor = the element pointer; NoDup excludes open finding F3, see 8.) *)
Theorem tuple_iteration : forall f (items : list (nat * val)), NoDup (map fst items) ->
  iterates f (ITuple items) (map snd items) /\ lg (ITuple items) (map snd items).
Proof. exact IterProofs.tuple_summary. Qed.
Print Assumptions tuple_iteration.
Example tuple_iteration_nonvacuous : NoDup (map fst [(0%nat, VInt 5); (1%nat, VInt 5); (2%nat, VInt 7)]).
Proof. repeat constructor; cbn; intuition discriminate. Qed.
(* Table: the slot scan of Table_Iter_Init/Next/Last/Prev over ANY slot occupancy (fuel nslots+1 is
   adequate): the keys of the occupied slots in slot order, backward = reverse, len = their number *)
Theorem table_iteration : forall f slots,
  iterates f (ITable slots) (map snd (tab_chain_from 0 slots)) /\
  it_len repaired (ITable slots) = OVal (zlen (tab_chain_from 0 slots)) /\
  (forall k, In k (map snd (tab_chain_from 0 slots)) <-> In (Some k) slots).
Proof. exact IterProofs.table_summary. Qed.
Print Assumptions table_iteration.

(* 5. Range, for ALL start/stop/step of either sign with step <> 0 and |.| < 2^62 (in_box; inside
      that box no int64 operation of the code wraps, which is part of the proof): the walk yields
      range_elems r = [range_val r 0; ..; range_val r (count-1)] where range_val r i = start + step*i
      (step > 0) resp. stop-1 + step*i (step < 0); these are exactly the values of that progression
      inside [start, stop); len = count, get i = i-th, backward = reverse. *)
Theorem range_iteration : forall f r, in_box r ->
  iterates f (IRange r) (map VInt (range_elems r)) /\ lg (IRange r) (map VInt (range_elems r)) /\
  length (range_elems r) = Z.to_nat (range_count r) /\
  (forall i, (i < Z.to_nat (range_count r))%nat -> nth_error (range_elems r) i = Some (range_val r (Z.of_nat i))) /\
  (forall i, 0 <= i < range_count r -> r_start r <= range_val r i < r_stop r) /\
  (forall i, range_count r <= i ->
     if 0 <? r_step r then r_stop r <= range_val r i else range_val r i < r_start r).
Proof. exact IterProofs.range_summary. Qed.
Print Assumptions range_iteration.
Example range_iteration_nonvacuous :
  in_box (mkRng 0 10 4) /\ in_box (mkRng (-7) 9 (-3)) /\
  range_elems (mkRng 0 10 4) = [0; 4; 8] /\ range_elems (mkRng (-7) 9 (-3)) = [8; 5; 2; -1; -4; -7] /\
  range_elems (mkRng 5 0 1) = [] /\ range_elems (mkRng 0 0 2) = [].
Proof. unfold in_box, box. cbn. repeat split; try reflexivity; try discriminate. Qed.

(* Range_Get with any int64 key: the negative keys -len .. -1 count from the end, everything outside
   [-len, len) raises IndexOutOfBoundsError (also C12) *)
Theorem range_get_total : forall r key, in_box r -> - two63 <= key < two63 ->
  range_get repaired r key =
  let i := if key <? 0 then range_count r + key else key in
  if (0 <=? i) && (i <? range_count r) then OVal (range_val r i) else ORaise EIndex.
Proof. exact IterProofs.range_get_ok. Qed.
Print Assumptions range_get_total.

(* 6. Views over ANY well-behaved underlying iterable u (hence over other views: the results
      compose to every nesting depth).
      Map: the images in order. *)
Theorem map_view : forall f u cvs g, wb f u cvs ->
  wb f (IMap g u) (map_chain g cvs) /\ map snd (map_chain g cvs) = map g (map snd cvs).
Proof. exact IterProofs.map_summary. Qed.
Print Assumptions map_view.
Theorem map_len_get : forall g u vs, lg u vs -> lg (IMap g u) (map g vs).
Proof. exact IterProofs.lg_map. Qed.
Print Assumptions map_len_get.

(*    Filter: the accepted elements (List.filter); fuel adequacy: length of the underlying chain. *)
Theorem filter_view : forall f u cvs p, wb f u cvs -> (length cvs <= f)%nat ->
  wb f (IFilter p u) (filter (acc_of p) cvs) /\
  map snd (filter (acc_of p) cvs) = filter (fun v => is_some (p v)) (map snd cvs).
Proof. exact IterProofs.filter_summary. Qed.
Print Assumptions filter_view.
(*    A predicate answers with an OBJECT (None = NULL = reject); only NULL / non-NULL matters: predicates that accept
      the same items give the same chain, made of the underlying iterable's own cursors and items (identity), so Filter
      yields exactly the accepted ELEMENTS in order whatever object the predicate answers with. *)
Theorem filter_yields_the_elements : forall f u cvs p q, wb f u cvs -> (length cvs <= f)%nat ->
  (forall v, is_some (p v) = is_some (q v)) ->
  filter (acc_of p) cvs = filter (acc_of q) cvs /\
  wb f (IFilter p u) (filter (acc_of q) cvs) /\
  (forall i c v, nth_error (filter (acc_of p) cvs) i = Some (c, v) -> In (c, v) cvs).
Proof. exact IterProofs.filter_answer_irrelevant. Qed.
Print Assumptions filter_yields_the_elements.
Example filter_yields_the_elements_nonvacuous :
  (forall v, is_some (pred_of 6 v) = is_some (pred_of 2 v)) /\ pred_of 6 (VObj 3 4) = Some flag_obj /\ pred_of 2 (VObj 3 4) = Some (VObj 3 4).
Proof. split; [|split; reflexivity]. intros v. unfold pred_of. now destruct (Z.rem (vkey v) 2 =? 0)%Z. Qed.
Example filter_view_nonvacuous :
  wb 4 (IRange (mkRng 0 4 1)) (range_chain (mkRng 0 4 1)) /\ (length (range_chain (mkRng 0 4 1)) <= 4)%nat.
Proof.
  split; [apply IterProofs.wb_range; unfold in_box, box; cbn; repeat split; try reflexivity; discriminate | cbn; repeat constructor].
Qed.

(*    Slice (as repaired): the items at the positions start, start+step, .. below stop, for a negative
      step stop-1, stop-1+step, .. not below start ([slice_sel]); slice_ok is what slice_stack
      establishes (theorem slice_stack_clamps).  The walk never leaves the underlying chain. *)
Theorem slice_view : forall f u cvs r, wb f u cvs -> it_len repaired u = OVal (zlen cvs) -> slice_ok r (zlen cvs) ->
  wb f (ISlice u r) (slice_chain r cvs) /\
  map snd (slice_chain r cvs) = slice_sel r (map snd cvs) /\
  it_len repaired (ISlice u r) = OVal (zlen (slice_chain r cvs)).
Proof. exact IterProofs.slice_summary. Qed.
Print Assumptions slice_view.
Example slice_view_nonvacuous :
  let xs := map VInt [1; 2; 3; 4; 5; 6; 7] in
  slice_ok (mkRng 1 6 (-3)) (zlen (chain_from 0 xs)) /\ slice_sel (mkRng 1 6 (-3)) xs = map VInt [6; 3] /\
  slice_ok (mkRng 0 7 4) (zlen (chain_from 0 xs)) /\ slice_sel (mkRng 0 7 4) xs = map VInt [1; 5].
Proof. unfold slice_ok, in_box, box. cbn. repeat split; try reflexivity; try discriminate. Qed.
Theorem slice_len_get : forall u vs r, lg u vs -> slice_ok r (zlen vs) -> lg (ISlice u r) (slice_sel r vs).
Proof. exact IterProofs.lg_slice. Qed.
Print Assumptions slice_len_get.

(*    No look-ahead: once the Slice's own Range cursor is exhausted (or the selection is empty) the Slice answers Terminal
      without ANY call on its input - for every input u, well-behaved or not.  (Between two selected positions it takes
      exactly |step| steps, all inside the chain: slice_view.)  The correspondence observes this through a probe. *)
Theorem slice_touches_nothing_beyond : forall f d u r,
  (forall c rv, ostep d r rv = None -> it_step repaired f d (ISlice u r) (CSlice c rv) = OVal None) /\
  (ostart repaired d r = None -> it_start repaired f d (ISlice u r) = OVal None).
Proof. exact (fun f d u r => conj (fun c rv => IterProofs.slice_exhausted_touches_nothing f d u r c rv) (IterProofs.slice_empty_touches_nothing f d u r)). Qed.
Print Assumptions slice_touches_nothing_beyond.

(*    slice_stack: omitted / negative-from-end / beyond-the-ends arguments are clamped into [0, n]
      (signed clamp, as repaired), so the Slice's range satisfies slice_ok. *)
Theorem slice_stack_clamps : forall u n args, it_len repaired u = OVal n -> 0 <= n < box -> (length args <= 3)%nat ->
  Forall (fun a => match a with Some x => - box < x < box | None => True end) args ->
  mk_slice repaired u args = OVal (ISlice u (slice_range n args)).
Proof. exact IterProofs.mk_slice_ok. Qed.
Print Assumptions slice_stack_clamps.
Theorem slice_stack_range_ok : forall n args, 0 <= n < box ->
  match args with
  | _ :: _ :: Some c :: _ => - box < c < box /\ c <> 0
  | _ => True
  end -> slice_ok (slice_range n args) n.
Proof. exact IterProofs.slice_range_ok. Qed.
Print Assumptions slice_stack_range_ok.
Example slice_stack_nonvacuous :
  slice_range 3 [Some (-100); None] = mkRng 0 3 1 /\ slice_range 6 [None; None; Some (-1)] = mkRng 0 6 (-1) /\
  slice_range 6 [Some (-2); Some 100; Some 2] = mkRng 4 6 2.
Proof. cbn. repeat split. Qed.

(*    Zip (with the repaired Zip_Iter_Last): tuples up to the shortest input, all arities >= 1 ... *)
Theorem zip_view : forall f us css, us <> [] ->
  Forall2 (wb f) us css -> Forall2 (fun u l => item_len_of f u = OVal (zlen l)) us css ->
  wb f (IZip us) (zip_chain css) /\
  length (zip_chain css) = minlen css /\
  (forall j, (j < minlen css)%nat ->
     nth_error (map snd (zip_chain css)) j = Some (VTup (map (fun l => nth j (map snd l) dv) css))).
Proof. exact IterProofs.zip_summary. Qed.
Print Assumptions zip_view.
(*    ... where an input's item count is its len if it implements Len, else a forward count *)
Theorem zip_item_len : forall f u cvs, wb f u cvs -> (length cvs <= f)%nat ->
  (implements_len u = true -> it_len repaired u = OVal (zlen cvs)) -> item_len_of f u = OVal (zlen cvs).
Proof. exact IterProofs.item_len_ok. Qed.
Print Assumptions zip_item_len.
(*    ... and the Zip of no inputs is empty *)
Theorem zip_of_nothing : forall f, wb f (IZip []) [].
Proof. exact IterProofs.wb_zip_nil. Qed.
Print Assumptions zip_of_nothing.
Example zip_view_nonvacuous :
  let a := map VInt [1; 2; 3] in let b := map VInt [7; 8] in
  Forall2 (wb 5) [IArray a; IList b] [chain_from 0 a; chain_from 0 b] /\
  Forall2 (fun u l => item_len_of 5 u = OVal (zlen l)) [IArray a; IList b] [chain_from 0 a; chain_from 0 b] /\
  map snd (zip_chain [chain_from 0 a; chain_from 0 b]) = [VTup (map VInt [1; 7]); VTup (map VInt [2; 8])].
Proof.
  cbn zeta. split; [|split].
  - constructor; [apply IterProofs.wb_array|]. constructor; [apply IterProofs.wb_list|]. constructor.
  - constructor; [reflexivity|]. constructor; [reflexivity|]. constructor.
  - reflexivity.
Qed.

(*    Zip len = length of the shortest input, get i = the tuple of the inputs' get i *)
Theorem zip_len_get : forall us vss, us <> [] -> Forall2 lg us vss -> lg (IZip us) (zip_rows vss).
Proof. exact IterProofs.lg_zip. Qed.
Print Assumptions zip_len_get.
Example zip_len_get_nonvacuous :
  Forall2 lg [IArray (vi [1; 2; 3]); IList (vi [7; 8])] [vi [1; 2; 3]; vi [7; 8]] /\
  zip_rows [vi [1; 2; 3]; vi [7; 8]] = [VTup (vi [1; 7]); VTup (vi [2; 8])].
Proof.
  split; [|reflexivity]. constructor; [apply IterProofs.lg_array|]. constructor; [apply IterProofs.lg_list|]. constructor.
Qed.

(*    reverse(I) = slice(I, _, _, -1) yields the items of I in reverse order *)
Theorem reverse_view : forall f u cvs, wb f u cvs -> it_len repaired u = OVal (zlen cvs) -> zlen cvs < box ->
  exists s, mk_reverse repaired u = OVal s /\ iterates f s (rev (map snd cvs)).
Proof. exact IterProofs.reverse_summary. Qed.
Print Assumptions reverse_view.

(*    enumerate(I) = zip(range(0, len I), I) yields the pairs (i, i-th item of I) *)
Theorem enumerate_view : forall f u cvs, wb f u cvs -> it_len repaired u = OVal (zlen cvs) ->
  item_len_of f u = OVal (zlen cvs) -> zlen cvs < box ->
  exists s ch, mk_enumerate repaired u = OVal s /\ wb f s ch /\ length ch = length cvs /\
    forall j, (j < length cvs)%nat ->
      nth_error (map snd ch) j = Some (VTup [VInt (Z.of_nat j); nth j (map snd cvs) dv]).
Proof. exact IterProofs.enumerate_summary. Qed.
Print Assumptions enumerate_view.

(*    Composition to depth 3 over an arbitrary well-behaved u (itself possibly a view). *)
Theorem nested_views_compose : forall f u cvs r g p,
  wb f u cvs -> it_len repaired u = OVal (zlen cvs) -> slice_ok r (zlen cvs) -> (length cvs <= f)%nat ->
  iterates f (IFilter p (IMap g (ISlice u r))) (filter (fun v => is_some (p v)) (map g (slice_sel r (map snd cvs)))).
Proof. exact IterProofs.nested_views. Qed.
Print Assumptions nested_views_compose.

(*    The hypotheses of reverse_view, enumerate_view and nested_views_compose hold together, e.g. for an
      Array of six items and the range (0, 6, 2); and a view of a view satisfies them again (composition). *)
Example views_hypotheses_nonvacuous :
  let xs := map VInt [1; 2; 3; 4; 5; 6] in let u := IArray xs in let cvs := chain_from 0 xs in
  wb 6 u cvs /\ it_len repaired u = OVal (zlen cvs) /\ item_len_of 6 u = OVal (zlen cvs) /\ zlen cvs < box /\
  slice_ok (mkRng 0 6 2) (zlen cvs) /\ (length cvs <= 6)%nat /\
  wb 6 (IMap (fun_of 1) (ISlice u (mkRng 0 6 2))) (map_chain (fun_of 1) (slice_chain (mkRng 0 6 2) cvs)) /\
  map snd (map_chain (fun_of 1) (slice_chain (mkRng 0 6 2) cvs)) = map VInt [101; 103; 105].
Proof.
  cbn zeta.
  assert (Hok : slice_ok (mkRng 0 6 2) (zlen (chain_from 0 (map VInt [1; 2; 3; 4; 5; 6]))))
    by (unfold slice_ok, in_box, box; cbn; repeat split; try reflexivity; discriminate).
  split; [apply IterProofs.wb_array|]. split; [reflexivity|]. split; [reflexivity|]. split; [reflexivity|].
  split; [exact Hok|]. split; [cbn; repeat constructor|]. split; [|reflexivity].
  apply IterProofs.wb_map, IterProofs.wb_slice; [apply IterProofs.wb_array | reflexivity | exact Hok].
Qed.

(* 7. The pre-repair texts are refuted (one rules record per defect, everything else repaired). *)
Theorem array_prev_refuted : exists xs, snd (walk pre_D9 10 Bwd 10 (IArray xs)) = WCrash.
Proof. exact IterProofs.array_prev_refuted. Qed.
Print Assumptions array_prev_refuted.
Theorem tuple_last_refuted : it_start pre_D10 5 Bwd (ITuple []) = OCrash.
Proof. exact IterProofs.tuple_last_refuted. Qed.
Print Assumptions tuple_last_refuted.
Theorem range_len_refuted :
  range_len pre_D11len (mkRng 0 0 2) = 1 /\ range_len pre_D11len (mkRng 5 0 1) = -5 /\
  fst (walk pre_D11len 5 Fwd 9 (IRange (mkRng 0 0 2))) = [].
Proof. exact IterProofs.range_len_refuted. Qed.
Print Assumptions range_len_refuted.
Theorem range_last_refuted :
  walk pre_D11last 5 Fwd 9 (IRange (mkRng 0 10 4)) = (vi [0; 4; 8], WDone) /\
  walk pre_D11last 5 Bwd 9 (IRange (mkRng 0 10 4)) = (vi [9; 5; 1], WDone).
Proof. exact IterProofs.range_last_refuted. Qed.
Print Assumptions range_last_refuted.
Theorem range_get_refuted :
  range_get pre_D11get (mkRng 0 10 1) (-11) = OVal (-1) /\
  range_get pre_D11get (mkRng 0 10 2) 9223372036854775807 = OVal (-2).
Proof. exact IterProofs.range_get_refuted. Qed.
Print Assumptions range_get_refuted.
Theorem slice_arg_refuted : slice_arg pre_D12arg 0 3 (Some (-100)) = 3.
Proof. exact IterProofs.slice_arg_refuted. Qed.
Print Assumptions slice_arg_refuted.
Theorem slice_walk_refuted :
  walk pre_D12walk 5 Fwd 9 (ISlice (IArray (vi [1; 2; 3; 4; 5; 6])) (mkRng 0 2 1)) = (vi [1; 2; 3; 4; 5; 6], WDone) /\
  snd (walk pre_D12walk 5 Fwd 9 (ISlice (IArray (vi [1; 2; 3; 4; 5; 6])) (mkRng 0 6 4))) = WCrash.
Proof. exact IterProofs.slice_walk_refuted. Qed.
Print Assumptions slice_walk_refuted.
Theorem zip_last_refuted :
  walk pre_F4 5 Bwd 9 (IZip [IArray (vi [1; 2; 3]); IList (vi [7; 8])]) =
  ([VTup (vi [3; 8]); VTup (vi [2; 7])], WDone).
Proof. exact IterProofs.zip_last_refuted. Qed.
Print Assumptions zip_last_refuted.

(* 8. Open finding F3 (signature tuple-repeated-pointer): with the Tuple cursor being the element
      pointer, a Tuple holding the same object twice never finishes its forward walk, whatever the
      fuel and the cut-off.  (The positive Tuple theorem below therefore needs NoDup.) *)
Theorem tuple_repeated_pointer_refuted : forall f cut x y z,
  snd (walk repaired f Fwd cut (ITuple [(0%nat, x); (1%nat, y); (0%nat, x); (2%nat, z)])) = WRunaway.
Proof. exact IterProofs.tuple_repeated_pointer_refuted. Qed.
Print Assumptions tuple_repeated_pointer_refuted.

(* 9. Open finding range-int64-overflow: the box of theorem 5 cannot simply be dropped. *)
Theorem range_overflow_refuted :
  snd (walk repaired 5 Fwd 40 (IRange (mkRng 0 9223372036854775807 4611686018427387904))) = WRunaway /\
  range_len repaired (mkRng (-9223372036854775808) 9223372036854775807 4611686018427387904) = 1.
Proof. exact IterProofs.range_overflow_refuted. Qed.
Print Assumptions range_overflow_refuted.
