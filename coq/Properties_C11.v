(* Properties_C11.v — property C11: iteration agrees with len and get, forwards and backwards,
   for views too.  Only statements closed by `exact`, each followed by Print Assumptions. *)
From CelloV Require Import Generated IterModel IterSource IterProofs.

(* The variant of the model selected by the C source (flags re-read by tools/genx_iter.py) is the
   repaired one: every theorem below is about [repaired]. *)
Theorem source_is_the_repaired_code : source_rules = repaired /\ source_shapes_ok = true.
Proof. exact (conj IterProofs.source_rules_repaired IterProofs.source_shapes). Qed.
Print Assumptions source_is_the_repaired_code.
