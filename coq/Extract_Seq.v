(* Extraction of the sequence models (Array, List, Tuple) and their list specification for the
   correspondence driver.  ExtrOcamlBasic only; numbers stay extracted inductives.
   Elements are pairs (identity, value): the value is what the C harness stores in an Int,
   the identity stands for the address of the element object (Tuple stores pointers and
   iterates by pointer identity; Array and List copy values and ignore it). *)
From Coq Require Import List Arith NArith ZArith Extraction ExtrOcamlBasic.
From CelloV Require Import Generated TableModel SeqModels SeqCmps.

Definition zs_op := sop elt.
Definition zs_out := out elt.

Definition za_new : list elt -> array elt := a_new elt.
(* k selects the comparison handed to sort_by (SeqCmps.e_cmp); 0 = lt = plain sort *)
Definition za_step (k : nat) := a_step elt e_eqb (e_cmp k) array_grow_cond array_shrink_cond array_grow_size array_shrink_size.
Definition za_iter := a_iter elt.
Definition za_nitems (a : array elt) := nitems elt a.
Definition za_nslots (a : array elt) := nslots elt a.

Definition zl_new : list elt -> llist elt := l_new elt.
Definition zl_step := l_step elt e_eqb e_zero.
Definition zl_iter := l_iter elt.
Definition zl_nitems (l : llist elt) := lnitems elt l.

Definition zt_new : list elt -> bool -> tuple elt := t_new elt.
Definition zt_step (k : nat) := t_step elt e_eqb (e_cmp k) e_same.
Definition zt_iter := t_iter elt e_same.
Definition zt_iter_fuel := t_iter_fuel elt e_same.
Definition zt_len := t_len elt.
Definition zt_raw (its : list (titem elt)) (heap : bool) : tuple elt := mkTu elt its heap.

Definition zspec_step (k : nat) := spec_step elt e_eqb (e_cmp k) e_zero.
Definition zcmp_in_contract := cmp_in_contract.
Definition zspec_in_range := in_range elt e_eqb.
Definition z_ltb := Z.ltb.
Definition z_to_n := Z.to_N.      (* conv.ml.inc needs the type N *)

Extraction Language OCaml.
Extraction "../ocaml/gen/Seq.ml" za_new za_step za_iter za_nitems za_nslots
  zl_new zl_step zl_iter zl_nitems zt_new zt_step zt_iter zt_iter_fuel zt_len zt_raw
  zspec_step zspec_in_range zcmp_in_contract z_ltb z_to_n.
