(* Properties_C10.v — property C10: equal values hash equally; hash is a function of the value;
   copy / assign give equal values; swap exchanges.  Only statements closed by `exact`, each followed
   by Print Assumptions.  hash_m, hash_r, hash_seed, hash_tail_shape, float_hash_shape, float_cmp_form,
   memswap_plan, table_cmp_by_lookup, table_swap, table_primes, table_load_* come from Generated.v,
   re-extracted from the C source on every run.  The theorems hold for every admissible value of these
   parameters (the side conditions fh_normalising float_hash_shape = true, plan_ok memswap_plan = true,
   table_cmp_by_lookup = true are discharged by computation, `eq_refl`): if Float_Hash or Table_Cmp go
   back to their pinned shape, or memswap gets a loop structure that does not cover every byte once,
   the statements below no longer type-check against the lemmas. *)
From CelloV Require Import Generated RobinHood TableModel TableProofs HashModel HashFloat HashProofs HashTable.

(* eq(a,b) implies hash(a) = hash(b): all well-formed values (int64, non-NaN doubles, strings, types,
   Ref/Box, plain structs, Array/List/Tuple/Table/Tree of them, nested, across kinds) *)
Theorem eq_implies_equal_hash : forall a b : value,
  v_wf a = true -> v_wf b = true ->
  v_cmp table_cmp_by_lookup a b = Some 0%Z ->
  v_hash (hash_data hash_m hash_r hash_seed hash_tail_shape) float_hash_shape a =
  v_hash (hash_data hash_m hash_r hash_seed hash_tail_shape) float_hash_shape b.
Proof. exact (HashProofs.v_eq_hash (hash_data hash_m hash_r hash_seed hash_tail_shape) table_cmp_by_lookup float_hash_shape eq_refl). Qed.
Print Assumptions eq_implies_equal_hash.

Example eq_implies_equal_hash_nonvacuous :
  ex_a <> ex_b /\ v_wf ex_a = true /\ v_wf ex_b = true /\ v_cmp table_cmp_by_lookup ex_a ex_b = Some 0%Z.
Proof. exact (HashProofs.ex_eq_hash_nonvacuous table_cmp_by_lookup). Qed.

Example eq_implies_equal_hash_nonvacuous_float_keys :
  ex_fa <> ex_fb /\ v_wf ex_fa = true /\ v_wf ex_fb = true /\ v_cmp table_cmp_by_lookup ex_fa ex_fb = Some 0%Z.
Proof. exact HashProofs.ex_float_keys_nonvacuous. Qed.

(* the model's hashes are 64-bit words (what the C type uint64_t holds) *)
Theorem hash_is_a_64_bit_word : forall a : value,
  v_wf a = true -> (v_hash (hash_data hash_m hash_r hash_seed hash_tail_shape) float_hash_shape a < M64)%N.
Proof. exact (HashProofs.v_hash_lt (hash_data hash_m hash_r hash_seed hash_tail_shape) float_hash_shape (HashProofs.hash_data_lt hash_m hash_r hash_seed hash_tail_shape) eq_refl). Qed.
Print Assumptions hash_is_a_64_bit_word.

(* the Float clause on bit patterns: Float_Cmp = 0 on non-NaN doubles only for identical doubles
   or two zeros (Flocq binary64 subtraction, round to nearest even) *)
Theorem float_cmp_zero_only_for_equal : forall a b : N,
  (a < M64)%N -> (b < M64)%N -> f_is_nan a = false -> f_is_nan b = false ->
  float_cmp a b = 0%Z -> a = b \/ (f_is_zero a = true /\ f_is_zero b = true).
Proof. exact HashFloat.float_cmp_zero. Qed.
Print Assumptions float_cmp_zero_only_for_equal.

(* whichever of its two shapes Float_Cmp has in the source (sign of the rounded difference, or the
   operands compared directly) it is the function float_cmp of the model, on ALL pairs of doubles *)
Theorem float_cmp_form_denotes_float_cmp : forall a b : N,
  float_cmp_of_form float_cmp_form a b = float_cmp a b.
Proof. exact (HashFloat.float_cmp_forms_agree float_cmp_form). Qed.
Print Assumptions float_cmp_form_denotes_float_cmp.

Example float_cmp_zero_nonvacuous :
  (0 < M64)%N /\ f_is_nan 0 = false /\ f_is_nan 9223372036854775808 = false /\ float_cmp 0 9223372036854775808 = 0%Z.
Proof. exact HashProofs.ex_float_nonvacuous. Qed.

(* cmp(a,a) = 0 — what makes copies and self-lookups equal (inf - inf = NaN included) *)
Theorem cmp_reflexive : forall a : value,
  v_wf a = true -> v_cmp table_cmp_by_lookup a a = Some 0%Z.
Proof. exact (HashProofs.v_cmp_refl table_cmp_by_lookup). Qed.
Print Assumptions cmp_reflexive.

(* copy(a): exists for everything but Type objects, is eq to a both ways and hashes the same *)
Theorem copy_is_eq_and_hashes_equal : forall a c : value,
  v_wf a = true -> v_copy a = Some c ->
  v_cmp table_cmp_by_lookup c a = Some 0%Z /\ v_cmp table_cmp_by_lookup a c = Some 0%Z /\
  v_hash (hash_data hash_m hash_r hash_seed hash_tail_shape) float_hash_shape c =
  v_hash (hash_data hash_m hash_r hash_seed hash_tail_shape) float_hash_shape a.
Proof. exact (HashProofs.copy_eq_hash (hash_data hash_m hash_r hash_seed hash_tail_shape) table_cmp_by_lookup float_hash_shape). Qed.
Print Assumptions copy_is_eq_and_hashes_equal.

Example copy_nonvacuous : v_wf (VMap KTable ex_m) = true /\ v_copy (VMap KTable ex_m) = Some (VMap KTable ex_m).
Proof. exact HashProofs.ex_copy_nonvacuous. Qed.

(* assign(dst, src): the new dst hashes like src and is eq to it (a Box assigned from a Ref, or a Ref
   from a Box, holds the same address but the two types cannot be compared) *)
Theorem assign_is_eq_and_hashes_equal : forall dst src y : value,
  v_wf src = true -> v_assign dst src = Some y ->
  v_hash (hash_data hash_m hash_r hash_seed hash_tail_shape) float_hash_shape y =
  v_hash (hash_data hash_m hash_r hash_seed hash_tail_shape) float_hash_shape src /\
  (v_cmp table_cmp_by_lookup y src = Some 0%Z \/
   exists p, (y = VBox p /\ src = VRef p) \/ (y = VRef p /\ src = VBox p)).
Proof. exact (HashProofs.assign_eq_hash (hash_data hash_m hash_r hash_seed hash_tail_shape) table_cmp_by_lookup float_hash_shape). Qed.
Print Assumptions assign_is_eq_and_hashes_equal.

Example assign_nonvacuous :
  v_wf ex_b = true /\ v_assign (VSeq KArray (VInt 1 :: nil)) ex_b =
    Some (VSeq KArray (VFloat 0 :: VFloat 4607182418800017408 :: VStr (72 :: 105 :: nil)%N :: nil)).
Proof. exact HashProofs.ex_assign_nonvacuous. Qed.

(* swap(a, b) on two values of the same type exchanges them (byte-wise swap of the structs) *)
Theorem swap_exchanges : forall a b a' b' : value,
  v_swap a b = Some (a', b') -> a' = b /\ b' = a.
Proof. exact HashProofs.swap_exchanges. Qed.
Print Assumptions swap_exchanges.

Example swap_nonvacuous : v_swap ex_a (VSeq KArray nil) = Some (VSeq KArray nil, ex_a).
Proof. exact HashProofs.ex_swap_nonvacuous. Qed.

(* memswap (src/Assign.c), whatever loop structure the source has: its loops are read as a plan of
   (tag, width) steps (Generated.memswap_plan); the plan exchanges every byte below s exactly once, so
   two struct images of the same size are exchanged *)
Theorem memswap_exchanges_bytes : forall a b : list N,
  length a = length b -> run_plan memswap_plan (length a) a b = (b, a).
Proof. exact (HashProofs.plan_exchanges memswap_plan eq_refl). Qed.
Print Assumptions memswap_exchanges_bytes.

Example memswap_nonvacuous :
  run_plan memswap_plan 3 (1 :: 2 :: 3 :: nil)%N (7 :: 8 :: 9 :: nil)%N = ((7 :: 8 :: 9 :: nil)%N, (1 :: 2 :: 3 :: nil)%N).
Proof. exact (eq_refl _). Qed.

(* a word step that does not advance the cursor (the byte loop then exchanges those bytes back) is
   neither accepted nor correct *)
Theorem memswap_plan_without_advance_refuted :
  plan_ok ((0, 8) :: (2, 4) :: (0, 1) :: nil) = false /\
  run_plan ((0, 8) :: (2, 4) :: (0, 1) :: nil) 4 (1 :: 2 :: 3 :: 4 :: nil)%N (5 :: 6 :: 7 :: 8 :: nil)%N
    <> ((5 :: 6 :: 7 :: 8 :: nil)%N, (1 :: 2 :: 3 :: 4 :: nil)%N).
Proof. exact HashProofs.plan_no_advance_refuted. Qed.
Print Assumptions memswap_plan_without_advance_refuted.

(* Table equality and hash do not depend on the order of the bindings (= the slot order) *)
Theorem table_eq_independent_of_slot_order : forall (k k' : mkind) (mp mp' : list (value * value)),
  v_wf (VMap KTable mp) = true -> Permutation.Permutation mp mp' ->
  v_wf (VMap k' mp') = true /\
  v_cmp table_cmp_by_lookup (VMap KTable mp) (VMap k' mp') = Some 0%Z /\
  v_hash (hash_data hash_m hash_r hash_seed hash_tail_shape) float_hash_shape (VMap k mp) =
  v_hash (hash_data hash_m hash_r hash_seed hash_tail_shape) float_hash_shape (VMap k' mp').
Proof. exact (fun k k' mp mp' => HashProofs.map_perm_eq (hash_data hash_m hash_r hash_seed hash_tail_shape) table_cmp_by_lookup float_hash_shape eq_refl k k' mp mp' eq_refl). Qed.
Print Assumptions table_eq_independent_of_slot_order.

Example table_eq_nonvacuous :
  v_wf (VMap KTable ex_m) = true /\ Permutation.Permutation ex_m ex_m' /\ ex_m <> ex_m'.
Proof. exact HashProofs.ex_map_perm_nonvacuous. Qed.

(* slot level (TableModel): Table_Assign / copy of a table that satisfies the robin-hood invariant
   yields a table with the invariant and the same bindings in some order — any key type with
   Leibniz equality, any hash function, the displacement rule and prime table of the source *)
Theorem table_copy_same_bindings : forall (K V : Type) (keq : K -> K -> bool) (hash : K -> N) (src : table K V),
  (forall a b, keq a b = true <-> a = b) ->
  tinv K V hash src ->
  exists t', t_assign_from K V keq hash table_swap table_primes table_load_num table_load_den src = Some t' /\
    tinv K V hash t' /\ Permutation.Permutation (t_iter K V t') (t_iter K V src) /\ nitems K V t' = nitems K V src.
Proof. exact HashTable.table_copy_same_bindings. Qed.
Print Assumptions table_copy_same_bindings.

Example table_copy_nonvacuous :
  exists t, tinv Z Z zt_hash t /\ t_iter Z Z t = ((3%Z, 2%Z) :: (7%Z, 1%Z) :: nil).
Proof. exact HashTable.tinv_nonvacuous. Qed.

(* both levels together for Tables keyed by Int: copy(t) is eq to t in both directions, hashes the
   same and has the same length — for every slot-array state with the invariant, every hash function *)
Theorem int_table_copy_is_eq_and_hashes_equal : forall (hash : Z -> N) (t : table Z value),
  tinv Z value hash t -> entries_wf t ->
  exists t', t_assign_from Z value Z.eqb hash table_swap table_primes table_load_num table_load_den t = Some t' /\
    v_cmp table_cmp_by_lookup (VMap KTable (emb t')) (VMap KTable (emb t)) = Some 0%Z /\
    v_cmp table_cmp_by_lookup (VMap KTable (emb t)) (VMap KTable (emb t')) = Some 0%Z /\
    v_hash (hash_data hash_m hash_r hash_seed hash_tail_shape) float_hash_shape (VMap KTable (emb t')) =
    v_hash (hash_data hash_m hash_r hash_seed hash_tail_shape) float_hash_shape (VMap KTable (emb t)) /\
    length (emb t') = length (emb t).
Proof. exact (HashTable.int_table_copy_eq_hash (hash_data hash_m hash_r hash_seed hash_tail_shape) float_hash_shape eq_refl). Qed.
Print Assumptions int_table_copy_is_eq_and_hashes_equal.

Example int_table_copy_nonvacuous :
  exists t : table Z value, tinv Z value zt_hash t /\ entries_wf t /\
    emb t = ((VInt 3, VSeq KList (VFloat 0 :: nil)) :: (VInt 7, VStr (72 :: 105 :: nil)%N) :: nil).
Proof. exact HashTable.int_table_nonvacuous. Qed.

(* ... and, with C02's refinement theorem, for EVERY construction history (set / rem / get / mem /
   resize / copy from the empty table): the hypothesis on the state disappears *)
Theorem int_table_copy_after_any_history : forall (hash : Z -> N) (ops : list (op Z value)),
  let t := T_run Z value Z.eqb hash ops in
  entries_wf t ->
  exists t', t_assign_from Z value Z.eqb hash table_swap table_primes table_load_num table_load_den t = Some t' /\
    v_cmp table_cmp_by_lookup (VMap KTable (emb t')) (VMap KTable (emb t)) = Some 0%Z /\
    v_cmp table_cmp_by_lookup (VMap KTable (emb t)) (VMap KTable (emb t')) = Some 0%Z /\
    v_hash (hash_data hash_m hash_r hash_seed hash_tail_shape) float_hash_shape (VMap KTable (emb t')) =
    v_hash (hash_data hash_m hash_r hash_seed hash_tail_shape) float_hash_shape (VMap KTable (emb t)) /\
    length (emb t') = length (emb t).
Proof. exact (HashTable.int_table_history_copy (hash_data hash_m hash_r hash_seed hash_tail_shape) float_hash_shape eq_refl). Qed.
Print Assumptions int_table_copy_after_any_history.

(* hash and eq are functions of the bindings alone: two histories (other insertion orders, removals,
   reserves, copies, even other hash functions placing the keys) that leave the same bindings leave
   tables that are eq in both directions and hash the same *)
Theorem int_table_same_bindings_eq_and_hash : forall (hash1 hash2 : Z -> N) (ops1 ops2 : list (op Z value)),
  let t1 := T_run Z value Z.eqb hash1 ops1 in
  let t2 := T_run Z value Z.eqb hash2 ops2 in
  Permutation.Permutation (spec_run Z value Z.eqb ops1 nil) (spec_run Z value Z.eqb ops2 nil) ->
  entries_wf t1 ->
  v_cmp table_cmp_by_lookup (VMap KTable (emb t1)) (VMap KTable (emb t2)) = Some 0%Z /\
  v_cmp table_cmp_by_lookup (VMap KTable (emb t2)) (VMap KTable (emb t1)) = Some 0%Z /\
  v_hash (hash_data hash_m hash_r hash_seed hash_tail_shape) float_hash_shape (VMap KTable (emb t1)) =
  v_hash (hash_data hash_m hash_r hash_seed hash_tail_shape) float_hash_shape (VMap KTable (emb t2)).
Proof. exact (HashTable.int_table_histories_eq_hash (hash_data hash_m hash_r hash_seed hash_tail_shape) float_hash_shape eq_refl). Qed.
Print Assumptions int_table_same_bindings_eq_and_hash.

Example histories_nonvacuous :
  Permutation.Permutation (spec_run Z value Z.eqb hist1 nil) (spec_run Z value Z.eqb hist2 nil) /\
  hist1 <> hist2 /\ entries_wf (T_run Z value Z.eqb zt_hash hist1).
Proof. exact HashTable.histories_nonvacuous. Qed.

(* the copy of a reachable table can list its bindings in another order (why the pinned Table_Cmp failed);
   stated for the pinned configuration (prime table prefix, load 9/10, strict rule), not for today's tuning *)
Theorem copy_changes_slot_order :
  t_iter Z Z witness_table = ((3%Z, 2%Z) :: (7%Z, 1%Z) :: nil) /\
  option_map (t_iter Z Z)
    (t_assign_from Z Z Z.eqb zt_hash pin_swap pin_primes 9%N 10%N witness_table)
  = Some ((7%Z, 1%Z) :: (3%Z, 2%Z) :: nil).
Proof. exact HashTable.copy_changes_order. Qed.
Print Assumptions copy_changes_slot_order.

(* the pinned variants are refuted *)
Theorem float_hash_raw_refuted :
  exists a b, v_wf (VFloat a) = true /\ v_wf (VFloat b) = true /\
              float_cmp a b = 0%Z /\ float_hash 0 a <> float_hash 0 b.
Proof. exact HashProofs.float_hash_raw_refuted. Qed.
Print Assumptions float_hash_raw_refuted.

Theorem table_walk_refuted :
  exists mp mp', v_wf (VMap KTable mp) = true /\ Permutation.Permutation mp mp' /\
                 v_cmp false (VMap KTable mp) (VMap KTable mp') <> Some 0%Z.
Proof. exact HashProofs.table_walk_refuted. Qed.
Print Assumptions table_walk_refuted.

(* histories of one object: a Hash instance that keeps no static state (as the source's do:
   hash_instances_stateless, string_hash_shape_ok below) returns at every call the hash of the value
   the object has at that call — whatever its address, its earlier values, the calls before *)
Theorem hash_depends_only_on_the_current_value : forall (calls : list hcall),
  run_hist unit (stateless_inst (hash_data hash_m hash_r hash_seed hash_tail_shape) float_hash_shape) tt calls =
  map (fun c => v_hash (hash_data hash_m hash_r hash_seed hash_tail_shape) float_hash_shape (hc_val c)) calls.
Proof. exact (HashProofs.stateless_history (hash_data hash_m hash_r hash_seed hash_tail_shape) float_hash_shape). Qed.
Print Assumptions hash_depends_only_on_the_current_value.

(* ... so two calls anywhere in any two histories on eq values return the same hash *)
Theorem eq_values_hash_equally_in_any_histories : forall (calls1 calls2 : list hcall) (i j : nat) (c1 c2 : hcall),
  nth_error calls1 i = Some c1 -> nth_error calls2 j = Some c2 ->
  v_wf (hc_val c1) = true -> v_wf (hc_val c2) = true ->
  v_cmp table_cmp_by_lookup (hc_val c1) (hc_val c2) = Some 0%Z ->
  nth_error (run_hist unit (stateless_inst (hash_data hash_m hash_r hash_seed hash_tail_shape) float_hash_shape) tt calls1) i =
  nth_error (run_hist unit (stateless_inst (hash_data hash_m hash_r hash_seed hash_tail_shape) float_hash_shape) tt calls2) j.
Proof. exact (HashProofs.history_eq_hash (hash_data hash_m hash_r hash_seed hash_tail_shape) table_cmp_by_lookup float_hash_shape eq_refl). Qed.
Print Assumptions eq_values_hash_equally_in_any_histories.

Example histories_of_one_object_nonvacuous :
  nth_error (mk_hcall 4096 (VStr (72 :: 105 :: nil)%N) :: mk_hcall 4096 (VStr (72 :: nil)%N) :: nil) 1
    = Some (mk_hcall 4096 (VStr (72 :: nil)%N)) /\ v_wf (VStr (72 :: nil)%N) = true.
Proof. exact (conj eq_refl eq_refl). Qed.

(* an instance that memoises the last hash by buffer address (seeded C16-r6-2) is refuted: the same
   address with the value changed in place returns the old hash *)
Theorem memoised_hash_refuted :
  exists calls, run_hist _ (memo_inst (fun d => N.of_nat (length d)) 1) None calls
                <> map (fun c => v_hash (fun d => N.of_nat (length d)) 1 (hc_val c)) calls.
Proof. exact HashProofs.memo_history_refuted. Qed.
Print Assumptions memoised_hash_refuted.

(* the code shapes the model encodes are still the ones in the source (tools/genx_hash.py): loop,
   finish of hash_data (its tail in one of the two modelled shapes); Int_Hash; the five XOR folds; swap's
   dispatch; copy = alloc + assign.  Float_Hash, Float_Cmp, memswap and Table_Cmp come as shape
   parameters (float_hash_shape, float_cmp_form, memswap_plan, table_cmp_by_lookup) used above *)
Theorem source_shapes_as_modelled :
  hash_data_shape_ok && (hash_tail_shape <=? 1) && int_hash_shape_ok && xor_fold_shape_ok
  && swap_shape_ok && copy_shape_ok && string_hash_shape_ok && hash_instances_stateless = true.
Proof. exact (eq_refl true). Qed.
Print Assumptions source_shapes_as_modelled.
