(* Properties_C10.v — property C10: equal values hash equally; copy / assign / swap.
   Only statements closed by `exact`, each followed by Print Assumptions. *)
From CelloV Require Import Generated HashModel HashProofs.

Theorem float_hash_raw_refuted :
  exists a b, v_wf (VFloat a) = true /\ v_wf (VFloat b) = true /\
              float_cmp a b = 0%Z /\ float_hash false a <> float_hash false b.
Proof. exact HashProofs.float_hash_raw_refuted. Qed.
Print Assumptions float_hash_raw_refuted.
