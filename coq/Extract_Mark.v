(* Extraction of the mark/sweep model (C01) and of the executable reachability used as the
   specification side of the correspondence.  ExtrOcamlBasic only. *)
From Coq Require Import List Bool Arith NArith ZArith Extraction ExtrOcamlBasic.
From CelloV Require Import Generated HeapGraph MarkSweep.

Definition gm_step := step gc_tls_recurses gc_mar_guarded gc_finaliser_alloc_widens gc_next_mitems.
Definition gm_next_mitems := gc_next_mitems.
Definition gm_fin_widens := gc_finaliser_alloc_widens.
Definition gm_step_with := step.                 (* explicit switches: pre-repair variants *)
Definition gm_mark (tr mg : bool) (s : state) : outcome marks :=
  mark tr mg (st_heap s) (st_reg s) (st_minptr s) (st_maxptr s)
       (fuel_of (st_heap s) (st_reg s) (st_order s)) (st_order s) (st_tls s) (st_stack s) nempty.
Definition gm_tls_recurses := gc_tls_recurses.
Definition gm_mar_guarded := gc_mar_guarded.
Definition gm_st0 := st0.
Definition gm_registered := registered.
Definition gm_marked := marked.
Definition gm_contents := mk_contents.
Definition gm_tls := mk_tls.
Definition gm_reach := reach_exec.
Definition gm_nset := @nset.
Definition gm_ndel := @ndel.
Definition gm_nempty := @nempty.
(* the hypotheses of the theorems, checked at every collection point of every generated case *)
Definition gm_hyp (s : state) (rk : word -> nat) : bool * bool * bool * bool :=
  let bound := nraw (st_heap s) (st_reg s) in
  (wf_b (st_heap s) (st_reg s) (st_tls s),
   rawdec_b (st_heap s) (st_reg s) rk &&
     forallb (fun p => Nat.leb (rk p) bound) (nkeys (st_heap s)),
   range_b (st_reg s) (st_minptr s) (st_maxptr s),
   order_b (st_reg s) (st_order s)).
(* specification side: a state over the heap in which nothing was ever collected; by mark_exact the
   marks of `mark true true` on it are exactly registered /\ (root-flagged \/ reachable) *)
Definition gm_full_state (hp : heap) (rg : registry) (order : list word) (tls : list contents)
    (stack : list word) : state :=
  {| st_heap := hp; st_reg := rg; st_order := order; st_nitems := 0%N; st_mitems := 0%N;
     st_minptr := fold_right N.min 18446744073709551615%N order;
     st_maxptr := fold_right N.max 0%N order;
     st_tls := tls; st_stack := stack |}.
Definition gm_z_of_n := Z.of_N.      (* conv.ml.inc refers to the extracted type z *)

Extraction Language OCaml.
Extraction "../ocaml/gen/Mark.ml" gm_step gm_fin_widens gm_next_mitems gm_step_with gm_mark gm_tls_recurses gm_mar_guarded gm_st0
  gm_registered gm_marked gm_contents gm_tls gm_reach gm_nset gm_ndel gm_nempty gm_hyp gm_full_state gm_z_of_n.
