(* RegistryModel.v — executable model of the registry part of src/GC.c on top of the generic
   robin-hood slot array of RobinHood.v (property C17).

   Registry entry = struct GCEntry { ptr, hash, root, marked }: the stored `hash` word
   (home slot + 1, 0 = empty) is the `home` component of RobinHood.slot.
   Addresses are numbers (N); the address -> hash function `hashf` (GC_Hash: ptr >> 3) is a
   Section variable and is arbitrary in every theorem.
   The destructor of an object may delete other objects (a Box deletes the object it owns):
   `owns q` lists what q's destructor hands to `del`, in order — this is what makes
   "removals while a sweep is in progress" happen (GC_Rem called from GC_Sweep's finaliser
   loop, or from GC_Rem_Ptr's own dealloc(destruct(..))).
   Every change of the registered set is recorded in an event log `evs` (most recent first):
   the specification of C17 is a function of that log only (`led`, `led_list`).
   Loops = structural recursion on fuel, None = fuel exhausted.
   MODEL ONLY: no proofs in this file. *)
From Coq Require Import List Arith Bool NArith.
From CelloV Require Import Generated RobinHood.
Import ListNotations.

Record gentry := mkE { ptr : N; root : bool; marked : bool }.

Notation gslot := (slot gentry).

(* what happened to the registered set, and which finalisers ran *)
Inductive event :=
| EvAlloc (p : N) (r : bool)   (* GC_Set registered p with root flag r *)
| EvRem (p : N)                (* GC_Rem(p) was issued while the collector was running *)
| EvReclaim (p : N)            (* GC_Sweep took p out of the table (unmarked, not a root) *)
| EvFin (p : N)                (* dealloc(destruct(p)) ran *)
| EvSpawn (p : N) (r : bool)   (* GC_Set registered p, called from a destructor *)
| EvViol.                      (* ghost: the run left the scope of the model (see spawn_set) *)

(* what a destructor may allocate, after its deletions and in list order: an object that stays
   (alloc / alloc_root), or a temporary that it deletes at once (`var t = alloc(T); ... del(t);`) *)
Inductive dact :=
| DSpawn (p : N) (r : bool)
| DTemp (p : N) (r : bool).

Definition dact_pair (a : dact) : N * bool :=
  match a with DSpawn p r => (p, r) | DTemp p r => (p, r) end.

(* ------------------------------------------------------------------ specification *)
(* the set of (address, root flag) that are "allocated and neither deleted nor reclaimed"
   according to a log (head = most recent event) *)
Fixpoint led (l : list event) (q : N) (s : bool) : Prop :=
  match l with
  | [] => False
  | EvAlloc p r :: t => (q = p /\ s = r) \/ led t q s
  | EvRem p :: t => led t q s /\ q <> p
  | EvReclaim p :: t => led t q s /\ q <> p
  | EvFin _ :: t => led t q s
  | EvSpawn p r :: t => (q = p /\ s = r) \/ led t q s
  | EvViol :: t => led t q s
  end.

(* executable form, used by the correspondence driver as the oracle *)
Definition drop_ptr (p : N) (l : list (N * bool)) : list (N * bool) :=
  filter (fun x => negb (N.eqb (fst x) p)) l.

(* one event applied to the executable ledger (the driver folds it over the implementation's events) *)
Definition led_step (e : event) (acc : list (N * bool)) : list (N * bool) :=
  match e with
  | EvAlloc p r => (p, r) :: acc
  | EvSpawn p r => (p, r) :: acc
  | EvRem p => drop_ptr p acc
  | EvReclaim p => drop_ptr p acc
  | EvFin _ => acc
  | EvViol => acc
  end.

Fixpoint led_list (l : list event) : list (N * bool) :=
  match l with
  | [] => []
  | e :: t => led_step e (led_list t)
  end.

(* ------------------------------------------------------------------ the registry *)
Record gc := mkGC {
  slots : list gslot;           (* gc->entries[0 .. nslots) *)
  nitems : nat;
  mitems : nat;
  minptr : N;                   (* UINTPTR_MAX initially *)
  maxptr : N;
  running : bool;
  pending : list (option N);    (* gc->freelist[0 .. freenum) while a sweep runs, else [] *)
  evs : list event
}.

Definition set_slots (g : gc) sl :=
  mkGC sl (nitems g) (mitems g) (minptr g) (maxptr g) (running g) (pending g) (evs g).
Definition set_nitems (g : gc) n :=
  mkGC (slots g) n (mitems g) (minptr g) (maxptr g) (running g) (pending g) (evs g).
Definition set_mitems (g : gc) n :=
  mkGC (slots g) (nitems g) n (minptr g) (maxptr g) (running g) (pending g) (evs g).
Definition set_bounds (g : gc) lo hi :=
  mkGC (slots g) (nitems g) (mitems g) lo hi (running g) (pending g) (evs g).
Definition set_running (g : gc) b :=
  mkGC (slots g) (nitems g) (mitems g) (minptr g) (maxptr g) b (pending g) (evs g).
Definition set_pending (g : gc) pl :=
  mkGC (slots g) (nitems g) (mitems g) (minptr g) (maxptr g) (running g) pl (evs g).
Definition log (g : gc) (e : event) :=
  mkGC (slots g) (nitems g) (mitems g) (minptr g) (maxptr g) (running g) (pending g) (e :: evs g).

Definition nslots (g : gc) : nat := length (slots g).

Definition uintptr_max : N := 18446744073709551615%N.

(* calloc'ed struct GC after GC_New *)
Definition gc_init : gc := mkGC [] 0 0 uintptr_max 0%N true [] [].

Definition unmark (e : gentry) : gentry := mkE (ptr e) (root e) false.
Definition setmark (e : gentry) : gentry := mkE (ptr e) (root e) true.
Definition unmark_slot (s : gslot) : gslot :=
  match s with Some (h, e) => Some (h, unmark e) | None => None end.

(* the second loop of GC_Sweep *)
Definition clear_marks (sl : list gslot) : list gslot := map unmark_slot sl.

(* NULL-ing of freelist entries equal to p (GC_Rem_Ptr's first loop) *)
Definition null_out (p : N) (pl : list (option N)) : list (option N) :=
  map (fun x => match x with Some q => if N.eqb q p then None else Some q | None => None end) pl.

Definition is_pending (p : N) (pl : list (option N)) : bool :=
  existsb (fun x => match x with Some q => N.eqb q p | None => false end) pl.

(* is address p in the table?  (plain scan, independent of the hashing) *)
Definition is_reg (l : list gslot) (p : N) : bool := existsb (fun e => N.eqb (ptr e) p) (entries gentry l).

Fixpoint upd_opt (k : nat) (pl : list (option N)) : list (option N) :=
  match pl, k with
  | [], _ => []
  | _ :: t, O => None :: t
  | x :: t, S k' => x :: upd_opt k' t
  end.

Section Registry.
  Variable hashf : N -> N.                 (* GC_Hash *)
  Variable swap : nat -> nat -> bool.      (* displacement test of GC_Set_Ptr *)
  Variable primes : list N.
  Variables num den : N.
  Variable owns : N -> list N.             (* what the destructor of an object deletes *)
  Variable spawns : N -> list dact.        (* what it allocates afterwards, in order *)
  (* shape of the pending-list handling (tools/genx_gcreg.py reads it off the source):
     rem_fin    : GC_Rem_Ptr finalises an object it finds in the pending list and returns
     null_first : GC_Sweep's finaliser loop clears the pending slot before finalising it *)
  Variables rem_fin null_first : bool.

  (* GC_Hash(ptr) % gc->nslots *)
  Definition home (p : N) (n : nat) : nat := N.to_nat (N.modulo (hashf p) (N.of_nat n)).

  Definition ideal := ideal_size primes num den.

  Definition rh_insert := insert N gentry N.eqb ptr swap (fun old _new => old).
  Definition rh_find := find N gentry N.eqb ptr.
  Definition rh_delete := delete_at gentry.
  Definition rh_rehash := rehash N gentry N.eqb ptr swap (fun old _new => old) home.

  (* GC_Rehash: every old entry goes through GC_Set_Ptr(ptr, root), i.e. with the mark bit
     cleared; nitems is NOT recounted *)
  Definition g_rehash (g : gc) (n : nat) : option gc :=
    match rh_rehash (clear_marks (slots g)) n with
    | Some sl => Some (set_slots g sl)
    | None => None
    end.

  Definition resize_more (g : gc) : option gc :=
    let n := ideal (nitems g) in
    if nslots g <? n then g_rehash g n else Some g.

  (* GC_Resize_Less.  WHEN slots are given back is tuning: `gc_shrink_wanted nitems nslots n` is a
     notation generated from the source (Generated.v; pinned tree: n <? nslots, i.e. whenever the
     ideal size is smaller).  Nothing proved depends on the condition. *)
  Definition resize_less (g : gc) : option gc :=
    let n := ideal (nitems g) in
    if gc_shrink_wanted (nitems g) (nslots g) n then g_rehash g n else Some g.

  (* the collection threshold after a removal / a sweep: tuning, notation generated from the
     source (pinned tree: gc->mitems = gc->nitems + gc->nitems / 2 + 1) *)
  Definition new_mitems (g : gc) : gc := set_mitems g (gc_reg_mitems_rule (nitems g)).

  (* GC_Mem_Ptr *)
  Definition gc_mem (g : gc) (p : N) : option bool :=
    if nslots g =? 0 then Some false else
    match rh_find (slots g) (home p (nslots g)) p with
    | Some (Some _) => Some true
    | Some None => Some false
    | None => None
    end.

  Inductive out := OOk | OBool (b : bool)
  | OCrash      (* the C code would compute `% 0` here *)
  | OFuel.      (* a loop of the model ran out of fuel: excluded by theorem *)

  (* ---------------------------------------------------------------- removal *)
  (* the part of GC_Set before the threshold test: count, bounds, Resize_More, Set_Ptr *)
  Definition gc_register (g : gc) (p : N) (r : bool) (ev : event) : gc * out :=
    let g1 := set_bounds (set_nitems g (S (nitems g))) (N.min p (minptr g)) (N.max p (maxptr g)) in
    match resize_more g1 with
    | None => (g, OFuel)
    | Some g2 =>
      if nslots g2 =? 0 then (g, OCrash) else
      match rh_insert (slots g2) (home p (nslots g2)) (mkE p r false) with
      | None => (g, OFuel)
      | Some (sl, _) => (log (set_slots g2 sl) ev, OOk)
      end
    end.

  (* GC_Set called from a destructor (alloc / alloc_root inside a finaliser).  While a sweep is
     running (gc->freelist isnt NULL, i.e. the pending list is not empty) the object is
     registered and GC_Set returns before the threshold test.  Two situations are outside the
     model and only flagged (EvViol): the allocator hands out an address that is still registered
     or pending (impossible for a real allocator; nothing is done), and a destructor running
     outside a sweep crosses the threshold (the C code would start a nested collection; the
     object is registered, the collection is not modelled). *)
  Definition spawn_set (g : gc) (pr : N * bool) : option gc :=
    let (p, r) := pr in
    if negb (running g) then Some g else
    if is_reg (slots g) p || is_pending p (pending g) then Some (log g EvViol) else
    match gc_register g p r (EvSpawn p r) with
    | (g3, OOk) =>
      match pending g3 with
      | [] => if mitems g3 <? nitems g3 then Some (log g3 EvViol) else Some g3
      | _ => Some g3
      end
    | _ => None
    end.

  (* a temporary inside a destructor: allocated (GC_Set as above), then deleted (GC_Rem) if the
     allocation registered it.  Its address may be one that was finalised and released earlier
     in the same sweep (legitimate re-use by the allocator).  Only temporaries whose own
     destructor does nothing are modelled; others are flagged. *)
  Definition temp_set (rem : gc -> N -> option gc) (g : gc) (pr : N * bool) : option gc :=
    match owns (fst pr), spawns (fst pr) with
    | [], [] =>
      match spawn_set g pr with
      | None => None
      | Some g1 =>
        if is_reg (slots g1) (fst pr) && negb (is_reg (slots g) (fst pr)) then rem g1 (fst pr) else Some g1
      end
    | _, _ => Some (log g EvViol)
    end.

  Definition act_set (rem : gc -> N -> option gc) (g : gc) (a : dact) : option gc :=
    match a with
    | DSpawn p r => spawn_set g (p, r)
    | DTemp p r => temp_set rem g (p, r)
    end.

  (* dealloc(destruct(q)): the destructor hands every object it owns to `del`, i.e. GC_Rem,
     then allocates what it spawns (temporaries are deleted again at once) *)
  Definition finalise_with (rem : gc -> N -> option gc) (g : gc) (q : N) : option gc :=
    fold_left (fun og a => match og with Some g1 => act_set rem g1 a | None => None end) (spawns q)
      (fold_left (fun og t => match og with Some g1 => rem g1 t | None => None end)
                 (owns q) (Some (log g (EvFin q)))).

  (* GC_Rem = running test; GC_Rem_Ptr; GC_Resize_Less; mitems.  `f` bounds the nesting of
     destructor-issued removals. *)
  Fixpoint gc_rem (f : nat) (g : gc) (p : N) : option gc :=
    match f with
    | O => None
    | S f' =>
      if negb (running g) then Some g else
      let g := log g (EvRem p) in
      let after_ptr :=
        (* GC_Rem_Ptr *)
        if nslots g =? 0 then Some g else
        let hit := is_pending p (pending g) in
        let g0 := set_pending g (null_out p (pending g)) in
        if hit && rem_fin then finalise_with (gc_rem f') g0 p
        else
          match rh_find (slots g0) (home p (nslots g0)) p with
          | None => None
          | Some None => Some g0
          | Some (Some i) =>
            match rh_delete (slots g0) i with
            | None => None
            | Some sl =>
              finalise_with (gc_rem f') (set_nitems (set_slots g0 sl) (pred (nitems g0))) p
            end
          end in
      match after_ptr with
      | None => None
      | Some g1 =>
        match resize_less g1 with
        | None => None
        | Some g2 => Some (new_mitems g2)
        end
      end
    end.

  Definition finalise (f : nat) := finalise_with (gc_rem f).

  (* bound on the nesting of removals inside one operation: every nested finalisation
     takes one entry out of the table or out of the pending list *)
  Definition depth (g : gc) : nat := S (S (nitems g + length (pending g))).

  (* ---------------------------------------------------------------- mark phase *)
  (* GC_Mark_Item's probe loop: the first entry with this address that is not yet marked *)
  Fixpoint mark_loop (f : nat) (sl : list gslot) (i j : nat) (p : N) : option (list gslot) :=
    match f with
    | O => None
    | S f' =>
      let n := length sl in
      match at_ gentry sl i with
      | None => Some sl
      | Some (h, e) =>
        if dist n i h <? j then Some sl
        else if N.eqb (ptr e) p && negb (marked e) then Some (upd gentry i (Some (h, setmark e)) sl)
        else mark_loop f' sl (nxt n i) (S j) p
      end
    end.

  (* GC_Mark_Item: alignment and [minptr, maxptr] pre-filter, then the probe loop.
     None = out of fuel; the inner option is None when the C code would compute % 0 *)
  Definition mark_item (g : gc) (p : N) : option (option gc) :=
    if negb (N.eqb (N.modulo p 8) 0) || N.ltb p (minptr g) || N.ltb (maxptr g) p then Some (Some g)
    else if nslots g =? 0 then Some None
    else match mark_loop (nslots g + 2) (slots g) (home p (nslots g)) 0 p with
         | Some sl => Some (Some (set_slots g sl))
         | None => None
         end.

  (* "Mark Roots" loop of GC_Mark (the objects of this model hold no pointers: GC_Recurse
     adds nothing) *)
  Definition mark_roots (sl : list gslot) : list gslot :=
    map (fun s => match s with
                  | Some (h, e) => if root e then Some (h, setmark e) else Some (h, e)
                  | None => None end) sl.

  Fixpoint mark_words (g : gc) (ws : list N) : option (option gc) :=
    match ws with
    | [] => Some (Some g)
    | w :: r => match mark_item g w with
                | Some (Some g1) => mark_words g1 r
                | x => x
                end
    end.

  (* GC_Mark with the stack (and registers) given as a list of words *)
  Definition gc_mark (g : gc) (ws : list N) : option (option gc) :=
    if nitems g =? 0 then Some (Some g)
    else mark_words (set_slots g (mark_roots (slots g))) ws.

  (* ---------------------------------------------------------------- sweep *)
  (* the in-place compaction loop of GC_Sweep: slot i is looked at again after a removal *)
  Fixpoint sweep_loop (f : nat) (sl : list gslot) (i nit : nat) (pl : list (option N))
                      (ev : list event)
    : option (list gslot * nat * list (option N) * list event) :=
    match f with
    | O => None
    | S f' =>
      if length sl <=? i then Some (sl, nit, pl, ev) else
      match at_ gentry sl i with
      | None => sweep_loop f' sl (S i) nit pl ev
      | Some (h, e) =>
        if marked e then sweep_loop f' sl (S i) nit pl ev
        else if negb (root e) then
          match rh_delete sl i with
          | None => None
          | Some sl' => sweep_loop f' sl' i (pred nit) (pl ++ [Some (ptr e)]) (EvReclaim (ptr e) :: ev)
          end
        else sweep_loop f' sl (S i) nit pl ev
      end
    end.

  (* the finaliser loop of GC_Sweep: for (i = 0; i < freenum; i++) if (freelist[i]) ... ;
     entries may be cleared by removals issued from the destructors meanwhile *)
  Fixpoint fin_loop (cnt k d : nat) (g : gc) : option gc :=
    match cnt with
    | O => Some g
    | S c =>
      match nth k (pending g) None with
      | None => fin_loop c (S k) d g
      | Some q =>
        let g1 := if null_first then set_pending g (upd_opt k (pending g)) else g in
        match finalise d g1 q with
        | None => None
        | Some g2 => fin_loop c (S k) d g2
        end
      end
    end.

  Definition gc_sweep (g : gc) : option gc :=
    let d := depth g in
    match sweep_loop (nslots g + occupied gentry (slots g) + 1) (slots g) 0 (nitems g) [] (evs g) with
    | None => None
    | Some (sl, nit, pl, ev) =>
      let g1 := mkGC (clear_marks sl) nit (mitems g) (minptr g) (maxptr g) (running g) pl ev in
      match resize_less g1 with
      | None => None
      | Some g2 =>
        match fin_loop (length pl) 0 d (new_mitems g2) with
        | None => None
        | Some g3 => Some (set_pending g3 [])
        end
      end
    end.

  (* ---------------------------------------------------------------- GC_Set *)
  Definition collect (g : gc) (ws : list N) : gc * out :=
    match gc_mark g ws with
    | None => (g, OFuel)
    | Some None => (g, OCrash)
    | Some (Some g1) => match gc_sweep g1 with Some g2 => (g2, OOk) | None => (g, OFuel) end
    end.

  (* GC_Set(gc, p, root): count first, bounds, Resize_More, Set_Ptr, threshold collection *)
  Definition gc_set (g : gc) (p : N) (r : bool) (ws : list N) : gc * out :=
    if negb (running g) then (g, OOk) else
    match gc_register g p r (EvAlloc p r) with
    | (g3, OOk) => if mitems g3 <? nitems g3 then collect g3 ws else (g3, OOk)
    | x => x
    end.

  Inductive op :=
  | OAlloc (p : N) (r : bool) (ws : list N)   (* alloc / alloc_root; ws = stack words seen if
                                                 the threshold collection fires *)
  | ORem (p : N)                              (* del / del_root *)
  | OFinRaw (p : N)                           (* del_raw of an unregistered object *)
  | OCollect (ws : list N)                    (* GC_Mark; GC_Sweep *)
  | OSweep                                    (* GC_Sweep alone (what GC_Del does) *)
  | OStop | OStart
  | OMem (p : N).

  Definition gc_step (g : gc) (o : op) : gc * out :=
    match o with
    | OAlloc p r ws => gc_set g p r ws
    | ORem p => match gc_rem (depth g) g p with Some g1 => (g1, OOk) | None => (g, OFuel) end
    | OFinRaw p => match finalise (depth g) g p with Some g1 => (g1, OOk) | None => (g, OFuel) end
    | OCollect ws => collect g ws
    | OSweep => match gc_sweep g with Some g1 => (g1, OOk) | None => (g, OFuel) end
    | OStop => (set_running g false, OOk)
    | OStart => (set_running g true, OOk)
    | OMem p => match gc_mem g p with Some b => (g, OBool b) | None => (g, OFuel) end
    end.

  Definition gc_run (ops : list op) (g : gc) : gc :=
    fold_left (fun g o => fst (gc_step g o)) ops g.
End Registry.
