(* MarkSweep.v — executable model of the mark phase of src/GC.c, of an abstract sweep, and of
   the collection points of an allocation history (property C01).  No proofs here.

   Two switches keep the pre-repair behaviour expressible; tools/genx_gcmark.py reads them off
   the C text into Generated.v:
     tls_recurses  GC_Mark hands GC_Mark_And_Recurse (true) or GC_Mark_Item (false, defect D16)
                   to Thread_Mark / Table_Mark for the TLS table
     mar_guarded   GC_Mark_And_Recurse marks a registered pointer via GC_Mark_Item only and traces
                   only unregistered ones unconditionally (true); or calls GC_Mark_Item and
                   then GC_Recurse on everything (false, defect D17)
   Fuel is consumed by a descent into another heap object only (GC_Recurse on the object a
   pointer leads to); walking an object's own words / embedded elements is structural. *)
From Coq Require Import List Arith NArith PArith Bool FMapPositive.
From CelloV Require Import HeapGraph.
Import ListNotations.

Definition fold_o {A S : Type} (f : A -> S -> outcome S) : list A -> S -> outcome S :=
  fix go (l : list A) (s : S) : outcome S :=
    match l with
    | [] => Ok s
    | a :: r => bind (f a s) (go r)
    end.

Section Mark.
  Variables (tls_recurses mar_guarded : bool).
  Variable h : heap.
  Variable rg : registry.
  Variables (minptr maxptr : N).

  (* GC_Mark_Item: `pval % sizeof(var) isnt 0 or pval < gc->minptr or pval > gc->maxptr` *)
  Definition prefilter (w : word) : bool :=
    ((w mod 8 =? 0) && (minptr <=? w) && (w <=? maxptr))%N.

  Section Level.
    (* `rec` = tracing the contents of another object, one level of fuel down *)
    Variable rec : contents -> marks -> outcome marks.

    (* GC_Recurse(ptr): look at the object at ptr, trace it by its kind *)
    Definition descend (p : word) (m : marks) : outcome marks :=
      match nget p h with Some c => rec c m | None => Crash end.

    (* GC_Mark_Item: prefilter; probe the registry (lookup = exact membership, C17); an
       entry that is found and unmarked is marked and traced *)
    Definition mark_item (w : word) (m : marks) : outcome marks :=
      if prefilter w then
        if registered rg w then
          if marked m w then Ok m else descend w (setmark w m)
        else Ok m
      else Ok m.

    (* GC_Mark_And_Recurse *)
    Definition mark_and_recurse (p : word) (m : marks) : outcome marks :=
      if mar_guarded then
        if registered rg p then mark_item p m else descend p m
      else bind (mark_item p m) (descend p).

    (* GC_Recurse on an object whose contents are c (the callback handed to a Mark instance
       is GC_Mark_And_Recurse; an embedded element's address is never registered, so on it
       both variants of GC_Mark_And_Recurse amount to GC_Recurse = trace_with) *)
    Fixpoint trace_with (c : contents) (m : marks) {struct c} : outcome marks :=
      match c with
      | Words ws => fold_o mark_item ws m
      | Elems es => fold_o trace_with es m
      | Items ps => fold_o mark_and_recurse ps m
      | NoPtr => Ok m
      end.

    (* root loop body of GC_Mark: registered, not marked, root => mark, GC_Recurse *)
    Definition root_step (p : word) (m : marks) : outcome marks :=
      if is_root rg p && negb (marked m p) then descend p (setmark p m) else Ok m.
  End Level.

  Fixpoint trace (fuel : nat) : contents -> marks -> outcome marks :=
    match fuel with
    | 0 => fun _ _ => OutOfFuel
    | S f => trace_with (trace f)
    end.

  (* GC_Mark: TLS pass, root-flag pass, stack pass.  `order` = registered addresses in slot
     order; `tls` = the embedded keys and values of the thread's TLS Table; `stack` = every
     word of the stack and the flushed registers. *)
  Definition mark (fuel : nat) (order : list word) (tls : list contents) (stack : list word)
      (m0 : marks) : outcome marks :=
    match order with
    | [] => Ok m0                                     (* gc->nitems is 0 *)
    | _ =>
      let rec := trace fuel in
      bind (if tls_recurses then fold_o (trace_with rec) tls m0 else Ok m0) (fun m1 =>
      bind (fold_o (root_step rec) order m1) (fun m2 =>
      fold_o (mark_item rec) stack m2))
    end.

  (* abstract GC_Sweep: exactly the unmarked non-root entries are removed and finalised *)
  Definition doomed (m : marks) (p : word) : bool :=
    registered rg p && negb (is_root rg p) && negb (marked m p).
  Definition sweep (order : list word) (m : marks) : registry * list word :=
    let fin := filter (doomed m) order in
    (fold_right ndel rg fin, fin).

  Definition fuel_of (order : list word) : nat := (length order + 1) * (nraw h rg + 2).

  Definition collect (fuel : nat) (order : list word) (tls : list contents) (stack : list word)
      : outcome (registry * list word) :=
    bind (mark fuel order tls stack nempty) (fun m => Ok (sweep order m)).
End Mark.

(* ---------------------------------------------------------------- collection points *)

Record state := {
  st_heap : heap;
  st_reg : registry;
  st_order : list word;        (* registered addresses, slot order (abstract: any order) *)
  st_nitems : N;               (* gc->nitems *)
  st_mitems : N;               (* gc->mitems *)
  st_minptr : N;
  st_maxptr : N;
  st_tls : list contents;
  st_stack : list word
}.

Inductive event :=
| EAlloc (p : word) (c : contents) (root : bool)   (* alloc/new/copy: registered via GC_Set *)
| EStore (p : word) (c : contents)                 (* any store into an object; also new_raw *)
| ERoots (tls : list contents) (stack : list word) (* the mutator changes TLS / stack *)
| EFinAlloc (p : word) (c : contents) (root : bool) (* alloc/new/copy issued BY A FINALISER while GC_Sweep
                                                       runs its freelist loop: registered via GC_Set, which
                                                       returns before the threshold test (gc->freelist isnt NULL) *)
| EDel (p : word)                                  (* explicit del: GC_Rem *)
| ECollect.                                        (* forced: GC_Mark; GC_Sweep *)

Definition st0 : state :=
  {| st_heap := nempty; st_reg := nempty; st_order := []; st_nitems := 0%N; st_mitems := 0%N;
     st_minptr := 18446744073709551615%N; st_maxptr := 0%N; st_tls := []; st_stack := [] |}.

(* a threshold policy: what gc->mitems is set to, as a function of gc->nitems *)
Definition policy := N -> N.
(* the threshold policy of the pinned tree: gc->nitems + gc->nitems / 2 + 1 *)
Definition mitems_3_2 (n : N) : N := (n + n / 2 + 1)%N.

Section Step.
  Variables (tls_recurses mar_guarded : bool).
  (* fin_widens: GC_Set widens minptr/maxptr BEFORE its early return `if (gc->freelist isnt NULL) return;`
     (true: every registered address is inside the window GC_Mark_Item prefilters with) or only after
     it (false: an object allocated by a finaliser during a sweep is registered, the window is not
     widened for it) — read off the C text by tools/genx_gcmark.py *)
  Variable fin_widens : bool.

  (* the threshold policy: gc->mitems = next_mitems (gc->nitems) after every sweep and removal.  It decides
     only WHEN a collection runs; every theorem holds for every policy.  tools/genx_gcmark.py reads the
     expression off GC_Sweep / GC_Rem (pinned tree: nitems + nitems / 2 + 1 = mitems_3_2 below) *)
  Variable next_mitems : N -> N.

  (* GC_Mark; GC_Sweep with `extra` additional stack words *)
  Definition do_collect (s : state) (extra : list word) : outcome (state * list word) :=
    let stack := extra ++ st_stack s in
    bind (collect tls_recurses mar_guarded (st_heap s) (st_reg s) (st_minptr s) (st_maxptr s)
            (fuel_of (st_heap s) (st_reg s) (st_order s)) (st_order s) (st_tls s) stack)
      (fun r =>
         let '(rg', fin) := r in
         let order' := filter (fun p => registered rg' p) (st_order s) in
         let n' := N.of_nat (length order') in
         Ok ({| st_heap := fold_right ndel (st_heap s) fin; st_reg := rg'; st_order := order';
                st_nitems := n'; st_mitems := next_mitems n';
                st_minptr := st_minptr s; st_maxptr := st_maxptr s;
                st_tls := st_tls s; st_stack := st_stack s |}, fin)).

  (* state after alloc_by + the registering part of GC_Set: calloc, header; nitems++, widen
     minptr/maxptr, insert *)
  Definition alloc_state (s : state) (p : word) (c : contents) (root : bool) : state :=
    {| st_heap := nset p c (st_heap s); st_reg := nset p root (st_reg s);
       st_order := p :: st_order s; st_nitems := N.succ (st_nitems s); st_mitems := st_mitems s;
       st_minptr := N.min p (st_minptr s); st_maxptr := N.max p (st_maxptr s);
       st_tls := st_tls s; st_stack := st_stack s |}.

  (* the state in which a collection runs inside event e, and the additional stack words:
     GC_Set ends with `if (gc->nitems > gc->mitems) { GC_Mark(gc); GC_Sweep(gc); }` while the new
     address is in a local of alloc_by, i.e. among the stack words *)
  Definition collection_point (s : state) (e : event) : option (state * list word) :=
    match e with
    | EAlloc p c root =>
      let s1 := alloc_state s p c root in
      if (st_mitems s <? st_nitems s1)%N then Some (s1, [p]) else None
    | ECollect => Some (s, [])
    | _ => None
    end.

  (* GC_Set called from a finaliser (gc->freelist isnt NULL): nitems++, insert, window; no collection *)
  Definition fin_alloc_state (s : state) (p : word) (c : contents) (root : bool) : state :=
    let s1 := alloc_state s p c root in
    if fin_widens then s1
    else {| st_heap := st_heap s1; st_reg := st_reg s1; st_order := st_order s1;
            st_nitems := st_nitems s1; st_mitems := st_mitems s1;
            st_minptr := st_minptr s; st_maxptr := st_maxptr s;
            st_tls := st_tls s1; st_stack := st_stack s1 |}.

  Definition step (s : state) (e : event) : outcome (state * list word) :=
    match e with
    | EFinAlloc p c root => Ok (fin_alloc_state s p c root, [])
    | EAlloc p c root =>
      let s1 := alloc_state s p c root in
      if (st_mitems s <? st_nitems s1)%N then do_collect s1 [p] else Ok (s1, [])
    | EStore p c =>
      Ok ({| st_heap := nset p c (st_heap s); st_reg := st_reg s; st_order := st_order s;
             st_nitems := st_nitems s; st_mitems := st_mitems s; st_minptr := st_minptr s; st_maxptr := st_maxptr s;
             st_tls := st_tls s; st_stack := st_stack s |}, [])
    | ERoots tls stack =>
      Ok ({| st_heap := st_heap s; st_reg := st_reg s; st_order := st_order s;
             st_nitems := st_nitems s; st_mitems := st_mitems s; st_minptr := st_minptr s; st_maxptr := st_maxptr s;
             st_tls := tls; st_stack := stack |}, [])
    | EDel p =>
      (* GC_Rem: remove, finalise; mitems recomputed *)
      if registered (st_reg s) p then
        let order' := filter (fun q => negb (q =? p)%N) (st_order s) in
        let n' := N.of_nat (length order') in
        Ok ({| st_heap := ndel p (st_heap s); st_reg := ndel p (st_reg s); st_order := order';
               st_nitems := n'; st_mitems := next_mitems n';
               st_minptr := st_minptr s; st_maxptr := st_maxptr s;
               st_tls := st_tls s; st_stack := st_stack s |}, [p])
      else Ok (s, [])
    | ECollect => do_collect s []
    end.

  (* a whole history; the lists of freed addresses, one per event *)
  Fixpoint run (s : state) (es : list event) : outcome (state * list (list word)) :=
    match es with
    | [] => Ok (s, [])
    | e :: r => bind (step s e) (fun sf => bind (run (fst sf) r) (fun sr => Ok (fst sr, snd sf :: snd sr)))
    end.
End Step.

(* ---------------------------------------------------------------- executable reachability
   (the SPEC side of the correspondence): naive closure iteration, independent of the
   depth-first marking above *)
Section ReachExec.
  Variable h : heap.
  Variable rg : registry.

  (* words handed to GC_Mark_Item by contents c; raw objects followed with fuel *)
  Fixpoint targets (fuel : nat) (c : contents) {struct fuel} : list word :=
    match fuel with
    | 0 => []
    | S f =>
      (fix go (c : contents) : list word :=
         match c with
         | Words ws => ws
         | Elems es => flat_map go es
         | Items ps => flat_map (fun p => if registered rg p then [p]
                                          else match nget p h with Some c' => targets f c' | None => [] end) ps
         | NoPtr => []
         end) c
    end.

  Definition succs (fuel : nat) (p : word) : list word :=
    match nget p h with Some c => targets fuel c | None => [] end.

  (* add the registered, not yet visited words of ws to the visited set and to the frontier *)
  Definition visit (ws : list word) (acc : marks * list word) : marks * list word :=
    fold_left (fun acc w => let '(s, fr) := acc in
                            if registered rg w && negb (marked s w) then (setmark w s, w :: fr) else acc)
              ws acc.

  (* breadth-first closure: every round expands the frontier once *)
  Fixpoint bfs (n : nat) (fuel : nat) (frontier : list word) (s : marks) : marks :=
    match n with
    | 0 => s
    | S k =>
      match frontier with
      | [] => s
      | _ => let '(s', fr') := visit (flat_map (succs fuel) frontier) (s, []) in bfs k fuel fr' s'
      end
    end.

  Definition reach_exec (order : list word) (tls : list contents) (stack : list word) : list word :=
    let fuel := nraw h rg + 2 in
    let roots := flat_map (targets fuel) tls
                 ++ flat_map (fun p => if is_root rg p then succs fuel p else []) order
                 ++ stack in
    let '(s0, fr0) := visit roots (nempty, []) in
    let s := bfs (length order + 1) fuel fr0 s0 in
    filter (fun p => marked s p) order.
End ReachExec.
