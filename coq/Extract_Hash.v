(* Extraction of the hashing / equality model (C10) for the correspondence driver.
   ExtrOcamlBasic only; numbers stay the extracted inductive types.  The constants of hash_data
   and the two repaired-or-not switches come from Generated.v (re-extracted from the C source). *)
From Coq Require Import List NArith ZArith Extraction ExtrOcamlBasic.
From CelloV Require Import Generated HashModel.

Definition h_data : list N -> N := hash_data hash_m hash_r hash_seed hash_tail_shape.
Definition h_cmp : value -> value -> option Z := v_cmp table_cmp_by_lookup.
Definition h_hash : value -> N := v_hash h_data float_hash_shape.
(* memswap as the source has it (plan read from the text) on two byte images *)
Definition h_memswap (a b : list N) : list N * list N := run_plan memswap_plan (length a) a b.
(* Float_Cmp in the shape the source has *)
Definition h_float_cmp : N -> N -> Z := float_cmp_of_form float_cmp_form.
Definition h_copy : value -> option value := v_copy.
Definition h_assign : value -> value -> option value := v_assign.
Definition h_swap : value -> value -> option (value * value) := v_swap.
Definition h_wf : value -> bool := v_wf.
Definition z_ltb := Z.ltb.
Definition n_eqb := N.eqb.
Definition n_double (x : N) : N := N.double x.
Definition n_succ_double (x : N) : N := N.succ_double x.

Extraction Language OCaml.
Extraction "../ocaml/gen/Hash.ml" h_data h_cmp h_hash h_memswap h_float_cmp h_copy h_assign h_swap h_wf z_ltb n_eqb n_double n_succ_double.
