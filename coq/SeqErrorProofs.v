(* SeqErrorProofs.v — the error paths of the sequence models (the half of the story property C12
   is about, proved here because the models live here): an operation outside the container's
   contract raises the documented exception and leaves the model state unchanged, a raising step
   never changes the state, hence Array, List and Tuple refine the abstract sequence along EVERY
   history (`refines_all`), not only along in-range ones. *)
From Coq Require Import List Arith Bool ZArith Lia Permutation Sorted.
From CelloV Require Import SeqModels SeqProofs SeqTupleProofs.
Import ListNotations.

Section RaiseUnchanged.
  Variable E : Type.
  Variable eqb ltb same : E -> E -> bool.
  Variable zero : E.
  Variables gc sc : nat -> nat -> bool.
  Variables gs ss : nat -> nat -> nat.

  Ltac crush H :=
    repeat match type of H with
           | context [match ?x with _ => _ end] => destruct x
           | context [if ?x then _ else _] => destruct x
           end; try discriminate H; try (injection H as <- _; reflexivity).

  (* whatever the state and the arguments: a step of the model that raises returns the state it got *)
  Lemma a_raise_unchanged a o a' e :
    a_step E eqb ltb gc sc gs ss a o = (a', ORaise E e) -> a' = a.
  Proof. destruct o; cbn [a_step]; unfold a_pop_at, a_pop_pos; intros H; crush H. Qed.

  Lemma l_raise_unchanged l o l' e :
    l_step E eqb zero l o = (l', ORaise E e) -> l' = l.
  Proof. destruct o; cbn [l_step]; intros H; crush H. Qed.

  Lemma t_raise_unchanged t o t' e :
    t_step E eqb ltb same t o = (t', ORaise E e) -> t' = t.
  Proof.
    unfold t_step. destruct (t_len E t); [|intros H; discriminate H].
    destruct o; unfold t_pop_at, t_pop_pos; intros H; crush H.
  Qed.
End RaiseUnchanged.

Section OutOfRange.
  Variable E : Type.
  Variable eqb ltb same : E -> E -> bool.
  Variable zero : E.
  Variables gc sc : nat -> nat -> bool.
  Variables gs ss : nat -> nat -> nat.

  Notation spec_step := (spec_step E eqb ltb zero).
  Notation in_range := (in_range E eqb).

  Lemma spec_step_out c (l : list E) o :
    in_range c l o = false ->
    spec_step c l o = (l, ORaise E match o with
                                   | SRem _ _ => ValueError
                                   | SResize _ _ => FormatError
                                   | SSort _ => ClassError
                                   | _ => IndexError end).
  Proof. intros H. unfold SeqModels.spec_step. rewrite H. reflexivity. Qed.

  Lemma inb_false_oob n i : inb n i = false -> oob n i = true.
  Proof. intros H. rewrite oob_inb, H. reflexivity. Qed.

  Lemma existsb_false_find (l : list E) v :
    existsb (fun x => eqb x v) l = false -> find_first E eqb l 0 v = None.
  Proof.
    intros H. pose proof (find_first_spec E eqb l 0 v) as Hf.
    destruct (find_first E eqb l 0 v); [|reflexivity].
    destruct Hf as (_ & _ & _ & Hf & _). congruence.
  Qed.

  (* Array: outside the contract the model raises what the specification documents, state unchanged *)
  Theorem a_step_out_of_range (a : array E) (o : sop E) :
    a_inv E a -> in_range KArray (a_abs E a) o = false ->
    a_step E eqb ltb gc sc gs ss a o = (a, snd (spec_step KArray (a_abs E a) o)).
  Proof.
    intros (vs & rest & Hc & Hn & Hl) Hin.
    rewrite (a_abs_shape E a vs rest Hc Hn) in *.
    rewrite (spec_step_out _ _ _ Hin). cbn [snd].
    destruct a as [cs n s]. cbn [cells nitems nslots] in *. subst cs n.
    destruct o; simpl in Hin; try discriminate; cbn [a_step]; unfold a_pop_at; cbn [nitems cells].
    - destruct (Nat.eqb_spec (length vs) 0); [reflexivity | discriminate].
    - unfold push_at_pos in Hin.
      destruct (inb (length vs + 1) (norm (length vs + 1) k)) eqn:Hi; [discriminate|].
      rewrite (inb_false_oob _ _ Hi). reflexivity.
    - rewrite (inb_false_oob _ _ Hin). reflexivity.
    - rewrite (inb_false_oob _ _ Hin). reflexivity.
    - rewrite (inb_false_oob _ _ Hin). reflexivity.
    - rewrite cells_find_shape, (existsb_false_find _ _ Hin). reflexivity.
  Qed.

  Theorem l_step_out_of_range (l : llist E) (o : sop E) :
    l_inv E l -> in_range KList (l_abs E l) o = false ->
    l_step E eqb zero l o = (l, snd (spec_step KList (l_abs E l) o)).
  Proof.
    intros Hinv Hin. rewrite (spec_step_out _ _ _ Hin). cbn [snd].
    red in Hinv. unfold l_abs in *. destruct l as [xs n]. cbn [lelems lnitems] in *. subst n.
    assert (Hat : forall k, inb (length xs) (norm (length xs) k) = false ->
                            l_at E (mkL E xs (length xs)) k = AtOob).
    { intros k H. unfold l_at. cbn [lnitems]. rewrite (inb_false_oob _ _ H). reflexivity. }
    destruct o; simpl in Hin; try discriminate; cbn [l_step lnitems lelems].
    - destruct (Nat.eqb_spec (length xs) 0); [reflexivity | discriminate].
    - unfold push_at_pos in Hin. destruct (Z.eqb_spec k 0); [discriminate|].
      destruct (inb (length xs) (norm (length xs) k)) eqn:Hi; [discriminate|].
      rewrite (Hat _ Hi). reflexivity.
    - rewrite (Hat _ Hin). reflexivity.
    - rewrite (Hat _ Hin). reflexivity.
    - rewrite (Hat _ Hin). reflexivity.
    - rewrite (existsb_false_find _ _ Hin). reflexivity.
    - reflexivity.
  Qed.

  Hypothesis eqb_sym : forall x y, eqb x y = eqb y x.

  Theorem t_step_out_of_range (t : tuple E) (o : sop E) :
    t_inv E same t -> in_range KTuple (t_abs E t) o = false ->
    t_step E eqb ltb same t o = (t, snd (spec_step KTuple (t_abs E t) o)).
  Proof.
    intros (Hh & vs & Hits & Hd) Hin.
    destruct t as [its h]. cbn [titems theap] in *. subst its h.
    rewrite t_abs_items in *. rewrite (spec_step_out _ _ _ Hin). cbn [snd].
    unfold SeqModels.t_step, t_len. cbn [titems theap negb].
    rewrite t_len_items. simpl plus.
    destruct o; simpl in Hin; try discriminate; unfold t_pop_at.
    - destruct (Nat.eqb_spec (length vs) 0); [reflexivity | discriminate].
    - unfold push_at_pos in Hin.
      destruct (inb (length vs) (norm (length vs) k)) eqn:Hi; [discriminate|].
      rewrite (inb_false_oob _ _ Hi). reflexivity.
    - rewrite (inb_false_oob _ _ Hin). reflexivity.
    - rewrite (inb_false_oob _ _ Hin). reflexivity.
    - rewrite (inb_false_oob _ _ Hin). reflexivity.
    - rewrite (t_find_items E eqb eqb_sym), (existsb_false_find _ _ Hin). reflexivity.
    - rewrite Hin. reflexivity.
  Qed.
End OutOfRange.

(* ------------------------------------------------------------------ every history *)
Section AllHistories.
  Variable E : Type.
  Variable eqb ltb : E -> E -> bool.
  Variable zero : E.
  Variable St : Type.
  Variable step : St -> sop E -> St * out E.
  Variable abs : St -> list E.
  Variable inv : St -> Prop.
  Variable c : kind.
  Variable extra : list E -> sop E -> Prop.

  Lemma spec_ok_out (l : list E) o r :
    in_range E eqb c l o = false -> snd (spec_step E eqb ltb zero c l o) = r ->
    spec_ok E eqb ltb zero c l o l r.
  Proof.
    intros Hin Hr. pose proof (spec_step_out E eqb ltb zero c l o Hin) as Hs.
    rewrite Hs in Hr. cbn [snd] in Hr. subst r.
    unfold spec_ok. destruct o; try exact Hs. rewrite Hin. exact Hs.
  Qed.

  Lemma refines_all_lift :
    (forall s o, inv s -> in_range E eqb c (abs s) o = true -> extra (abs s) o ->
       inv (fst (step s o)) /\
       spec_ok E eqb ltb zero c (abs s) o (abs (fst (step s o))) (snd (step s o))) ->
    (forall s o, inv s -> in_range E eqb c (abs s) o = false ->
       step s o = (s, snd (spec_step E eqb ltb zero c (abs s) o))) ->
    forall ops s, inv s -> refines_all E eqb ltb zero St step abs inv c extra s ops.
  Proof.
    intros Hin Hout ops. induction ops as [|o ops IH]; intros s Hs; simpl; [exact I|].
    intros Hex. destruct (in_range E eqb c (abs s) o) eqn:Hr.
    - destruct (Hin s o Hs Hr Hex) as [Hi Hsp]. split; [exact Hi|]. split; [exact Hsp|]. apply IH, Hi.
    - rewrite (Hout s o Hs Hr). cbn [fst snd].
      split; [exact Hs|]. split; [apply spec_ok_out; auto | apply IH, Hs].
  Qed.
End AllHistories.
