From CelloV Require Import Generated StringModel.
Theorem placeholder : murmur64 nil = murmur64 nil.
Proof. reflexivity. Qed.
Print Assumptions placeholder.
