(* Properties_C16.v — String behaves as a C-string value.  Statements only; proofs in StringProofs.v.
   c_new / c_step / c_run = the model of src/String.c (StringModel.v) instantiated with the realloc
   sizes, the memmove count and the NULL check re-extracted from the source (Generated.v).
   repr b s = "the allocation b starts with the NUL-free characters s followed by a NUL". *)
From Coq Require Import List Arith NArith ZArith.
From CelloV Require Import Generated StringModel StringProofs.
Import ListNotations.

(* every history of assign/concat/append/resize/rem/mem/cmp/eq/len/c_str/hash/print_to — with
   any C string or the String itself as the argument — from any initial value: same results as the abstract-string specification, never undefined behaviour,
   and the final allocation holds exactly the specification's string *)
Theorem C16_history_refines : forall v0 ops, nulfree v0 -> Forall op_ok ops ->
  exists b0 bf, c_new v0 = Some b0 /\ c_run b0 ops = (fst (spec_run v0 ops), bf) /\
                repr bf (snd (spec_run v0 ops)).
Proof. exact c_history_refines. Qed.
Print Assumptions C16_history_refines.

Example C16_history_refines_nonvacuous :
  nulfree [97; 98; 99; 98; 99; 97; 98] /\
  Forall op_ok [ORem [98; 99; 97; 98]; OLen; OMem [99]; OPrint 1 [PLit [120]; PInt (-42)]; OCStr; OConcatSelf; OLen; OPrint 10 [PSelf]; OLen] /\
  exists b0, c_new [97; 98; 99; 98; 99; 97; 98] = Some b0 /\
    fst (c_run b0 [ORem [98; 99; 97; 98]; OLen; OMem [99]; OPrint 1 [PLit [120]; PInt (-42)]; OCStr; OConcatSelf; OLen; OPrint 10 [PSelf]; OLen])
    = [SUnit; SNat 3; SBool true; SNat 5; SChars [97; 120; 45; 52; 50]; SUnit; SNat 10; SNat 20; SNat 20].
Proof.
  split; [repeat constructor; discriminate|]. split; [repeat constructor; discriminate|].
  exists (map Some [97; 98; 99; 98; 99; 97; 98; 0]). split; vm_compute; reflexivity.
Qed.

(* the same from new(String) without arguments *)
Theorem C16_history_refines_from_empty : forall ops, Forall op_ok ops ->
  exists bf, c_run m_new_empty ops = (fst (spec_run [] ops), bf) /\ repr bf (snd (spec_run [] ops)).
Proof. exact c_history_refines_from_empty. Qed.
Print Assumptions C16_history_refines_from_empty.

Theorem C16_step_refines : forall b s o, repr b s -> op_ok o ->
  exists b', c_step b o = (b', snd (spec_step s o)) /\ repr b' (fst (spec_step s o)).
Proof. exact c_step_refines. Qed.
Print Assumptions C16_step_refines.

Example C16_step_refines_nonvacuous :
  repr [Some 97; Some 97; Some 97; Some 0; None; Some 7] [97; 97; 97] /\ op_ok (ORem [97; 97]).
Proof. split; [split; [repeat constructor; discriminate|eexists; reflexivity]|repeat constructor; discriminate]. Qed.

Theorem C16_no_undefined_behaviour : forall v0 ops, nulfree v0 -> Forall op_ok ops ->
  exists b0, c_new v0 = Some b0 /\ ~ In SCrash (fst (c_run b0 ops)).
Proof. exact c_history_no_crash. Qed.
Print Assumptions C16_no_undefined_behaviour.

(* the terminator lies inside the allocation, everything before it is a defined non-NUL byte *)
Theorem C16_terminated_inside_allocation : forall b s, repr b s ->
  length s < length b /\ nth_error b (length s) = Some (Some 0) /\
  forall i, i < length s -> exists c, nth_error b i = Some (Some c) /\ c <> 0.
Proof. exact repr_inside. Qed.
Print Assumptions C16_terminated_inside_allocation.

(* repr is exactly "a C reader of the buffer sees s" *)
Theorem C16_repr_is_c_str : forall b s, repr b s <-> c_str b = Some s.
Proof. exact repr_iff_c_str. Qed.
Print Assumptions C16_repr_is_c_str.

(* the specification's search is strstr: the least offset at which the needle occurs *)
Theorem C16_first_occurrence : forall v s i,
  first_occ v s = Some i <-> (occurs v s i /\ forall j, j < i -> ~ occurs v s j).
Proof. exact first_occ_some. Qed.
Print Assumptions C16_first_occurrence.

Theorem C16_no_occurrence : forall v s, first_occ v s = None <-> forall i, ~ occurs v s i.
Proof. exact first_occ_none. Qed.
Print Assumptions C16_no_occurrence.

Theorem C16_strstr_scan_is_first_occurrence : forall v s, find_sub v s = first_occ v s.
Proof. exact find_sub_first_occ. Qed.
Print Assumptions C16_strstr_scan_is_first_occurrence.

(* rem deletes the first occurrence, overlapping later occurrences or not *)
Theorem C16_rem_deletes_first : forall l v r,
  (forall j, j < length l -> ~ occurs v (l ++ v ++ r) j) ->
  spec_step (l ++ v ++ r) (ORem v) = (l ++ r, SUnit).
Proof. exact spec_rem_first. Qed.
Print Assumptions C16_rem_deletes_first.

Example C16_rem_deletes_first_overlap :     (* "ababab" - "abab" = "ab" *)
  spec_step [97; 98; 97; 98; 97; 98] (ORem [97; 98; 97; 98]) = ([97; 98], SUnit).
Proof. vm_compute. reflexivity. Qed.

Theorem C16_rem_absent_raises : forall v s,
  (forall i, ~ occurs v s i) -> spec_step s (ORem v) = (s, SRaise SValueError).
Proof. exact spec_rem_absent. Qed.
Print Assumptions C16_rem_absent_raises.

Example C16_rem_absent_nonvacuous : forall i, ~ occurs [120] [97; 98; 99] i.
Proof. apply first_occ_none. vm_compute. reflexivity. Qed.

Theorem C16_mem_is_substring : forall v s,
  existsb (occurs_at v s) (seq 0 (S (length s))) = true <-> exists i, occurs v s i.
Proof. exact spec_mem_occurs. Qed.
Print Assumptions C16_mem_is_substring.

(* cmp is strcmp's order on unsigned bytes; eq is equality *)
Theorem C16_cmp_eq : forall a b, str_compare a b = Eq <-> a = b.
Proof. exact str_compare_eq. Qed.
Print Assumptions C16_cmp_eq.

Theorem C16_cmp_lt : forall a b, str_compare a b = Lt <-> lex_lt a b.
Proof. exact str_compare_lt. Qed.
Print Assumptions C16_cmp_lt.

Theorem C16_cmp_antisym : forall a b, str_compare b a = CompOpp (str_compare a b).
Proof. exact str_compare_antisym. Qed.
Print Assumptions C16_cmp_antisym.

Theorem C16_cmp_trans : forall a b c, str_compare a b = Lt -> str_compare b c = Lt -> str_compare a c = Lt.
Proof. exact str_compare_trans. Qed.
Print Assumptions C16_cmp_trans.

Theorem C16_cmp_total_order : forall a b,
  (str_compare a b = Lt /\ a <> b /\ str_compare b a = Gt) \/
  (str_compare a b = Eq /\ a = b /\ str_compare b a = Eq) \/
  (str_compare a b = Gt /\ a <> b /\ str_compare b a = Lt).
Proof. exact str_compare_total_order. Qed.
Print Assumptions C16_cmp_total_order.

(* print_to in closed form when the target is not among the arguments *)
Theorem C16_print_to_closed_form : forall ps s pos, Forall (fun p => p <> PSelf) ps ->
  spec_print s pos ps =
  (match ps with
   | [] => s
   | _ => if pos <=? length s then firstn pos s ++ concat (map render ps) else s
   end, pos + length (concat (map render ps))).
Proof. exact spec_print_closed. Qed.
Print Assumptions C16_print_to_closed_form.

Example C16_print_to_self :      (* print_to(s, 1, "%s-%s", s, s) on "abc": pieces see the string as it is by then *)
  spec_step [97; 98; 99] (OPrint 1 [PSelf; PLit [45]; PSelf]) = ([97; 97; 98; 99; 45; 97; 97; 98; 99; 45], SNat 10).
Proof. vm_compute. reflexivity. Qed.

Theorem C16_print_to_self_before_repair_undefined : forall b fa cap hw pos r,
  m_print_to fa false cap hw b pos (PSelf :: r) = None.
Proof. exact format_self_old_shape_undefined. Qed.
Print Assumptions C16_print_to_self_before_repair_undefined.

(* the model's "%li" text (compared with libc's by the harness): the fuel of its digit loop is
   enough — an optional '-' followed by decimal digits that denote |z| *)
Theorem C16_li_rendering_denotes : forall z,
  match dec_of_Z z with
  | 45 :: ds => z = (- Z.of_N (dec_value ds))%Z /\ (z < 0)%Z /\ Forall (fun c => 48 <= c <= 57) ds
  | ds => z = Z.of_N (dec_value ds) /\ Forall (fun c => 48 <= c <= 57) ds
  end.
Proof. exact dec_of_Z_value. Qed.
Print Assumptions C16_li_rendering_denotes.

(* the String itself as the argument means the same as any argument with its value *)
Theorem C16_self_argument_by_value : forall s,
  spec_step s OAssignSelf = spec_step s (OAssign s) /\
  spec_step s OConcatSelf = spec_step s (OConcat s) /\
  spec_step s ORemSelf = spec_step s (ORem s) /\
  spec_step s OMemSelf = spec_step s (OMem s) /\
  spec_step s OCmpSelf = spec_step s (OCmp s) /\
  spec_step s OEqSelf = spec_step s (OEq s).
Proof. exact self_ops_by_value. Qed.
Print Assumptions C16_self_argument_by_value.

(* assign(s, s) / concat(s, s) before their repair: undefined behaviour in every state *)
Theorem C16_self_argument_before_repair_undefined : forall b fa fc,
  m_assign_self fa false b = None /\ m_concat_self fc false b = None.
Proof. exact self_argument_old_shapes_undefined. Qed.
Print Assumptions C16_self_argument_before_repair_undefined.

(* hash depends on the current characters only — not on the allocation behind the terminator, not on
   the history (in particular not on what was hashed before at the same address) *)
Theorem C16_hash_of_characters_only : forall b s, repr b s -> c_step b OHash = (b, SHash (murmur64 s)).
Proof. exact hash_of_characters_only. Qed.
Print Assumptions C16_hash_of_characters_only.

Theorem C16_hash_independent_of_history : forall v1 ops1 v2 ops2,
  nulfree v1 -> Forall op_ok ops1 -> nulfree v2 -> Forall op_ok ops2 ->
  snd (spec_run v1 ops1) = snd (spec_run v2 ops2) ->
  exists b1 b2 f1 f2, c_new v1 = Some b1 /\ c_new v2 = Some b2 /\
    snd (c_run b1 ops1) = f1 /\ snd (c_run b2 ops2) = f2 /\
    snd (c_step f1 OHash) = snd (c_step f2 OHash).
Proof. exact hash_independent_of_history. Qed.
Print Assumptions C16_hash_independent_of_history.

Example C16_hash_independent_of_history_nonvacuous :     (* "abcd" rem "bc"  vs  "a" concat "d" *)
  snd (spec_run [97; 98; 99; 100] [ORem [98; 99]]) = snd (spec_run [97] [OConcat [100]]).
Proof. vm_compute. reflexivity. Qed.

(* the source of String_Hash is exactly hash_data(s->val, strlen(s->val)) — no static, nothing remembered —
   and String_Len / C_Str / Cmp / Mem are single libc calls on s->val (re-extracted on every run) *)
Theorem C16_observers_stateless_in_source : string_hash_stateless = true /\ string_observers_pure = true.
Proof. exact (conj gen_hash_stateless gen_observers_pure). Qed.
Print Assumptions C16_observers_stateless_in_source.

(* why further code shapes are read as the same model by tools/genx_str.py *)
Theorem C16_shape_rem_empty_needle_returns : forall rc, (forall hl pl nl, rc hl pl nl = (pl - nl + 1)%Z) ->
  forall chk b s, repr b s -> m_rem rc chk b [] = (b, SUnit).
Proof. exact rem_empty_needle_is_noop. Qed.
Print Assumptions C16_shape_rem_empty_needle_returns.

Theorem C16_shape_rem_tail_length : forall v h i, find_sub v h = Some i ->
  length (skipn (i + length v) h) = (length h - i) - length v.
Proof. exact tail_length_after_match. Qed.
Print Assumptions C16_shape_rem_tail_length.

Theorem C16_shape_concat_moves_terminator : forall (s : list nat) t, length s <= length t ->
  let b := map Some s ++ Some 0 :: t in
  let n := length s in
  memmove b n 0 (n + 1) =
  match memmove b n 0 n with Some b' => write b' (n + n) [0] | None => None end.
Proof. exact concat_self_move_with_terminator. Qed.
Print Assumptions C16_shape_concat_moves_terminator.

(* a local buffer in String_Format_To whose threshold is off by one (seeded change C16-2) *)
Theorem C16_format_local_buffer_off_by_one_undefined : forall fa b pos text,
  length text = 64 -> m_format_to fa 64 (fun size cap => cap <? size) b pos text = None.
Proof. exact format_local_buffer_off_by_one_undefined. Qed.
Print Assumptions C16_format_local_buffer_off_by_one_undefined.

(* the code before the repair of String_Rem (D6) *)
Theorem C16_rem_before_repair_refuted :
  exists s v, nulfree s /\ nulfree v /\
    exists b', m_rem old_rem_count false (map Some (s ++ [0])) v = (b', SUnit) /\
               c_str b' <> Some (fst (spec_step s (ORem v))).
Proof. exact rem_old_refuted_middle. Qed.
Print Assumptions C16_rem_before_repair_refuted.

Theorem C16_rem_before_repair_crashes :
  (exists s v, nulfree s /\ nulfree v /\ first_occ v s = Some 0 /\
     snd (m_rem old_rem_count false (map Some (s ++ [0])) v) = SCrash) /\
  (exists s v, nulfree s /\ nulfree v /\ first_occ v s = None /\
     snd (m_rem old_rem_count false (map Some (s ++ [0])) v) = SCrash).
Proof. exact rem_old_refuted_crash. Qed.
Print Assumptions C16_rem_before_repair_crashes.
