(* Properties_C13.v — property C13: threads are isolated; join publishes; Mutex excludes.
   Statements about the interleaving machine of Threads.v instantiated with the parameters re-read
   from the C sources (Generated.v): thr_clear_on_catch (exception_catch), thr_trylock_busy_result
   (Mutex_Trylock on EBUSY), shared_exc = false (Exception_Current goes through the thread's TLS) and
   walk_foreign = false (Thread_Mark walks only the current thread's TLS: repair 6bcc387).
   Only statements closed by `exact`, each followed by Print Assumptions. *)
From Coq Require Import List Arith Bool.
From CelloV Require Import Generated Threads ThreadsProofs.
Import ListNotations.

Notation M_step := (gstep thr_clear_on_catch thr_trylock_busy_result (negb thr_exc_via_tls) (negb thr_mark_own_tls_only)).
Notation M_run := (run thr_clear_on_catch thr_trylock_busy_result (negb thr_exc_via_tls) (negb thr_mark_own_tls_only)).
Notation M_alone := (alone thr_clear_on_catch).
Notation M_base := (base thr_clear_on_catch).

(* 1. isolation, every schedule: a thread's core (continuation, own collector registry and ledger, own
   exception record, own TLS, result trace) is a function of its OWN program and of the answers its OWN
   try-once trylock attempts got (hist s; true for every other instruction): it is what the thread reaches
   ALONE after the same instructions with the same answers *)
Theorem isolation : forall (ps : list (list op)) (sched : list tid) t l s,
  nth_error (thr (M_run sched (ginit ps))) t = Some (l, s) ->
  exists p, nth_error ps t = Some p /\ l = M_alone (hist s) (M_base t p (tls0 s) (past s)).
Proof. exact (ThreadsProofs.isolation_core thr_clear_on_catch thr_trylock_busy_result). Qed.
Print Assumptions isolation.

(* 1b. no try-once section refused (e.g. the program has none): exactly the stand-alone run of `steps s` instructions *)
Theorem isolation_plain : forall (ps : list (list op)) (sched : list tid) t l s,
  nth_error (thr (M_run sched (ginit ps))) t = Some (l, s) -> past s = [] -> tls0 s = [] ->
  forallb (fun x => x) (hist s) = true ->
  exists p, nth_error ps t = Some p /\ l = alone_n thr_clear_on_catch (steps s) (linit t p).
Proof. exact (ThreadsProofs.isolation_plain thr_clear_on_catch thr_trylock_busy_result). Qed.
Print Assumptions isolation_plain.

(* 2. a finished thread has computed exactly its complete stand-alone result *)
Theorem isolation_finished : forall (ps : list (list op)) (sched : list tid) t l s,
  nth_error (thr (M_run sched (ginit ps))) t = Some (l, s) -> done l = true ->
  exists p, nth_error ps t = Some p /\ forall h', M_alone (h' ++ hist s) (M_base t p (tls0 s) (past s)) = l.
Proof. exact (ThreadsProofs.isolation_finished thr_clear_on_catch thr_trylock_busy_result). Qed.
Print Assumptions isolation_finished.

(* 3. frame: an instruction of thread t leaves the core of every other thread unchanged (never diverts its
   control flow, never changes its exception depth/active, never finalises its objects, never touches its TLS) — the
   two exceptions are calls: of a Thread object whose previous run has finished and been joined (next run), and
   of a fresh copy of a Thread object (first run, with the TLS snapshot it was copied with) *)
Theorem step_frame : forall t t' g, t <> t' ->
  core (M_step t g) t' = core g t' \/
  (exists lu su p, nth_error (thr g) t' = Some (lu, su) /\ done lu = true /\ joined su = true /\
                   nth_error (progs g) t' = Some p /\ core (M_step t g) t' = Some (restart lu p)) \/
  (exists lv sv p tau, nth_error (thr g) t' = Some (lv, sv) /\ started sv = false /\
                   nth_error (progs g) t' = Some p /\ core (M_step t g) t' = Some (set_tls (linit t' p) tau)).
Proof. exact (ThreadsProofs.step_frame thr_clear_on_catch thr_trylock_busy_result). Qed.
Print Assumptions step_frame.

(* 3b. a copy of the current Thread, called: own fresh exception record and collector, TLS = snapshot of the caller's *)
Theorem copy_of_self : forall t g v lv sv p l s k,
  nth_error (thr g) t = Some (l, s) -> aborted g = false -> started s = true -> done l = false ->
  fatal l = false -> ub s = false -> code l = KOp (OSpawnCopy v t) :: k ->
  nth_error (thr g) v = Some (lv, sv) -> started sv = false -> nth_error (progs g) v = Some p -> t <> v ->
  exists l' s', nth_error (thr (M_step t g)) v = Some (l', s') /\
    tls l' = tls l /\ exc l' = mkE 0 false None /\ reg l' = [] /\ fin l' = [] /\ out l' = [] /\ code l' = map KOp p /\
    started s' = true /\ joined s' = false /\ tls0 s' = tls l.
Proof. exact (ThreadsProofs.copy_of_self_gen thr_clear_on_catch thr_trylock_busy_result). Qed.
Print Assumptions copy_of_self.

(* 4. whatever a thread's collector registers or finalises was allocated by that thread *)
Theorem no_foreign_finalisation : forall (ps : list (list op)) (sched : list tid) t l s o,
  nth_error (thr (M_run sched (ginit ps))) t = Some (l, s) ->
  In o (reg l) \/ In o (fin l) -> fst o = t.
Proof. exact (ThreadsProofs.no_foreign_finalisation thr_clear_on_catch thr_trylock_busy_result). Qed.
Print Assumptions no_foreign_finalisation.

(* 5. Mutex excludes: for every schedule and lock/trylock/unlock/with pattern no two threads hold one mutex *)
Theorem mutex_exclusion : forall (ps : list (list op)) (sched : list tid) t1 t2 l1 s1 l2 s2 m,
  nth_error (thr (M_run sched (ginit ps))) t1 = Some (l1, s1) ->
  nth_error (thr (M_run sched (ginit ps))) t2 = Some (l2, s2) ->
  In m (holding s1) -> In m (holding s2) -> t1 = t2.
Proof. exact (ThreadsProofs.mutex_exclusion_gen thr_clear_on_catch thr_trylock_busy_result (eq_refl false)). Qed.
Print Assumptions mutex_exclusion.

(* 5a. lock has no timeout: lock / with-entry on an owned mutex does not complete, however long (however many
   scheduling attempts) the thread waits; when it completes the thread owns the mutex.  With 5 (mutex_exclusion:
   holding = between lock-return and unlock) at most one thread is between lock-return and unlock, for every
   schedule and every waiting time. *)
Theorem lock_waits : forall n t g l s m k o,
  nth_error (thr g) t = Some (l, s) ->
  (code l = KOp (OLock m) :: k \/ exists bd, code l = KOp (OWith m bd) :: k) ->
  mtx g m = Some o -> Nat.iter n (M_step t) g = g.
Proof. exact (ThreadsProofs.lock_waits_gen thr_clear_on_catch thr_trylock_busy_result). Qed.
Print Assumptions lock_waits.

Theorem lock_acquires : forall t g l s m k,
  nth_error (thr g) t = Some (l, s) ->
  aborted g = false -> started s = true -> done l = false -> fatal l = false -> ub s = false ->
  (code l = KOp (OLock m) :: k \/ exists bd, code l = KOp (OWith m bd) :: k) ->
  mtx g m = None ->
  mtx (M_step t g) m = Some t /\
  option_map (fun ls => holding (snd ls)) (nth_error (thr (M_step t g)) t) = Some (m :: holding s).
Proof. exact (ThreadsProofs.lock_acquires_gen thr_clear_on_catch thr_trylock_busy_result). Qed.
Print Assumptions lock_acquires.

(* 5b. no lost update: a thread about to store the second half of a non-atomic `cell = cell + 1` still holds
   the cell's mutex, the value it loaded is still current, and its store adds exactly one to the current value *)
Theorem guarded_increment : forall (ps : list (list op)) (sched : list tid) t l s m k,
  let g := M_run sched (ginit ps) in
  nth_error (thr g) t = Some (l, s) -> code l = KStore m :: k ->
  In m (holding s) /\ tmp s = cells g m /\
  (aborted g = false -> started s = true -> done l = false -> fatal l = false -> ub s = false ->
   cells (M_step t g) m = S (cells g m)).
Proof. exact (ThreadsProofs.guarded_increment_gen thr_clear_on_catch thr_trylock_busy_result (eq_refl false)). Qed.
Print Assumptions guarded_increment.

(* 6. join returns only after the thread has finished *)
Theorem join_waits : forall (ps : list (list op)) (sched : list tid) u lu su,
  nth_error (thr (M_run sched (ginit ps))) u = Some (lu, su) -> joined su = true -> done lu = true.
Proof. exact (ThreadsProofs.join_waits thr_clear_on_catch thr_trylock_busy_result). Qed.
Print Assumptions join_waits.

(* 7. join publishes: whenever the LATEST call of Thread object u has been joined (a call starts a new, unjoined
   run: 7b), a read of u's result by any thread yields the complete stand-alone trace of that run *)
Theorem join_publishes : forall (ps : list (list op)) (sched : list tid) t u lu su p l s k,
  let g := M_run sched (ginit ps) in
  nth_error (thr g) u = Some (lu, su) -> joined su = true ->
  nth_error ps u = Some p ->
  nth_error (thr g) t = Some (l, s) ->
  aborted g = false -> started s = true -> done l = false -> fatal l = false -> ub s = false ->
  code l = KOp (OPeek u) :: k ->
  done lu = true /\
  (forall h', M_alone (h' ++ hist su) (M_base u p (tls0 su) (past su)) = lu) /\
  option_map (fun ls => seen (snd ls)) (nth_error (thr (M_step t g)) t) = Some ((u, out lu) :: seen s).
Proof. exact (ThreadsProofs.join_publishes_gen thr_clear_on_catch thr_trylock_busy_result). Qed.
Print Assumptions join_publishes.

(* 7b. calling a finished, joined Thread object again starts a new run that is NOT joined: join_waits and
   join_publishes then speak about this latest call *)
Theorem call_resets_join : forall t g u lu su p l s k,
  nth_error (thr g) t = Some (l, s) -> aborted g = false -> started s = true -> done l = false ->
  fatal l = false -> ub s = false -> code l = KOp (OSpawn u) :: k ->
  nth_error (thr g) u = Some (lu, su) -> started su = true -> done lu = true -> joined su = true ->
  nth_error (progs g) u = Some p -> t <> u ->
  nth_error (thr (M_step t g)) u = Some (restart lu p, relaunch su).
Proof. exact (ThreadsProofs.call_resets_join thr_clear_on_catch thr_trylock_busy_result). Qed.
Print Assumptions call_resets_join.

(* 8. the variants the source does NOT have are refuted: a process-wide exception record breaks
   isolation, a trylock that claims success on EBUSY breaks exclusion *)
Theorem shared_exception_record_refuted : forall c b,
  exists ps sched t,
    match nth_error (thr (run c b true false sched (ginit ps))) t, nth_error ps t with
    | Some (l, s), Some p => depth (exc l) =? depth (exc (alone c (hist s) (linit t p))) = false
    | _, _ => False
    end.
Proof. exact ThreadsProofs.isolation_refuted_shared. Qed.
Print Assumptions shared_exception_record_refuted.

Theorem foreign_tls_walk_refuted : forall c b,
  exists ps sched t,
    match nth_error (thr (run c b false true sched (ginit ps))) t, nth_error ps t with
    | Some (l, s), Some p => length (tls l) =? length (tls (alone c (hist s) (linit t p))) = false
    | _, _ => False
    end.
Proof. exact ThreadsProofs.isolation_refuted_foreign_walk. Qed.
Print Assumptions foreign_tls_walk_refuted.

Theorem trylock_true_on_busy_refuted : forall c,
  exists ps sched l1 s1 l2 s2 m,
    nth_error (thr (run c true false false sched (ginit ps))) 0 = Some (l1, s1) /\
    nth_error (thr (run c true false false sched (ginit ps))) 1 = Some (l2, s2) /\
    In m (holding s1) /\ In m (holding s2).
Proof. exact ThreadsProofs.exclusion_refuted_busy_true. Qed.
Print Assumptions trylock_true_on_busy_refuted.

(* 9. tie to the source: no per-thread datum lives in a file-scope static of Thread.c / Exception.c / GC.c,
   and the functions the model abstracts still have the audited shape *)
Theorem statics_audited : thr_statics = ThreadsProofs.audited_statics.
Proof. exact ThreadsProofs.statics_audited. Qed.
Print Assumptions statics_audited.

Theorem source_shapes :
  thr_exc_via_tls = true /\ thr_gc_via_tls = true /\ thr_current_via_key = true /\
  thr_init_own_records = true /\ thr_join_waits = true /\ thr_with_is_lock_unlock = true /\
  thr_trylock_busy_result = false /\ thr_mark_own_tls_only = true /\ thr_lock_blocking = true.
Proof. exact ThreadsProofs.source_shapes. Qed.
Print Assumptions source_shapes.

(* non-vacuity: a concrete run in which the hypotheses of 5 and 7 are met *)
Example exclusion_nonvacuous :
  exists l s, nth_error (thr (M_run [0; 0; 1] (ginit [[OSpawn 1; OLock 0; OYield]; [OLock 0]]))) 0 = Some (l, s)
              /\ In 0 (holding s).
Proof. vm_compute. do 2 eexists. split; [reflexivity | left; reflexivity]. Qed.

Example join_nonvacuous :
  exists lu su, nth_error (thr (M_run [0; 1; 1; 0] (ginit [[OSpawn 1; OJoin 1; OPeek 1]; [OEmit 7]]))) 1 = Some (lu, su)
                /\ joined su = true /\ out lu = [EvExit []; EvEmit 7].
Proof. vm_compute. do 2 eexists. split; [reflexivity | split; reflexivity]. Qed.

Example increment_nonvacuous :
  exists l s k, nth_error (thr (M_run [0; 1; 1] (ginit [[OSpawn 1; OLock 0; OIncr 0; OUnlock 0]; [OWith 0 [OIncr 0]]]))) 1 = Some (l, s)
                /\ code l = KStore 0 :: k.
Proof. vm_compute. do 3 eexists. split; reflexivity. Qed.

(* a refused try-once section: thread 1 skips its section while thread 0 holds the mutex, and still its core is
   its own program run with that answer *)
Example tryonce_refused :
  exists l s, nth_error (thr (M_run [0; 0; 1; 1] (ginit [[OSpawn 1; OLock 0; OYield]; [OTryOnce 0 [OIncr 0]; OEmit 3]]))) 1 = Some (l, s)
              /\ hist s = [true; false] /\ out l = [EvEmit 3] /\ holding s = [].
Proof. vm_compute. do 2 eexists. repeat split; reflexivity. Qed.

(* a Thread object run twice: after the second call the thread is not joined although its first run was;
   after the second join the reader gets the trace of both runs *)
Example reuse_nonvacuous :
  exists lu su, nth_error (thr (M_run [0; 1; 1; 0; 0] (ginit [[OSpawn 1; OJoin 1; OSpawn 1; OJoin 1; OPeek 1]; [OEmit 7]]))) 1 = Some (lu, su)
                /\ joined su = false /\ past su = [[true; true]] /\ out lu = [EvRestart; EvExit []; EvEmit 7].
Proof. vm_compute. do 2 eexists. repeat split; reflexivity. Qed.

(* a worker inside a try block (depth 1) with one TLS binding clones itself: the clone starts at depth 0 with
   the binding, and a later binding of the source is not seen by the clone *)
Example copy_nonvacuous :
  exists l s, nth_error (thr (M_run [0; 1; 1; 1; 1; 2; 2] (ginit [[OSpawn 1]; [OTlsSet 1 5; OTry [OSpawnCopy 2 1; OTlsSet 2 6; OObs] [] []]; [OObs; OTlsMem 2]]))) 2 = Some (l, s)
              /\ out l = [EvMem 2 false; EvObs 0 false 1 0] /\ tls0 s = [(1, 5)].
Proof. vm_compute. do 2 eexists. repeat split; reflexivity. Qed.
