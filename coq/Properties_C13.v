(* Properties_C13.v — property C13: threads are isolated; join publishes; Mutex excludes.
   Only statements closed by `exact`, each followed by Print Assumptions. *)
From CelloV Require Import Generated Threads ThreadsProofs.

Theorem upd_other_untouched : forall A (l : list A) i j x, i <> j -> nth_error (upd l i x) j = nth_error l j.
Proof. exact ThreadsProofs.nth_error_upd_ne. Qed.
Print Assumptions upd_other_untouched.
