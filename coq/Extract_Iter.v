(* Extraction of the iteration model for the correspondence driver (C11).
   ExtrOcamlBasic only; numbers stay the extracted inductive types. *)
From Coq Require Import List Arith NArith ZArith Extraction ExtrOcamlBasic.
From CelloV Require Import Generated IterModel IterSource.
From CelloV Require RobinHood TableModel.
Import ListNotations.
Local Open Scope Z_scope.

Definition m_len := it_len source_rules.
Definition m_get := it_get source_rules.
Definition m_walk := walk source_rules.
Definition m_range := mk_range.
Definition m_slice := mk_slice source_rules.
Definition m_reverse := mk_reverse source_rules.
Definition m_enumerate := mk_enumerate source_rules.
Definition m_pred := pred_of.
Definition m_fun := fun_of.

(* Table leaf: new(Table, Int, Int) then set(k, 10k) for every key, through the Table model of C02;
   the slot occupancy is what the cursor model walks over *)
Definition int_hash (k : Z) : N := Z.to_N (k mod 18446744073709551616).
Definition table_slots (keys : list Z) : list (option val) :=
  let t0 := TableModel.t_empty Z Z table_primes table_load_num table_load_den in
  let step t k := fst (TableModel.t_step Z Z Z.eqb int_hash table_swap table_primes table_load_num table_load_den
                                         t (TableModel.TSet Z Z k (k * 10))) in
  map (fun s => match s with None => None | Some (_, (k, _)) => Some (VInt k) end)
      (TableModel.slots Z Z (fold_left step keys t0)).

(* Tree leaf: new(Tree, Int, Int) then set(k, 10k) for every key.  Tree_Set descends comparing
   cmp(node key, key): larger keys go LEFT (orientation re-read from the source: iter_tree_desc).  The model
   tree is the plain (unbalanced) search tree of the insertions: the walk theorems hold for every shape and the
   transcript shows keys only; the red-black shape itself is C03's. *)
Fixpoint bst_insert (left_of : Z -> Z -> bool) (k : Z) (t : tree) : tree :=
  match t with
  | TLeaf => TNode TLeaf (VInt k) TLeaf
  | TNode l (VInt x) r =>
    if Z.eqb k x then t
    else if left_of k x then TNode (bst_insert left_of k l) (VInt x) r
    else TNode l (VInt x) (bst_insert left_of k r)
  | TNode _ _ _ => t
  end.
Definition tree_build (keys : list Z) : tree :=
  let left_of := if source_tree_desc then Z.gtb else Z.ltb in
  fold_left (fun t k => bst_insert left_of k t) keys TLeaf.

(* Table / Tree after a history of set (k), rem (r) and resize (z) operations; the Table goes through the
   C02 model operation by operation (displacement, backward shift, rehash on growth and shrink) *)
Inductive kop := KSet (k : Z) | KRem (k : Z) | KResize (n : nat).
Definition table_hist (ops : list kop) : list (option val) * nat :=
  let t0 := TableModel.t_empty Z Z table_primes table_load_num table_load_den in
  let step (st : TableModel.table Z Z * nat) (o : kop) :=
    let top := match o with
               | KSet k => TableModel.TSet Z Z k (k * 10)
               | KRem k => TableModel.TRem Z Z k
               | KResize n => TableModel.TResize Z Z n
               end in
    let '(t', out) := TableModel.t_step Z Z Z.eqb int_hash table_swap table_primes table_load_num table_load_den (fst st) top in
    (t', match out with TableModel.ORaise _ _ => S (snd st) | _ => snd st end) in
  let '(t, raised) := fold_left step ops (t0, O) in
  (map (fun s => match s with None => None | Some (_, (k, _)) => Some (VInt k) end) (TableModel.slots Z Z t), raised).
Definition tree_hist (ops : list kop) : tree * nat :=
  let step (st : list Z * nat) (o : kop) :=
    let ks := fst st in
    match o with
    | KSet k => (if existsb (Z.eqb k) ks then ks else ks ++ [k], snd st)
    | KRem k => if existsb (Z.eqb k) ks then (filter (fun x => negb (Z.eqb k x)) ks, snd st) else (ks, S (snd st))
    | KResize n => match n with O => ([], snd st) | _ => (ks, S (snd st)) end
    end in
  let '(ks, raised) := fold_left step ops ([], O) in
  (tree_build ks, raised).
Definition m_hist := hist_run.

Definition z_ltb := Z.ltb.

Extraction Language OCaml.
Extraction "../ocaml/gen/Iter.ml" m_len m_get m_walk m_range m_slice m_reverse m_enumerate m_pred m_fun
  table_slots tree_build table_hist tree_hist m_hist z_ltb zlen.
