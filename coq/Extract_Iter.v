(* Extraction of the iteration model for the correspondence driver (C11).
   ExtrOcamlBasic only; numbers stay the extracted inductive types. *)
From Coq Require Import List Arith NArith ZArith Extraction ExtrOcamlBasic.
From CelloV Require Import Generated IterModel IterSource.
From CelloV Require RobinHood TableModel.
Import ListNotations.
Local Open Scope Z_scope.

Definition m_len := it_len source_rules.
Definition m_get := it_get source_rules.
Definition m_walk := walk source_rules.
Definition m_range := mk_range.
Definition m_slice := mk_slice source_rules.
Definition m_reverse := mk_reverse source_rules.
Definition m_enumerate := mk_enumerate source_rules.
Definition m_pred := pred_of.
Definition m_fun := fun_of.

(* Table leaf: new(Table, Int, Int) then set(k, 10k) for every key, through the Table model of C02;
   the slot occupancy is what the cursor model walks over *)
Definition int_hash (k : Z) : N := Z.to_N (k mod 18446744073709551616).
Definition table_slots (keys : list Z) : list (option val) :=
  let t0 := TableModel.t_empty Z Z table_primes table_load_num table_load_den in
  let step t k := fst (TableModel.t_step Z Z Z.eqb int_hash table_swap table_primes table_load_num table_load_den
                                         t (TableModel.TSet Z Z k (k * 10))) in
  map (fun s => match s with None => None | Some (_, (k, _)) => Some (VInt k) end)
      (TableModel.slots Z Z (fold_left step keys t0)).

(* Tree leaf: the distinct keys in in-order sequence (descending when larger keys go left) *)
Fixpoint ins_sorted (lt : Z -> Z -> bool) (k : Z) (l : list Z) : list Z :=
  match l with
  | [] => [k]
  | x :: r => if Z.eqb k x then l else if lt k x then k :: l else x :: ins_sorted lt k r
  end.
Definition tree_inorder (keys : list Z) : list val :=
  let lt := if source_tree_desc then Z.gtb else Z.ltb in
  map VInt (fold_left (fun acc k => ins_sorted lt k acc) keys []).

Definition z_ltb := Z.ltb.

Extraction Language OCaml.
Extraction "../ocaml/gen/Iter.ml" m_len m_get m_walk m_range m_slice m_reverse m_enumerate m_pred m_fun
  table_slots tree_inorder z_ltb zlen.
