(* Properties_C03.v — property C03: Tree is an ordered map and stays a valid red-black tree.
   Only statements closed by `exact`, each followed by Print Assumptions.

   Reading aid (definitions in RBTree.v / RBBalance.v / RBProofs.v / RBRefine.v):
     t_step, t_run, t_outs     the model of Tree.c: one operation / a history / the outcome of every step
     spec_step, spec_run, ...  the same on the specification: association list in DESCENDING key order
     abs t                     = inorder (root t): bindings of the tree in in-order (= iteration order)
     rb_inv cmp t              = sorted (abs t)            search-tree order: keys strictly descending in in-order
                                 /\ rb_tree (root t)       root black /\ exists n, rbh (root t) n
                                 /\ nitems t = length (abs t)
     rbh t n                   no red node has a red child and every path from t to a leaf has n black nodes
     total_order cmp           cmp a b = Eq -> a = b, reflexive, antisymmetric (CompOpp), transitive
     use_succ                  Tree_Rem's donor rule for a node with two children, as a function of (predecessor is
                               black) (successor is red): true = refill from the in-order successor.  ARBITRARY in every
                               theorem; the value of the working tree is Generated.tree_rem_use_succ
     OCrash / OFuel            the C code would dereference NULL / the iteration loop ran out of fuel *)
From Coq Require Import List ZArith Sorted.
From CelloV Require Import Generated RBTree RBProofs RBBalance RBIter RBRefine RBSource.
Import ListNotations.

(* the empty tree satisfies the invariant *)
Theorem tree_rb_inv_init : forall (K V : Type) (cmp : K -> K -> comparison),
  rb_inv K V cmp (t_empty K V).
Proof. exact rb_inv_empty. Qed.
Print Assumptions tree_rb_inv_init.

(* every operation (set, rem, get, mem, resize, copy, assign) on a valid tree: the invariant is kept,
   the abstraction commutes with the specification's step and the outcomes are equal (value, bool,
   KeyError on an absent key, FormatError on resize to n > 0) *)
Theorem tree_step_refines : forall (K V : Type) (cmp : K -> K -> comparison) (use_succ : bool -> bool -> bool),
  total_order cmp ->
  forall (t : rbt K V) (o : op K V), rb_inv K V cmp t ->
    rb_inv K V cmp (fst (t_step K V cmp use_succ t o)) /\
    abs K V (fst (t_step K V cmp use_succ t o)) = fst (spec_step K V cmp (abs K V t) o) /\
    snd (t_step K V cmp use_succ t o) = snd (spec_step K V cmp (abs K V t) o).
Proof. exact step_refines_total. Qed.
Print Assumptions tree_step_refines.

(* lifted over ALL histories starting from new(Tree): invariant, contents and every outcome agree with the
   ordered map; no step crashes (NULL sibling / NULL nephew / red root parent branches of the fix-ups are
   unreachable) and no loop runs out of fuel *)
Theorem tree_refines_omap : forall (K V : Type) (cmp : K -> K -> comparison) (use_succ : bool -> bool -> bool),
  total_order cmp ->
  forall ops : list (op K V),
    rb_inv K V cmp (t_run K V cmp use_succ ops (t_empty K V)) /\
    abs K V (t_run K V cmp use_succ ops (t_empty K V)) = spec_run K V cmp ops [] /\
    t_outs K V cmp use_succ ops (t_empty K V) = spec_outs K V cmp ops [] /\
    ~ In (OCrash V) (t_outs K V cmp use_succ ops (t_empty K V)) /\
    ~ In (OFuel V) (t_outs K V cmp use_succ ops (t_empty K V)).
Proof. exact refines_total. Qed.
Print Assumptions tree_refines_omap.

(* what a valid tree shows: forward iteration (Tree_Iter_Init/Next with fuel nitems+1) yields exactly the
   keys of the map, strictly descending; backward iteration (Tree_Iter_Last/Prev) the exact reverse; both
   have length len; get/mem are the map's lookup; height <= 2*log2(len+1) in integer form *)
Theorem tree_observations : forall (K V : Type) (cmp : K -> K -> comparison), total_order cmp ->
  forall t : rbt K V, rb_inv K V cmp t ->
    iter_forward K V t = Ok (keys K V (abs K V t)) /\
    iter_backward K V t = Ok (rev (keys K V (abs K V t))) /\
    StronglySorted (kgt K cmp) (keys K V (abs K V t)) /\
    length (keys K V (abs K V t)) = nitems K V t /\
    (forall k, lookup K V cmp (root K V t) k = a_get K V cmp (abs K V t) k) /\
    2 ^ height K V (root K V t) <= (nitems K V t + 1) ^ 2.
Proof. exact observations_total. Qed.
Print Assumptions tree_observations.

(* the two together, hypothesis-free apart from the key order: after ANY history the tree's len, iteration
   in both directions, lookups and height are those of the ordered map reached by the same history *)
Theorem tree_history_observations : forall (K V : Type) (cmp : K -> K -> comparison) (use_succ : bool -> bool -> bool),
  total_order cmp ->
  forall ops : list (op K V),
    let t := t_run K V cmp use_succ ops (t_empty K V) in
    let m := spec_run K V cmp ops [] in
    nitems K V t = length m /\
    iter_forward K V t = Ok (keys K V m) /\
    iter_backward K V t = Ok (rev (keys K V m)) /\
    StronglySorted (kgt K cmp) (keys K V m) /\
    (forall k, lookup K V cmp (root K V t) k = a_get K V cmp m k) /\
    2 ^ height K V (root K V t) <= (length m + 1) ^ 2.
Proof. exact history_observations_total. Qed.
Print Assumptions tree_history_observations.

(* what a tree shows depends only on the ordered map its history denotes: not on the history that built it, not on the
   shape rebalancing left behind, not on the successor/predecessor choice Tree_Rem makes for a node with two children *)
Theorem tree_history_independent : forall (K V : Type) (cmp : K -> K -> comparison) (us1 us2 : bool -> bool -> bool),
  total_order cmp -> forall ops1 ops2 : list (op K V),
  spec_run K V cmp ops1 [] = spec_run K V cmp ops2 [] ->
  let t1 := t_run K V cmp us1 ops1 (t_empty K V) in
  let t2 := t_run K V cmp us2 ops2 (t_empty K V) in
  nitems K V t1 = nitems K V t2 /\
  iter_forward K V t1 = iter_forward K V t2 /\
  iter_backward K V t1 = iter_backward K V t2 /\
  (forall k, lookup K V cmp (root K V t1) k = lookup K V cmp (root K V t2) k).
Proof. exact history_independent_total. Qed.
Print Assumptions tree_history_independent.

(* "lookups, insertions and removals stay logarithmic": the descent of Tree_Get/Mem/Set/Rem in a valid tree visits at
   most 2*log2(len+1) nodes (integer form); Tree_Set_Fix / Tree_Rem_Fix recurse on the path this descent leaves *)
Theorem tree_search_depth : forall (K V : Type) (cmp : K -> K -> comparison)
  (t : rbt K V) (k : K) (x : tree K V) (p : path K V), rb_inv K V cmp t ->
    descend K V cmp (root K V t) k [] = (x, p) -> 2 ^ length p <= (nitems K V t + 1) ^ 2.
Proof. exact search_depth_total. Qed.
Print Assumptions tree_search_depth.

(* Tree_Iter_Init/Last test emptiness by `nitems is 0`; `root is NULL` is the same test on every valid tree *)
Theorem tree_empty_tests_agree : forall (K V : Type) (cmp : K -> K -> comparison) (t : rbt K V),
  rb_inv K V cmp t -> (nitems K V t = 0 <-> root K V t = E).
Proof. exact empty_tests_agree. Qed.
Print Assumptions tree_empty_tests_agree.

(* height bound from the red-black shape alone *)
Theorem tree_height_bound : forall (K V : Type) (t : tree K V),
  rb_tree K V t -> 2 ^ height K V t <= (size K V t + 1) ^ 2.
Proof. exact rb_height_bound. Qed.
Print Assumptions tree_height_bound.

(* the fix-up loops leave the in-order list unchanged (list equations, independent of colours) *)
Theorem tree_set_fix_inorder : forall (K V : Type) (p : path K V) (t r : tree K V),
  set_fix K V t p = Ok r -> inorder K V r = pl K V p ++ inorder K V t ++ pr K V p.
Proof. exact set_fix_inorder. Qed.
Print Assumptions tree_set_fix_inorder.

Theorem tree_rem_fix_inorder : forall (K V : Type) (p : path K V) (t r : tree K V),
  rem_fix K V t p = Ok r -> inorder K V r = pl K V p ++ inorder K V t ++ pr K V p.
Proof. exact rem_fix_inorder. Qed.
Print Assumptions tree_rem_fix_inorder.

(* Tree_Rem_Fix(node) runs while the node is still in the tree and the child is spliced in afterwards; the model puts the
   child into the focus first.  Justification: the repair only rebuilds the context — its result is the focus plugged into
   a path that does not depend on the focus (or it crashes for every focus) *)
Theorem tree_rem_fix_opaque : forall (K V : Type) (p : path K V),
  (exists q, forall t, rem_fix K V t p = Ok (plug K V t q)) \/ (forall t, rem_fix K V t p = Crash).
Proof. exact rem_fix_opaque. Qed.
Print Assumptions tree_rem_fix_opaque.

(* the double-black repair on an opaque focus of black height n in a context expecting n+1 never takes a
   Crash branch and yields a tree with equal black heights whose root is black (unless it is the focus itself) *)
Theorem tree_rem_fix_valid : forall (K V : Type) (p : path K V) (t : tree K V) (n : nat),
  rbh K V t n -> pinv K V p (S n) ->
  exists r m, rem_fix K V t p = Ok r /\ rbh K V r m /\
              (color_of K V t = Black \/ p <> [] -> color_of K V r = Black).
Proof. exact rem_fix_valid. Qed.
Print Assumptions tree_rem_fix_valid.

(* the key orders of the two instances used by the check are total orders:
   Int keys (Int_Cmp on int64 values) and String keys (strcmp = lexicographic on unsigned bytes) *)
Theorem tree_int_keys_total_order : total_order int_cmp.
Proof. exact int_cmp_total. Qed.
Print Assumptions tree_int_keys_total_order.

Theorem tree_string_keys_total_order : total_order bytes_cmp.
Proof. exact bytes_cmp_total. Qed.
Print Assumptions tree_string_keys_total_order.

(* the rules of src/Tree.c that the model hard-codes (orientation of the descent, colour of a new node, end at which
   iteration starts, Tree_Maximum/Tree_Minimum walk right/left), re-extracted from the working tree on every run (tools/genx_tree.py) *)
Theorem tree_source_rules_as_modelled :
  tree_search_left_when = Lt /\ tree_set_left_when = Lt /\ tree_new_node_red = true /\
  tree_iter_from_left = true /\ tree_donor_helpers_ok = true.
Proof. exact source_rules_as_modelled. Qed.
Print Assumptions tree_source_rules_as_modelled.

(* ---------------------------------------------------------------- non-vacuity *)
(* a history with recolourings, inner and outer rotations, removal of a node with two children (predecessor
   copy), of the root, of black leaves (double-black repair), a copy, draining and refilling: the model
   computes these outcomes and this final tree, and the final tree satisfies rb_inv's shape part *)
Definition pred_only (_ _ : bool) := false.        (* the pinned tree: always the predecessor *)
Definition ex_ops : list (op Z Z) :=
  [TSet Z Z 1 10; TSet Z Z 2 20; TSet Z Z 3 30; TSet Z Z 4 40; TSet Z Z 5 50; TSet Z Z 6 60; TSet Z Z 7 70; TSet Z Z 8 80;
   TSet Z Z 0 5; TSet Z Z 3 33; TGet Z Z 3; TGet Z Z 9; TMem Z Z 4; TRem Z Z 4; TRem Z Z 9; TRem Z Z 1; TRem Z Z 6; TCopy Z Z; TRem Z Z 2; TRem Z Z 8;
   TResize Z Z 3; TRem Z Z 0; TRem Z Z 3; TRem Z Z 5; TRem Z Z 7; TMem Z Z 7; TSet Z Z (-4294967296) 1; TSet Z Z 4294967296 2%Z]%Z.

Example tree_history_example :
  t_outs Z Z int_cmp pred_only ex_ops (t_empty Z Z) =
    [OUnit Z; OUnit Z; OUnit Z; OUnit Z; OUnit Z; OUnit Z; OUnit Z; OUnit Z; OUnit Z; OUnit Z;
     OVal Z 33%Z; ORaise Z TKeyError; OBool Z true; OUnit Z; ORaise Z TKeyError; OUnit Z; OUnit Z; OUnit Z;
     OUnit Z; OUnit Z; ORaise Z TFormatError; OUnit Z; OUnit Z; OUnit Z; OUnit Z; OBool Z false;
     OUnit Z; OUnit Z] /\
  t_run Z Z int_cmp pred_only ex_ops (t_empty Z Z) =
    mkT Z Z (T Black (T Red E 4294967296 2 E) (-4294967296) 1 E)%Z 2 /\
  root Z Z (t_run Z Z int_cmp pred_only (firstn 10 ex_ops) (t_empty Z Z)) =
    (T Black (T Red (T Black (T Red E 8 80 E) 7 70 E) 6 60 (T Black E 5 50 E)) 4 40
             (T Red (T Black E 3 33 E) 2 20 (T Black E 1 10 (T Red E 0 5 E))))%Z.
Proof. vm_compute. repeat split. Qed.

(* the invariant's hypotheses are satisfiable by a non-trivial tree (here through the theorem itself) *)
Example tree_rb_inv_example :
  rb_inv Z Z int_cmp (t_run Z Z int_cmp pred_only (firstn 10 ex_ops) (t_empty Z Z)).
Proof. exact (proj1 (tree_refines_omap Z Z int_cmp pred_only int_cmp_total (firstn 10 ex_ops))). Qed.

(* String keys (byte lists under strcmp order): prefixes, the empty string, bytes >= 0x80 *)
Definition sset (k : list N) (v : Z) := TSet (list N) Z k v.
Definition srem (k : list N) := TRem (list N) Z k.
Definition sget (k : list N) := TGet (list N) Z k.
Example tree_string_keys_example :
  let ops := [sset [97%N] 1%Z; sset [] 2%Z; sset [97%N; 97%N] 3%Z; sset [255%N] 4%Z;
              sset [128%N] 5%Z; sset [98%N] 6%Z; srem [97%N]; sget []; srem [97%N]] in
  t_outs (list N) Z bytes_cmp pred_only ops (t_empty (list N) Z) =
    [OUnit Z; OUnit Z; OUnit Z; OUnit Z; OUnit Z; OUnit Z; OUnit Z; OVal Z 2%Z; ORaise Z TKeyError] /\
  iter_forward (list N) Z (t_run (list N) Z bytes_cmp pred_only ops (t_empty (list N) Z)) =
    Ok [[255%N]; [128%N]; [98%N]; [97%N; 97%N]; []].
Proof. vm_compute. split; reflexivity. Qed.

(* the other donor rule accepted from the source (successor when it is red and the predecessor black): removing the
   root 33 of  35(B) <- 33(B) -> -15(B) with 2(R), -20(R) under -15  takes the black leaf 35 (double-black repair with a
   rotation) under the first rule and the red leaf 2 (no repair) under the second: different valid shapes, same contents *)
Definition donor_ops : list (op Z Z) :=
  [TSet Z Z 33 7; TSet Z Z (-15) 8; TSet Z Z 35 9; TSet Z Z 2 10; TSet Z Z (-20) 3; TRem Z Z 33]%Z.
Example tree_donor_rule_example :
  root Z Z (t_run Z Z int_cmp pred_only donor_ops (t_empty Z Z)) =
    (T Black (T Black E 35 9 (T Red E 2 10 E)) (-15) 8 (T Black E (-20) 3 E))%Z /\
  root Z Z (t_run Z Z int_cmp andb donor_ops (t_empty Z Z)) =
    (T Black (T Black E 35 9 E) 2 10 (T Black E (-15) 8 (T Red E (-20) 3 E)))%Z /\
  rb_inv Z Z int_cmp (t_run Z Z int_cmp andb donor_ops (t_empty Z Z)).
Proof.
  split; [vm_compute; reflexivity|]. split; [vm_compute; reflexivity|].
  exact (proj1 (tree_refines_omap Z Z int_cmp andb int_cmp_total donor_ops)).
Qed.
