(* Properties_C03.v — property C03: Tree is an ordered map and stays a valid red-black tree.
   Only statements closed by `exact`, each followed by Print Assumptions. *)
From CelloV Require Import RBTree RBProofs.

Theorem tree_lookup_empty : forall (K V : Type) (cmp : K -> K -> comparison) (k : K),
  lookup K V cmp E k = None.
Proof. exact RBProofs.lookup_empty. Qed.
Print Assumptions tree_lookup_empty.
