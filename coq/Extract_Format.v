(* Extraction of the print-formatting model (C14) for the correspondence driver.
   ExtrOcamlBasic only; numbers stay the extracted inductive types. *)
From Coq Require Import List Arith NArith ZArith Extraction ExtrOcamlBasic.
From CelloV Require Import Generated Format.

Definition f_print_to := print_to.
Definition f_scan := scan.
Definition f_texts := texts.
Definition f_unparse := unparse.
Definition f_unparse_item := unparse_item.
Definition f_wf_items := wf_items.
Definition f_conv_kind := conv_kind.
Definition f_consumes := consumes.
Definition f_sink_bytes := sink_bytes.
Definition f_show_seq := show_seq.
(* ocaml/conv.ml.inc expects the types positive, N and Z *)
Definition f_zadd := Z.add.
Definition f_nadd := N.add.

Extraction Language OCaml.
Extraction "../ocaml/gen/Format.ml" f_print_to f_scan f_texts f_unparse f_unparse_item f_wf_items f_conv_kind f_consumes f_sink_bytes f_show_seq f_zadd f_nadd.
