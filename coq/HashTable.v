(* HashTable.v — property C10 at the level of the Table slot array (coq/TableModel.v):
   Table_Assign (and therefore copy = alloc + assign) re-inserts the source's bindings in slot
   order into a fresh array of Ideal_Size(len) slots.  For every source that satisfies the
   robin-hood invariant `core` the result holds exactly the same bindings, in some order, for
   every hash function and both displacement rules; so what eq(copy(t), t) needs is precisely that
   Table_Cmp does not depend on the order (HashProofs.map_perm_eq, the repaired Table_Cmp), and
   the pinned slot-order walk fails as soon as the order changes (copy_changes_order). *)
From Coq Require Import List Arith Bool NArith ZArith Lia Permutation.
From CelloV Require Import Generated RobinHood RobinHoodProofs TableModel TableProofs.
Import ListNotations.

Section TableCopy.
  Variables K V : Type.
  Variable keq : K -> K -> bool.
  Variable hash : K -> N.
  Variable swap : nat -> nat -> bool.
  Variable primes : list N.
  Variables num den : N.

  Hypothesis keq_spec : forall a b, keq a b = true <-> a = b.
  Hypothesis swap_le : forall j p, swap j p = true -> p <= j.
  Hypothesis swap_ge : forall j p, swap j p = false -> j <= p.
  Hypothesis ideal_gt : forall n, n < ideal_size primes num den n.

  Notation E := (K * V)%type.
  Notation tbl := (table K V).
  Notation hm n := (fun k : K => home K hash k n).
  Notation core' n := (core K E fst (hm n)).

  (* the invariant of a Table state: robin-hood order, stored homes right, keys unique, count right *)
  Definition tinv (t : tbl) : Prop :=
    core' (nslots K V t) (slots K V t) /\ nitems K V t = occupied E (slots K V t).

  Lemma home_lt k n : 0 < n -> home K hash k n < n.
  Proof.
    intros Hn. unfold home.
    assert (N.modulo (hash k) (N.of_nat n) < N.of_nat n)%N by (apply N.mod_lt; lia). lia.
  Qed.

  (* inserting a list of bindings with fresh, pairwise different keys *)
  Lemma set_all_spec : forall (kvs : list E) (t : tbl),
    tinv t -> NoDup (map fst kvs) ->
    (forall x, In x kvs -> Absent K E fst (slots K V t) (fst x)) ->
    occupied E (slots K V t) + length kvs < nslots K V t ->
    exists t', set_all K V keq hash swap t kvs = Some t' /\ tinv t' /\ nslots K V t' = nslots K V t /\
      (forall x, Holds E (slots K V t') x <-> Holds E (slots K V t) x \/ In x kvs) /\
      nitems K V t' = nitems K V t + length kvs.
  Proof.
    induction kvs as [|[k v] kvs IH]; intros t [Hc Hn] ND Hab Hocc.
    - exists t. simpl. split; [reflexivity|]. split; [split; assumption|]. split; [reflexivity|].
      split; [intros x; tauto|lia].
    - cbn [map fst length set_all In] in *. inversion ND as [|? ? Nin ND']; subst.
      assert (Hpos : 0 < nslots K V t) by (clear - Hocc; lia).
      destruct (insert_absent_spec K E keq fst swap (fun _ new => new) keq_spec swap_le swap_ge
                  (hm (nslots K V t)) (slots K V t) (k, v) Hc) as [l' [Hins [Hc' [Hlen [Hh Ho]]]]].
      + simpl. apply home_lt. exact Hpos.
      + unfold nslots in Hocc. eapply Nat.le_lt_trans; [|exact Hocc]. apply Nat.le_add_r.
      + apply (Hab (k, v)). auto.
      + unfold set_move, rh_insert. simpl in Hins.
        match goal with |- context [match ?X with Some _ => _ | None => _ end] =>
          replace X with (Some (l', true)) by (symmetry; exact Hins) end.
        set (t1 := mkT K V l' (S (nitems K V t))).
        assert (Hn1 : nslots K V t1 = nslots K V t) by (unfold nslots; simpl; exact Hlen).
        destruct (IH t1) as [t' [Hs [Hi' [Hns [Hh' Hni]]]]].
        * split.
          -- unfold t1, nslots, tslot, entry in *. simpl. rewrite Hlen. exact Hc'.
          -- unfold t1; simpl. rewrite Ho. f_equal. exact Hn.
        * exact ND'.
        * intros x Hx i h e Hat. unfold t1 in Hat; simpl in Hat.
          assert (HH : Holds E l' e) by (exists i, h; exact Hat).
          apply Hh in HH. destruct HH as [HH| ->].
          -- destruct HH as [i' [h' Hat']]. apply (Hab x (or_intror Hx) i' h' e Hat').
          -- simpl. intros Ek. apply Nin. rewrite Ek. apply in_map. exact Hx.
        * unfold t1, nslots, tslot, entry in *; simpl. rewrite Ho, Hlen. lia.
        * exists t'. split; [exact Hs|]. split; [exact Hi'|]. split; [lia|]. split.
          -- intros x. rewrite Hh'. unfold t1; simpl. rewrite Hh. intuition.
          -- rewrite Hni. unfold t1; simpl. lia.
  Qed.

  (* distinct keys in the slot array give distinct keys in iteration order *)
  Lemma UQ_tail s (l : list (slot E)) : UQ K E fst (s :: l) -> UQ K E fst l.
  Proof.
    intros U i i' h h' e e' H1 H2 Ek.
    assert (S i = S i') by (eapply U; try rewrite at_cons; eauto). lia.
  Qed.

  Lemma entries_nodup (l : list (slot E)) : UQ K E fst l -> NoDup (map fst (entries E l)).
  Proof.
    induction l as [|s l IH]; intros U; [constructor|].
    rewrite entries_cons. pose proof (IH (UQ_tail _ _ U)) as IH'.
    destruct s as [[h e]|]; [|exact IH'].
    simpl. constructor; [|exact IH'].
    intros I. apply in_map_iff in I. destruct I as [x [Ek Ix]].
    apply in_entries in Ix. destruct Ix as [i [h' Hat]].
    assert (S i = 0); [|lia].
    eapply U; [rewrite at_cons; exact Hat| reflexivity | exact Ek].
  Qed.

  Lemma nodup_fst_nodup (l : list E) : NoDup (map fst l) -> NoDup l.
  Proof.
    induction l as [|x l IH]; intros ND; [constructor|]. inversion ND; subst.
    constructor; auto. intros I. apply H1. apply in_map. exact I.
  Qed.

  (* Table_Assign(self, src) for src a Table / copy(src) *)
  Theorem table_copy_perm (src : tbl) : tinv src ->
    exists t', t_assign_from K V keq hash swap primes num den src = Some t' /\ tinv t' /\
      Permutation (t_iter K V t') (t_iter K V src) /\ nitems K V t' = nitems K V src.
  Proof.
    intros [Hc Hn]. unfold t_assign_from.
    set (n := ideal primes num den (nitems K V src)).
    set (t0 := mkT K V (repeat None n) 0).
    assert (Hn0 : nslots K V t0 = n) by (unfold nslots, t0; simpl; apply repeat_length).
    destruct Hc as [HL [Hwf Huq]].
    pose proof (entries_nodup _ Huq) as NDk.
    destruct (set_all_spec (t_iter K V src) t0) as [t' [Hs [Hi' [Hns [Hh Hni]]]]].
    - split; [unfold t0; simpl; apply core_repeat|]. unfold t0; simpl. symmetry. apply occupied_repeat.
    - exact NDk.
    - intros x _. unfold t0; simpl. apply Absent_repeat.
    - unfold t0 at 1; simpl. rewrite occupied_repeat, Hn0. unfold t_iter. simpl.
      unfold tslot, entry in *. rewrite <- occupied_entries. rewrite <- Hn. apply ideal_gt.
    - exists t'. split; [exact Hs|]. split; [exact Hi'|]. split.
      + unfold t_iter. apply NoDup_Permutation.
        * apply nodup_fst_nodup. apply entries_nodup. destruct Hi' as [[_ [_ U]] _]. exact U.
        * apply nodup_fst_nodup. exact NDk.
        * intros x. rewrite !in_entries. rewrite Hh. unfold t0; simpl. unfold t_iter. rewrite in_entries.
          split; [intros [[i [h Hat]]|]; auto|auto].
          exfalso. pose proof (eq_trans (eq_sym Hat) (at_repeat E n i)) as Hr. discriminate.
      + rewrite Hni. unfold t0, t_iter; simpl. rewrite Hn. symmetry. apply occupied_entries.
  Qed.
End TableCopy.

(* ------------------------------------------------------------------ instance: the source's parameters *)
Lemma table_swap_le j p : table_swap j p = true -> p <= j.
Proof. unfold table_swap. intros H. apply Nat.ltb_lt in H || apply Nat.leb_le in H; lia. Qed.
Lemma table_swap_ge j p : table_swap j p = false -> j <= p.
Proof. unfold table_swap. intros H. apply Nat.ltb_ge in H || apply Nat.leb_gt in H; lia. Qed.

Theorem table_copy_same_bindings (K V : Type) (keq : K -> K -> bool) (hash : K -> N) (src : table K V) :
  (forall a b, keq a b = true <-> a = b) ->
  tinv K V hash src ->
  exists t', t_assign_from K V keq hash table_swap table_primes table_load_num table_load_den src = Some t' /\
    tinv K V hash t' /\ Permutation (t_iter K V t') (t_iter K V src) /\ nitems K V t' = nitems K V src.
Proof.
  intros Hk Hi. apply table_copy_perm; auto using table_swap_le, table_swap_ge, ideal_gt.
Qed.

(* non-vacuity and the reason the pinned Table_Cmp failed: a reachable state (two Int keys, identity
   hash, after resize(t, 50)) satisfies the invariant, and its copy lists the bindings in the
   other order *)
Definition zt_hash (k : Z) : N := Z.to_N (k mod 18446744073709551616)%Z.
(* the witness is stated for one FIXED configuration (the pinned prime table prefix, load factor 9/10,
   strict displacement rule), not for the source's current tuning: it shows that the model HAS states
   whose copy iterates in another order, whatever the tuning constants are today *)
Definition pin_primes : list N := [1; 5; 11; 23; 53; 101; 197]%N.
Definition pin_swap (j p : nat) : bool := p <? j.
Definition zt_step := t_step Z Z Z.eqb zt_hash pin_swap pin_primes 9%N 10%N.
Definition zt_run (ops : list (op Z Z)) :=
  fold_left (fun t o => fst (zt_step t o)) ops (t_empty Z Z pin_primes 9%N 10%N).
Definition witness_table := zt_run [TSet Z Z 7%Z 1%Z; TSet Z Z 3%Z 2%Z; TResize Z Z 50].

Lemma copy_changes_order :
  t_iter Z Z witness_table = [(3%Z, 2%Z); (7%Z, 1%Z)] /\
  option_map (t_iter Z Z)
    (t_assign_from Z Z Z.eqb zt_hash pin_swap pin_primes 9%N 10%N witness_table)
  = Some [(7%Z, 1%Z); (3%Z, 2%Z)].
Proof. split; vm_compute; reflexivity. Qed.

(* non-vacuity of `tinv`: a table with two bindings that satisfies it *)
Lemma tinv_nonvacuous :
  exists t, tinv Z Z zt_hash t /\ t_iter Z Z t = [(3%Z, 2%Z); (7%Z, 1%Z)].
Proof.
  set (t0 := mkT Z Z (repeat None 11) 0).
  destruct (set_all_spec Z Z Z.eqb zt_hash table_swap Z.eqb_eq table_swap_le table_swap_ge
              [(7%Z, 1%Z); (3%Z, 2%Z)] t0) as [t' [Hs [Hi _]]].
  - split; [apply core_repeat|]. simpl. symmetry. apply (occupied_repeat (Z * Z) 11).
  - simpl. repeat constructor; simpl; intuition discriminate.
  - intros x _. apply Absent_repeat.
  - vm_compute. lia.
  - exists t'. split; [exact Hi|].
    assert (E : set_all Z Z Z.eqb zt_hash table_swap t0 [(7%Z, 1%Z); (3%Z, 2%Z)] <> None) by congruence.
    revert Hs. vm_compute. intros Hs. injection Hs as <-. reflexivity.
Qed.

(* ------------------------------------------------------------------ both levels together, Int keys *)
(* A Table keyed by Int whose slot array satisfies the invariant, seen as a value: its bindings in
   iteration order.  copy(t) (= Table_Assign into fresh storage) is eq to t in both directions and
   hashes the same, whatever the hash function placing the keys and whatever the history that led
   to the state. *)
From CelloV Require Import HashModel HashProofs.

Definition emb (t : table Z value) : list (value * value) :=
  map (fun kv => (VInt (fst kv), snd kv)) (t_iter Z value t).

Section IntTable.
  Variable hd : list N -> N.
  Variable fs : nat.
  Hypothesis Hfs : fh_normalising fs = true.
  Variable hash : Z -> N.

  Definition entries_wf (t : table Z value) : Prop :=
    forall k v, In (k, v) (t_iter Z value t) -> v_wf (VInt k) = true /\ v_wf v = true.

  Lemma emb_wf (t : table Z value) : tinv Z value hash t -> entries_wf t -> v_wf (VMap KTable (emb t)) = true.
  Proof.
    intros [[_ [_ U]] _] W. cbn [v_wf]. apply andb_true_iff. split; [apply andb_true_iff; split|].
    - apply forallb_forall. intros [k v] I. unfold emb in I. apply in_map_iff in I.
      destruct I as [[k0 v0] [E I]]. simpl in E. injection E as <- <-.
      destruct (W _ _ I) as [W1 W2]. simpl. change (v_wf (VInt k0) && v_wf v0 = true). rewrite W1, W2. reflexivity.
    - apply (kcl_same_class (kclass (VInt 0))). unfold kcl, emb. apply Forall_forall. intros kv I.
      apply in_map_iff in I. destruct I as [[k0 v0] [<- _]]. reflexivity.
    - apply nodup_keys_distinct.
      + unfold kwf, emb. apply Forall_forall. intros kv I. apply in_map_iff in I.
        destruct I as [[k0 v0] [<- I]]. simpl. split; [reflexivity|]. apply (W _ _ I).
      + unfold nkeys, emb. rewrite map_map. simpl.
        pose proof (entries_nodup Z value _ U) as ND. unfold t_iter.
        rewrite <- (map_map fst VInt). apply FinFun.Injective_map_NoDup; [|exact ND].
        intros x y E. injection E. auto.
  Qed.

  Theorem int_table_copy_eq_hash (t : table Z value) :
    tinv Z value hash t -> entries_wf t ->
    exists t', t_assign_from Z value Z.eqb hash table_swap table_primes table_load_num table_load_den t = Some t' /\
      v_cmp true (VMap KTable (emb t')) (VMap KTable (emb t)) = Some 0%Z /\
      v_cmp true (VMap KTable (emb t)) (VMap KTable (emb t')) = Some 0%Z /\
      v_hash hd fs (VMap KTable (emb t')) = v_hash hd fs (VMap KTable (emb t)) /\
      length (emb t') = length (emb t).
  Proof.
    intros Hi W.
    destruct (table_copy_same_bindings Z value Z.eqb hash t Z.eqb_eq Hi) as [t' [Ha [Hi' [P Hn]]]].
    exists t'. split; [exact Ha|].
    assert (Pe : Permutation (emb t) (emb t')) by (unfold emb; apply Permutation_map; apply Permutation_sym; exact P).
    pose proof (emb_wf t Hi W) as Wt.
    destruct (map_perm_eq hd true fs Hfs KTable KTable (emb t) (emb t') eq_refl Wt Pe) as [Wt' [C1 H1]].
    destruct (map_perm_eq hd true fs Hfs KTable KTable (emb t') (emb t) eq_refl Wt' (Permutation_sym Pe)) as [_ [C2 _]].
    split; [exact C2|]. split; [exact C1|]. split; [symmetry; exact H1|].
    apply Permutation_length. apply Permutation_sym. exact Pe.
  Qed.
End IntTable.

Lemma int_table_nonvacuous :
  exists t : table Z value, tinv Z value zt_hash t /\ entries_wf t /\
    emb t = [(VInt 3, VSeq KList [VFloat 0]); (VInt 7, VStr [72; 105]%N)].
Proof.
  set (kvs := [(7%Z, VStr [72; 105]%N); (3%Z, VSeq KList [VFloat 0])]).
  set (t0 := mkT Z value (repeat None 11) 0).
  destruct (set_all_spec Z value Z.eqb zt_hash table_swap Z.eqb_eq table_swap_le table_swap_ge kvs t0)
    as [t' [Hs [Hi _]]].
  - split; [apply core_repeat|]. simpl. symmetry. apply (occupied_repeat (Z * value) 11).
  - simpl. repeat constructor; simpl; intuition discriminate.
  - intros x _. apply Absent_repeat.
  - vm_compute. lia.
  - exists t'. split; [exact Hi|].
    vm_compute in Hs. injection Hs as <-. split; [|reflexivity].
    intros k v I. vm_compute in I. destruct I as [E|[E|[]]]; injection E as <- <-; split; vm_compute; reflexivity.
Qed.

(* ------------------------------------------------------------------ every construction history *)
(* With the refinement theorem of C02 (TableProofs.T_refines_map: every history of set / rem / get /
   mem / resize / copy from the empty table keeps the invariant and holds exactly the bindings of the
   finite map spec_run ops []) the hypothesis `tinv` disappears. *)
Section Histories.
  Variable hd : list N -> N.
  Variable fs : nat.
  Hypothesis Hfs : fh_normalising fs = true.

  Lemma T_run_tinv (hash : Z -> N) (ops : list (op Z value)) : tinv Z value hash (T_run Z value Z.eqb hash ops).
  Proof. destruct (T_refines_map Z value Z.eqb hash Z.eqb_eq ops (TSelfCopy Z value)) as [[Hp _] _]. exact Hp. Qed.

  (* copy(t) after any history *)
  Theorem int_table_history_copy (hash : Z -> N) (ops : list (op Z value)) :
    let t := T_run Z value Z.eqb hash ops in
    entries_wf t ->
    exists t', t_assign_from Z value Z.eqb hash table_swap table_primes table_load_num table_load_den t = Some t' /\
      v_cmp true (VMap KTable (emb t')) (VMap KTable (emb t)) = Some 0%Z /\
      v_cmp true (VMap KTable (emb t)) (VMap KTable (emb t')) = Some 0%Z /\
      v_hash hd fs (VMap KTable (emb t')) = v_hash hd fs (VMap KTable (emb t)) /\
      length (emb t') = length (emb t).
  Proof. intros t W. apply int_table_copy_eq_hash; [exact Hfs|apply T_run_tinv|exact W]. Qed.

  (* two histories — different insertion orders, removals, reserves, copies, even different hash
     functions placing the keys — that leave the same bindings leave tables that are eq in both
     directions and hash the same *)
  Theorem int_table_histories_eq_hash (hash1 hash2 : Z -> N) (ops1 ops2 : list (op Z value)) :
    let t1 := T_run Z value Z.eqb hash1 ops1 in
    let t2 := T_run Z value Z.eqb hash2 ops2 in
    Permutation (spec_run Z value Z.eqb ops1 []) (spec_run Z value Z.eqb ops2 []) ->
    entries_wf t1 ->
    v_cmp true (VMap KTable (emb t1)) (VMap KTable (emb t2)) = Some 0%Z /\
    v_cmp true (VMap KTable (emb t2)) (VMap KTable (emb t1)) = Some 0%Z /\
    v_hash hd fs (VMap KTable (emb t1)) = v_hash hd fs (VMap KTable (emb t2)).
  Proof.
    intros t1 t2 P W.
    destruct (T_len_iter Z value Z.eqb hash1 Z.eqb_eq ops1) as [_ [_ [P1 _]]].
    destruct (T_len_iter Z value Z.eqb hash2 Z.eqb_eq ops2) as [_ [_ [P2 _]]].
    fold t1 in P1. fold t2 in P2.
    assert (Pt : Permutation (t_iter Z value t1) (t_iter Z value t2)).
    { eapply perm_trans; [exact P1|]. eapply perm_trans; [exact P|]. apply Permutation_sym. exact P2. }
    assert (Pe : Permutation (emb t1) (emb t2)) by (unfold emb; apply Permutation_map; exact Pt).
    pose proof (emb_wf hash1 t1 (T_run_tinv hash1 ops1) W) as W1.
    destruct (map_perm_eq hd true fs Hfs KTable KTable (emb t1) (emb t2) eq_refl W1 Pe) as [W2 [C1 H1]].
    destruct (map_perm_eq hd true fs Hfs KTable KTable (emb t2) (emb t1) eq_refl W2 (Permutation_sym Pe)) as [_ [C2 _]].
    auto.
  Qed.
End Histories.

(* non-vacuity: two histories of different shape with the same final bindings *)
Definition hist1 : list (op Z value) :=
  [TSet Z value 5%Z (VStr [65]%N); TSet Z value 10%Z (VFloat 0); TSet Z value 0%Z (VInt 3)].
Definition hist2 : list (op Z value) :=
  [TSet Z value 0%Z (VInt 3); TSet Z value 7%Z (VInt 1); TResize Z value 50; TSet Z value 10%Z (VFloat 0);
   TRem Z value 7%Z; TSet Z value 5%Z (VInt 9); TSelfCopy Z value; TSet Z value 5%Z (VStr [65]%N)].
Lemma histories_nonvacuous :
  Permutation (spec_run Z value Z.eqb hist1 []) (spec_run Z value Z.eqb hist2 []) /\
  hist1 <> hist2 /\ entries_wf (T_run Z value Z.eqb zt_hash hist1).
Proof.
  split; [|split].
  - vm_compute. match goal with |- Permutation ?l _ => exact (Permutation_rev l) end.
  - discriminate.
  - intros k v I. vm_compute in I. destruct I as [E|[E|[E|[]]]]; injection E as <- <-; split; vm_compute; reflexivity.
Qed.
