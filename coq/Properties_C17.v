(* Properties_C17.v — property C17: the collector's registry is exactly the set of live
   managed objects.  Only statements closed by `exact`, each followed by Print Assumptions. *)
From CelloV Require Import Generated RobinHood RobinHoodProofs RegistryModel RegistryProofs.

Theorem gc_ideal_size_gt : forall n : nat,
  n < ideal_size gc_primes gc_load_num gc_load_den n.
Proof. exact RegistryProofs.gc_ideal_gt. Qed.
Print Assumptions gc_ideal_size_gt.
