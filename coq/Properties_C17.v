(* Properties_C17.v — property C17: the collector's registry is exactly the set of live
   managed objects.  Only statements closed by `exact`, each followed by Print Assumptions,
   and Examples of non-vacuity.  Vocabulary (coq/RegistryModel.v, coq/RegistryProofs.v):
     Gstep/Grun/Gsweep/Grem  the model of src/GC.c instantiated with the displacement rule,
                     prime table and load factor re-read from the source (Generated.v)
     hashf           GC_Hash, ARBITRARY (every address pattern); owns = what destructors delete,
                     ARBITRARY; rf/nf = shape of the pending-list handling (both variants)
     Inv             robin-hood invariant (ordering, stored homes, no duplicate address)
                     /\ nitems = occupied < nslots /\ all addresses in [minptr, maxptr]
                     /\ pending objects are not in the table /\ registry = ledger of the event log
                     /\ no mark bit set;   InvM = Inv without the last clause
     Reg g q s       address q is in the table with root flag s
     led evs q s     q was allocated with flag s and neither deleted nor reclaimed since
     admissible      allocator contract: GC_Set never gets an address that is still registered *)
From Coq Require Import List NArith.
From CelloV Require Import Generated RobinHood RobinHoodProofs RegistryModel RegistryProofs.
Import ListNotations.

Theorem gc_ideal_size_gt : forall n : nat,
  n < ideal_size gc_primes gc_load_num gc_load_den n.
Proof. exact RegistryProofs.gc_ideal_gt. Qed.
Print Assumptions gc_ideal_size_gt.

Theorem registry_init : forall hashf, Inv hashf gc_init /\ Quiet gc_init.
Proof. exact RegistryProofs.Inv_init. Qed.
Print Assumptions registry_init.

(* every operation, from every state satisfying the invariant: no loop runs out of fuel, the
   C code never computes `% 0`, the invariant is kept, mem answers by the registry *)
Theorem registry_step : forall hashf d rf nf g o, dtors_ok d ->
  Inv hashf g -> Quiet g -> admissible g o ->
  exists g' out, Gstep hashf d rf nf g o = (g', out) /\ out <> OFuel /\ out <> OCrash /\
    Inv hashf g' /\ Quiet g' /\
    (forall p, o = OMem p -> out = OBool true <-> exists s, Reg g p s).
Proof. exact RegistryProofs.registry_step_thm. Qed.
Print Assumptions registry_step.

Theorem registry_history : forall hashf d rf nf ops, dtors_ok d ->
  Gadm hashf d rf nf ops gc_init ->
  Inv hashf (Grun hashf d rf nf ops gc_init) /\ Quiet (Grun hashf d rf nf ops gc_init).
Proof. exact RegistryProofs.registry_history_thm. Qed.
Print Assumptions registry_history.

(* ... hence at every intermediate step of a history *)
Theorem registry_every_step : forall hashf d rf nf done rest, dtors_ok d ->
  Gadm hashf d rf nf (done ++ rest) gc_init ->
  Inv hashf (Grun hashf d rf nf done gc_init) /\ Quiet (Grun hashf d rf nf done gc_init).
Proof. exact RegistryProofs.registry_every_step_thm. Qed.
Print Assumptions registry_every_step.

(* C17 in one statement *)
Theorem registry_is_ledger : forall hashf d rf nf ops, dtors_ok d ->
  Gadm hashf d rf nf ops gc_init ->
  let g := Grun hashf d rf nf ops gc_init in
  (forall q s, Reg g q s <-> led (evs g) q s) /\
  NoDup (map ptr (entries gentry (slots g))) /\
  nitems g = length (entries gentry (slots g)) /\
  (nslots g = 0 \/ nitems g < nslots g) /\
  (forall p, exists b, gc_mem hashf g p = Some b /\ (b = true <-> exists s, led (evs g) p s)) /\
  (forall e, In e (entries gentry (slots g)) -> marked e = false /\ (minptr g <= ptr e <= maxptr g)%N) /\
  pending g = [].
Proof. exact RegistryProofs.registry_is_ledger_thm. Qed.
Print Assumptions registry_is_ledger.

(* the compaction loop (with `continue` and no i++ after a removal, wrap-around included) *)
Theorem sweep_loop_exact : forall hashf (l : list gslot) nit pl ev,
  Core hashf l -> (length l = 0 \/ occupied gentry l < length l) ->
  exists l' rm,
    sweep_loop (length l + occupied gentry l + 1) l 0 nit pl ev
      = Some (l', nit - length rm, pl ++ pend_of rm, reclaim_evs rm ++ ev) /\
    Core hashf l' /\ length l' = length l /\
    (forall x, Holds gentry l' x <-> Holds gentry l x /\ keeper x = true) /\
    (forall x, In x rm <-> Holds gentry l x /\ keeper x = false) /\
    occupied gentry l' + length rm = occupied gentry l.
Proof. exact RegistryProofs.sweep_loop_exact_thm. Qed.
Print Assumptions sweep_loop_exact.

Theorem sweep_total : forall hashf d rf nf g, dtors_ok d -> InvM hashf g -> Quiet g ->
  exists g', Gsweep hashf d rf nf g = Some g' /\ Inv hashf g' /\ Quiet g'.
Proof. exact RegistryProofs.sweep_total_thm. Qed.
Print Assumptions sweep_total.

(* removals while a sweep is in progress / from inside another removal: the model's nesting
   fuel `depth` suffices, whatever the destructors delete and allocate on the way *)
Theorem removal_during_sweep : forall hashf d rf g p f, dtors_ok d ->
  Inv hashf g -> depth g <= f ->
  exists g', Grem hashf d rf f g p = Some g' /\ Inv hashf g' /\
             length (pending g') = length (pending g).
Proof. exact RegistryProofs.removal_during_sweep_thm. Qed.
Print Assumptions removal_during_sweep.

(* allocations while a sweep is in progress (GC_Set called from a destructor): registered with
   the root flag, counted, invariant (bounds, ledger, robin-hood order through Resize_More) kept *)
Theorem allocation_during_sweep : forall hashf d g p r, dtors_ok d ->
  Inv hashf g -> ~ In p (d_olist d) ->
  exists g', Gspawn hashf g (p, r) = Some g' /\ Inv hashf g' /\
             length (pending g') = length (pending g) /\
             (running g = true -> is_reg (slots g) p = false -> is_pending p (pending g) = false ->
              Reg g' p r /\ nitems g' = S (nitems g) /\ hd EvViol (evs g') <> EvViol \/ pending g = []).
Proof. exact RegistryProofs.allocation_during_sweep_thm. Qed.
Print Assumptions allocation_during_sweep.

(* any allocation of a destructor, temporaries included (allocated and deleted again inside
   the same destructor, possibly at an address released earlier in the same sweep) *)
Theorem destructor_action : forall hashf d rf g a f, dtors_ok d ->
  Inv hashf g -> 0 < f -> ~ In (fst (dact_pair a)) (d_olist d) ->
  exists g', Gact hashf d rf f g a = Some g' /\ Inv hashf g' /\
             length (pending g') = length (pending g).
Proof. exact RegistryProofs.destructor_action_thm. Qed.
Print Assumptions destructor_action.

(* GC_Mark_Item on a registered aligned address: the [minptr, maxptr] pre-filter lets it
   through, the probe loop reaches it, it ends up marked (interface to C01) *)
Theorem mark_item_marks_registered : forall hashf g p s,
  InvM hashf g -> Reg g p s -> (p mod 8 = 0)%N ->
  exists g', mark_item hashf g p = Some (Some g') /\ PW (slots g) (slots g') /\
    exists e', Holds gentry (slots g') e' /\ ptr e' = p /\ root e' = s /\ marked e' = true.
Proof. exact RegistryProofs.mark_item_marks_thm. Qed.
Print Assumptions mark_item_marks_registered.

(* the oracle of the correspondence check is the specification *)
Theorem led_list_spec : forall l q s, In (q, s) (led_list l) <-> led l q s.
Proof. exact RegistryProofs.led_list_spec_thm. Qed.
Print Assumptions led_list_spec.

Example destructors_ok : dtors_ok ex_d.
Proof. exact ex_d_ok. Qed.

(* ---- non-vacuity: an admissible history with collisions, a sweep whose destructors delete a
   pending object and a marked survivor, address re-use, a stop window; both variants of the
   pending-list handling *)
Example history_is_admissible :
  Gadm ex_hash ex_d false false ex_ops gc_init /\ Gadm ex_hash ex_d true true ex_ops gc_init.
Proof. split; apply adm_runb_ok; vm_compute; reflexivity. Qed.

Example history_is_not_trivial :
  let g := Grun ex_hash ex_d false false ex_ops gc_init in
  nitems g = 2 /\ In (EvReclaim 16) (evs g) /\ In (EvRem 24) (evs g) /\ In (EvSpawn 4104 true) (evs g) /\
  In (EvSpawn 4112 false) (evs g) /\ In (EvFin 4112) (evs g) /\ maxptr g = 4112%N /\ ~ In (EvFin 16) (evs g) /\
  In (EvFin 16) (evs (Grun ex_hash ex_d true true ex_ops gc_init)).
Proof.
  vm_compute. repeat split; try tauto.
  intros H; repeat (destruct H as [H|H]; [discriminate|]); exact H.
Qed.

(* the hypothesis InvM of sweep_total (invariant with mark bits set) is satisfiable by a state
   with five colliding entries, one of them marked *)
Example five_allocations : nitems (Grun ex_hash ex_d false false (firstn 5 ex_ops) gc_init) = 5.
Proof. vm_compute. reflexivity. Qed.

Example first_five_admissible : Gadm ex_hash ex_d false false (firstn 5 ex_ops) gc_init.
Proof. apply adm_runb_ok; vm_compute; reflexivity. Qed.

Example marked_state_satisfies_InvM :
  exists g, InvM ex_hash g /\ Quiet g /\ nitems g = 5 /\ exists e, Holds gentry (slots g) e /\ marked e = true.
Proof.
  destruct (registry_history ex_hash ex_d false false (firstn 5 ex_ops) ex_d_ok first_five_admissible) as [[H _] Hq].
  pose proof five_allocations as Hn.
  remember (Grun ex_hash ex_d false false (firstn 5 ex_ops) gc_init) as g eqn:Hg. clear Hg.
  destruct (Inv_nodup ex_hash g H) as [_ Hc]. rewrite Hn in Hc.
  destruct (entries gentry (slots g)) as [|e es] eqn:He; [discriminate|].
  destruct (mark_all_InvM ex_hash g H Hq) as [H1 [H2 [H3 H4]]].
  eexists. split; [exact H1|]. split; [exact H2|]. split; [rewrite H3; exact Hn|].
  exists (setmark e). apply H4. rewrite He. left. reflexivity.
Qed.

(* the hypotheses of removal_during_sweep are satisfiable with a non-empty pending list: the
   invariant does not ask for `Quiet` *)
Example pending_state_satisfies_Inv :
  exists g, Inv ex_hash g /\ pending g = [Some 4096%N] /\ nitems g = 5 /\ depth g = 8.
Proof.
  destruct (registry_history ex_hash ex_d false false (firstn 5 ex_ops) ex_d_ok first_five_admissible) as [Hi Hq].
  pose proof five_allocations as Hn.
  assert (Hab : is_reg (slots (Grun ex_hash ex_d false false (firstn 5 ex_ops) gc_init)) 4096 = false)
    by (vm_compute; reflexivity).
  remember (Grun ex_hash ex_d false false (firstn 5 ex_ops) gc_init) as g eqn:Hg. clear Hg.
  destruct (add_pending_Inv ex_hash g 4096%N Hi Hab) as [H1 [H2 [H3 H4]]].
  eexists. split; [exact H1|]. split; [exact H2|]. split; [rewrite H3; exact Hn|rewrite H4, Hn; reflexivity].
Qed.

(* the allocator contract is needed: the same address registered twice breaks the count *)
Theorem registry_double_registration_refuted :
  exists ops, let g := Grun ex_hash ex_d false false ops gc_init in
              nitems g <> length (entries gentry (slots g)).
Proof. exists bad_ops. vm_compute. discriminate. Qed.
Print Assumptions registry_double_registration_refuted.
