(* FileModel.v — executable model of src/File.c (type File: File_New, File_Del, File_Open,
   File_Close, File_Seek, File_Tell, File_Flush, File_EOF, File_Read, File_Write,
   File_Format_To, File_Format_From), of `with` (start_in / stop_in of src/Start.c with
   Instance(Start, NULL, File_Close, NULL)), on top of a small explicit model of stdio
   (fopen / fclose / fread / fwrite / fseek / ftell / feof / fflush / the vfscanf directives
   used by scan_from(f, 0, "%ld %s\n", ...)), and the abstract specification it refines.
   MODEL ONLY (no proofs here; see FileProofs.v, Properties_C20.v).

   The stdio part is VALIDATED against glibc by the correspondence (harness/file_ops.c),
   not verified.  It is the "unbuffered view": a write is visible in the file at once.  This
   is what one stream sees of its own file; it is what the C library guarantees only when a
   path is not open in two streams at once with one of them writing (the generators respect
   that).  Byte type, zero byte and character classes are parameters: nothing below depends
   on the values of bytes. *)
From Coq Require Import List Arith Bool ZArith.
Import ListNotations.

Inductive fexn := FIOError | FFormatError.

Inductive mode := MR | MW | MA | MRp | MWp | MAp | MBad.
Inductive origin := SeekSet | SeekCur | SeekEnd | SeekBad.

Definition m_read (m : mode) : bool :=
  match m with MR | MRp | MWp | MAp => true | _ => false end.
Definition m_write (m : mode) : bool :=
  match m with MW | MA | MRp | MWp | MAp => true | _ => false end.
Definition m_append (m : mode) : bool :=
  match m with MA | MAp => true | _ => false end.

(* a FILE as the program sees it *)
Record stream := mkS { s_path : nat; s_pos : nat; s_eof : bool; s_mode : mode }.

Definition set_pos (s : stream) (p : nat) (e : bool) : stream :=
  mkS (s_path s) p e (s_mode s).

(* ledger events: what reached stdio *)
Inductive event :=
| EvOpen (h : nat)         (* successful fopen returned handle h *)
| EvClose (h : nat)        (* fclose applied to the live handle h *)
| EvCloseNull              (* fclose(NULL) *)
| EvStale (h : nat).       (* any stdio function applied to the already closed handle h *)

Section File.
  Variable B : Type.
  Variable zero : B.                               (* the byte a hole is filled with *)
  Variables is_ws is_digit is_sign : B -> bool.    (* isspace, isdigit, '+' / '-' *)
  Variable creatable : nat -> bool.    (* path lies in an existing, writable directory *)
  Variable close_fails : nat -> bool.  (* path is a device whose final flush fails (/dev/full) *)
  Variable fixed_close : bool.   (* File_Close tests for a closed File first (repair of D19) *)
  Variable fixed_clear : bool.   (* File_Close clears the handle also when fclose fails (D22) *)

  (* ------------------------------------------------------------------ stdio model *)
  Definition fsys := nat -> option (list B).       (* None = no such file *)

  Definition upd {A} (f : nat -> A) (k : nat) (v : A) : nat -> A :=
    fun x => if Nat.eqb x k then v else f x.

  Definition content (fs : fsys) (p : nat) : list B :=
    match fs p with Some c => c | None => [] end.

  (* fopen(path, mode) *)
  Definition fopen (fs : fsys) (p : nat) (m : mode) : option (fsys * stream) :=
    if negb (creatable p) then None else
    match m with
    | MBad => None
    | MR | MRp => match fs p with Some _ => Some (fs, mkS p 0 false m) | None => None end
    | MW | MWp => Some (upd fs p (Some []), mkS p 0 false m)
    | MA => Some (upd fs p (Some (content fs p)), mkS p (length (content fs p)) false m)
    | MAp => Some (upd fs p (Some (content fs p)), mkS p 0 false m)
    end.

  (* fread(buf, n, 1, fp): (items returned, bytes stored into buf, stream afterwards) *)
  Definition fread (fs : fsys) (s : stream) (n : nat) : nat * list B * stream :=
    if n =? 0 then (0, [], s)
    else if negb (m_read (s_mode s)) then (0, [], s)            (* error indicator, not EOF *)
    else
      let avail := skipn (s_pos s) (content fs (s_path s)) in
      if n <=? length avail then (1, firstn n avail, set_pos s (s_pos s + n) (s_eof s))
      else (0, avail, set_pos s (s_pos s + length avail) true).

  Definition write_at (c : list B) (at_ : nat) (d : list B) : list B :=
    firstn at_ c ++ repeat zero (at_ - length c) ++ d ++ skipn (at_ + length d) c.

  (* fwrite(buf, n, 1, fp) with n = length d: (items returned, file system, stream) *)
  Definition fwrite (fs : fsys) (s : stream) (d : list B) : nat * fsys * stream :=
    if length d =? 0 then (0, fs, s)
    else if negb (m_write (s_mode s)) then (0, fs, s)
    else
      let c := content fs (s_path s) in
      let at_ := if m_append (s_mode s) then length c else s_pos s in
      (1, upd fs (s_path s) (Some (write_at c at_ d)), set_pos s (at_ + length d) (s_eof s)).

  (* fseek(fp, off, origin): None = error (-1), nothing changes *)
  Definition fseek (fs : fsys) (s : stream) (off : Z) (o : origin) : option stream :=
    let base := match o with
                | SeekSet => Some 0
                | SeekCur => Some (s_pos s)
                | SeekEnd => Some (length (content fs (s_path s)))
                | SeekBad => None
                end in
    match base with
    | None => None
    | Some b => let t := (Z.of_nat b + off)%Z in
                if (t <? 0)%Z then None else Some (set_pos s (Z.to_nat t) false)
    end.

  (* longest prefix satisfying p, and the rest *)
  Fixpoint span (p : B -> bool) (l : list B) : list B * list B :=
    match l with
    | [] => ([], [])
    | b :: r => if p b then let (a, c) := span p r in (b :: a, c) else ([], l)
    end.

  Definition at_end (l : list B) : bool := match l with [] => true | _ => false end.

  (* the four vfscanf calls made by scan_from(f, 0, "%ld %s\n", k, w):
     "%ld%n", " ", "%s%n", "\n".  Input is the unread rest of the file.  Result:
     (Some (number token, word) | None = FormatError, bytes consumed, EOF seen). *)
  Definition scan_rec (rest : list B) : option (list B * list B) * nat * bool :=
    let (ws1, r1) := span is_ws rest in
    match r1 with
    | [] => (None, length ws1, true)                           (* input failure *)
    | b :: r1' =>
      let (sg, r1s) := if is_sign b then ([b], r1') else ([], r1) in
      let (ds, r2) := span is_digit r1s in
      match ds with
      | [] => (None, length ws1 + length sg, at_end r1s)       (* matching failure *)
      | _ =>
        let (ws2, r3) := span is_ws r2 in
        match r3 with
        | [] => (None, length ws1 + length sg + length ds + length ws2, true)
        | _ =>
          let (wd, r5) := span (fun x => negb (is_ws x)) r3 in
          let (ws4, r6) := span is_ws r5 in
          (Some (sg ++ ds, wd),
           length ws1 + length sg + length ds + length ws2 + length wd + length ws4,
           at_end r6)
        end
      end
    end.

  (* ------------------------------------------------------------------ File.c *)
  Inductive fobj := FDead | FObj (h : option nat).   (* struct File { FILE* file; } *)

  Record frec := mkF { f_st : stream; f_closes : nat }.   (* a FILE and its fclose count *)

  Record world := mkW {
    w_fs : fsys;
    w_objs : nat -> fobj;
    w_nfiles : nat;               (* number of successful fopen so far = next handle *)
    w_files : nat -> frec;
    w_stack : list nat;           (* objects of the enclosing with blocks, innermost first *)
    w_trace : list event          (* newest first *)
  }.

  Definition dummy_stream := mkS 0 0 false MBad.
  Definition w_init (fs : fsys) (objs : nat -> fobj) : world :=
    mkW fs objs 0 (fun _ => mkF dummy_stream 0) [] [].

  Inductive out :=
  | OkUnit
  | OkNum (n : nat)                         (* stell *)
  | OkBool (b : bool)                       (* seof *)
  | OkRead (items : nat) (data : list B)    (* sread: return value, bytes stored *)
  | OkWrite (items : nat)
  | OkScan (num word : list B)
  | ORaise (e : fexn)
  | OCrash                                  (* fclose(NULL) / use of a closed FILE *)
  | OBad.                                   (* not a use of File.c: object does not exist … *)

  Inductive op :=
  | ONew (i : nat)                              (* new(File) *)
  | ONewOpen (i p : nat) (m : mode)             (* new(File, path, mode) *)
  | OOpen (i p : nat) (m : mode)                (* sopen *)
  | OClose (i : nat)                            (* sclose *)
  | ODel (i : nat)                              (* del *)
  | OWith (i : nat)                             (* with (f in F[i]) {   *)
  | OExit                                       (* }                    *)
  | ORead (i n : nat)
  | OWrite (i : nat) (d : list B)
  | OSeek (i : nat) (off : Z) (o : origin)
  | OTell (i : nat)
  | OEof (i : nat)
  | OFlush (i : nat)
  | OPrint (i : nat) (text : list B)            (* print_to(f, 0, "%ld %s\n", k, w): text = formatted bytes *)
  | OScan (i : nat).                            (* scan_from(f, 0, "%ld %s\n", k, w) *)

  Definition set_obj (w : world) (i : nat) (o : fobj) : world :=
    mkW (w_fs w) (upd (w_objs w) i o) (w_nfiles w) (w_files w) (w_stack w) (w_trace w).
  Definition set_file (w : world) (h : nat) (r : frec) : world :=
    mkW (w_fs w) (w_objs w) (w_nfiles w) (upd (w_files w) h r) (w_stack w) (w_trace w).
  Definition set_fs (w : world) (fs : fsys) : world :=
    mkW fs (w_objs w) (w_nfiles w) (w_files w) (w_stack w) (w_trace w).
  Definition set_stack (w : world) (s : list nat) : world :=
    mkW (w_fs w) (w_objs w) (w_nfiles w) (w_files w) s (w_trace w).
  Definition log (w : world) (e : event) : world :=
    mkW (w_fs w) (w_objs w) (w_nfiles w) (w_files w) (w_stack w) (e :: w_trace w).

  Definition live (w : world) (h : nat) : bool := f_closes (w_files w h) =? 0.
  Definition set_stream (w : world) (h : nat) (s : stream) : world :=
    set_file w h (mkF s (f_closes (w_files w h))).

  (* File_Close on object i whose field is `h` *)
  Definition file_close (w : world) (i : nat) (h : option nat) : world * out :=
    match h with
    | None =>
        if fixed_close then (w, ORaise FIOError)         (* "Cannot close file - no file open." *)
        else (log w EvCloseNull, OCrash)                 (* fclose(NULL) *)
    | Some h =>
        let r := w_files w h in
        if live w h then
          let w1 := log (set_file w h (mkF (f_st r) 1)) (EvClose h) in
          if close_fails (s_path (f_st r)) && (0 <? s_pos (f_st r)) then
            (* fclose reports an error; the FILE is gone all the same *)
            ((if fixed_clear then set_obj w1 i (FObj None) else w1), ORaise FIOError)
          else (set_obj w1 i (FObj None), OkUnit)
        else (log (set_file w h (mkF (f_st r) (S (f_closes r)))) (EvStale h), OCrash)
    end.

  (* File_Open *)
  Definition file_open (w : world) (i : nat) (h : option nat) (p : nat) (m : mode) : world * out :=
    let (w1, o1) := match h with
                    | Some _ => file_close w i h
                    | None => (w, OkUnit)
                    end in
    match o1 with
    | OkUnit =>
        match fopen (w_fs w1) p m with
        | None => (set_obj w1 i (FObj None), ORaise FIOError)
        | Some (fs', st) =>
            let h' := w_nfiles w1 in
            (mkW fs' (upd (w_objs w1) i (FObj (Some h'))) (S h') (upd (w_files w1) h' (mkF st 0))
                 (w_stack w1) (EvOpen h' :: w_trace w1), OkUnit)
        end
    | _ => (w1, o1)
    end.

  (* the closed-handle test in front of each wrapper, then the stdio call on the handle *)
  Definition on_open (w : world) (i : nat) (k : nat -> stream -> world * out) : world * out :=
    match w_objs w i with
    | FDead => (w, OBad)
    | FObj None => (w, ORaise FIOError)
    | FObj (Some h) =>
        if live w h then k h (f_st (w_files w h))
        else (log w (EvStale h), OCrash)
    end.

  Definition step (w : world) (o : op) : world * out :=
    match o with
    | ONew i =>
        match w_objs w i with
        | FDead => (set_obj w i (FObj None), OkUnit)
        | _ => (w, OBad)
        end
    | ONewOpen i p m =>
        match w_objs w i with
        | FDead =>
            let (w1, o1) := file_open (set_obj w i (FObj None)) i None p m in
            match o1 with
            | OkUnit => (w1, o1)
            | _ => (set_obj w1 i FDead, o1)     (* constructor threw: the object is never handed out *)
            end
        | _ => (w, OBad)
        end
    | OOpen i p m =>
        match w_objs w i with
        | FDead => (w, OBad)
        | FObj h => file_open w i h p m
        end
    | OClose i =>
        match w_objs w i with
        | FDead => (w, OBad)
        | FObj h => file_close w i h
        end
    | ODel i =>
        if existsb (Nat.eqb i) (w_stack w) then (w, OBad) else
        match w_objs w i with
        | FDead => (w, OBad)
        | FObj None => (set_obj w i FDead, OkUnit)            (* File_Del: nothing to close *)
        | FObj (Some h) =>
            let (w1, o1) := file_close w i (Some h) in
            match o1 with
            | OkUnit => (set_obj w1 i FDead, o1)
            | _ => (w1, o1)     (* dealloc(destruct(self)): a throwing destructor skips the free *)
            end
        end
    | OWith i =>
        match w_objs w i with
        | FDead => (w, OBad)
        | FObj _ => (set_stack w (i :: w_stack w), OkUnit)    (* start_in: File has no start *)
        end
    | OExit =>
        match w_stack w with
        | [] => (w, OBad)
        | i :: r =>
            let w1 := set_stack w r in
            match w_objs w1 i with
            | FDead => (w1, OBad)
            | FObj h => file_close w1 i h                      (* stop_in: File_Close *)
            end
        end
    | ORead i n =>
        on_open w i (fun h s =>
          let '(num, data, s') := fread (w_fs w) s n in
          let w1 := set_stream w h s' in
          if negb (num =? 1) && negb (n =? 0) && negb (s_eof s')
          then (w1, ORaise FIOError) else (w1, OkRead num data))
    | OWrite i d =>
        on_open w i (fun h s =>
          let '(num, fs', s') := fwrite (w_fs w) s d in
          let w1 := set_fs (set_stream w h s') fs' in
          if negb (num =? 1) && negb (length d =? 0)
          then (w1, ORaise FIOError) else (w1, OkWrite num))
    | OSeek i off o =>
        on_open w i (fun h s =>
          match fseek (w_fs w) s off o with
          | None => (w, ORaise FIOError)
          | Some s' => (set_stream w h s', OkUnit)
          end)
    | OTell i => on_open w i (fun h s => (w, OkNum (s_pos s)))
    | OEof i => on_open w i (fun h s => (w, OkBool (s_eof s)))
    | OFlush i => on_open w i (fun h s => (w, OkUnit))
    | OPrint i text =>
        on_open w i (fun h s =>
          if negb (m_write (s_mode s)) then (w, ORaise FFormatError)   (* vfprintf returns -1 *)
          else
            let '(_, fs', s') := fwrite (w_fs w) s text in
            (set_fs (set_stream w h s') fs', OkUnit))
    | OScan i =>
        on_open w i (fun h s =>
          if negb (m_read (s_mode s)) then (w, ORaise FFormatError)    (* vfscanf returns EOF *)
          else
            let '(res, used, eof) := scan_rec (skipn (s_pos s) (content (w_fs w) (s_path s))) in
            let w1 := set_stream w h (set_pos s (s_pos s + used) (s_eof s || eof)) in
            match res with
            | Some (num, word) => (w1, OkScan num word)
            | None => (w1, ORaise FFormatError)
            end)
    end.

  Fixpoint run (w : world) (ops : list op) : world * list out :=
    match ops with
    | [] => (w, [])
    | o :: r => let (w1, x) := step w o in
                let (w2, xs) := run w1 r in (w2, x :: xs)
    end.

  (* ------------------------------------------------------------------ specification *)
  (* What the property demands, without handles: a File is dead, closed, or open on a
     stream; every operation other than open/del on a closed File raises IOError and changes
     nothing; closing ends the stream. *)
  Inductive sobj := SDead | SClosed | SOpen (s : stream).

  Record sworld := mkSW { sw_fs : fsys; sw_objs : nat -> sobj; sw_stack : list nat }.

  Definition s_set (w : sworld) (i : nat) (o : sobj) : sworld :=
    mkSW (sw_fs w) (upd (sw_objs w) i o) (sw_stack w).

  Definition s_close (w : sworld) (i : nat) (o : sobj) : sworld * out :=
    match o with
    | SDead => (w, OBad)
    | SClosed => (w, ORaise FIOError)
    | SOpen s =>
        if close_fails (s_path s) && (0 <? s_pos s) then (s_set w i SClosed, ORaise FIOError)
        else (s_set w i SClosed, OkUnit)
    end.

  Definition s_open (w : sworld) (i : nat) (p : nat) (m : mode) : sworld * out :=
    (* precondition: object i is closed *)
    match fopen (sw_fs w) p m with
    | None => (s_set w i SClosed, ORaise FIOError)
    | Some (fs', st) => (mkSW fs' (upd (sw_objs w) i (SOpen st)) (sw_stack w), OkUnit)
    end.

  Definition s_reopen (w : sworld) (i : nat) (p : nat) (m : mode) : sworld * out :=
    match sw_objs w i with
    | SDead => (w, OBad)
    | SClosed => s_open w i p m
    | SOpen s =>
        let (w1, o1) := s_close w i (SOpen s) in
        match o1 with OkUnit => s_open w1 i p m | _ => (w1, o1) end
    end.

  Definition s_on_open (w : sworld) (i : nat) (k : stream -> sworld * out) : sworld * out :=
    match sw_objs w i with
    | SDead => (w, OBad)
    | SClosed => (w, ORaise FIOError)
    | SOpen s => k s
    end.

  Definition spec_step (w : sworld) (o : op) : sworld * out :=
    match o with
    | ONew i => match sw_objs w i with SDead => (s_set w i SClosed, OkUnit) | _ => (w, OBad) end
    | ONewOpen i p m =>
        match sw_objs w i with
        | SDead =>
            let (w1, o1) := s_open (s_set w i SClosed) i p m in
            match o1 with OkUnit => (w1, o1) | _ => (s_set w1 i SDead, o1) end
        | _ => (w, OBad)
        end
    | OOpen i p m => s_reopen w i p m
    | OClose i => s_close w i (sw_objs w i)
    | ODel i =>
        if existsb (Nat.eqb i) (sw_stack w) then (w, OBad) else
        match sw_objs w i with
        | SDead => (w, OBad)
        | SClosed => (s_set w i SDead, OkUnit)
        | SOpen s =>
            let (w1, o1) := s_close w i (SOpen s) in
            match o1 with OkUnit => (s_set w1 i SDead, o1) | _ => (w1, o1) end
        end
    | OWith i =>
        match sw_objs w i with
        | SDead => (w, OBad)
        | _ => (mkSW (sw_fs w) (sw_objs w) (i :: sw_stack w), OkUnit)
        end
    | OExit =>
        match sw_stack w with
        | [] => (w, OBad)
        | i :: r => let w1 := mkSW (sw_fs w) (sw_objs w) r in s_close w1 i (sw_objs w1 i)
        end
    | ORead i n =>
        s_on_open w i (fun s =>
          let '(num, data, s') := fread (sw_fs w) s n in
          let w1 := s_set w i (SOpen s') in
          if negb (num =? 1) && negb (n =? 0) && negb (s_eof s')
          then (w1, ORaise FIOError) else (w1, OkRead num data))
    | OWrite i d =>
        s_on_open w i (fun s =>
          let '(num, fs', s') := fwrite (sw_fs w) s d in
          let w1 := mkSW fs' (upd (sw_objs w) i (SOpen s')) (sw_stack w) in
          if negb (num =? 1) && negb (length d =? 0)
          then (w1, ORaise FIOError) else (w1, OkWrite num))
    | OSeek i off o =>
        s_on_open w i (fun s =>
          match fseek (sw_fs w) s off o with
          | None => (w, ORaise FIOError)
          | Some s' => (s_set w i (SOpen s'), OkUnit)
          end)
    | OTell i => s_on_open w i (fun s => (w, OkNum (s_pos s)))
    | OEof i => s_on_open w i (fun s => (w, OkBool (s_eof s)))
    | OFlush i => s_on_open w i (fun s => (w, OkUnit))
    | OPrint i text =>
        s_on_open w i (fun s =>
          if negb (m_write (s_mode s)) then (w, ORaise FFormatError)
          else
            let '(_, fs', s') := fwrite (sw_fs w) s text in
            (mkSW fs' (upd (sw_objs w) i (SOpen s')) (sw_stack w), OkUnit))
    | OScan i =>
        s_on_open w i (fun s =>
          if negb (m_read (s_mode s)) then (w, ORaise FFormatError)
          else
            let '(res, used, eof) := scan_rec (skipn (s_pos s) (content (sw_fs w) (s_path s))) in
            let w1 := s_set w i (SOpen (set_pos s (s_pos s + used) (s_eof s || eof))) in
            match res with
            | Some (num, word) => (w1, OkScan num word)
            | None => (w1, ORaise FFormatError)
            end)
    end.

  Fixpoint spec_run (w : sworld) (ops : list op) : sworld * list out :=
    match ops with
    | [] => (w, [])
    | o :: r => let (w1, x) := spec_step w o in
                let (w2, xs) := spec_run w1 r in (w2, x :: xs)
    end.

  (* abstraction: what the specification sees of a model world *)
  Definition abs_obj (w : world) (o : fobj) : sobj :=
    match o with
    | FDead => SDead
    | FObj None => SClosed
    | FObj (Some h) => SOpen (f_st (w_files w h))
    end.
  Definition abs (w : world) : sworld :=
    mkSW (w_fs w) (fun i => abs_obj w (w_objs w i)) (w_stack w).

End File.
