(* (group name StringM: an OCaml unit called String would shadow Stdlib.String)
   Extraction of the String model (C16) and its abstract-string specification for the
   correspondence driver.  ExtrOcamlBasic only; numbers stay extracted inductives. *)
From Coq Require Import List Arith NArith ZArith Extraction ExtrOcamlBasic.
From CelloV Require Import Generated StringModel.

(* the model instantiated with the rules re-extracted from src/String.c *)
Definition sm_new := m_new string_assign_alloc.
Definition sm_new_empty := m_new_empty.
Definition sm_step := m_step string_assign_alloc string_concat_alloc string_resize_alloc
                             string_format_alloc string_rem_count string_rem_checks
                             string_assign_self_safe string_concat_self_safe string_format_self_safe
                             string_resize_same_returns string_resize_shrinks string_resize_fill
                             string_format_local_cap string_format_heap_when.
Definition ss_step := spec_step.
Definition sm_cstr := c_str.
Definition s_murmur := murmur64.
Definition s_n_of_nat := N.of_nat.

Extraction Language OCaml.
Extraction "../ocaml/gen/StringM.ml" sm_new sm_new_empty sm_step ss_step sm_cstr s_murmur s_n_of_nat.
