(* Properties_C04.v — property C04: Array, List and Tuple behave as sequences.
   Only statements closed by `exact`, each followed by Print Assumptions; Examples show that the
   hypotheses are satisfiable and that the models compute.  Vocabulary (SeqModels.v):
   a_step / l_step / t_step = one operation on the model of src/Array.c / List.c / Tuple.c;
   a_abs / l_abs / t_abs = the abstract sequence a model state stands for; in_range c l o = the
   in-range contract of operation o for container c on sequence l, exactly as implemented;
   spec_ok c l o l' r = "o takes the abstract sequence l to l' with outcome r" (sort: any sorted
   permutation; everything else: the list function spec_step);
   refines ... s ops = along the history ops, as long as every operation is in range, each step
   keeps the invariant and satisfies spec_ok. *)
From CelloV Require Import Generated SeqModels SeqCmps SeqProofs SortProofs SeqTupleProofs SeqErrorProofs SeqAccessProofs SeqTheorems.
From Coq Require Import List ZArith Bool Permutation Sorted.
Import ListNotations.

(* the growth / shrink rules re-extracted from Array_Reserve_More / Array_Reserve_Less always leave
   room for every item (re-proved whenever the source changes them) *)
Theorem array_capacity_rules_ok :
  grow_ok array_grow_cond array_grow_size /\ shrink_ok array_shrink_cond array_shrink_size.
Proof. exact (conj SeqProofs.array_grow_ok SeqProofs.array_shrink_ok). Qed.
Print Assumptions array_capacity_rules_ok.

(* Array: every history of in-range operations keeps nitems <= nslots = |cells| with the first
   nitems cells initialised (a_inv), and outcome and contents are those of the abstract sequence *)
Theorem array_refines_list :
  forall (E : Type) (eqb ltb : E -> E -> bool) (zero : E),
  (forall x y, ltb x y = true -> ltb y x = false) ->
  (forall x y z, ltb x y = true -> ltb y z = true -> ltb x z = true) ->
  forall (ops : list (sop E)) (a : array E),
  a_inv E a ->
  refines E eqb ltb zero (array E)
    (a_step E eqb ltb array_grow_cond array_shrink_cond array_grow_size array_shrink_size)
    (a_abs E) (a_inv E) KArray (fun _ _ => True) a ops.
Proof. exact SeqTheorems.array_refines_list. Qed.
Print Assumptions array_refines_list.

(* List: same statement; List_At reaches the addressed node from whichever end it starts *)
Theorem list_refines_list :
  forall (E : Type) (eqb ltb : E -> E -> bool) (zero : E)
         (ops : list (sop E)) (l : llist E),
  l_inv E l ->
  refines E eqb ltb zero (llist E) (l_step E eqb zero) (l_abs E) (l_inv E) KList (fun _ _ => True) l ops.
Proof. exact SeqTheorems.list_refines_list. Qed.
Print Assumptions list_refines_list.

(* Tuple: same statement for heap tuples whose stored pointers are pairwise distinct and stay so
   (t_fresh: every pointer an operation stores is new to the tuple) — the hypothesis excluding
   finding F3 *)
Theorem tuple_refines_list :
  forall (E : Type) (eqb ltb same : E -> E -> bool) (zero : E),
  (forall x y, ltb x y = true -> ltb y x = false) ->
  (forall x y z, ltb x y = true -> ltb y z = true -> ltb x z = true) ->
  (forall x, same x x = true) ->
  (forall x y, eqb x y = eqb y x) ->
  forall (ops : list (sop E)) (t : tuple E),
  t_inv E same t ->
  refines E eqb ltb zero (tuple E) (t_step E eqb ltb same) (t_abs E) (t_inv E same) KTuple
          (t_fresh E same) t ops.
Proof. exact SeqTheorems.tuple_refines_list. Qed.
Print Assumptions tuple_refines_list.

(* growth / shrink crossings: the invariant kept by every in-range history bounds nitems by the
   capacity, and an outcome the specification allows is never a crash (out-of-block access, read of
   an uninitialised cell) nor fuel exhaustion — so along such histories every touched index is
   inside the backing store and every loop of the models terminates within its fuel *)
Theorem array_invariant_capacity :
  forall (E : Type) (a : array E),
  a_inv E a -> nitems E a <= nslots E a /\ length (cells E a) = nslots E a.
Proof. exact SeqTheorems.array_invariant_capacity. Qed.
Print Assumptions array_invariant_capacity.

Theorem in_range_outcome_never_crash :
  forall (E : Type) (eqb ltb : E -> E -> bool) (zero : E) (c : kind) (l : list E) (o : sop E)
         (l' : list E) (r : out E),
  spec_ok E eqb ltb zero c l o l' r -> r <> OCrash E /\ r <> OFuel E.
Proof. exact SeqProofs.spec_ok_no_crash. Qed.
Print Assumptions in_range_outcome_never_crash.

(* F3 is real: with the same pointer stored twice, iteration runs out of every fuel *)
Theorem tuple_repeated_pointer_refuted :
  forall (E : Type) (same : E -> E -> bool) (p : E),
  same p p = true ->
  forall fuel, t_iter_fuel E same fuel (mkTu E [TObj E p; TObj E p; TTerm E] true) = Fuel.
Proof. exact SeqTheorems.tuple_repeated_pointer_refuted. Qed.
Print Assumptions tuple_repeated_pointer_refuted.

(* len and iteration agree with the abstract sequence in every invariant state *)
Theorem array_len_iter :
  forall (E : Type) (a : array E),
  a_inv E a -> nitems E a = length (a_abs E a) /\ a_iter E a = Ok (a_abs E a).
Proof. exact SeqProofs.a_observe. Qed.
Print Assumptions array_len_iter.

Theorem list_len_iter :
  forall (E : Type) (l : llist E),
  l_inv E l -> lnitems E l = length (l_abs E l) /\ l_iter E l = Ok (l_abs E l).
Proof. exact SeqProofs.l_observe. Qed.
Print Assumptions list_len_iter.

Theorem tuple_len_iter :
  forall (E : Type) (same : E -> E -> bool),
  (forall x, same x x = true) ->
  forall t : tuple E,
  t_inv E same t -> t_len E t = Some (length (t_abs E t)) /\ t_iter E same t = Ok (t_abs E t).
Proof. exact SeqTupleProofs.t_observe. Qed.
Print Assumptions tuple_len_iter.

(* the quicksort as coded (Lomuto partition around the middle element, fuel = length) returns a
   permutation ordered by the comparison, for every total preorder leq (sort() hands over lt) *)
Theorem sort_perm_sorted :
  forall (E : Type) (leq : E -> E -> bool),
  (forall x y, leq x y = true \/ leq y x = true) ->
  (forall x y z, leq x y = true -> leq y z = true -> leq x z = true) ->
  forall xs : list E,
  exists ys, qsort (lt_of E leq) xs = Ok ys /\ Permutation xs ys /\
             StronglySorted (fun x y => leq x y = true) ys /\
             Sorted (fun x y => leq x y = true) ys.
Proof. exact SeqTheorems.sort_perm_sorted. Qed.
Print Assumptions sort_perm_sorted.

(* sort_by(t, f): the result is ordered by the GIVEN function f — whatever asymmetric, transitive f the
   caller hands over (lt, gt, a custom order, a key with ties), not by the built-in order: a permutation
   in which no element is f-before an element that precedes it.  (In array_refines_list and
   tuple_refines_list the parameter ltb IS that function: the sort step of a history is specified by
   spec_ok's SSort clause with the same ltb.) *)
Theorem sort_by_ordered_by_given_function :
  forall (E : Type) (f : E -> E -> bool),
  (forall x y, f x y = true -> f y x = false) ->
  (forall x y z, f x y = true -> f y z = true -> f x z = true) ->
  forall xs : list E,
  exists ys, qsort f xs = Ok ys /\ Permutation xs ys /\
             StronglySorted (fun x y => f y x = false) ys.
Proof. exact SortProofs.qsort_correct. Qed.
Print Assumptions sort_by_ordered_by_given_function.

(* the comparisons the harness hands to sort_by and lets the specification judge (lt, gt, |a|<|b|,
   |a|/4<|b|/4, never) meet these hypotheses; le, ge and always do not and are compared with the model only *)
Theorem driver_comparisons_in_contract :
  forall k : nat, cmp_in_contract k = true ->
  (forall a b, e_cmp k a b = true -> e_cmp k b a = false) /\
  (forall a b c, e_cmp k a b = true -> e_cmp k b c = true -> e_cmp k a c = true).
Proof. exact SeqTheorems.driver_comparisons_in_contract. Qed.
Print Assumptions driver_comparisons_in_contract.

(* what the specification says about negative indices and rem *)
Theorem get_negative_counts_from_end :
  forall (E : Type) (eqb ltb : E -> E -> bool) (zero : E) (c : kind) (l : list E) (i : nat) (v : E),
  1 <= i <= length l -> nth_error l (length l - i) = Some v ->
  in_range E eqb c l (SGet E (- Z.of_nat i)) = true /\
  spec_step E eqb ltb zero c l (SGet E (- Z.of_nat i)) = (l, OVal E v).
Proof. exact SeqProofs.spec_get_negative. Qed.
Print Assumptions get_negative_counts_from_end.

Theorem rem_removes_first_equal :
  forall (E : Type) (eqb ltb : E -> E -> bool) (zero : E) (c : kind) (l1 : list E) (x : E) (l2 : list E) (v : E),
  eqb x v = true -> (forall y, In y l1 -> eqb y v = false) ->
  in_range E eqb c (l1 ++ x :: l2) (SRem E v) = true /\
  spec_step E eqb ltb zero c (l1 ++ x :: l2) (SRem E v) = (l1 ++ l2, OUnit E).
Proof. exact SeqProofs.spec_rem_first. Qed.
Print Assumptions rem_removes_first_equal.

(* beyond the in-range contract (the models' half of C12): an operation outside the contract raises
   the documented exception and changes nothing, so the refinement holds along EVERY history
   (refines_all = refines without the in-range premise; spec_ok then demands spec_step's
   `(l, ORaise e)`), and a raising step of a model never changes its state, whatever the state *)
Theorem array_refines_list_all_histories :
  forall (E : Type) (eqb ltb : E -> E -> bool) (zero : E),
  (forall x y, ltb x y = true -> ltb y x = false) ->
  (forall x y z, ltb x y = true -> ltb y z = true -> ltb x z = true) ->
  forall (ops : list (sop E)) (a : array E),
  a_inv E a ->
  refines_all E eqb ltb zero (array E)
    (a_step E eqb ltb array_grow_cond array_shrink_cond array_grow_size array_shrink_size)
    (a_abs E) (a_inv E) KArray (fun _ _ => True) a ops.
Proof. exact SeqTheorems.array_refines_list_all. Qed.
Print Assumptions array_refines_list_all_histories.

Theorem list_refines_list_all_histories :
  forall (E : Type) (eqb ltb : E -> E -> bool) (zero : E)
         (ops : list (sop E)) (l : llist E),
  l_inv E l ->
  refines_all E eqb ltb zero (llist E) (l_step E eqb zero) (l_abs E) (l_inv E) KList (fun _ _ => True) l ops.
Proof. exact SeqTheorems.list_refines_list_all. Qed.
Print Assumptions list_refines_list_all_histories.

Theorem tuple_refines_list_all_histories :
  forall (E : Type) (eqb ltb same : E -> E -> bool) (zero : E),
  (forall x y, ltb x y = true -> ltb y x = false) ->
  (forall x y z, ltb x y = true -> ltb y z = true -> ltb x z = true) ->
  (forall x, same x x = true) ->
  (forall x y, eqb x y = eqb y x) ->
  forall (ops : list (sop E)) (t : tuple E),
  t_inv E same t ->
  refines_all E eqb ltb zero (tuple E) (t_step E eqb ltb same) (t_abs E) (t_inv E same) KTuple
              (t_fresh E same) t ops.
Proof. exact SeqTheorems.tuple_refines_list_all. Qed.
Print Assumptions tuple_refines_list_all_histories.

Theorem raising_step_changes_nothing :
  forall (E : Type) (eqb ltb same : E -> E -> bool) (zero : E)
         (gc sc : nat -> nat -> bool) (gs ss : nat -> nat -> nat) (o : sop E) (e : cexn),
  (forall a a', a_step E eqb ltb gc sc gs ss a o = (a', ORaise E e) -> a' = a) /\
  (forall l l', l_step E eqb zero l o = (l', ORaise E e) -> l' = l) /\
  (forall t t', t_step E eqb ltb same t o = (t', ORaise E e) -> t' = t).
Proof.
  exact (fun E eqb ltb same zero gc sc gs ss o e =>
    conj (fun a a' => SeqErrorProofs.a_raise_unchanged E eqb ltb gc sc gs ss a o a' e)
    (conj (fun l l' => SeqErrorProofs.l_raise_unchanged E eqb zero l o l' e)
          (fun t t' => SeqErrorProofs.t_raise_unchanged E eqb ltb same t o t' e))).
Qed.
Print Assumptions raising_step_changes_nothing.

(* no hidden access state: reads (get, mem) interleaved anywhere in a history, from any start state,
   change neither the final state nor what any other operation returns (final = state after the
   history, trace = (operation, outcome) pairs, is_write = not get/mem).  Together with the refinement
   theorems: what get returns after an operation sequence does not depend on which elements were
   looked at before, and in which order — the obligation a cursor cache in List_At must meet *)
Theorem reads_never_disturb :
  forall (E : Type) (eqb ltb same : E -> E -> bool) (zero : E)
         (gc sc : nat -> nat -> bool) (gs ss : nat -> nat -> nat) (ops : list (sop E)),
  (forall a : array E,
     final E _ (a_step E eqb ltb gc sc gs ss) a ops =
       final E _ (a_step E eqb ltb gc sc gs ss) a (filter (is_write E) ops) /\
     filter (fun p => is_write E (fst p)) (trace E _ (a_step E eqb ltb gc sc gs ss) a ops) =
       trace E _ (a_step E eqb ltb gc sc gs ss) a (filter (is_write E) ops)) /\
  (forall l : llist E,
     final E _ (l_step E eqb zero) l ops = final E _ (l_step E eqb zero) l (filter (is_write E) ops) /\
     filter (fun p => is_write E (fst p)) (trace E _ (l_step E eqb zero) l ops) =
       trace E _ (l_step E eqb zero) l (filter (is_write E) ops)) /\
  (forall t : tuple E,
     final E _ (t_step E eqb ltb same) t ops = final E _ (t_step E eqb ltb same) t (filter (is_write E) ops) /\
     filter (fun p => is_write E (fst p)) (trace E _ (t_step E eqb ltb same) t ops) =
       trace E _ (t_step E eqb ltb same) t (filter (is_write E) ops)).
Proof. exact SeqTheorems.reads_never_disturb. Qed.
Print Assumptions reads_never_disturb.

(* the repaired error-path defects of this area were real: witnesses on the pre-repair variants of
   the models (D13 cab8f5d, D14 9c281b5, D15 898595c; they concern C12, recorded here because the
   sequence models live here) *)
Theorem array_push_at_pre_repair_refuted :
  exists (a : array Z) (k v : Z),
    in_range Z Z.eqb KArray (a_abs Z a) (SPushAt Z k v) = false /\
    snd (a_push_at_old Z array_grow_cond array_grow_size a k v) = ORaise Z IndexError /\
    nitems Z (fst (a_push_at_old Z array_grow_cond array_grow_size a k v)) = S (nitems Z a).
Proof. exact SeqTheorems.array_push_at_pre_repair_refuted. Qed.
Print Assumptions array_push_at_pre_repair_refuted.

Theorem tuple_pop_at_pre_repair_refuted :
  exists (t : tuple Z) (k : Z),
    theap Z t = false /\
    snd (t_pop_at_old Z t 3 k) = ORaise Z ValueError /\
    t_abs Z (fst (t_pop_at_old Z t 3 k)) <> t_abs Z t.
Proof. exact SeqTheorems.tuple_pop_at_pre_repair_refuted. Qed.
Print Assumptions tuple_pop_at_pre_repair_refuted.

Theorem tuple_rem_pre_repair_refuted :
  exists (t : tuple Z) (v : Z),
    in_range Z Z.eqb KTuple (t_abs Z t) (SRem Z v) = false /\
    snd (t_rem_old Z Z.eqb t 3 v) = OUnit Z.
Proof. exact SeqTheorems.tuple_rem_pre_repair_refuted. Qed.
Print Assumptions tuple_rem_pre_repair_refuted.

(* ---------------------------------------------------------------- non-vacuity *)
Definition zops : list (sop Z) :=
  [SPush Z 5; SPushAt Z (-1) 7; SPushAt Z 0 9; SGet Z (-2); SSort Z; SPopAt Z (-1); SRem Z 3;
   SConcat Z [4; 4]; SResize Z 3; SSet Z (-1) 0; SPop Z; SCopy Z]%Z.
Definition za_step := a_step Z Z.eqb Z.ltb array_grow_cond array_shrink_cond array_grow_size array_shrink_size.
Fixpoint run {S : Type} (step : S -> sop Z -> S * out Z) (s : S) (ops : list (sop Z)) : S :=
  match ops with [] => s | o :: r => run step (fst (step s o)) r end.
Fixpoint all_in_range {S : Type} (c : kind) (step : S -> sop Z -> S * out Z) (abs : S -> list Z)
         (s : S) (ops : list (sop Z)) : bool :=
  match ops with
  | [] => true
  | o :: r => in_range Z Z.eqb c (abs s) o && all_in_range c step abs (fst (step s o)) r
  end.

(* Z.ltb satisfies the order hypotheses, an Array built by new satisfies the invariant, the sample
   history stays in range and ends in the expected sequence with capacity 2 *)
Example array_hypotheses_hold :
  (forall x y, Z.ltb x y = true -> Z.ltb y x = false) /\
  (forall x y z, Z.ltb x y = true -> Z.ltb y z = true -> Z.ltb x z = true) /\
  a_inv Z (a_new Z [3; 1; 2]%Z) /\
  all_in_range KArray za_step (a_abs Z) (a_new Z [3; 1; 2]%Z) zops = true /\
  a_abs Z (run za_step (a_new Z [3; 1; 2]%Z) zops) = [1; 2]%Z /\
  nslots Z (run za_step (a_new Z [3; 1; 2]%Z) zops) = 2.
Proof.
  split; [intros x y H; apply Z.ltb_lt in H; apply Z.ltb_ge; apply Z.lt_le_incl; exact H|].
  split; [intros x y z H1 H2; apply Z.ltb_lt in H1, H2; apply Z.ltb_lt; eapply Z.lt_trans; eauto|].
  split; [exists [3; 1; 2]%Z, []; repeat split|].
  vm_compute. repeat split.
Qed.

Definition zlops : list (sop Z) :=
  [SPush Z 5; SPushAt Z (-1) 7; SPushAt Z 0 9; SGet Z (-2); SPopAt Z (-1); SRem Z 3;
   SConcat Z [4; 4]; SResize Z 9; SSet Z (-1) 8; SPop Z; SCopy Z]%Z.
Example list_hypotheses_hold :
  l_inv Z (l_new Z [3; 1; 2]%Z) /\
  all_in_range KList (l_step Z Z.eqb 0%Z) (l_abs Z) (l_new Z [3; 1; 2]%Z) zlops = true /\
  l_abs Z (run (l_step Z Z.eqb 0%Z) (l_new Z [3; 1; 2]%Z) zlops) = [9; 1; 2; 7; 4; 4; 0; 0]%Z.
Proof. split; [reflexivity|]. vm_compute. repeat split. Qed.

(* Tuple elements are pointers: distinct identities 0.. with identity = the value here *)
Definition ztops : list (sop Z) :=
  [SPush Z 5; SPushAt Z (-1) 7; SPushAt Z 0 9; SGet Z (-2); SSort Z; SPopAt Z (-1); SRem Z 3;
   SConcat Z [4; 6]; SResize Z 3; SSet Z (-1) 0; SPop Z; SCopy Z; SMem Z 2]%Z.
Example tuple_hypotheses_hold :
  (forall x, Z.eqb x x = true) /\ (forall x y, Z.eqb x y = Z.eqb y x) /\
  t_inv Z Z.eqb (t_new Z [3; 1; 2]%Z true) /\
  all_in_range KTuple (t_step Z Z.eqb Z.ltb Z.eqb) (t_abs Z) (t_new Z [3; 1; 2]%Z true) ztops = true /\
  t_abs Z (run (t_step Z Z.eqb Z.ltb Z.eqb) (t_new Z [3; 1; 2]%Z true) ztops) = [1; 2]%Z /\
  t_iter Z Z.eqb (run (t_step Z Z.eqb Z.ltb Z.eqb) (t_new Z [3; 1; 2]%Z true) ztops) = Ok [1; 2]%Z.
Proof.
  split; [apply Z.eqb_refl|]. split; [apply Z.eqb_sym|].
  split.
  - split; [reflexivity|]. exists [3; 1; 2]%Z. split; [reflexivity|].
    simpl. split; [|split; [|split; [|exact I]]]; intros y0 Hy; simpl in Hy;
      repeat (destruct Hy as [<-|Hy]; [split; reflexivity|]); destruct Hy.
  - vm_compute. repeat split.
Qed.

(* Z.leb is a total preorder; quicksort of a list with duplicates *)
Example sort_hypotheses_hold :
  (forall x y, Z.leb x y = true \/ Z.leb y x = true) /\
  (forall x y z, Z.leb x y = true -> Z.leb y z = true -> Z.leb x z = true) /\
  qsort (lt_of Z Z.leb) [5; 1; 5; 0; 1; 5; -3]%Z = Ok [-3; 0; 1; 1; 5; 5; 5]%Z.
Proof.
  split; [intros x y; destruct (Z.leb_spec x y); [left; reflexivity | right; apply Z.leb_le, Z.lt_le_incl; assumption]|].
  split; [intros x y z H1 H2; apply Z.leb_le in H1, H2; apply Z.leb_le; eapply Z.le_trans; eauto|].
  vm_compute. reflexivity.
Qed.

(* sort_by with gt on ascending input, and with a key that creates ties, through the Tuple model *)
Example sort_by_given_function_runs :
  t_abs elt (fst (t_step elt e_eqb (e_cmp 1) e_same (t_new elt [(1,1);(2,2);(3,3);(4,4)]%Z true) (SSort elt)))
    = [(4,4);(3,3);(2,2);(1,1)]%Z /\
  map snd (t_abs elt (fst (t_step elt e_eqb (e_cmp 5) e_same (t_new elt [(1,9);(2,1);(3,5);(4,2);(5,8)]%Z true) (SSort elt))))
    = [1;2;5;9;8]%Z.
Proof. vm_compute. split; reflexivity. Qed.
