(* Properties_C04.v — property C04: Array, List and Tuple behave as sequences.
   Only statements closed by `exact`, each followed by Print Assumptions. *)
From CelloV Require Import Generated SeqModels SeqProofs.

Theorem array_capacity_rules_ok :
  grow_ok array_grow_cond array_grow_size /\ shrink_ok array_shrink_cond array_shrink_size.
Proof. exact (conj SeqProofs.array_grow_ok SeqProofs.array_shrink_ok). Qed.
Print Assumptions array_capacity_rules_ok.
