(* StringProofs.v — proofs about StringModel.v (C16): the model of src/String.c refines the
   abstract-string specification for every history; the specification's search / removal /
   comparison are the list-level notions the property text names. *)
From Coq Require Import List Arith Bool NArith ZArith Lia.
From CelloV Require Import StringModel.
Import ListNotations.

(* ------------------------------------------------------------------ nulfree *)
Lemma nulfree_app a b : nulfree a -> nulfree b -> nulfree (a ++ b).
Proof. unfold nulfree. intros. apply Forall_app. auto. Qed.

Lemma nulfree_app_l a b : nulfree (a ++ b) -> nulfree a.
Proof. unfold nulfree. intros H. apply Forall_app in H. tauto. Qed.

Lemma nulfree_app_r a b : nulfree (a ++ b) -> nulfree b.
Proof. unfold nulfree. intros H. apply Forall_app in H. tauto. Qed.

Lemma nulfree_firstn n s : nulfree s -> nulfree (firstn n s).
Proof. intros H. rewrite <- (firstn_skipn n s) in H. eapply nulfree_app_l; eauto. Qed.

Lemma nulfree_skipn n s : nulfree s -> nulfree (skipn n s).
Proof. intros H. rewrite <- (firstn_skipn n s) in H. eapply nulfree_app_r; eauto. Qed.

(* ------------------------------------------------------------------ c_str and repr *)
Lemma c_str_repr s t : nulfree s -> c_str (map Some s ++ Some 0 :: t) = Some s.
Proof.
  induction s as [|c s IH]; intros H; cbn [map app c_str]; [reflexivity|].
  inversion H as [|? ? Hc Hs]; subst.
  destruct c as [|c]; [congruence|]. rewrite IH by assumption. reflexivity.
Qed.

Lemma c_str_inv b : forall s, c_str b = Some s -> repr b s.
Proof.
  induction b as [|x b IH]; intros s H; cbn [c_str] in H; [discriminate|].
  destruct x as [[|c]|]; try discriminate.
  - inversion H; subst. split; [constructor|]. exists b. reflexivity.
  - destruct (c_str b) as [s'|] eqn:E; cbn in H; [|discriminate]. inversion H; subst.
    destruct (IH s' eq_refl) as [Hn [t Ht]]. split.
    + constructor; [discriminate|assumption].
    + exists t. rewrite Ht. reflexivity.
Qed.

Lemma repr_c_str b s : repr b s -> c_str b = Some s.
Proof. intros [Hn [t ->]]. apply c_str_repr; assumption. Qed.

Lemma repr_unique b s s' : repr b s -> repr b s' -> s = s'.
Proof. intros H H'. apply repr_c_str in H. apply repr_c_str in H'. congruence. Qed.

Lemma repr_c_strlen b s : repr b s -> c_strlen b = Some (length s).
Proof. intros H. unfold c_strlen. rewrite (repr_c_str _ _ H). reflexivity. Qed.

(* the terminator sits inside the allocation and no NUL precedes it *)
Lemma repr_inside b s : repr b s ->
  length s < length b /\ nth_error b (length s) = Some (Some 0) /\
  forall i, i < length s -> exists c, nth_error b i = Some (Some c) /\ c <> 0.
Proof.
  intros [Hn [t ->]]. rewrite app_length, map_length. cbn [length]. split; [lia|]. split.
  - rewrite nth_error_app2 by (rewrite map_length; lia). rewrite map_length, Nat.sub_diag. reflexivity.
  - intros i Hi. rewrite nth_error_app1 by (rewrite map_length; lia).
    rewrite nth_error_map. destruct (nth_error s i) as [c|] eqn:E.
    + exists c. split; [reflexivity|]. unfold nulfree in Hn. rewrite Forall_forall in Hn.
      apply Hn. eapply nth_error_In; eauto.
    + apply nth_error_None in E. lia.
Qed.

(* ------------------------------------------------------------------ realloc / write / memmove *)
Lemma realloc_length b n : length (realloc b n) = n.
Proof.
  unfold realloc. rewrite app_length, repeat_length, firstn_length. lia.
Qed.

Lemma firstn_realloc b n k : k <= n -> k <= length b -> firstn k (realloc b n) = firstn k b.
Proof.
  intros Hn Hb. unfold realloc. rewrite firstn_app, firstn_firstn, firstn_length.
  replace (Nat.min k n) with k by lia.
  replace (k - Nat.min n (length b)) with 0 by lia. cbn [firstn]. apply app_nil_r.
Qed.

(* a prefix of known cells survives a realloc that keeps at least that many bytes *)
Lemma realloc_prefix (p : list cell) rest n : length p <= n ->
  exists rest', realloc (p ++ rest) n = p ++ rest' /\ length rest' = n - length p.
Proof.
  intros H. exists (skipn (length p) (realloc (p ++ rest) n)). split.
  - rewrite <- (firstn_skipn (length p) (realloc (p ++ rest) n)) at 1. f_equal.
    rewrite firstn_realloc by (rewrite ?app_length; lia).
    rewrite firstn_app, Nat.sub_diag, firstn_all. cbn [firstn]. apply app_nil_r.
  - rewrite skipn_length, realloc_length. reflexivity.
Qed.

Lemma write_prefix (p : list cell) rest d : length d <= length rest ->
  write (p ++ rest) (length p) d = Some (p ++ map Some d ++ skipn (length d) rest).
Proof.
  intros H. unfold write. rewrite app_length.
  destruct (Nat.leb_spec (length p + length d) (length p + length rest)) as [_|]; [|lia].
  f_equal. rewrite firstn_app, Nat.sub_diag, firstn_all. cbn [firstn]. rewrite app_nil_r.
  f_equal. f_equal. rewrite skipn_app.
  rewrite (skipn_all2 p) by lia. cbn [app]. f_equal. lia.
Qed.

Lemma map_Some_length (s : list byte) : length (map Some s) = length s.
Proof. apply map_length. Qed.

(* ------------------------------------------------------------------ search *)
Lemma prefixb_spec v h : prefixb v h = true <-> exists r, h = v ++ r.
Proof.
  revert h. induction v as [|a v IH]; intros h; cbn [prefixb].
  - split; [eexists; reflexivity|reflexivity].
  - destruct h as [|b h].
    + split; [discriminate|]. intros [r Hr]. discriminate.
    + rewrite andb_true_iff, Nat.eqb_eq, IH. split.
      * intros [-> [r ->]]. exists r. reflexivity.
      * intros [r Hr]. inversion Hr; subst. split; [reflexivity|eexists; reflexivity].
Qed.

Lemma occurs_at_spec v s i : i <= length s ->
  (occurs_at v s i = true <-> exists l r, s = l ++ v ++ r /\ length l = i).
Proof.
  intros Hi. unfold occurs_at. rewrite prefixb_spec. split.
  - intros [r Hr]. exists (firstn i s), r. rewrite <- Hr, firstn_skipn, firstn_length. split; [reflexivity|lia].
  - intros [l [r [-> <-]]]. exists r. rewrite skipn_app, Nat.sub_diag, skipn_all. reflexivity.
Qed.

Lemma find_map_S (f : nat -> bool) l : find f (map S l) = option_map S (find (fun i => f (S i)) l).
Proof.
  induction l as [|a l IH]; cbn [map find option_map]; [reflexivity|].
  destruct (f (S a)); [reflexivity|apply IH].
Qed.

(* strstr as String.c uses it (left-to-right scan) = first offset in 0..|s| where the needle occurs *)
Lemma find_sub_first_occ v s : find_sub v s = first_occ v s.
Proof.
  unfold first_occ. induction s as [|a s IH].
  - cbn. unfold occurs_at. cbn [skipn]. destruct (prefixb v []); reflexivity.
  - cbn [find_sub]. cbn [length]. rewrite <- cons_seq. cbn [find]. unfold occurs_at at 1. cbn [skipn].
    destruct (prefixb v (a :: s)); [reflexivity|].
    rewrite <- seq_shift, find_map_S, IH. reflexivity.
Qed.

Lemma find_some_first (f : nat -> bool) n i :
  find f (seq 0 n) = Some i <-> (i < n /\ f i = true /\ forall j, j < i -> f j = false).
Proof.
  assert (G : forall k, find f (seq k n) = Some i <-> (k <= i < k + n /\ f i = true /\ forall j, k <= j < i -> f j = false)).
  { induction n as [|n IH]; intros k; cbn [seq find].
    - split; [discriminate|]. intros [? _]. lia.
    - destruct (f k) eqn:E.
      + split.
        * intros H. inversion H; subst. split; [lia|]. split; [assumption|]. intros. lia.
        * intros [H1 [H2 H3]]. destruct (Nat.eq_dec k i) as [->|Hne]; [reflexivity|].
          rewrite (H3 k) in E by lia. discriminate.
      + rewrite IH. split.
        * intros [H1 [H2 H3]]. split; [lia|]. split; [assumption|].
          intros j Hj. destruct (Nat.eq_dec j k) as [->|]; [assumption|]. apply H3. lia.
        * intros [H1 [H2 H3]]. assert (i <> k) by (intros ->; congruence).
          split; [lia|]. split; [assumption|]. intros. apply H3. lia. }
  rewrite G. split; intros [H1 [H2 H3]]; (split; [lia|]); (split; [assumption|]); intros; apply H3; lia.
Qed.

Lemma find_none_all (f : nat -> bool) l : find f l = None <-> forall x, In x l -> f x = false.
Proof.
  induction l as [|a l IH]; cbn [find].
  - split; [intros _ x []|reflexivity].
  - destruct (f a) eqn:E.
    + split; [discriminate|]. intros H. rewrite (H a) in E by (left; reflexivity). discriminate.
    + rewrite IH. split.
      * intros H x [<-|Hx]; auto.
      * intros H x Hx. apply H. right. assumption.
Qed.

Definition occurs (v s : list byte) (i : nat) : Prop := exists l r, s = l ++ v ++ r /\ length l = i.

Lemma occurs_bound v s i : occurs v s i -> i <= length s.
Proof. intros [l [r [-> <-]]]. rewrite app_length. lia. Qed.

(* first_occ returns the least offset at which the needle occurs *)
Theorem first_occ_some v s i :
  first_occ v s = Some i <-> (occurs v s i /\ forall j, j < i -> ~ occurs v s j).
Proof.
  unfold first_occ. rewrite find_some_first. split.
  - intros [H1 [H2 H3]]. split.
    + apply occurs_at_spec; [lia|assumption].
    + intros j Hj Ho. specialize (H3 j Hj).
      apply (occurs_at_spec v s j) in Ho; [congruence|lia].
  - intros [H1 H2]. pose proof (occurs_bound _ _ _ H1). split; [lia|]. split.
    + apply occurs_at_spec; [lia|assumption].
    + intros j Hj. destruct (occurs_at v s j) eqn:E; [|reflexivity].
      apply occurs_at_spec in E; [|lia]. exfalso. eapply H2; eauto.
Qed.

Theorem first_occ_none v s : first_occ v s = None <-> forall i, ~ occurs v s i.
Proof.
  unfold first_occ. rewrite find_none_all. split.
  - intros H i Ho. pose proof (occurs_bound _ _ _ Ho).
    assert (Hin : In i (seq 0 (S (length s)))) by (apply in_seq; lia).
    apply H in Hin. apply (occurs_at_spec v s i) in Ho; [congruence|lia].
  - intros H i Hin. apply in_seq in Hin. destruct (occurs_at v s i) eqn:E; [|reflexivity].
    apply occurs_at_spec in E; [|lia]. exfalso. eapply H; eauto.
Qed.

Lemma existsb_find (f : nat -> bool) l : existsb f l = match find f l with Some _ => true | None => false end.
Proof. induction l as [|a l IH]; cbn; [reflexivity|]. destruct (f a); [reflexivity|apply IH]. Qed.

(* mem of the specification = "the needle occurs somewhere" *)
Theorem spec_mem_occurs v s :
  existsb (occurs_at v s) (seq 0 (S (length s))) = true <-> exists i, occurs v s i.
Proof.
  rewrite existsb_find. fold (first_occ v s). destruct (first_occ v s) as [i|] eqn:E.
  - apply first_occ_some in E. split; [intros _; exists i; tauto|reflexivity].
  - split; [discriminate|]. intros [i Hi]. exfalso. eapply first_occ_none; eauto.
Qed.

(* ------------------------------------------------------------------ comparison *)
Lemma str_compare_eq a b : str_compare a b = Eq <-> a = b.
Proof.
  revert b. induction a as [|x a IH]; intros [|y b]; cbn [str_compare]; try (split; [discriminate|discriminate]).
  - split; reflexivity.
  - destruct (Nat.compare_spec x y) as [->|H|H].
    + rewrite IH. split; [intros ->; reflexivity|intros H; inversion H; reflexivity].
    + split; [discriminate|]. intros E. inversion E. lia.
    + split; [discriminate|]. intros E. inversion E. lia.
Qed.

Lemma str_compare_antisym a b : str_compare b a = CompOpp (str_compare a b).
Proof.
  revert b. induction a as [|x a IH]; intros [|y b]; cbn [str_compare CompOpp]; try reflexivity.
  rewrite (Nat.compare_antisym x y). destruct (Nat.compare x y); cbn [CompOpp]; auto.
Qed.

(* transitivity and trichotomy: with str_compare_eq and str_compare_antisym, strcmp's sign is a strict total order *)
Lemma str_compare_trans a b c : str_compare a b = Lt -> str_compare b c = Lt -> str_compare a c = Lt.
Proof.
  revert b c. induction a as [|x a IH]; intros [|y b] [|z c]; cbn [str_compare]; try discriminate; try reflexivity.
  destruct (Nat.compare_spec x y) as [->|Hxy|Hxy]; try discriminate.
  - destruct (Nat.compare_spec y z) as [->|Hyz|Hyz]; try discriminate.
    + apply IH.
    + reflexivity.
  - intros _. destruct (Nat.compare_spec y z) as [->|Hyz|Hyz]; try discriminate; intros _.
    + destruct (Nat.compare_spec x z); try lia; reflexivity.
    + destruct (Nat.compare_spec x z); try lia; reflexivity.
Qed.
Lemma str_compare_total_order a b :
  (str_compare a b = Lt /\ a <> b /\ str_compare b a = Gt) \/
  (str_compare a b = Eq /\ a = b /\ str_compare b a = Eq) \/
  (str_compare a b = Gt /\ a <> b /\ str_compare b a = Lt).
Proof.
  rewrite (str_compare_antisym a b). destruct (str_compare a b) eqn:E; cbn [CompOpp].
  - right; left. apply str_compare_eq in E. auto.
  - left. repeat split; auto. intros ->. assert (H: str_compare b b = Eq) by (apply str_compare_eq; reflexivity). congruence.
  - right; right. repeat split; auto. intros ->. assert (H: str_compare b b = Eq) by (apply str_compare_eq; reflexivity). congruence.
Qed.

(* strcmp's order: at the first difference the smaller unsigned byte decides, a proper prefix is smaller *)
Definition lex_lt (a b : list byte) : Prop :=
  exists p, (exists y t, a = p /\ b = p ++ y :: t) \/
            (exists x y ta tb, a = p ++ x :: ta /\ b = p ++ y :: tb /\ x < y).

Lemma str_compare_lt a b : str_compare a b = Lt <-> lex_lt a b.
Proof.
  revert b. induction a as [|x a IH]; intros [|y b]; cbn [str_compare].
  - split; [discriminate|]. intros [p [[y [t [H1 H2]]]|[x [y [ta [tb [H1 _]]]]]]].
    + destruct p; discriminate H2.
    + destruct p; discriminate H1.
  - split; [|reflexivity]. intros _. exists []. left. exists y, b. split; reflexivity.
  - split; [discriminate|]. intros [p [[y [t [H1 H2]]]|[x' [y [ta [tb [_ [H2 _]]]]]]]].
    + destruct p; discriminate H2.
    + destruct p; discriminate H2.
  - destruct (Nat.compare_spec x y) as [->|H|H].
    + rewrite IH. split.
      * intros [p [[y' [t [H1 H2]]]|[x' [y' [ta [tb [H1 [H2 H3]]]]]]]]; exists (y :: p).
        -- left. exists y', t. subst. split; reflexivity.
        -- right. exists x', y', ta, tb. subst. repeat split; auto.
      * intros [p [[y' [t [H1 H2]]]|[x' [y' [ta [tb [H1 [H2 H3]]]]]]]].
        -- destruct p as [|c p]; [discriminate|]. inversion H1; inversion H2; subst.
           exists p. left. exists y', t. split; reflexivity.
        -- destruct p as [|c p].
           ++ cbn in H1, H2. inversion H1; inversion H2; subst. lia.
           ++ cbn in H1, H2. inversion H1; inversion H2; subst. exists p. right.
              exists x', y', ta, tb. repeat split; auto.
    + split; [|reflexivity]. intros _. exists []. right. exists x, y, a, b. repeat split; auto.
    + split; [discriminate|]. intros [p [[y' [t [H1 H2]]]|[x' [y' [ta [tb [H1 [H2 H3]]]]]]]].
      * destruct p as [|c p]; [discriminate|]. inversion H1; inversion H2; subst. lia.
      * destruct p as [|c p]; cbn in H1, H2; inversion H1; inversion H2; subst; lia.
Qed.

(* ------------------------------------------------------------------ helpers for the operations *)
Lemma write_after (s : list byte) rest d : length d <= length rest ->
  write (map Some s ++ rest) (length s) d = Some (map Some s ++ map Some d ++ skipn (length d) rest).
Proof.
  intros H. rewrite <- (map_length (@Some byte) s). apply write_prefix. assumption.
Qed.

Lemma realloc_repr (s : list byte) t n : length s + 1 <= n ->
  exists t', realloc (map Some s ++ Some 0 :: t) n = map Some s ++ Some 0 :: t' /\ length t' = n - length s - 1.
Proof.
  intros H. destruct (realloc_prefix (map Some s ++ [Some 0]) t n) as [t' [E L]].
  - rewrite app_length, map_length. cbn [length]. lia.
  - exists t'. rewrite <- !app_assoc in E. cbn [app] in E. split; [exact E|].
    rewrite app_length, map_length in L. cbn [length] in L. lia.
Qed.

Lemma write_cut (s1 s2 : list nat) t N d pos : pos = length s1 -> pos + length d + 1 <= N ->
  exists tail, write (realloc (map Some (s1 ++ s2) ++ Some 0 :: t) N) pos (d ++ [0])
               = Some (map Some s1 ++ map Some (d ++ [0]) ++ tail).
Proof.
  intros -> H. rewrite map_app, <- app_assoc.
  destruct (realloc_prefix (map Some s1) (map Some s2 ++ Some 0 :: t) N) as [r' [E L]]; [rewrite map_length; lia|].
  rewrite E. rewrite map_length in L. rewrite write_after by (rewrite app_length; cbn [length]; lia).
  eexists. reflexivity.
Qed.

Lemma repr_build s v tail : nulfree s -> nulfree v ->
  repr (map Some s ++ map Some (v ++ [0]) ++ tail) (s ++ v).
Proof.
  intros Hs Hv. split; [apply nulfree_app; assumption|]. exists tail.
  rewrite !map_app. cbn [map]. rewrite <- !app_assoc. reflexivity.
Qed.

Lemma repr_build0 s tail : nulfree s -> repr (map Some s ++ map Some [0] ++ tail) s.
Proof. intros Hs. split; [assumption|]. exists tail. reflexivity. Qed.

Lemma memmove_spec (A B C D : list cell) dst src cnt :
  dst = length A -> src = length A + length B -> cnt = length C ->
  memmove (A ++ B ++ C ++ D) dst src cnt
  = Some (A ++ C ++ skipn (length A + length C) (A ++ B ++ C ++ D)).
Proof.
  intros -> -> ->. unfold memmove. rewrite !app_length.
  destruct (Nat.leb_spec (length A + length B + length C) (length A + (length B + (length C + length D)))) as [_|]; [|lia].
  destruct (Nat.leb_spec (length A + length C) (length A + (length B + (length C + length D)))) as [_|]; [|lia].
  cbn [andb]. f_equal. f_equal.
  - rewrite firstn_app, Nat.sub_diag, firstn_all. cbn [firstn]. apply app_nil_r.
  - f_equal. rewrite app_assoc, skipn_app, app_length.
    rewrite (skipn_all2 (A ++ B)) by (rewrite app_length; lia).
    rewrite Nat.sub_diag. cbn [skipn app].
    rewrite firstn_app, Nat.sub_diag, firstn_all. cbn [firstn]. apply app_nil_r.
Qed.

Lemma cut_mid (l v r : list byte) : firstn (length l) (l ++ v ++ r) ++ skipn (length l + length v) (l ++ v ++ r) = l ++ r.
Proof.
  rewrite firstn_app, Nat.sub_diag, firstn_all. cbn [firstn]. rewrite app_nil_r. f_equal.
  rewrite app_assoc, skipn_app, app_length, Nat.sub_diag.
  rewrite skipn_all2 by (rewrite app_length; lia). reflexivity.
Qed.

Lemma find_sub_some v s i : find_sub v s = Some i -> exists l r, s = l ++ v ++ r /\ length l = i.
Proof. rewrite find_sub_first_occ, first_occ_some. intros [H _]. exact H. Qed.

(* "%li" rendering never produces a NUL *)
Lemma dec_digits_nulfree fuel n acc : nulfree acc -> nulfree (dec_digits fuel n acc).
Proof.
  revert n acc. induction fuel as [|f IH]; intros n acc H; cbn [dec_digits]; [assumption|].
  assert (nulfree (digit_char (n mod 10) :: acc)) by (constructor; [unfold digit_char; cbn [Nat.add]; discriminate|assumption]).
  destruct (n <? 10)%N; [assumption|]. apply IH. assumption.
Qed.

Lemma render_nulfree p : piece_ok p -> nulfree (render p).
Proof.
  destruct p as [t|t|z|]; cbn [piece_ok render]; try (intros H; exact H); [|constructor]. intros _.
  destruct z as [|q|q]; cbn [dec_of_Z].
  - constructor; [lia|constructor].
  - apply dec_digits_nulfree. constructor.
  - constructor; [lia|]. apply dec_digits_nulfree. constructor.
Qed.

(* ------------------------------------------------------------------ String.c refines the abstract string *)
Section Refinement.
  Variable assign_alloc : nat -> nat.
  Variable concat_alloc : nat -> nat -> nat.
  Variable resize_alloc : nat -> nat.
  Variable format_alloc : nat -> nat -> nat.
  Variable rem_count : Z -> Z -> Z -> Z.
  Variable rem_checks : bool.
  Variable assign_self_safe : bool.
  Variable concat_self_safe : bool.
  Variable format_self_safe : bool.
  Variable resize_same_returns : bool.
  Variable resize_shrinks : nat -> nat -> bool.
  Variable resize_fill : Z -> Z -> Z.
  Variable format_cap : nat.
  Variable format_heap_when : nat -> nat -> bool.
  (* what the proofs need from the C text: every realloc leaves room for the terminator,
     String_Rem moves the tail behind the match (with its terminator) and checks for NULL *)
  Hypothesis Hassign : forall vl, vl + 1 <= assign_alloc vl.
  Hypothesis Hconcat : forall sl vl, sl + vl + 1 <= concat_alloc sl vl.
  Hypothesis Hresize : forall n, n + 1 <= resize_alloc n.
  Hypothesis Hformat : forall pos size, pos + size + 1 <= format_alloc pos size.
  Hypothesis Hrem : forall hl pl nl, rem_count hl pl nl = (pl - nl + 1)%Z.
  Hypothesis Hchk : rem_checks = true.
  (* needed only for assign(s, s) / concat(s, s): the argument is read after the realloc *)
  Hypothesis Hasafe : assign_self_safe = true.
  Hypothesis Hcsafe : concat_self_safe = true.
  (* needed only for print_to(s, pos, "..%s..", .., s, ..) *)
  Hypothesis Hfsafe : format_self_safe = true.
  (* String_Resize, for EVERY policy with: the truncating path only when n <= len, the filling
     path only when len <= n, and the filled bytes inside the new block *)
  Hypothesis Hshr : forall n m, resize_shrinks n m = true -> n <= m.
  Hypothesis Hgrow : forall n m, resize_shrinks n m = false ->
    m <= n /\ (0 <= resize_fill (Z.of_nat n) (Z.of_nat m))%Z /\
    m + Z.to_nat (resize_fill (Z.of_nat n) (Z.of_nat m)) <= resize_alloc n.
  (* String_Format_To: the local buffer is used only for texts that fit with their terminator *)
  Hypothesis Hlocal : forall size, format_heap_when size format_cap = false -> size + 1 <= format_cap.

  Notation step := (m_step assign_alloc concat_alloc resize_alloc format_alloc rem_count rem_checks
                           assign_self_safe concat_self_safe format_self_safe
                           resize_same_returns resize_shrinks resize_fill format_cap format_heap_when).
  Notation run := (m_run assign_alloc concat_alloc resize_alloc format_alloc rem_count rem_checks
                         assign_self_safe concat_self_safe format_self_safe
                         resize_same_returns resize_shrinks resize_fill format_cap format_heap_when).

  Lemma assign_refines b v : nulfree v -> exists b', m_assign assign_alloc b v = Some b' /\ repr b' v.
  Proof.
    intros Hv. unfold m_assign.
    pose proof (realloc_length b (assign_alloc (length v))) as HL.
    pose proof (write_prefix [] (realloc b (assign_alloc (length v))) (v ++ [0])) as W.
    cbn [app length] in W. rewrite W.
    - eexists. split; [reflexivity|]. apply (repr_build [] v); [constructor|assumption].
    - rewrite app_length, HL. cbn [length]. apply Hassign.
  Qed.

  (* holds for both shapes of String_Concat (strcat, or memcpy at the old length) *)
  Lemma concat_refines b s v : repr b s -> nulfree v ->
    exists b', m_concat concat_alloc concat_self_safe b v = Some b' /\ repr b' (s ++ v).
  Proof.
    clear Hcsafe. intros Hr Hv. unfold m_concat. rewrite (repr_c_strlen _ _ Hr).
    destruct Hr as [Hs [t ->]].
    destruct (realloc_repr s t (concat_alloc (length s) (length v))) as [t' [E L]].
    { pose proof (Hconcat (length s) (length v)). lia. }
    rewrite E.
    assert (R : repr (map Some s ++ Some 0 :: t') s) by (split; [assumption|eexists; reflexivity]).
    rewrite (repr_c_strlen _ _ R).
    assert (W : write (map Some s ++ Some 0 :: t') (length s) (v ++ [0])
                = Some (map Some s ++ map Some (v ++ [0]) ++ skipn (length (v ++ [0])) (Some 0 :: t'))).
    { apply write_after. rewrite app_length. cbn [length]. pose proof (Hconcat (length s) (length v)). lia. }
    destruct concat_self_safe; rewrite W; (eexists; split; [reflexivity|]; apply repr_build; assumption).
  Qed.

  Lemma memmove_id (b : list (option nat)) cnt : cnt <= length b -> memmove b 0 0 cnt = Some b.
  Proof.
    intros H. unfold memmove. cbn [Nat.add].
    destruct (Nat.leb_spec cnt (length b)) as [_|]; [|lia]. cbn [andb firstn skipn app].
    rewrite firstn_skipn. reflexivity.
  Qed.

  Lemma memmove_dup (A rest : list (option nat)) : length A <= length rest ->
    memmove (A ++ rest) (length A) 0 (length A) = Some (A ++ A ++ skipn (length A) rest).
  Proof.
    intros H. unfold memmove. rewrite app_length. cbn [Nat.add skipn].
    destruct (Nat.leb_spec (length A) (length A + length rest)) as [_|]; [|lia].
    destruct (Nat.leb_spec (length A + length A) (length A + length rest)) as [_|]; [|lia].
    cbn [andb]. f_equal.
    rewrite firstn_app, Nat.sub_diag, firstn_all. cbn [firstn]. rewrite app_nil_r.
    f_equal. f_equal. rewrite skipn_app. rewrite (skipn_all2 A) by lia. cbn [app]. f_equal. lia.
  Qed.

  (* assign(s, s): the value is unchanged *)
  Lemma assign_self_refines b s : repr b s ->
    exists b', m_assign_self assign_alloc assign_self_safe b = Some b' /\ repr b' s.
  Proof.
    intros Hr. unfold m_assign_self. rewrite Hasafe, (repr_c_strlen _ _ Hr).
    destruct Hr as [Hs [t ->]].
    destruct (realloc_repr s t (assign_alloc (length s))) as [t' [E L]].
    { pose proof (Hassign (length s)). lia. }
    rewrite E, memmove_id.
    - eexists. split; [reflexivity|]. split; [assumption|eexists; reflexivity].
    - rewrite app_length, map_length. cbn [length]. lia.
  Qed.

  (* concat(s, s): the value is doubled *)
  Lemma concat_self_refines b s : repr b s ->
    exists b', m_concat_self concat_alloc concat_self_safe b = Some b' /\ repr b' (s ++ s).
  Proof.
    intros Hr. unfold m_concat_self. rewrite Hcsafe, (repr_c_strlen _ _ Hr).
    destruct Hr as [Hs [t ->]].
    destruct (realloc_repr s t (concat_alloc (length s) (length s))) as [t' [E L]].
    { pose proof (Hconcat (length s) (length s)). lia. }
    rewrite E. pose proof (Hconcat (length s) (length s)) as HN.
    rewrite <- (map_length (@Some nat) s).
    rewrite memmove_dup by (cbn [length]; rewrite map_length in *; lia).
    rewrite app_assoc, <- map_app.
    replace (length (map Some s) + length (map Some s)) with (length (s ++ s))
      by (rewrite app_length, map_length; reflexivity).
    rewrite write_after.
    - eexists. split; [reflexivity|]. apply repr_build0. apply nulfree_app; assumption.
    - rewrite skipn_length, map_length. cbn [length]. lia.
  Qed.

  Lemma resize_refines b s n : repr b s ->
    exists b', m_resize resize_alloc resize_same_returns resize_shrinks resize_fill b n = Some b' /\
               repr b' (firstn n s).
  Proof.
    intros Hr. unfold m_resize. rewrite (repr_c_strlen _ _ Hr).
    destruct (resize_same_returns && (n =? length s)) eqn:Esame.
    { apply andb_true_iff in Esame as [_ En]. apply Nat.eqb_eq in En. subst n.
      exists b. split; [reflexivity|]. rewrite firstn_all. exact Hr. }
    clear Esame. destruct Hr as [Hs [t ->]]. pose proof (Hresize n) as HN.
    destruct (resize_shrinks n (length s)) eqn:Eshr.
    - apply Hshr in Eshr.
      assert (Hl : n = length (firstn n s)) by (rewrite firstn_length; lia).
      replace (map Some s) with (map Some (firstn n s ++ skipn n s)) by (rewrite firstn_skipn; reflexivity).
      destruct (write_cut (firstn n s) (skipn n s) t (resize_alloc n) [] n Hl) as [tail E]; [cbn [length]; lia|].
      cbn [app] in E. rewrite E. eexists. split; [reflexivity|].
      apply repr_build0. apply nulfree_firstn. assumption.
    - apply Hgrow in Eshr. destruct Eshr as [Hmn [Hf0 Hfit]].
      destruct (Z.ltb_spec (resize_fill (Z.of_nat n) (Z.of_nat (length s))) 0) as [?|_]; [lia|].
      destruct (realloc_repr s t (resize_alloc n)) as [t' [E L]]; [lia|]. rewrite E.
      rewrite write_after by (rewrite repeat_length; cbn [length]; lia).
      eexists. split; [reflexivity|]. rewrite firstn_all2 by lia.
      destruct (Z.to_nat (resize_fill (Z.of_nat n) (Z.of_nat (length s)))) as [|k]; cbn [repeat map skipn app];
        (split; [assumption|]; eexists; reflexivity).
  Qed.

  Lemma rem_refines b s v : repr b s -> nulfree v ->
    match first_occ v s with
    | Some i => exists b', m_rem rem_count rem_checks b v = (b', SUnit) /\
                           repr b' (firstn i s ++ skipn (i + length v) s)
    | None => m_rem rem_count rem_checks b v = (b, SRaise SValueError)
    end.
  Proof.
    intros Hr Hv. unfold m_rem. rewrite (repr_c_str _ _ Hr), find_sub_first_occ.
    destruct (first_occ v s) as [i|] eqn:E; [|rewrite Hchk; reflexivity].
    apply first_occ_some in E. destruct E as [[l [r [-> <-]]] _].
    destruct Hr as [Hs [t ->]]. rewrite Hrem.
    assert (Hc : (Z.of_nat (length (l ++ v ++ r) - length l) - Z.of_nat (length v) + 1)%Z = Z.of_nat (length r + 1)).
    { rewrite !app_length. lia. }
    rewrite Hc. destruct (Z.ltb_spec (Z.of_nat (length r + 1)) 0) as [?|_]; [lia|].
    rewrite Nat2Z.id, cut_mid.
    rewrite !map_app, <- !app_assoc.
    change (Some 0 :: t) with ([Some 0] ++ t).
    rewrite (app_assoc (map Some r) [Some 0] t).
    rewrite (memmove_spec (map Some l) (map Some v) (map Some r ++ [Some 0]) t)
      by (rewrite ?app_length, ?map_length; cbn [length]; reflexivity).
    eexists. split; [reflexivity|].
    apply nulfree_app_r in Hs as Hvr. apply nulfree_app_r in Hvr as Hr'. apply nulfree_app_l in Hs as Hl.
    pose proof (repr_build l r (skipn (length (map Some l) + length (map Some r ++ [Some 0]))
       (map Some l ++ map Some v ++ (map Some r ++ [Some 0]) ++ t)) Hl Hr') as R.
    rewrite map_app in R. exact R.
  Qed.

  Lemma format_refines b s pos text : repr b s -> nulfree text ->
    exists b', m_format_to format_alloc format_cap format_heap_when b pos text = Some b' /\
               repr b' (if pos <=? length s then firstn pos s ++ text else s).
  Proof.
    intros Hr Ht. unfold m_format_to. pose proof (Hformat pos (length text)) as HN.
    assert (Hpath : format_heap_when (length text) format_cap || (length text + 1 <=? format_cap) = true).
    { destruct (format_heap_when (length text) format_cap) eqn:Eh; [reflexivity|].
      apply Hlocal in Eh. cbn [orb]. apply Nat.leb_le. exact Eh. }
    rewrite Hpath.
    destruct Hr as [Hs [t ->]].
    destruct (Nat.leb_spec pos (length s)) as [Hle|Hgt].
    - assert (Hl : pos = length (firstn pos s)) by (rewrite firstn_length; lia).
      replace (map Some s) with (map Some (firstn pos s ++ skipn pos s)) by (rewrite firstn_skipn; reflexivity).
      destruct (write_cut (firstn pos s) (skipn pos s) t (format_alloc pos (length text)) text pos Hl) as [tail E]; [lia|].
      rewrite E. eexists. split; [reflexivity|]. apply repr_build; [apply nulfree_firstn|]; assumption.
    - destruct (realloc_repr s t (format_alloc pos (length text))) as [t' [E L]]; [lia|]. rewrite E.
      change (Some 0 :: t') with ([Some 0] ++ t'). 
      (* the write lands behind the terminator *)
      unfold write. rewrite !app_length, map_length. cbn [length].
      destruct (Nat.leb_spec (pos + (length text + 1)) (length s + (1 + length t'))) as [_|]; [|lia].
      eexists. split; [reflexivity|]. split; [assumption|].
      rewrite firstn_app, map_length.
      rewrite (firstn_all2 (map Some s)) by (rewrite map_length; lia).
      destruct (pos - length s) as [|k] eqn:Ek; [lia|].
      cbn [app firstn]. rewrite <- app_assoc. eexists. reflexivity.
  Qed.

  Lemma print_refines ps : forall b s pos, repr b s -> Forall piece_ok ps ->
    exists b', m_print_to format_alloc format_self_safe format_cap format_heap_when b pos ps = Some (b', snd (spec_print s pos ps)) /\
               repr b' (fst (spec_print s pos ps)).
  Proof.
    induction ps as [|p ps IH]; intros b s pos Hr Hok; cbn [m_print_to spec_print].
    - exists b. split; [reflexivity|exact Hr].
    - apply Forall_cons_iff in Hok as [Hp Hps].
      assert (Ht : (match p with
                    | PSelf => if format_self_safe then c_str b else None
                    | _ => Some (render p)
                    end) = Some (piece_text s p) /\ nulfree (piece_text s p)).
      { destruct p; cbn [piece_text]; try (split; [reflexivity|apply render_nulfree; exact Hp]).
        rewrite Hfsafe, (repr_c_str _ _ Hr). split; [reflexivity|exact (proj1 Hr)]. }
      destruct Ht as [Et Hn]. rewrite Et.
      destruct (format_refines b s pos (piece_text s p) Hr Hn) as [b1 [E1 R1]]. rewrite E1.
      exact (IH b1 _ (pos + length (piece_text s p)) R1 Hps).
  Qed.

  Lemma new_refines v : nulfree v -> exists b, m_new assign_alloc v = Some b /\ repr b v.
  Proof. apply assign_refines. Qed.

  (* one operation: same result as the specification, and the buffer represents the new abstract string *)
  Theorem step_refines b s o : repr b s -> op_ok o ->
    exists b', step b o = (b', snd (spec_step s o)) /\ repr b' (fst (spec_step s o)).
  Proof.
    intros Hr Hok. pose proof (repr_c_str _ _ Hr) as Hc.
    destruct o as [v|v|v|n|v|v|v|v| | | |pos ps| | | | | | | ]; cbn [m_step spec_step op_ok] in *; cbn [fst snd].
    - destruct (assign_refines b v Hok) as [b' [E R]]. rewrite E. exists b'. split; [reflexivity|exact R].
    - destruct (concat_refines b s v Hr Hok) as [b' [E R]]. rewrite E. exists b'. split; [reflexivity|exact R].
    - destruct (concat_refines b s v Hr Hok) as [b' [E R]]. rewrite E. exists b'. split; [reflexivity|exact R].
    - destruct (resize_refines b s n Hr) as [b' [E R]]. rewrite E. exists b'. split; [reflexivity|exact R].
    - pose proof (rem_refines b s v Hr Hok) as H. destruct (first_occ v s) as [i|].
      + destruct H as [b' [E R]]. exists b'. split; [exact E|exact R].
      + exists b. split; [exact H|exact Hr].
    - exists b. unfold obs. rewrite Hc. split; [|exact Hr]. cbn [fst snd].
      rewrite existsb_find. fold (first_occ v s). rewrite find_sub_first_occ. reflexivity.
    - exists b. unfold obs. rewrite Hc. split; [reflexivity|exact Hr].
    - exists b. unfold obs. rewrite Hc. split; [|exact Hr]. cbn [fst snd].
      destruct (list_eq_dec Nat.eq_dec s v) as [->|Hne].
      + replace (str_compare v v) with Eq by (symmetry; apply str_compare_eq; reflexivity). reflexivity.
      + destruct (str_compare s v) eqn:E; try reflexivity. apply str_compare_eq in E. contradiction.
    - exists b. unfold obs. rewrite Hc. split; [reflexivity|exact Hr].
    - exists b. unfold obs. rewrite Hc. split; [reflexivity|exact Hr].
    - exists b. unfold obs. rewrite Hc. split; [reflexivity|exact Hr].
    - destruct (print_refines ps b s pos Hr Hok) as [b' [E R]]. rewrite E. exists b'. split; [reflexivity|exact R].
    - destruct (assign_self_refines b s Hr) as [b' [E R]]. rewrite E. exists b'. split; [reflexivity|exact R].
    - destruct (concat_self_refines b s Hr) as [b' [E R]]. rewrite E. exists b'. split; [reflexivity|exact R].
    - rewrite Hc. pose proof (rem_refines b s s Hr (proj1 Hr)) as H.
      assert (E0 : first_occ s s = Some 0).
      { apply first_occ_some. split; [exists [], []; rewrite app_nil_r; split; reflexivity|intros j Hj; lia]. }
      rewrite E0 in H. destruct H as [b' [E R]]. exists b'. split; [exact E|].
      cbn [firstn Nat.add app] in R. rewrite skipn_all in R. exact R.
    - exists b. unfold obs. rewrite Hc. split; [|exact Hr]. cbn [fst snd].
      rewrite find_sub_first_occ.
      replace (first_occ s s) with (Some 0); [reflexivity|]. symmetry.
      apply first_occ_some. split; [exists [], []; rewrite app_nil_r; split; reflexivity|intros j Hj; lia].
    - exists b. unfold obs. rewrite Hc. split; [|exact Hr]. cbn [fst snd].
      replace (str_compare s s) with Eq by (symmetry; apply str_compare_eq; reflexivity). reflexivity.
    - exists b. unfold obs. rewrite Hc. split; [|exact Hr]. cbn [fst snd].
      replace (str_compare s s) with Eq by (symmetry; apply str_compare_eq; reflexivity). reflexivity.
    - rewrite Hc. destruct (assign_refines [] s (proj1 Hr)) as [b' [E R]]. rewrite E.
      exists b'. split; [reflexivity|exact R].
  Qed.

  Lemma spec_step_no_crash s o : snd (spec_step s o) <> SCrash.
  Proof.
    destruct o; cbn [spec_step snd]; try discriminate.
    destruct (first_occ v s); cbn [snd]; discriminate.
  Qed.

  (* every history: the model produces exactly the specification's results (in particular it
     never reaches undefined behaviour) and ends representing the specification's string *)
  Theorem run_refines ops : forall b s, repr b s -> Forall op_ok ops ->
    exists bf, run b ops = (fst (spec_run s ops), bf) /\ repr bf (snd (spec_run s ops)).
  Proof.
    induction ops as [|o ops IH]; intros b s Hr Hok; cbn [m_run spec_run].
    - exists b. split; [reflexivity|exact Hr].
    - apply Forall_cons_iff in Hok as [Ho Hops].
      destruct (step_refines b s o Hr Ho) as [b' [E R]]. rewrite E.
      pose proof (spec_step_no_crash s o) as Hnc.
      destruct (spec_step s o) as [s' out] eqn:Es. cbn [fst snd] in *.
      destruct (IH b' s' R Hops) as [bf [Er Rf]].
      destruct (spec_run s' ops) as [outs sf] eqn:Esr. cbn [fst snd] in *.
      exists bf. split; [|exact Rf]. rewrite Er. destruct out; try reflexivity. congruence.
  Qed.

  Corollary run_no_crash ops b s : repr b s -> Forall op_ok ops -> ~ In SCrash (fst (run b ops)).
  Proof.
    intros Hr Hok. destruct (run_refines ops b s Hr Hok) as [bf [E _]]. rewrite E. cbn [fst].
    clear E Hr. revert s. induction ops as [|o ops IH]; intros s; cbn [spec_run fst]; [intros []|].
    apply Forall_cons_iff in Hok as [Ho Hops].
    destruct (spec_step s o) as [s' out] eqn:Es. specialize (IH Hops s').
    destruct (spec_run s' ops) as [outs sf]. cbn [fst] in *. intros [H|H]; [|auto].
    pose proof (spec_step_no_crash s o) as Hn. rewrite Es in Hn. cbn in Hn. congruence.
  Qed.
End Refinement.

(* ------------------------------------------------------------------ what rem / resize / print_to mean on the abstract string *)

(* rem deletes the FIRST occurrence, whatever follows (overlapping occurrences included) *)
Theorem spec_rem_first (l v r : list nat) :
  (forall j, j < length l -> ~ occurs v (l ++ v ++ r) j) ->
  spec_step (l ++ v ++ r) (ORem v) = (l ++ r, SUnit).
Proof.
  intros Hfirst. cbn [spec_step].
  assert (E : first_occ v (l ++ v ++ r) = Some (length l)).
  { apply first_occ_some. split; [exists l, r; split; reflexivity|exact Hfirst]. }
  rewrite E, cut_mid. reflexivity.
Qed.

(* rem of an absent substring raises and leaves the string alone *)
Theorem spec_rem_absent (v s : list nat) :
  (forall i, ~ occurs v s i) -> spec_step s (ORem v) = (s, SRaise SValueError).
Proof. intros H. cbn [spec_step]. apply first_occ_none in H. rewrite H. reflexivity. Qed.

(* ------------------------------------------------------------------ the code before the repair (D6) *)
Definition old_rem_count (hl pl nl : Z) : Z := (hl - pl - nl + 1)%Z.

(* "abcdef" rem "cd" left "abedef" *)
Theorem rem_old_refuted_middle :
  exists s v, nulfree s /\ nulfree v /\
    exists b', m_rem old_rem_count false (map Some (s ++ [0])) v = (b', SUnit) /\
               c_str b' <> Some (fst (spec_step s (ORem v))).
Proof.
  exists [97; 98; 99; 100; 101; 102], [99; 100].
  split; [repeat constructor; discriminate|]. split; [repeat constructor; discriminate|].
  eexists. split; [vm_compute; reflexivity|]. vm_compute. discriminate.
Qed.

(* a match at the very start made the byte count wrap around; an absent needle passed NULL to strlen *)
Theorem rem_old_refuted_crash :
  (exists s v, nulfree s /\ nulfree v /\ first_occ v s = Some 0 /\
     snd (m_rem old_rem_count false (map Some (s ++ [0])) v) = SCrash) /\
  (exists s v, nulfree s /\ nulfree v /\ first_occ v s = None /\
     snd (m_rem old_rem_count false (map Some (s ++ [0])) v) = SCrash).
Proof.
  split.
  - exists [97; 98; 99; 100; 101; 102], [97; 98].
    split; [repeat constructor; discriminate|]. split; [repeat constructor; discriminate|].
    split; vm_compute; reflexivity.
  - exists [97; 98; 99], [120].
    split; [repeat constructor; discriminate|]. split; [repeat constructor; discriminate|].
    split; vm_compute; reflexivity.
Qed.

(* ------------------------------------------------------------------ the model instantiated from the source *)
From CelloV Require Import Generated.

Definition c_new := m_new string_assign_alloc.
Definition c_step := m_step string_assign_alloc string_concat_alloc string_resize_alloc
                            string_format_alloc string_rem_count string_rem_checks
                            string_assign_self_safe string_concat_self_safe string_format_self_safe
                            string_resize_same_returns string_resize_shrinks string_resize_fill
                            string_format_local_cap string_format_heap_when.
Definition c_run := m_run string_assign_alloc string_concat_alloc string_resize_alloc
                          string_format_alloc string_rem_count string_rem_checks
                          string_assign_self_safe string_concat_self_safe string_format_self_safe
                            string_resize_same_returns string_resize_shrinks string_resize_fill
                            string_format_local_cap string_format_heap_when.

(* the rules re-extracted from src/String.c (Generated.v) are the ones the proofs need *)
Lemma gen_assign : forall vl, vl + 1 <= string_assign_alloc vl.
Proof. intros. unfold string_assign_alloc. lia. Qed.
Lemma gen_concat : forall sl vl, sl + vl + 1 <= string_concat_alloc sl vl.
Proof. intros. unfold string_concat_alloc. lia. Qed.
Lemma gen_resize : forall n, n + 1 <= string_resize_alloc n.
Proof. intros. unfold string_resize_alloc. lia. Qed.
Lemma gen_resize_shape : string_resize_shape_ok = true.
Proof. reflexivity. Qed.
Lemma gen_format : forall pos size, pos + size + 1 <= string_format_alloc pos size.
Proof. intros. unfold string_format_alloc. lia. Qed.
Lemma gen_rem : forall hl pl nl, string_rem_count hl pl nl = (pl - nl + 1)%Z.
Proof. intros. unfold string_rem_count. lia. Qed.
Lemma gen_chk : string_rem_checks = true.
Proof. reflexivity. Qed.
Lemma gen_asafe : string_assign_self_safe = true.
Proof. reflexivity. Qed.
Lemma gen_csafe : string_concat_self_safe = true.
Proof. reflexivity. Qed.
Lemma gen_fsafe : string_format_self_safe = true.
Proof. reflexivity. Qed.
Lemma gen_shr : forall n m, string_resize_shrinks n m = true -> n <= m.
Proof.
  intros n m. unfold string_resize_shrinks.
  repeat match goal with
         | |- context [?a <=? ?b] => destruct (Nat.leb_spec a b)
         | |- context [?a <? ?b] => destruct (Nat.ltb_spec a b)
         | |- context [?a =? ?b] => destruct (Nat.eqb_spec a b)
         end; cbn; intros; try discriminate; lia.
Qed.
Lemma gen_grow : forall n m, string_resize_shrinks n m = false ->
  m <= n /\ (0 <= string_resize_fill (Z.of_nat n) (Z.of_nat m))%Z /\
  m + Z.to_nat (string_resize_fill (Z.of_nat n) (Z.of_nat m)) <= string_resize_alloc n.
Proof.
  intros n m. unfold string_resize_shrinks, string_resize_fill, string_resize_alloc.
  repeat match goal with
         | |- context [?a <=? ?b] => destruct (Nat.leb_spec a b)
         | |- context [?a <? ?b] => destruct (Nat.ltb_spec a b)
         | |- context [?a =? ?b] => destruct (Nat.eqb_spec a b)
         end; cbn; intros; try discriminate; lia.
Qed.
Lemma gen_local : forall size, string_format_heap_when size string_format_local_cap = false ->
  size + 1 <= string_format_local_cap.
Proof.
  intros size. unfold string_format_heap_when, string_format_local_cap.
  repeat match goal with
         | |- context [?a <=? ?b] => destruct (Nat.leb_spec a b)
         | |- context [?a <? ?b] => destruct (Nat.ltb_spec a b)
         end; cbn; intros; try discriminate; lia.
Qed.

Theorem c_step_refines b s o : repr b s -> op_ok o ->
  exists b', c_step b o = (b', snd (spec_step s o)) /\ repr b' (fst (spec_step s o)).
Proof. exact (step_refines _ _ _ _ _ _ _ _ _ string_resize_same_returns _ _ _ _ gen_assign gen_concat gen_resize gen_format gen_rem gen_chk gen_asafe gen_csafe gen_fsafe gen_shr gen_grow gen_local b s o). Qed.

Theorem c_history_refines v0 ops : nulfree v0 -> Forall op_ok ops ->
  exists b0 bf, c_new v0 = Some b0 /\ c_run b0 ops = (fst (spec_run v0 ops), bf) /\
                repr bf (snd (spec_run v0 ops)).
Proof.
  intros Hv Hok. destruct (new_refines _ gen_assign v0 Hv) as [b0 [E R]].
  destruct (run_refines _ _ _ _ _ _ _ _ _ string_resize_same_returns _ _ _ _ gen_assign gen_concat gen_resize gen_format gen_rem gen_chk gen_asafe gen_csafe gen_fsafe gen_shr gen_grow gen_local ops b0 v0 R Hok)
    as [bf [Er Rf]].
  exists b0, bf. split; [exact E|]. split; [exact Er|exact Rf].
Qed.

Theorem c_history_no_crash v0 ops : nulfree v0 -> Forall op_ok ops ->
  exists b0, c_new v0 = Some b0 /\ ~ In SCrash (fst (c_run b0 ops)).
Proof.
  intros Hv Hok. destruct (new_refines _ gen_assign v0 Hv) as [b0 [E R]]. exists b0. split; [exact E|].
  exact (run_no_crash _ _ _ _ _ _ _ _ _ string_resize_same_returns _ _ _ _ gen_assign gen_concat gen_resize gen_format gen_rem gen_chk gen_asafe gen_csafe gen_fsafe gen_shr gen_grow gen_local ops b0 v0 R Hok).
Qed.

Lemma new_empty_repr : repr m_new_empty [].
Proof. split; [constructor|exists []; reflexivity]. Qed.

Theorem c_history_refines_from_empty ops : Forall op_ok ops ->
  exists bf, c_run m_new_empty ops = (fst (spec_run [] ops), bf) /\ repr bf (snd (spec_run [] ops)).
Proof.
  intros Hok.
  exact (run_refines _ _ _ _ _ _ _ _ _ string_resize_same_returns _ _ _ _ gen_assign gen_concat gen_resize gen_format gen_rem gen_chk gen_asafe gen_csafe gen_fsafe gen_shr gen_grow gen_local
           ops m_new_empty [] new_empty_repr Hok).
Qed.

(* String_Hash / Len / C_Str / Cmp / Mem keep no state of their own in the source (Generated.v) *)
Lemma gen_hash_stateless : string_hash_stateless = true.
Proof. reflexivity. Qed.
Lemma gen_observers_pure : string_observers_pure = true.
Proof. reflexivity. Qed.

(* hash is a function of the current characters only: whatever the allocation looks like behind
   the terminator and whatever history produced it *)
Theorem hash_of_characters_only b s : repr b s -> c_step b OHash = (b, SHash (murmur64 s)).
Proof.
  intros Hr. destruct (c_step_refines b s OHash Hr I) as [b' [E _]].
  unfold c_step, m_step, obs in *. rewrite (repr_c_str _ _ Hr) in *. reflexivity.
Qed.

Theorem hash_independent_of_history v1 ops1 v2 ops2 :
  nulfree v1 -> Forall op_ok ops1 -> nulfree v2 -> Forall op_ok ops2 ->
  snd (spec_run v1 ops1) = snd (spec_run v2 ops2) ->
  exists b1 b2 f1 f2, c_new v1 = Some b1 /\ c_new v2 = Some b2 /\
    snd (c_run b1 ops1) = f1 /\ snd (c_run b2 ops2) = f2 /\
    snd (c_step f1 OHash) = snd (c_step f2 OHash).
Proof.
  intros H1 O1 H2 O2 E.
  destruct (c_history_refines v1 ops1 H1 O1) as [b1 [f1 [N1 [R1 P1]]]].
  destruct (c_history_refines v2 ops2 H2 O2) as [b2 [f2 [N2 [R2 P2]]]].
  exists b1, b2, f1, f2. rewrite R1, R2. repeat split; try assumption.
  rewrite (hash_of_characters_only _ _ P1), (hash_of_characters_only _ _ P2), E. reflexivity.
Qed.

Theorem repr_iff_c_str b s : repr b s <-> c_str b = Some s.
Proof. split; [apply repr_c_str|apply c_str_inv]. Qed.

(* the String itself as an argument behaves like any other argument with the same value *)
Theorem self_ops_by_value (s : list nat) :
  spec_step s OAssignSelf = spec_step s (OAssign s) /\
  spec_step s OConcatSelf = spec_step s (OConcat s) /\
  spec_step s ORemSelf = spec_step s (ORem s) /\
  spec_step s OMemSelf = spec_step s (OMem s) /\
  spec_step s OCmpSelf = spec_step s (OCmp s) /\
  spec_step s OEqSelf = spec_step s (OEq s).
Proof.
  assert (E0 : first_occ s s = Some 0).
  { apply first_occ_some. split; [exists [], []; rewrite app_nil_r; split; reflexivity|intros j Hj; lia]. }
  cbn [spec_step]. repeat split.
  - rewrite E0. cbn [firstn Nat.add app]. rewrite skipn_all. reflexivity.
  - rewrite existsb_find. fold (first_occ s s). rewrite E0. reflexivity.
  - replace (str_compare s s) with Eq by (symmetry; apply str_compare_eq; reflexivity). reflexivity.
  - destruct (list_eq_dec Nat.eq_dec s s); [reflexivity|contradiction].
Qed.

(* before the repairs: strcpy from a pointer fetched before the realloc, strcat(val, val) —
   undefined behaviour in the model (use after realloc / overlapping copy) for every state *)
Theorem self_argument_old_shapes_undefined (b : list (option nat)) (fa : nat -> nat) (fc : nat -> nat -> nat) :
  m_assign_self fa false b = None /\ m_concat_self fc false b = None.
Proof. split; reflexivity. Qed.

(* print_to without the target among its arguments, in closed form: everything from pos on is
   replaced by the rendered text; behind the terminator (or without any piece) nothing changes *)
Theorem spec_print_closed ps : forall s pos, Forall (fun p => p <> PSelf) ps ->
  spec_print s pos ps =
  (match ps with
   | [] => s
   | _ => if pos <=? length s then firstn pos s ++ concat (map render ps) else s
   end, pos + length (concat (map render ps))).
Proof.
  induction ps as [|p ps IH]; intros s pos Hns; cbn [spec_print map concat].
  - cbn [length]. rewrite Nat.add_0_r. reflexivity.
  - apply Forall_cons_iff in Hns as [Hp Hps].
    assert (Et : piece_text s p = render p) by (destruct p; try reflexivity; congruence).
    rewrite Et, IH by assumption. rewrite app_length, Nat.add_assoc. f_equal.
    destruct ps as [|q ps'].
    + cbn [map concat]. rewrite app_nil_r. reflexivity.
    + destruct (Nat.leb_spec pos (length s)) as [Hle|Hgt].
      * assert (Hl : length (firstn pos s ++ render p) = pos + length (render p))
          by (rewrite app_length, firstn_length; lia).
        rewrite Hl, Nat.leb_refl. rewrite <- Hl at 1. rewrite firstn_all, <- app_assoc. reflexivity.
      * destruct (Nat.leb_spec (pos + length (render p)) (length s)); [lia|reflexivity].
Qed.

(* before the repair of String_Format_To: the target as a "%s" argument is read after the realloc *)
Theorem format_self_old_shape_undefined (b : list (option nat)) (fa : nat -> nat -> nat) cap hw pos r :
  m_print_to fa false cap hw b pos (PSelf :: r) = None.
Proof. reflexivity. Qed.

(* ------------------------------------------------------------------ "%li" rendering: fuel adequacy *)
(* value of a big-endian decimal digit string *)
Fixpoint dec_value (l : list nat) : N :=
  match l with
  | [] => 0%N
  | c :: r => (N.of_nat (c - 48) * 10 ^ N.of_nat (length r) + dec_value r)%N
  end.

Lemma dec_digits_value fuel : forall n acc, (n < 2 ^ N.of_nat fuel)%N ->
  dec_value (dec_digits fuel n acc) = (n * 10 ^ N.of_nat (length acc) + dec_value acc)%N.
Proof.
  induction fuel as [|f IH]; intros n acc Hn; cbn [dec_digits].
  - cbn in Hn. assert (n = 0%N) by lia. subst. reflexivity.
  - assert (Hd : dec_value (digit_char (n mod 10) :: acc)
                 = ((n mod 10) * 10 ^ N.of_nat (length acc) + dec_value acc)%N).
    { cbn [dec_value]. unfold digit_char.
      rewrite (Nat.add_comm 48), Nat.add_sub.
      rewrite N2Nat.id. reflexivity. }
    destruct (N.ltb_spec n 10) as [Hlt|Hge].
    + rewrite Hd, N.mod_small by assumption. reflexivity.
    + rewrite IH.
      * rewrite Hd. cbn [length]. rewrite Nat2N.inj_succ, N.pow_succ_r'.
        rewrite (N.div_mod n 10) at 3 by lia. ring.
      * rewrite Nat2N.inj_succ, N.pow_succ_r' in Hn.
        apply N.div_lt_upper_bound; lia.
Qed.

(* the fuel of dec_of_N is enough: the digits denote the number *)
Theorem dec_of_N_value n : dec_value (dec_of_N n) = n.
Proof.
  unfold dec_of_N. rewrite dec_digits_value.
  - cbn [length dec_value]. cbn. lia.
  - rewrite Nat2N.inj_succ, N2Nat.id. destruct n as [|p]; [reflexivity|].
    apply N.log2_spec. reflexivity.
Qed.

Lemma dec_digits_are_digits fuel : forall n acc, Forall (fun c => 48 <= c <= 57) acc ->
  Forall (fun c => 48 <= c <= 57) (dec_digits fuel n acc).
Proof.
  induction fuel as [|f IH]; intros n acc H; cbn [dec_digits]; [assumption|].
  assert (H' : Forall (fun c => 48 <= c <= 57) (digit_char (n mod 10) :: acc)).
  { constructor; [|assumption]. unfold digit_char.
    assert (Hm : (n mod 10 < 10)%N) by (apply N.mod_lt; lia).
    revert Hm. generalize (n mod 10)%N. intros m Hm. lia. }
  destruct (n <? 10)%N; [assumption|]. apply IH. assumption.
Qed.

(* "%li" of z: an optional '-' and the decimal digits of |z| *)
Theorem dec_of_Z_value z :
  match dec_of_Z z with
  | 45 :: ds => z = (- Z.of_N (dec_value ds))%Z /\ (z < 0)%Z /\ Forall (fun c => 48 <= c <= 57) ds
  | ds => z = Z.of_N (dec_value ds) /\ Forall (fun c => 48 <= c <= 57) ds
  end.
Proof.
  destruct z as [|p|p]; cbn [dec_of_Z].
  - split; [reflexivity|repeat constructor].
  - pose proof (dec_of_N_value (Npos p)) as V.
    pose proof (dec_digits_are_digits (S (N.to_nat (N.log2 (Npos p)))) (Npos p) [] (Forall_nil _)) as D.
    fold (dec_of_N (Npos p)) in D. destruct (dec_of_N (Npos p)) as [|c ds] eqn:E.
    + split; [rewrite V; reflexivity|constructor].
    + assert (c <> 45) by (inversion D; lia).
      destruct (Nat.eq_dec c 45); [contradiction|].
      do 45 (destruct c as [|c]; [split; [rewrite V; reflexivity|exact D]|]).
      destruct c; [contradiction|]. split; [rewrite V; reflexivity|exact D].
  - pose proof (dec_of_N_value (Npos p)) as V.
    pose proof (dec_digits_are_digits (S (N.to_nat (N.log2 (Npos p)))) (Npos p) [] (Forall_nil _)) as D.
    fold (dec_of_N (Npos p)) in D. rewrite V. split; [reflexivity|]. split; [lia|exact D].
Qed.

(* ------------------------------------------------------------------ why further code shapes denote the same model
   (tools/genx_str.py maps them to the same Generated.v definitions; see design.d/C16.md) *)

(* String_Rem may return at once for an empty needle: the general path moves the whole string
   onto itself *)
Theorem rem_empty_needle_is_noop rc (Hrc : forall hl pl nl, rc hl pl nl = (pl - nl + 1)%Z) chk b s :
  repr b s -> m_rem rc chk b [] = (b, SUnit).
Proof.
  intros Hr. unfold m_rem. rewrite (repr_c_str _ _ Hr).
  assert (E : find_sub [] s = Some 0) by (destruct s; reflexivity). rewrite E, Hrc.
  rewrite Nat.sub_0_r. cbn [length Nat.add].
  destruct (Z.ltb_spec (Z.of_nat (length s) - Z.of_nat 0 + 1) 0) as [?|_]; [lia|].
  rewrite memmove_id; [reflexivity|].
  destruct Hr as [_ [t ->]]. rewrite app_length, map_length. cbn [length]. lia.
Qed.

(* `strlen(pos + strlen(needle))` read as `strlen(pos) - strlen(needle)`: pos is where strstr
   found the needle, so the needle's bytes are there *)
Theorem tail_length_after_match v h i : find_sub v h = Some i ->
  length (skipn (i + length v) h) = (length h - i) - length v.
Proof.
  intros H. apply find_sub_some in H. destruct H as [l [r [-> <-]]].
  rewrite skipn_length, !app_length. lia.
Qed.

Lemma skipn_skipn' (T : Type) x : forall y (l : list T), skipn x (skipn y l) = skipn (x + y) l.
Proof.
  induction y as [|y IH]; intros l; [rewrite Nat.add_0_r; reflexivity|].
  destruct l; [rewrite !skipn_nil; reflexivity|]. rewrite Nat.add_succ_r. cbn [skipn]. apply IH.
Qed.

(* String_Concat may copy the terminator along (memmove of m+1 bytes) instead of m bytes and an
   explicit store: with the String itself as source the byte behind the n characters IS the
   terminator, and memmove copies as if through a temporary *)
Theorem concat_self_move_with_terminator (s : list nat) t : length s <= length t ->
  let b := map Some s ++ Some 0 :: t in
  let n := length s in
  memmove b n 0 (n + 1) =
  match memmove b n 0 n with Some b' => write b' (n + n) [0] | None => None end.
Proof.
  intros Ht b n. subst b n.
  change (Some 0 :: t) with ([Some 0] ++ t).
  rewrite <- (map_length (@Some nat) s).
  rewrite memmove_dup by (rewrite app_length, map_length; cbn [length]; lia).
  set (A := map Some s). 
  assert (Hw : write (A ++ A ++ skipn (length A) ([Some 0] ++ t)) (length A + length A) [0]
               = Some ((A ++ A) ++ map Some [0] ++ skipn 1 (skipn (length A) ([Some 0] ++ t)))).
  { rewrite app_assoc. rewrite <- (app_length A A). apply write_prefix.
    rewrite skipn_length, app_length. unfold A. rewrite map_length. cbn [length]. lia. }
  rewrite Hw. clear Hw.
  assert (HA : length A = length s) by (unfold A; apply map_length).
  unfold memmove.
  assert (L1 : (0 + (length A + 1) <=? length (A ++ [Some 0] ++ t)) = true)
    by (apply Nat.leb_le; rewrite !app_length; cbn [length]; lia).
  assert (L2 : (length A + (length A + 1) <=? length (A ++ [Some 0] ++ t)) = true)
    by (apply Nat.leb_le; rewrite !app_length; cbn [length]; lia).
  rewrite L1, L2. cbn [andb]. f_equal. rewrite skipn_O.
  assert (P1 : firstn (length A) (A ++ [Some 0] ++ t) = A).
  { rewrite firstn_app, Nat.sub_diag, firstn_all. cbn [firstn]. apply app_nil_r. }
  assert (P2 : firstn (length A + 1) (A ++ [Some 0] ++ t) = A ++ [Some 0]).
  { rewrite firstn_app, firstn_all2 by lia. replace (length A + 1 - length A) with 1 by lia. reflexivity. }
  assert (P3 : skipn (length A + (length A + 1)) (A ++ [Some 0] ++ t) = skipn 1 (skipn (length A) ([Some 0] ++ t))).
  { rewrite skipn_skipn', skipn_app. rewrite (skipn_all2 A) by lia. cbn [app]. f_equal. lia. }
  rewrite P1, P2, P3. rewrite <- !app_assoc. reflexivity.
Qed.

(* String_Format_To with a local buffer of 64 bytes and the heap path only for size > 64 (the
   seeded off-by-one): a piece of exactly 64 characters copies 65 bytes out of the 64-byte array *)
Theorem format_local_buffer_off_by_one_undefined fa (b : list (option nat)) pos text :
  length text = 64 -> m_format_to fa 64 (fun size cap => cap <? size) b pos text = None.
Proof. intros H. unfold m_format_to. rewrite H. reflexivity. Qed.
