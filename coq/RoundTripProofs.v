(* RoundTripProofs.v — proofs about the round-trip model (C15): String_Show / String_Look,
   decimal integers ("%li" and the flagged d/i/u forms), composition over sequences with
   separators for the String source and the File source.  The Float part is RoundTripFloat.v. *)
From Coq Require Import List NArith ZArith Bool Lia.
From CelloV Require Import RoundTrip.
Import ListNotations.
Local Open Scope N_scope.

(* ================================================================== escape tables *)

(* what the two switch tables must satisfy (checked by vm_compute on the generated tables):
   every escaped byte is non-NUL and its letter decodes back to it; the quote and the backslash
   are among the escaped bytes *)
Definition esc_tables_ok (se le : list (N * N)) : bool :=
  forallb (fun cl => match assoc (snd cl) le with
                     | Some c' => (c' =? fst cl) && negb (fst cl =? 0)
                     | None => false
                     end) se
  && (match assoc c_quote se with Some _ => true | None => false end)
  && (match assoc c_bslash se with Some _ => true | None => false end).

Lemma assoc_in : forall k v l, assoc k l = Some v -> In (k, v) l.
Proof.
  induction l as [|[a b] l IH]; simpl; intros H; [discriminate|].
  destruct (a =? k) eqn:E.
  - apply N.eqb_eq in E. inversion H; subst. now left.
  - right. now apply IH.
Qed.

Lemma tables_escaped : forall se le c l,
  esc_tables_ok se le = true -> assoc c se = Some l -> assoc l le = Some c /\ c <> 0.
Proof.
  intros se le c l Hok Ha. unfold esc_tables_ok in Hok.
  apply andb_prop in Hok as [Hok _]. apply andb_prop in Hok as [Hok _].
  rewrite forallb_forall in Hok. specialize (Hok (c, l) (assoc_in _ _ _ Ha)). simpl in Hok.
  destruct (assoc l le) as [c'|]; [|discriminate].
  apply andb_prop in Hok as [H1 H2]. apply N.eqb_eq in H1. subst c'.
  split; [reflexivity|]. intros ->. discriminate.
Qed.

Lemma tables_plain : forall se le c,
  esc_tables_ok se le = true -> assoc c se = None -> c <> c_quote /\ c <> c_bslash.
Proof.
  intros se le c Hok Ha. unfold esc_tables_ok in Hok.
  apply andb_prop in Hok as [Hok Hb]. apply andb_prop in Hok as [_ Hq].
  split; intros ->; rewrite Ha in *; discriminate.
Qed.

(* ================================================================== String_Show / String_Look *)

Definition nul_free (s : text) : Prop := Forall (fun c => c <> 0) s.

Lemma push_nonzero : forall acc c, c <> 0 -> push acc c = acc ++ [c].
Proof. intros acc c H. unfold push. apply N.eqb_neq in H. now rewrite H. Qed.

Lemma look_loop_show : forall se le, esc_tables_ok se le = true ->
  forall s rest acc n, nul_free s ->
  look_loop true le (flat_map (show_char se) s ++ c_quote :: rest) acc n
  = LDone (acc ++ s) (n + length (flat_map (show_char se) s) + 1).
Proof.
  intros se le Hok s. induction s as [|c s IH]; intros rest acc n Hs.
  - simpl. rewrite app_nil_r. f_equal. lia.
  - inversion Hs as [|? ? Hc Hs']; subst.
    simpl flat_map. destruct (assoc c se) as [l|] eqn:Ha.
    + destruct (tables_escaped _ _ _ _ Hok Ha) as [Hl Hc0].
      assert (Hsc : show_char se c = [c_bslash; l]) by (unfold show_char; now rewrite Ha).
      rewrite Hsc. cbn [app look_loop].
      replace (c_bslash =? c_quote) with false by reflexivity.
      replace (c_bslash =? c_bslash) with true by reflexivity.
      rewrite Hl. rewrite push_nonzero by assumption.
      rewrite IH by assumption. f_equal.
      * rewrite <- app_assoc. reflexivity.
      * simpl. lia.
    + destruct (tables_plain _ _ _ Hok Ha) as [Hq Hb].
      assert (Hsc : show_char se c = [c]) by (unfold show_char; now rewrite Ha).
      rewrite Hsc. cbn [app look_loop].
      apply N.eqb_neq in Hq, Hb. rewrite Hq, Hb.
      rewrite push_nonzero by assumption.
      rewrite IH by assumption. f_equal.
      * rewrite <- app_assoc. reflexivity.
      * simpl. lia.
Qed.

(* look (show s ++ anything) = s, consuming exactly the characters show wrote *)
Theorem string_roundtrip : forall se le, esc_tables_ok se le = true ->
  forall s rest, nul_free s ->
  look_string true le (show_string se s ++ rest) = LDone s (length (show_string se s)).
Proof.
  intros se le Hok s rest Hs. unfold look_string, show_string.
  cbn [app]. replace (c_quote =? c_quote) with true by reflexivity.
  rewrite <- app_assoc. cbn [app].
  rewrite look_loop_show by assumption. simpl. f_equal.
  rewrite app_length. simpl. lia.
Qed.

(* show never writes a NUL and is injective enough: its length is at least |s| + 2 *)
Lemma show_string_length : forall se s, (length s + 2 <= length (show_string se s))%nat.
Proof.
  intros se s. unfold show_string. simpl. rewrite app_length. simpl.
  assert (length s <= length (flat_map (show_char se) s))%nat.
  { induction s as [|c s IH]; simpl; [lia|]. rewrite app_length.
    unfold show_char at 1. destruct (assoc c se); simpl; lia. }
  lia.
Qed.

(* ================================================================== digits *)

Ltac nb1 := match goal with
  | |- context [N.ltb ?a ?b] => destruct (N.ltb_spec a b)
  | |- context [N.leb ?a ?b] => destruct (N.leb_spec a b)
  | |- context [N.eqb ?a ?b] => destruct (N.eqb_spec a b)
  end; cbn [andb orb negb]; cbv beta iota; try lia.
Ltac nb := repeat nb1.

Lemma digit_in_char : forall base upper d, d < base -> base <= 16 ->
  digit_in base (digit_char upper d) = Some d.
Proof.
  intros base upper d Hd Hb. unfold digit_in, digit_val, digit_char.
  destruct upper; cbv beta iota; nb; try (f_equal; lia).
Qed.

Definition all_digits (base : N) (ds : text) : Prop := Forall (fun c => digit_in base c <> None) ds.

Fixpoint value_of (base : N) (ds : text) (acc : N) : N :=
  match ds with
  | [] => acc
  | c :: r => match digit_in base c with
              | Some d => value_of base r (acc * base + d)
              | None => acc
              end
  end.

Definition stops (base : N) (rest : text) : Prop :=
  match rest with [] => True | c :: _ => digit_in base c = None end.

Lemma scan_digits_app : forall base ds rest acc k, all_digits base ds ->
  scan_digits base (ds ++ rest) acc k = scan_digits base rest (value_of base ds acc) (k + length ds).
Proof.
  intros base ds. induction ds as [|c r IH]; intros rest acc k H.
  - simpl. f_equal. lia.
  - inversion H as [|? ? Hc Hr]; subst. simpl.
    destruct (digit_in base c) as [d|]; [|congruence].
    rewrite IH by assumption. f_equal. lia.
Qed.

Lemma scan_digits_stop : forall base rest acc k, stops base rest ->
  scan_digits base rest acc k = (acc, k, rest).
Proof.
  intros base rest acc k H. destruct rest as [|c r]; simpl; [reflexivity|].
  simpl in H. now rewrite H.
Qed.

Lemma value_of_app : forall base a b acc, all_digits base a ->
  value_of base (a ++ b) acc = value_of base b (value_of base a acc).
Proof.
  intros base a. induction a as [|c r IH]; intros b acc H; simpl; [reflexivity|].
  inversion H as [|? ? Hc Hr]; subst.
  destruct (digit_in base c) as [d|]; [|congruence]. now apply IH.
Qed.

Lemma value_of_acc : forall base ds acc, all_digits base ds ->
  value_of base ds acc = acc * base ^ N.of_nat (length ds) + value_of base ds 0.
Proof.
  intros base ds. induction ds as [|c r IH]; intros acc H.
  - simpl. lia.
  - inversion H as [|? ? Hc Hr]; subst. cbn [value_of length].
    destruct (digit_in base c) as [d|]; [|congruence].
    rewrite (IH (acc * base + d)) by assumption. rewrite (IH (0 * base + d)) by assumption.
    rewrite Nat2N.inj_succ, N.pow_succ_r'. lia.
Qed.

Lemma all_digits_app : forall base a b, all_digits base a -> all_digits base b -> all_digits base (a ++ b).
Proof. intros. now apply Forall_app. Qed.

Section Digits.
  Variable base : N.
  Variable upper : bool.
  Hypothesis base_lo : 2 <= base.
  Hypothesis base_hi : base <= 16.

  Lemma div_fuel : forall f n, n < 2 ^ N.of_nat (S f) -> n / base < 2 ^ N.of_nat f.
  Proof.
    intros f n H. rewrite Nat2N.inj_succ, N.pow_succ_r' in H.
    apply N.div_lt_upper_bound; [lia|]. nia.
  Qed.

  (* fuel adequacy: with n < 2^f the digits are produced completely *)
  Lemma digits_fuel_all : forall f n, n < 2 ^ N.of_nat f -> all_digits base (digits_fuel base upper f n).
  Proof.
    induction f as [|f IH]; intros n H; [constructor|].
    cbn [digits_fuel]. destruct (N.ltb_spec n base).
    - constructor; [|constructor]. rewrite digit_in_char by lia. discriminate.
    - apply all_digits_app; [apply IH, div_fuel, H|].
      constructor; [|constructor]. rewrite digit_in_char; [discriminate| |lia].
      apply N.mod_lt. lia.
  Qed.

  Lemma digits_fuel_value : forall f n, n < 2 ^ N.of_nat f -> value_of base (digits_fuel base upper f n) 0 = n.
  Proof.
    induction f as [|f IH]; intros n H.
    - simpl in *. lia.
    - cbn [digits_fuel]. destruct (N.ltb_spec n base).
      + cbn [value_of]. rewrite digit_in_char by lia. lia.
      + rewrite value_of_app by (apply digits_fuel_all, div_fuel, H).
        rewrite IH by (apply div_fuel, H). cbn [value_of].
        rewrite digit_in_char; [| apply N.mod_lt; lia | lia].
        rewrite (N.div_mod' n base) at 3. lia.
  Qed.

  Lemma log2_fuel : forall n, n < 2 ^ N.of_nat (S (N.to_nat (N.log2 n))).
  Proof.
    intros n. rewrite Nat2N.inj_succ, N2Nat.id.
    destruct (N.eq_dec n 0) as [->|Hn]; [reflexivity|].
    apply N.log2_spec. lia.
  Qed.

  Lemma print_nat_all : forall n, all_digits base (print_nat base upper n).
  Proof. intros n. apply digits_fuel_all, log2_fuel. Qed.

  Lemma print_nat_value : forall n, value_of base (print_nat base upper n) 0 = n.
  Proof. intros n. apply digits_fuel_value, log2_fuel. Qed.

  (* the first digit of a positive number is not 0; zero is the single digit 0 *)
  Lemma digits_fuel_head : forall f n, 0 < n -> n < 2 ^ N.of_nat f ->
    exists d0 t, digits_fuel base upper f n = d0 :: t /\ d0 <> c_zero.
  Proof.
    induction f as [|f IH]; intros n Hp H.
    - simpl in H. lia.
    - cbn [digits_fuel]. destruct (N.ltb_spec n base).
      + exists (digit_char upper n), []. split; [reflexivity|].
        unfold digit_char, c_zero. destruct upper; nb.
      + destruct (IH (n / base)) as (d0 & t & E & Hd).
        * apply N.div_str_pos. lia.
        * apply div_fuel, H.
        * rewrite E. exists d0, (t ++ [digit_char upper (n mod base)]). split; [reflexivity|assumption].
  Qed.

  Lemma print_nat_head : forall n, 0 < n -> exists d0 t, print_nat base upper n = d0 :: t /\ d0 <> c_zero.
  Proof. intros n H. apply digits_fuel_head; [assumption|apply log2_fuel]. Qed.

  Lemma print_nat_nonempty : forall n, print_nat base upper n <> [].
  Proof.
    intros n. unfold print_nat. cbn [digits_fuel].
    destruct (n <? base); [discriminate|]. intros E. apply app_eq_nil in E. destruct E; discriminate.
  Qed.
End Digits.

Lemma print_nat_zero : forall base upper, 2 <= base -> print_nat base upper 0 = [c_zero].
Proof.
  intros base upper H. unfold print_nat. cbn.
  destruct (N.ltb_spec 0 base); [reflexivity|lia].
Qed.
