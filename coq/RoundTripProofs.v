(* RoundTripProofs.v — proofs about the round-trip model (C15): String_Show / String_Look,
   decimal integers ("%li" and the flagged d/i/u forms), composition over sequences with
   separators for the String source and the File source.  The Float part is RoundTripFloat.v. *)
From Coq Require Import List NArith ZArith Bool Lia.
From CelloV Require Import RoundTrip.
Import ListNotations.
Local Open Scope N_scope.

(* ================================================================== escape tables *)

(* what the two switch tables must satisfy (checked by vm_compute on the generated tables):
   every escaped byte is non-NUL and its letter decodes back to it; the quote and the backslash
   are among the escaped bytes *)
Definition esc_tables_ok (se le : list (N * N)) : bool :=
  forallb (fun cl => match assoc (snd cl) le with
                     | Some c' => (c' =? fst cl) && negb (fst cl =? 0)
                     | None => false
                     end) se
  && (match assoc c_quote se with Some _ => true | None => false end)
  && (match assoc c_bslash se with Some _ => true | None => false end).

Lemma assoc_in : forall k v l, assoc k l = Some v -> In (k, v) l.
Proof.
  induction l as [|[a b] l IH]; simpl; intros H; [discriminate|].
  destruct (a =? k) eqn:E.
  - apply N.eqb_eq in E. inversion H; subst. now left.
  - right. now apply IH.
Qed.

Lemma tables_escaped : forall se le c l,
  esc_tables_ok se le = true -> assoc c se = Some l -> assoc l le = Some c /\ c <> 0.
Proof.
  intros se le c l Hok Ha. unfold esc_tables_ok in Hok.
  apply andb_prop in Hok as [Hok _]. apply andb_prop in Hok as [Hok _].
  rewrite forallb_forall in Hok. specialize (Hok (c, l) (assoc_in _ _ _ Ha)). simpl in Hok.
  destruct (assoc l le) as [c'|]; [|discriminate].
  apply andb_prop in Hok as [H1 H2]. apply N.eqb_eq in H1. subst c'.
  split; [reflexivity|]. intros ->. discriminate.
Qed.

Lemma tables_plain : forall se le c,
  esc_tables_ok se le = true -> assoc c se = None -> c <> c_quote /\ c <> c_bslash.
Proof.
  intros se le c Hok Ha. unfold esc_tables_ok in Hok.
  apply andb_prop in Hok as [Hok Hb]. apply andb_prop in Hok as [_ Hq].
  split; intros ->; rewrite Ha in *; discriminate.
Qed.

(* ================================================================== String_Show / String_Look *)

Definition nul_free (s : text) : Prop := Forall (fun c => c <> 0) s.

Lemma push_nonzero : forall acc c, c <> 0 -> push acc c = acc ++ [c].
Proof. intros acc c H. unfold push. apply N.eqb_neq in H. now rewrite H. Qed.

Lemma look_loop_show : forall se le, esc_tables_ok se le = true ->
  forall s rest acc n, nul_free s ->
  look_loop true le (flat_map (show_char se) s ++ c_quote :: rest) acc n
  = LDone (acc ++ s) (n + length (flat_map (show_char se) s) + 1).
Proof.
  intros se le Hok s. induction s as [|c s IH]; intros rest acc n Hs.
  - simpl. rewrite app_nil_r. f_equal. lia.
  - inversion Hs as [|? ? Hc Hs']; subst.
    simpl flat_map. destruct (assoc c se) as [l|] eqn:Ha.
    + destruct (tables_escaped _ _ _ _ Hok Ha) as [Hl Hc0].
      assert (Hsc : show_char se c = [c_bslash; l]) by (unfold show_char; now rewrite Ha).
      rewrite Hsc. cbn [app look_loop].
      replace (c_bslash =? c_quote) with false by reflexivity.
      replace (c_bslash =? c_bslash) with true by reflexivity.
      rewrite Hl. rewrite push_nonzero by assumption.
      rewrite IH by assumption. f_equal.
      * rewrite <- app_assoc. reflexivity.
      * simpl. lia.
    + destruct (tables_plain _ _ _ Hok Ha) as [Hq Hb].
      assert (Hsc : show_char se c = [c]) by (unfold show_char; now rewrite Ha).
      rewrite Hsc. cbn [app look_loop].
      apply N.eqb_neq in Hq, Hb. rewrite Hq, Hb.
      rewrite push_nonzero by assumption.
      rewrite IH by assumption. f_equal.
      * rewrite <- app_assoc. reflexivity.
      * simpl. lia.
Qed.

(* look (show s ++ anything) = s, consuming exactly the characters show wrote *)
Theorem string_roundtrip : forall se le, esc_tables_ok se le = true ->
  forall s rest, nul_free s ->
  look_string true le (show_string se s ++ rest) = LDone s (length (show_string se s)).
Proof.
  intros se le Hok s rest Hs. unfold look_string, show_string.
  cbn [app]. replace (c_quote =? c_quote) with true by reflexivity.
  rewrite <- app_assoc. cbn [app].
  rewrite look_loop_show by assumption. simpl. f_equal.
  rewrite app_length. simpl. lia.
Qed.

(* show never writes a NUL and is injective enough: its length is at least |s| + 2 *)
Lemma show_string_length : forall se s, (length s + 2 <= length (show_string se s))%nat.
Proof.
  intros se s. unfold show_string. simpl. rewrite app_length. simpl.
  assert (length s <= length (flat_map (show_char se) s))%nat.
  { induction s as [|c s IH]; simpl; [lia|]. rewrite app_length.
    unfold show_char at 1. destruct (assoc c se); simpl; lia. }
  lia.
Qed.

(* ================================================================== digits *)

Ltac nb1 := match goal with
  | |- context [N.ltb ?a ?b] => destruct (N.ltb_spec a b)
  | |- context [N.leb ?a ?b] => destruct (N.leb_spec a b)
  | |- context [N.eqb ?a ?b] => destruct (N.eqb_spec a b)
  end; cbn [andb orb negb]; cbv beta iota; try lia.
Ltac nb := repeat nb1.

Lemma digit_in_char : forall base upper d, d < base -> base <= 16 ->
  digit_in base (digit_char upper d) = Some d.
Proof.
  intros base upper d Hd Hb. unfold digit_in, digit_val, digit_char.
  destruct upper; cbv beta iota; nb; try (f_equal; lia).
Qed.

Definition all_digits (base : N) (ds : text) : Prop := Forall (fun c => digit_in base c <> None) ds.

Fixpoint value_of (base : N) (ds : text) (acc : N) : N :=
  match ds with
  | [] => acc
  | c :: r => match digit_in base c with
              | Some d => value_of base r (acc * base + d)
              | None => acc
              end
  end.

Definition stops (base : N) (rest : text) : Prop :=
  match rest with [] => True | c :: _ => digit_in base c = None end.

Lemma scan_digits_app : forall base ds rest acc k, all_digits base ds ->
  scan_digits base (ds ++ rest) acc k = scan_digits base rest (value_of base ds acc) (k + length ds).
Proof.
  intros base ds. induction ds as [|c r IH]; intros rest acc k H.
  - simpl. f_equal. lia.
  - inversion H as [|? ? Hc Hr]; subst. simpl.
    destruct (digit_in base c) as [d|]; [|congruence].
    rewrite IH by assumption. f_equal. lia.
Qed.

Lemma scan_digits_stop : forall base rest acc k, stops base rest ->
  scan_digits base rest acc k = (acc, k, rest).
Proof.
  intros base rest acc k H. destruct rest as [|c r]; simpl; [reflexivity|].
  simpl in H. now rewrite H.
Qed.

Lemma value_of_app : forall base a b acc, all_digits base a ->
  value_of base (a ++ b) acc = value_of base b (value_of base a acc).
Proof.
  intros base a. induction a as [|c r IH]; intros b acc H; simpl; [reflexivity|].
  inversion H as [|? ? Hc Hr]; subst.
  destruct (digit_in base c) as [d|]; [|congruence]. now apply IH.
Qed.

Lemma value_of_acc : forall base ds acc, all_digits base ds ->
  value_of base ds acc = acc * base ^ N.of_nat (length ds) + value_of base ds 0.
Proof.
  intros base ds. induction ds as [|c r IH]; intros acc H.
  - simpl. lia.
  - inversion H as [|? ? Hc Hr]; subst. cbn [value_of length].
    destruct (digit_in base c) as [d|]; [|congruence].
    rewrite (IH (acc * base + d)) by assumption. rewrite (IH (0 * base + d)) by assumption.
    rewrite Nat2N.inj_succ, N.pow_succ_r'. lia.
Qed.

Lemma all_digits_app : forall base a b, all_digits base a -> all_digits base b -> all_digits base (a ++ b).
Proof. intros. now apply Forall_app. Qed.

Section Digits.
  Variable base : N.
  Variable upper : bool.
  Hypothesis base_lo : 2 <= base.
  Hypothesis base_hi : base <= 16.

  Lemma div_fuel : forall f n, n < 2 ^ N.of_nat (S f) -> n / base < 2 ^ N.of_nat f.
  Proof.
    intros f n H. rewrite Nat2N.inj_succ, N.pow_succ_r' in H.
    apply N.div_lt_upper_bound; [lia|]. nia.
  Qed.

  (* fuel adequacy: with n < 2^f the digits are produced completely *)
  Lemma digits_fuel_all : forall f n, n < 2 ^ N.of_nat f -> all_digits base (digits_fuel base upper f n).
  Proof.
    induction f as [|f IH]; intros n H; [constructor|].
    cbn [digits_fuel]. destruct (N.ltb_spec n base).
    - constructor; [|constructor]. rewrite digit_in_char by lia. discriminate.
    - apply all_digits_app; [apply IH, div_fuel, H|].
      constructor; [|constructor]. rewrite digit_in_char; [discriminate| |lia].
      apply N.mod_lt. lia.
  Qed.

  Lemma digits_fuel_value : forall f n, n < 2 ^ N.of_nat f -> value_of base (digits_fuel base upper f n) 0 = n.
  Proof.
    induction f as [|f IH]; intros n H.
    - simpl in *. lia.
    - cbn [digits_fuel]. destruct (N.ltb_spec n base).
      + cbn [value_of]. rewrite digit_in_char by lia. lia.
      + rewrite value_of_app by (apply digits_fuel_all, div_fuel, H).
        rewrite IH by (apply div_fuel, H). cbn [value_of].
        rewrite digit_in_char; [| apply N.mod_lt; lia | lia].
        rewrite (N.div_mod' n base) at 3. lia.
  Qed.

  Lemma log2_fuel : forall n, n < 2 ^ N.of_nat (S (N.to_nat (N.log2 n))).
  Proof.
    intros n. rewrite Nat2N.inj_succ, N2Nat.id.
    destruct (N.eq_dec n 0) as [->|Hn]; [reflexivity|].
    apply N.log2_spec. lia.
  Qed.

  Lemma print_nat_all : forall n, all_digits base (print_nat base upper n).
  Proof. intros n. apply digits_fuel_all, log2_fuel. Qed.

  Lemma print_nat_value : forall n, value_of base (print_nat base upper n) 0 = n.
  Proof. intros n. apply digits_fuel_value, log2_fuel. Qed.

  (* the first digit of a positive number is not 0; zero is the single digit 0 *)
  Lemma digits_fuel_head : forall f n, 0 < n -> n < 2 ^ N.of_nat f ->
    exists d0 t, digits_fuel base upper f n = d0 :: t /\ d0 <> c_zero.
  Proof.
    induction f as [|f IH]; intros n Hp H.
    - simpl in H. lia.
    - cbn [digits_fuel]. destruct (N.ltb_spec n base).
      + exists (digit_char upper n), []. split; [reflexivity|].
        unfold digit_char, c_zero. destruct upper; nb.
      + destruct (IH (n / base)) as (d0 & t & E & Hd).
        * apply N.div_str_pos. lia.
        * apply div_fuel, H.
        * rewrite E. exists d0, (t ++ [digit_char upper (n mod base)]). split; [reflexivity|assumption].
  Qed.

  Lemma print_nat_head : forall n, 0 < n -> exists d0 t, print_nat base upper n = d0 :: t /\ d0 <> c_zero.
  Proof. intros n H. apply digits_fuel_head; [assumption|apply log2_fuel]. Qed.

  Lemma print_nat_nonempty : forall n, print_nat base upper n <> [].
  Proof.
    intros n. unfold print_nat. cbn [digits_fuel].
    destruct (n <? base); [discriminate|]. intros E. apply app_eq_nil in E. destruct E; discriminate.
  Qed.
End Digits.

Lemma print_nat_zero : forall base upper, 2 <= base -> print_nat base upper 0 = [c_zero].
Proof.
  intros base upper H. unfold print_nat. cbn.
  destruct (N.ltb_spec 0 base); [reflexivity|lia].
Qed.

(* ================================================================== integers: "%li" *)

Lemma wrap_signed_id : forall half z, (0 < half)%Z -> (- half <= z < half)%Z ->
  wrap_signed (2 * half) half z = z.
Proof.
  intros half z Hh Hz. unfold wrap_signed.
  destruct (Z.ltb_spec (z mod (2 * half)) half) as [H|H].
  - destruct (Z.neg_nonneg_cases z) as [Hn|Hn].
    + exfalso. rewrite <- (Z.mod_add z 1 (2 * half)) in H by lia.
      rewrite Z.mod_small in H; lia.
    + rewrite Z.mod_small; lia.
  - destruct (Z.neg_nonneg_cases z) as [Hn|Hn].
    + rewrite <- (Z.mod_add z 1 (2 * half)) by lia. rewrite Z.mod_small; lia.
    + rewrite Z.mod_small in H; lia.
Qed.

(* what may follow the text of an integer so that the token ends there *)
Definition stops_int (rest : text) : Prop :=
  match rest with
  | [] => True
  | c :: _ => digit_in 10 c = None /\ c <> c_x /\ c <> c_X
  end.

Lemma digit_in_8_10 : forall c, digit_in 10 c = None -> digit_in 8 c = None.
Proof.
  intros c. unfold digit_in. destruct (digit_val c) as [d|]; [|reflexivity].
  nb; congruence.
Qed.

Lemma stops_int_stops : forall base rest, base = 8 \/ base = 10 -> stops_int rest -> stops base rest.
Proof.
  intros base rest Hb H. destruct rest as [|c r]; [exact I|]. simpl in *.
  destruct H as [H _]. destruct Hb; subst; [now apply digit_in_8_10|assumption].
Qed.

Lemma has_hex_prefix_nonzero : forall b0 d0 t, d0 <> c_zero -> has_hex_prefix b0 (d0 :: t) = false.
Proof.
  intros b0 d0 t H. unfold has_hex_prefix. destruct t as [|x [|h r]]; try reflexivity.
  apply N.eqb_neq in H. now rewrite H.
Qed.

(* base detection of %i on decimal text without a leading zero (or the single digit 0) *)
Lemma scan_int_body_dec : forall mag rest n2, stops_int rest ->
  scan_int_body 0 (print_nat 10 false mag ++ rest) n2
  = Some (mag, (n2 + length (print_nat 10 false mag))%nat).
Proof.
  intros mag rest n2 Hr. destruct (N.eq_dec mag 0) as [->|Hm].
  - rewrite print_nat_zero by lia. unfold scan_int_body.
    assert (Hp : has_hex_prefix 0 ([c_zero] ++ rest) = false).
    { destruct rest as [|x [|h r]]; try reflexivity. simpl in Hr. destruct Hr as (_ & Hx & HX).
      apply N.eqb_neq in Hx, HX. unfold has_hex_prefix. cbn [app]. rewrite Hx, HX. reflexivity. }
    rewrite Hp. cbn [app N.eqb]. replace (c_zero =? c_zero) with true by reflexivity.
    cbn [scan_digits]. replace (digit_in 8 c_zero) with (Some 0) by reflexivity.
    rewrite scan_digits_stop by (apply stops_int_stops; [now left|assumption]).
    reflexivity.
  - destruct (print_nat_head 10 false ltac:(lia) ltac:(lia) mag ltac:(lia)) as (d0 & t & E & Hd).
    unfold scan_int_body. rewrite E. cbn [app]. rewrite has_hex_prefix_nonzero by assumption.
    cbn [N.eqb]. apply N.eqb_neq in Hd. rewrite Hd.
    change (d0 :: t ++ rest) with ((d0 :: t) ++ rest). rewrite <- E.
    rewrite scan_digits_app by (apply print_nat_all; lia).
    rewrite scan_digits_stop by (apply stops_int_stops; [now right|assumption]).
    rewrite print_nat_value by lia.
    destruct (length (print_nat 10 false mag)) eqn:El.
    + exfalso. apply (print_nat_nonempty 10 false mag). now apply length_zero_iff_nil.
    + reflexivity.
Qed.

Lemma skip_ws_nonspace : forall c r n, is_space c = false -> skip_ws (c :: r) n = (c :: r, n).
Proof. intros c r n H. simpl. now rewrite H. Qed.

Lemma digit_not_space : forall base c, digit_in base c <> None -> is_space c = false.
Proof.
  intros base c H. unfold digit_in, digit_val in H. unfold is_space.
  revert H. nb; congruence.
Qed.

Lemma digit_not_sign : forall base c, digit_in base c <> None -> (c =? c_minus) = false /\ (c =? c_plus) = false.
Proof.
  intros base c H. unfold digit_in, digit_val in H. unfold c_minus, c_plus.
  revert H. nb; try congruence; split; reflexivity.
Qed.

(* the text "%li" writes for an int64 *)
Lemma print_int_li : forall z, (- two63 <= z < two63)%Z ->
  print_int spec_li z = (if (z <? 0)%Z then [c_minus] else []) ++ print_nat 10 false (Z.to_N (Z.abs z)).
Proof.
  intros z Hz. unfold print_int. cbn [spec_li n_conv n_long n_plus n_space n_zero n_alt n_width].
  unfold int_arg. cbn [spec_li n_conv n_long]. replace (conv_signed 105) with true by reflexivity.
  change (spec_half spec_li) with two63.
  assert (Hw : wrap_signed (2 * two63) two63 z = z).
  { apply wrap_signed_id; unfold two63 in *; lia. }
  rewrite Hw.
  replace (conv_base 105) with 10 by reflexivity. replace (105 =? 88) with false by reflexivity.
  unfold pad. cbn [Nat.sub repeat app]. reflexivity.
Qed.

Lemma print_nat_head_or_zero : forall mag, exists d0 t,
  print_nat 10 false mag = d0 :: t /\ digit_in 10 d0 <> None.
Proof.
  intros mag. pose proof (print_nat_all 10 false ltac:(lia) ltac:(lia) mag) as Ha.
  pose proof (print_nat_nonempty 10 false mag) as Hn.
  destruct (print_nat 10 false mag) as [|d0 t]; [congruence|].
  exists d0, t. split; [reflexivity|]. now inversion Ha.
Qed.

Theorem int_li_roundtrip : forall cf z rest, (- two63 <= z < two63)%Z -> stops_int rest ->
  scan_num cf spec_li (print_num spec_li (VInt z) ++ rest)
  = Some (VInt z, length (print_num spec_li (VInt z))).
Proof.
  intros cf z rest Hz Hr. unfold print_num, scan_num.
  cbn [spec_li n_conv]. replace (conv_is_int 105) with true by reflexivity.
  rewrite print_int_li by assumption. unfold scan_int_text.
  replace (105 =? 105) with true by reflexivity.
  set (mag := Z.to_N (Z.abs z)).
  destruct (print_nat_head_or_zero mag) as (d0 & t & E & Hd0).
  destruct (Z.ltb_spec z 0) as [Hneg|Hpos].
  - cbn [app]. rewrite skip_ws_nonspace by reflexivity.
    cbn [scan_sign]. replace (c_minus =? c_minus) with true by reflexivity.
    rewrite scan_int_body_dec by assumption.
    assert (Hst : store_int (int_restore cf spec_li) spec_li true mag = z).
    { unfold store_int. cbn [spec_li n_conv n_long].
      replace (conv_signed 105) with true by reflexivity.
      subst mag. rewrite Z2N.id by lia.
      destruct (Z.ltb_spec two63 (Z.abs z)); [unfold two63 in *; lia|].
      change two64 with (2 * two63)%Z. rewrite wrap_signed_id; unfold two63 in *; lia. }
    rewrite Hst. reflexivity.
  - cbn [app]. rewrite E. cbn [app].
    destruct (digit_not_sign 10 d0 Hd0) as [Hm Hp].
    rewrite skip_ws_nonspace by (apply (digit_not_space 10); assumption).
    cbn [scan_sign]. rewrite Hm, Hp.
    change (d0 :: t ++ rest) with ((d0 :: t) ++ rest). rewrite <- E.
    rewrite scan_int_body_dec by assumption.
    assert (Hst : store_int (int_restore cf spec_li) spec_li false mag = z).
    { unfold store_int. cbn [spec_li n_conv n_long].
      replace (conv_signed 105) with true by reflexivity.
      subst mag. rewrite Z2N.id by lia.
      destruct (Z.ltb_spec (two63 - 1) (Z.abs z)); [unfold two63 in *; lia|].
      change two64 with (2 * two63)%Z. rewrite wrap_signed_id; unfold two63 in *; lia. }
    rewrite Hst. reflexivity.
Qed.

(* ================================================================== sequences with separators *)

(* the reading counterpart of a written item, and the values a sequence carries *)
Definition sitem_of (it : pitem) : sitem :=
  match it with
  | PLit t => SLit t
  | PShow v => SLook (ty_of v)
  | PNum sp _ => SNum sp
  end.

(* one conversion applied to the remaining input *)
Definition conv_reads (cf : config) (si : sitem) (inp : text) : option (value * nat) :=
  match si with
  | SLit _ => None
  | SLook ty => look_value cf ty inp
  | SNum sp => scan_num cf sp inp
  end.

(* seq_reads cf its rest sits vs: every non-literal item of `its`, read by the corresponding element
   of `sits` from its own text followed by everything written after it (and then `rest`), yields
   the corresponding element of vs and consumes exactly its own text *)
Inductive seq_reads (cf : config) : list pitem -> text -> list sitem -> list value -> Prop :=
| sr_nil : forall rest, seq_reads cf [] rest [] []
| sr_lit : forall t its rest sits vs,
    seq_reads cf its rest sits vs -> seq_reads cf (PLit t :: its) rest (SLit t :: sits) vs
| sr_val : forall it si its rest sits v vs,
    (forall t, si <> SLit t) ->
    conv_reads cf si (print_item cf it ++ print_items cf its ++ rest) = Some (v, length (print_item cf it)) ->
    seq_reads cf its rest sits vs ->
    seq_reads cf (it :: its) rest (si :: sits) (v :: vs).

Lemma skipn_length_app : forall (a b : text), skipn (length a) (a ++ b) = b.
Proof. intros a b. rewrite skipn_app, skipn_all, Nat.sub_diag. reflexivity. Qed.

(* ------------------------------------------------------------------ literal pieces *)

(* White space in a literal skips ALL white space of the input, so a run of literal text is matched
   exactly by its own text when it does not end in white space, or when what follows it does not
   start with white space. *)
Definition lws (x : text) : text := fst (skip_ws x 0).

Definition head_nonspace (x : text) : Prop :=
  match x with [] => True | c :: _ => is_space c = false end.

Fixpoint ends_nonspace (t : text) : Prop :=
  match t with
  | [] => True
  | c :: r => match r with [] => is_space c = false | _ => ends_nonspace r end
  end.

Definition lit_ok (t after : text) : Prop := ends_nonspace t \/ head_nonspace after.

Lemma skip_ws_fst : forall x n m, fst (skip_ws x n) = fst (skip_ws x m).
Proof.
  induction x as [|c r IH]; intros n m; [reflexivity|]. simpl. destruct (is_space c); [apply IH|reflexivity].
Qed.

Lemma lws_cons_space : forall c r, is_space c = true -> lws (c :: r) = lws r.
Proof. intros c r H. unfold lws. simpl. rewrite H. apply skip_ws_fst. Qed.

Lemma lws_nonspace : forall x, head_nonspace x -> lws x = x.
Proof. intros [|c r] H; [reflexivity|]. unfold lws. simpl in *. now rewrite H. Qed.

Lemma lws_idem : forall x, lws (lws x) = lws x.
Proof.
  induction x as [|c r IH]; [reflexivity|]. destruct (is_space c) eqn:E.
  - rewrite (lws_cons_space c r E). exact IH.
  - rewrite (lws_nonspace (c :: r)) by exact E. apply lws_nonspace. exact E.
Qed.

Lemma match_lit_own_text : forall t inp, lit_ok t inp ->
  match_lit t (t ++ inp) = (inp, true) /\
  (match t with c :: _ => is_space c = true | [] => False end -> match_lit t (lws (t ++ inp)) = (inp, true)).
Proof.
  induction t as [|c r IH]; intros inp Hok.
  - split; [reflexivity|intros []].
  - assert (Hok' : lit_ok r inp).
    { destruct Hok as [H|H]; [|now right]. destruct r as [|d r']; [left; exact I|left; exact H]. }
    destruct (IH inp Hok') as [IH1 IH2].
    cbn [match_lit app]. destruct (is_space c) eqn:Ec.
    + assert (Hcore : match_lit r (lws (r ++ inp)) = (inp, true)).
      { destruct r as [|d r'].
        - cbn [app match_lit]. destruct Hok as [H|H]; [simpl in H; congruence|]. now rewrite lws_nonspace.
        - destruct (is_space d) eqn:Ed.
          + apply IH2. reflexivity.
          + rewrite lws_nonspace by (cbn [app]; exact Ed). exact IH1. }
      split.
      * fold (lws (c :: r ++ inp)). rewrite (lws_cons_space c _ Ec). exact Hcore.
      * intros _. cbn [app]. try rewrite (lws_cons_space c _ Ec).
        change (match_lit r (lws (lws (r ++ inp))) = (inp, true)). rewrite lws_idem. exact Hcore.
    + split; [|intros H; congruence]. rewrite N.eqb_refl. exact IH1.
Qed.

Lemma match_lit_ok : forall t inp, lit_ok t inp -> match_lit t (t ++ inp) = (inp, true).
Proof. intros t inp H. apply (match_lit_own_text t inp H). Qed.

(* the text of a list of pieces, and the condition under which scanning them over that text
   consumes exactly it *)
Definition piece_text (pc : lpiece) : text := match pc with LRun u => u | LPct => [c_pct] end.
Definition pieces_text (ps : list lpiece) : text := flat_map piece_text ps.

Lemma lit_pieces_text : forall t, pieces_text (lit_pieces t) = t.
Proof.
  induction t as [|c r IH]; [reflexivity|]. cbn [lit_pieces].
  destruct (N.eqb_spec c c_pct) as [->|Hc].
  - unfold pieces_text in *. cbn [flat_map piece_text app]. now rewrite IH.
  - unfold pieces_text in *. destruct (lit_pieces r) as [|[u|] ps]; cbn [flat_map piece_text app] in *; now rewrite <- IH.
Qed.

Fixpoint pieces_ok (ps : list lpiece) (after : text) : Prop :=
  match ps with
  | [] => True
  | LRun u :: r => lit_ok u (pieces_text r ++ after) /\ pieces_ok r after
  | LPct :: r => pieces_ok r after
  end.

(* one piece over its own text: everything of it is consumed, the advance is its length *)
Lemma scan_piece_own : forall cf pc after, cf_pct_measure cf = true ->
  (match pc with LRun u => lit_ok u after | LPct => True end) ->
  scan_piece cf pc (piece_text pc ++ after) = Some (after, length (piece_text pc)).
Proof.
  intros cf pc after Hpct H. destruct pc as [u|]; cbn [scan_piece piece_text].
  - rewrite match_lit_ok by assumption. f_equal. f_equal.
    destruct (cf_lit_measure cf); cbn [andb]; [rewrite app_length; lia | reflexivity].
  - cbn [app skip_ws]. replace (is_space c_pct) with false by reflexivity. cbn [fst].
    rewrite N.eqb_refl, Hpct. f_equal. f_equal. cbn [length]. lia.
Qed.

Lemma scan_lit_str_own : forall cf ps after, cf_pct_measure cf = true -> pieces_ok ps after ->
  forall pre, scan_lit_str cf (pre ++ pieces_text ps ++ after) (length pre) ps
              = Some (length pre + length (pieces_text ps))%nat.
Proof.
  intros cf ps after Hpct. induction ps as [|pc r IH]; intros Hok pre.
  - simpl. f_equal. lia.
  - cbn [scan_lit_str]. unfold pieces_text. cbn [flat_map]. fold (pieces_text r).
    rewrite <- app_assoc. rewrite skipn_length_app.
    assert (Hpc : match pc with LRun u => lit_ok u (pieces_text r ++ after) | LPct => True end)
      by (destruct pc; cbn [pieces_ok] in Hok; [exact (proj1 Hok) | exact I]).
    assert (Hr : pieces_ok r after) by (destruct pc; cbn [pieces_ok] in Hok; [exact (proj2 Hok) | exact Hok]).
    rewrite (scan_piece_own cf pc _ Hpct Hpc).
    replace (pre ++ piece_text pc ++ pieces_text r ++ after) with ((pre ++ piece_text pc) ++ pieces_text r ++ after)
      by now rewrite <- app_assoc.
    replace (length pre + length (piece_text pc))%nat with (length (pre ++ piece_text pc)) by (rewrite app_length; lia).
    rewrite (IH Hr). f_equal. rewrite !app_length. lia.
Qed.

Lemma scan_lit_file_own : forall cf ps after, cf_pct_measure cf = true -> pieces_ok ps after ->
  forall pos, scan_lit_file cf (pieces_text ps ++ after) pos ps
              = Some (after, (pos + length (pieces_text ps))%nat).
Proof.
  intros cf ps after Hpct. induction ps as [|pc r IH]; intros Hok pos.
  - simpl. f_equal. f_equal. lia.
  - cbn [scan_lit_file]. unfold pieces_text. cbn [flat_map]. fold (pieces_text r).
    rewrite <- app_assoc.
    assert (Hpc : match pc with LRun u => lit_ok u (pieces_text r ++ after) | LPct => True end)
      by (destruct pc; cbn [pieces_ok] in Hok; [exact (proj1 Hok) | exact I]).
    assert (Hr : pieces_ok r after) by (destruct pc; cbn [pieces_ok] in Hok; [exact (proj2 Hok) | exact Hok]).
    rewrite (scan_piece_own cf pc _ Hpct Hpc). rewrite (IH Hr). f_equal. f_equal. rewrite app_length. lia.
Qed.

(* a readable sufficient condition for pieces_ok: the literal as a whole does not end in white space,
   or what follows it does not start with white space *)
Lemma lit_pieces_nil : forall t, lit_pieces t = [] -> t = [].
Proof.
  intros [|c r] H; [reflexivity|]. cbn [lit_pieces] in H.
  destruct (c =? c_pct); [discriminate|]. destruct (lit_pieces r) as [|[u|] ps]; discriminate.
Qed.

Lemma lit_pieces_run_nonempty : forall t u ps, lit_pieces t = LRun u :: ps -> u <> [].
Proof.
  intros [|c r] u ps H; [discriminate|]. cbn [lit_pieces] in H.
  destruct (c =? c_pct); [discriminate|].
  destruct (lit_pieces r) as [|[u'|] ps']; inversion H; discriminate.
Qed.

Lemma lit_ok_cons : forall c u Y, u <> [] -> lit_ok u Y -> lit_ok (c :: u) Y.
Proof.
  intros c u Y Hu [H|H]; [left|now right]. destruct u as [|d u']; [congruence|]. exact H.
Qed.

Lemma lit_ok_tail : forall c r Y, lit_ok (c :: r) Y -> lit_ok r Y.
Proof.
  intros c r Y [H|H]; [|now right]. destruct r as [|d r']; [left; exact I|left; exact H].
Qed.

Lemma lit_pieces_ok : forall t X, lit_ok t X -> pieces_ok (lit_pieces t) X.
Proof.
  induction t as [|c r IH]; intros X Hok; [exact I|].
  pose proof (IH X (lit_ok_tail c r X Hok)) as IHr.
  cbn [lit_pieces]. destruct (N.eqb_spec c c_pct) as [->|Hc].
  - cbn [pieces_ok]. exact IHr.
  - destruct (lit_pieces r) as [|[u|] ps] eqn:E.
    + (* r = [] : the single character run *)
      apply lit_pieces_nil in E. subst r. cbn [pieces_ok pieces_text flat_map app]. split; [exact Hok|exact I].
    + cbn [pieces_ok] in *. destruct IHr as [Hu Hps]. split; [|exact Hps].
      apply lit_ok_cons; [exact (lit_pieces_run_nonempty r u ps E) | exact Hu].
    + cbn [pieces_ok] in *. split; [|exact IHr].
      right. unfold pieces_text. cbn [flat_map piece_text app]. reflexivity.
Qed.

Fixpoint lits_simple (cf : config) (its : list pitem) (rest : text) : Prop :=
  match its with
  | [] => True
  | PLit t :: r => lit_ok t (print_items cf r ++ rest) /\ lits_simple cf r rest
  | _ :: r => lits_simple cf r rest
  end.

(* every literal of the sequence is matched by its own text, given what is written after it *)
Fixpoint lits_ok (cf : config) (its : list pitem) (rest : text) : Prop :=
  match its with
  | [] => True
  | PLit t :: r => pieces_ok (lit_pieces t) (print_items cf r ++ rest) /\ lits_ok cf r rest
  | _ :: r => lits_ok cf r rest
  end.

Lemma lits_simple_ok : forall cf its rest, lits_simple cf its rest -> lits_ok cf its rest.
Proof.
  intros cf its rest. induction its as [|it its IH]; intros H; [exact I|].
  destruct it as [t | v | sp v]; cbn [lits_simple lits_ok] in *; auto.
  destruct H as [Ht H]. split; [now apply lit_pieces_ok | auto].
Qed.

(* String source: scanning at position |pre| reads the values back and returns the position
   just after the written text *)
Lemma scan_str_seq : forall cf its rest sits vs, cf_pct_measure cf = true ->
  seq_reads cf its rest sits vs -> lits_ok cf its rest ->
  forall pre acc,
  scan_str cf (pre ++ print_items cf its ++ rest) (length pre) sits acc
  = SOk (acc ++ vs) (length pre + length (print_items cf its)).
Proof.
  intros cf its rest sits vs Hpct H. induction H as [rest | t its rest sits vs H IH | it si its rest sits v vs Hs Hc H IH];
    intros Hl pre acc.
  - simpl. rewrite app_nil_r. f_equal. lia.
  - cbn [lits_ok] in Hl. destruct Hl as [Ht Hl'].
    cbn [scan_str print_items flat_map print_item]. fold (print_items cf its).
    rewrite <- (lit_pieces_text t) at 1. rewrite <- app_assoc.
    rewrite (scan_lit_str_own cf _ _ Hpct Ht). rewrite (lit_pieces_text t).
    replace (pre ++ (t ++ print_items cf its) ++ rest) with ((pre ++ t) ++ print_items cf its ++ rest)
      by now rewrite <- !app_assoc.
    replace (length pre + length t)%nat with (length (pre ++ t)) by (rewrite app_length; lia).
    rewrite IH by assumption. f_equal. rewrite !app_length. lia.
  - assert (Hl' : lits_ok cf its rest).
    { destruct it as [t | v0 | sp v0]; cbn [lits_ok] in Hl; [destruct Hl as [_ Hl]|..]; exact Hl. }
    assert (Hskip : skipn (length pre) (pre ++ print_items cf (it :: its) ++ rest)
                    = print_item cf it ++ print_items cf its ++ rest).
    { rewrite skipn_length_app. unfold print_items. cbn [flat_map]. now rewrite <- app_assoc. }
    assert (Hnext : forall acc', scan_str cf (pre ++ print_items cf (it :: its) ++ rest)
                      (length pre + length (print_item cf it)) sits acc'
                    = SOk (acc' ++ vs) (length pre + length (print_items cf (it :: its)))).
    { intros acc'.
      replace (pre ++ print_items cf (it :: its) ++ rest)
        with ((pre ++ print_item cf it) ++ print_items cf its ++ rest)
        by (unfold print_items; cbn [flat_map]; now rewrite <- !app_assoc).
      replace (length pre + length (print_item cf it))%nat with (length (pre ++ print_item cf it))
        by (rewrite app_length; lia).
      rewrite IH by assumption. f_equal. unfold print_items. cbn [flat_map]. rewrite !app_length. lia. }
    destruct si as [t | ty | sp]; [exfalso; now apply (Hs t) | |]; cbn [scan_str]; cbn [conv_reads] in Hc;
      rewrite Hskip, Hc, Hnext; f_equal; rewrite <- app_assoc; reflexivity.
Qed.

Lemma scan_file_seq : forall cf its rest sits vs, cf_pct_measure cf = true ->
  seq_reads cf its rest sits vs -> lits_ok cf its rest ->
  forall pos acc,
  scan_file cf (print_items cf its ++ rest) pos sits acc
  = SOk (acc ++ vs) (pos + length (print_items cf its)).
Proof.
  intros cf its rest sits vs Hpct H. induction H as [rest | t its rest sits vs H IH | it si its rest sits v vs Hs Hc H IH];
    intros Hl pos acc.
  - simpl. rewrite app_nil_r. f_equal. lia.
  - cbn [lits_ok] in Hl. destruct Hl as [Ht Hl'].
    cbn [scan_file print_items flat_map print_item]. fold (print_items cf its).
    rewrite <- (lit_pieces_text t) at 1. rewrite <- app_assoc.
    rewrite (scan_lit_file_own cf _ _ Hpct Ht). rewrite (lit_pieces_text t).
    rewrite IH by assumption. f_equal. rewrite app_length. lia.
  - assert (Hl' : lits_ok cf its rest).
    { destruct it as [t | v0 | sp v0]; cbn [lits_ok] in Hl; [destruct Hl as [_ Hl]|..]; exact Hl. }
    assert (Hnext : forall acc', scan_file cf (skipn (length (print_item cf it)) (print_items cf (it :: its) ++ rest))
                      (pos + length (print_item cf it)) sits acc'
                    = SOk (acc' ++ vs) (pos + length (print_items cf (it :: its)))).
    { intros acc'. unfold print_items. cbn [flat_map]. rewrite <- app_assoc, skipn_length_app.
      fold (print_items cf its). rewrite IH by assumption. f_equal. unfold print_items. rewrite app_length. lia. }
    assert (Htxt : print_items cf (it :: its) ++ rest = print_item cf it ++ print_items cf its ++ rest).
    { unfold print_items. cbn [flat_map]. now rewrite <- app_assoc. }
    destruct si as [t | ty | sp]; [exfalso; now apply (Hs t) | |]; cbn [scan_file]; cbn [conv_reads] in Hc;
      rewrite Htxt at 1; rewrite Hc, Hnext; f_equal; rewrite <- app_assoc; reflexivity.
Qed.

(* ================================================================== show / look of sequences *)

(* what the proofs need from the C text (Generated.v) *)
Record config_ok (cf : config) : Prop := {
  ok_tables : esc_tables_ok (cf_show_esc cf) (cf_look_esc cf) = true;
  ok_cont : cf_look_cont cf = true;
  ok_pct : cf_pct_measure cf = true }.

Definition int64 (z : Z) : Prop := (- two63 <= z < two63)%Z.

(* values that show/look handle exactly: NUL-free Strings (a C string cannot hold a NUL) and Ints *)
Definition showable (v : value) : Prop :=
  match v with VStr s => nul_free s | VInt z => int64 z | VFloat _ => False end.

(* the text after a value must not continue its token (a String ends at its closing quote) *)
Definition ends_token (v : value) (after : text) : Prop :=
  match v with VInt _ => stops_int after | _ => True end.

Lemma show_value_reads : forall cf v after, config_ok cf -> showable v -> ends_token v after ->
  look_value cf (ty_of v) (show_value cf v ++ after) = Some (v, length (show_value cf v)).
Proof.
  intros cf v after [Ht Hc _] Hv He. destruct v as [z | b | s]; [| destruct Hv |].
  - cbn [ty_of look_value show_value]. now apply int_li_roundtrip.
  - cbn [ty_of look_value show_value]. rewrite Hc.
    rewrite string_roundtrip by assumption. reflexivity.
Qed.

Fixpoint show_seq_ok (cf : config) (its : list pitem) (rest : text) : Prop :=
  match its with
  | [] => True
  | PLit _ :: r => show_seq_ok cf r rest
  | PShow v :: r => showable v /\ ends_token v (print_items cf r ++ rest) /\ show_seq_ok cf r rest
  | PNum _ _ :: _ => False
  end.

Definition values_of (its : list pitem) : list value :=
  flat_map (fun it => match it with PLit _ => [] | PShow v => [v] | PNum _ v => [v] end) its.

Lemma show_seq_reads : forall cf its rest, config_ok cf -> show_seq_ok cf its rest ->
  seq_reads cf its rest (map sitem_of its) (values_of its).
Proof.
  intros cf its rest Hcf. induction its as [|it its IH]; intros H.
  - constructor.
  - destruct it as [t | v | sp v]; cbn [show_seq_ok] in H.
    + cbn [map sitem_of values_of flat_map app]. constructor. now apply IH.
    + destruct H as (Hv & He & H). cbn [map sitem_of]. unfold values_of. cbn [flat_map app].
      constructor; [intros t; discriminate | | now apply IH].
      cbn [conv_reads print_item]. now apply show_value_reads.
    + destruct H.
Qed.

(* C15 for sequences of Strings and Ints written with %$ and separated by literal text, read back
   from a String at any start position ... *)
Theorem show_seq_roundtrip_string : forall cf its pre rest, config_ok cf -> show_seq_ok cf its rest ->
  lits_ok cf its rest ->
  scan_str cf (fst (print_to_string cf pre (length pre) its) ++ rest) (length pre) (map sitem_of its) []
  = SOk (values_of its) (snd (print_to_string cf pre (length pre) its)).
Proof.
  intros cf its pre rest Hcf H Hl. unfold print_to_string. cbn [fst snd].
  rewrite firstn_all, <- app_assoc.
  now rewrite (scan_str_seq cf its rest _ _ (ok_pct _ Hcf) (show_seq_reads cf its rest Hcf H) Hl).
Qed.

(* ... and from a File (the stream stands just after the bytes written before) *)
Theorem show_seq_roundtrip_file : forall cf its old rest, config_ok cf -> show_seq_ok cf its rest ->
  lits_ok cf its rest ->
  scan_file cf (skipn (length old) (fst (print_to_file cf old (length old) its) ++ rest)) (length old)
    (map sitem_of its) []
  = SOk (values_of its) (snd (print_to_file cf old (length old) its)).
Proof.
  intros cf its old rest Hcf H Hl. unfold print_to_file. cbn [fst snd].
  rewrite <- app_assoc, skipn_length_app.
  now rewrite (scan_file_seq cf its rest _ _ (ok_pct _ Hcf) (show_seq_reads cf its rest Hcf H) Hl).
Qed.

(* the code as found (no `continue` after the escape switch) does not round-trip: D7 *)
Lemma look_without_continue_refuted : forall se le,
  assoc 10 se = Some 110 -> assoc 110 le = Some 10 ->
  exists s, nul_free s /\ look_string false le (show_string se s) <> LDone s (length (show_string se s)).
Proof.
  intros se le H1 H2. exists [10]. split; [repeat constructor; discriminate|].
  unfold show_string, show_char. cbn [flat_map app]. rewrite H1. cbn [app look_string look_loop].
  replace (c_quote =? c_quote) with true by reflexivity.
  replace (c_bslash =? c_quote) with false by reflexivity.
  replace (c_bslash =? c_bslash) with true by reflexivity.
  rewrite H2. cbn. discriminate.
Qed.

(* ================================================================== flagged decimal directives *)

Lemma all_digits_zeros' : forall j, all_digits 10 (repeat c_zero j).
Proof. induction j; simpl; constructor; [discriminate|assumption]. Qed.

Lemma value_of_zeros' : forall j, value_of 10 (repeat c_zero j) 0 = 0.
Proof.
  induction j as [|j IH]; [reflexivity|].
  cbn [repeat value_of]. replace (digit_in 10 c_zero) with (Some 0) by reflexivity. exact IH.
Qed.

Lemma skip_ws_spaces : forall k r n, skip_ws (repeat c_space k ++ r) n = skip_ws r (n + k).
Proof.
  induction k as [|k IH]; intros r n; [simpl; f_equal; lia|].
  cbn [repeat app skip_ws]. replace (is_space c_space) with true by reflexivity.
  rewrite IH. f_equal. lia.
Qed.

Lemma has_hex_prefix_10 : forall r, has_hex_prefix 10 r = false.
Proof.
  intros [|z [|x [|h r]]]; try reflexivity. unfold has_hex_prefix.
  replace ((10 =? 16) || (10 =? 0)) with false by reflexivity.
  rewrite andb_false_r. reflexivity.
Qed.

Lemma scan_int_body_10 : forall k mag rest n2, stops 10 rest ->
  scan_int_body 10 (repeat c_zero k ++ print_nat 10 false mag ++ rest) n2
  = Some (mag, (n2 + k + length (print_nat 10 false mag))%nat).
Proof.
  intros k mag rest n2 Hr. unfold scan_int_body. rewrite has_hex_prefix_10.
  replace (10 =? 0) with false by reflexivity.
  rewrite scan_digits_app by apply all_digits_zeros'.
  rewrite scan_digits_app by (apply print_nat_all; lia).
  rewrite scan_digits_stop by assumption.
  rewrite value_of_zeros', print_nat_value by lia. rewrite repeat_length.
  destruct (0 + k + length (print_nat 10 false mag))%nat eqn:E.
  - exfalso. apply (print_nat_nonempty 10 false mag). apply length_zero_iff_nil. lia.
  - f_equal. f_equal. lia.
Qed.

Definition sign_text (sg : text) : Prop := sg = [] \/ sg = [c_minus] \/ sg = [c_plus].
Definition sign_neg (sg : text) : bool := match sg with c :: _ => c =? c_minus | [] => false end.

(* white space, optional sign, leading zeros, decimal digits: read by %d (any number of leading
   zeros) or by %i (no leading zeros: they would select octal) *)
Lemma scan_int_text_shape : forall conv k1 sg k2 mag rest,
  conv = 100 \/ (conv = 105 /\ k2 = O) -> sign_text sg -> stops_int rest ->
  scan_int_text conv (repeat c_space k1 ++ sg ++ repeat c_zero k2 ++ print_nat 10 false mag ++ rest)
  = Some (sign_neg sg, mag, (k1 + length sg + k2 + length (print_nat 10 false mag))%nat).
Proof.
  intros conv k1 sg k2 mag rest Hconv Hsg Hr. unfold scan_int_text.
  rewrite skip_ws_spaces.
  (* after the spaces: a sign or a digit *)
  destruct (print_nat_head_or_zero mag) as (d0 & t & E & Hd0).
  assert (Hfirst : exists c r, repeat c_zero k2 ++ print_nat 10 false mag ++ rest = c :: r /\ digit_in 10 c <> None).
  { destruct k2 as [|k2]; [rewrite E; cbn; eauto|]. cbn [repeat app]. eexists _, _. split; [reflexivity|discriminate]. }
  destruct Hfirst as (c & r & Ec & Hc).
  destruct (digit_not_sign 10 c Hc) as [Hm Hp]. pose proof (digit_not_space 10 c Hc) as Hs.
  assert (Hbody : forall n2,
    scan_int_body (if conv =? 105 then 0 else conv_base conv)
      (repeat c_zero k2 ++ print_nat 10 false mag ++ rest) n2
    = Some (mag, (n2 + k2 + length (print_nat 10 false mag))%nat)).
  { intros n2. destruct Hconv as [-> | [-> ->]].
    - replace (100 =? 105) with false by reflexivity. replace (conv_base 100) with 10 by reflexivity.
      apply scan_int_body_10. apply stops_int_stops; [now right|assumption].
    - replace (105 =? 105) with true by reflexivity. cbn [repeat app].
      rewrite scan_int_body_dec by assumption. f_equal. f_equal. lia. }
  destruct Hsg as [-> | [-> | ->]]; cbn [app length sign_neg].
  - rewrite Ec. rewrite skip_ws_nonspace by assumption. cbn [scan_sign]. rewrite Hm, Hp.
    rewrite <- Ec, Hbody. f_equal. f_equal. lia.
  - rewrite skip_ws_nonspace by reflexivity. cbn [scan_sign].
    replace (c_minus =? c_minus) with true by reflexivity.
    rewrite Hbody. f_equal. f_equal. lia.
  - rewrite skip_ws_nonspace by reflexivity. cbn [scan_sign].
    replace (c_plus =? c_minus) with false by reflexivity. replace (c_plus =? c_plus) with true by reflexivity.
    rewrite Hbody. f_equal. f_equal. lia.
Qed.

(* the text of a signed decimal directive (d, i) with any of the flags + space 0 and a width *)
(* z fits the C type the directive names (hh: char, h: short, none: int, l ll j z t q: 64 bits) *)
Definition in_range (sp : nspec) (z : Z) : Prop := (- spec_half sp <= z < spec_half sp)%Z.

Lemma spec_half_bounds : forall sp, (0 < spec_half sp <= two63)%Z.
Proof.
  intros sp. unfold spec_half, two63, two31. destruct (n_long sp); [lia|].
  destruct (n_short sp) as [|[|k]]; lia.
Qed.

Lemma int_arg_signed : forall sp z, conv_signed (n_conv sp) = true -> in_range sp z -> int_arg sp z = z.
Proof.
  intros sp z Hc Hz. unfold int_arg. rewrite Hc. unfold in_range in Hz.
  pose proof (spec_half_bounds sp). apply wrap_signed_id; lia.
Qed.

Lemma conv_signed_cases : forall c, conv_signed c = true -> c = 100 \/ c = 105.
Proof.
  intros c H. unfold conv_signed in H. apply orb_prop in H. destruct H as [H|H]; apply N.eqb_eq in H; auto.
Qed.

Lemma repeat_snoc : forall (c : byte) k, repeat c k ++ [c] = repeat c (S k).
Proof. intros c k. induction k; simpl; [reflexivity|]. now rewrite IHk. Qed.

Lemma print_int_signed_shape : forall sp z, conv_signed (n_conv sp) = true -> in_range sp z ->
  exists k1 sg k2,
    print_int sp z = repeat c_space k1 ++ sg ++ repeat c_zero k2 ++ print_nat 10 false (Z.to_N (Z.abs z))
    /\ sign_text sg /\ sign_neg sg = (z <? 0)%Z /\ (n_zero sp = false -> k2 = O).
Proof.
  intros sp z Hc Hz. unfold print_int. rewrite (int_arg_signed sp z Hc Hz). rewrite Hc.
  assert (Hb : conv_base (n_conv sp) = 10 /\ (n_conv sp =? 88) = false /\ (n_conv sp =? 120) = false /\ (n_conv sp =? 111) = false).
  { destruct (conv_signed_cases _ Hc) as [-> | ->]; repeat split; reflexivity. }
  destruct Hb as (Hb1 & Hb2 & Hb3 & Hb4). rewrite Hb1, Hb2, Hb3, Hb4. cbn [andb].
  replace (if n_alt sp then [] else []) with (@nil byte) by (destruct (n_alt sp); reflexivity).
  cbn [length Nat.add app]. set (digs := print_nat 10 false (Z.to_N (Z.abs z))). unfold pad.
  destruct (Z.ltb_spec z 0) as [Hneg|Hpos].
  - destruct (n_zero sp).
    + exists O, [c_minus], (n_width sp - (length [c_minus] + 0 + length digs))%nat.
      repeat split; try reflexivity; [right; left; reflexivity | discriminate].
    + exists (n_width sp - (length [c_minus] + 0 + length digs))%nat, [c_minus], O.
      repeat split; try reflexivity. right; left; reflexivity.
  - destruct (n_plus sp).
    + destruct (n_zero sp).
      * exists O, [c_plus], (n_width sp - (length [c_plus] + 0 + length digs))%nat.
        repeat split; try reflexivity; [right; right; reflexivity | discriminate].
      * exists (n_width sp - (length [c_plus] + 0 + length digs))%nat, [c_plus], O.
        repeat split; try reflexivity. right; right; reflexivity.
    + destruct (n_space sp).
      * destruct (n_zero sp).
        -- exists 1%nat, [], (n_width sp - (length [c_space] + 0 + length digs))%nat.
           repeat split; try reflexivity; [left; reflexivity | discriminate].
        -- exists (S (n_width sp - (length [c_space] + 0 + length digs)))%nat, [], O.
           repeat split; try reflexivity; [|left; reflexivity].
           rewrite <- repeat_snoc, <- app_assoc. reflexivity.
      * destruct (n_zero sp).
        -- exists O, [], (n_width sp - (length (@nil byte) + 0 + length digs))%nat.
           repeat split; try reflexivity; [left; reflexivity | discriminate].
        -- exists (n_width sp - (length (@nil byte) + 0 + length digs))%nat, [], O.
           repeat split; try reflexivity. left; reflexivity.
Qed.

Lemma in_range_64 : forall sp z, in_range sp z -> (- two63 <= z < two63)%Z.
Proof. intros sp z H. unfold in_range in H. pose proof (spec_half_bounds sp). lia. Qed.

Lemma store_int_signed : forall signext ssp z,
  conv_signed (n_conv ssp) = true -> in_range ssp z ->
  (n_long ssp = false -> signext = true) ->
  store_int signext ssp (z <? 0)%Z (Z.to_N (Z.abs z)) = z.
Proof.
  intros signext ssp z Hc Hz Hse. pose proof (in_range_64 _ _ Hz) as H64.
  pose proof (spec_half_bounds ssp) as Hb.
  unfold store_int. rewrite Hc. rewrite Z2N.id by lia.
  assert (Hv : (if (z <? 0)%Z
                then if (two63 <? Z.abs z)%Z then (- two63)%Z else (- Z.abs z)%Z
                else if (two63 - 1 <? Z.abs z)%Z then (two63 - 1)%Z else Z.abs z) = z).
  { destruct (Z.ltb_spec z 0).
    - destruct (Z.ltb_spec two63 (Z.abs z)); unfold two63 in *; lia.
    - destruct (Z.ltb_spec (two63 - 1) (Z.abs z)); unfold two63 in *; lia. }
  rewrite Hv. unfold in_range in Hz. destruct (n_long ssp) eqn:El.
  - change two64 with (2 * two63)%Z. apply wrap_signed_id; unfold two63 in *; lia.
  - rewrite (Hse eq_refl). cbn [andb].
    unfold wrap_signed at 1. rewrite Z.mod_mod by lia.
    fold (wrap_signed (2 * spec_half ssp) (spec_half ssp) z). apply wrap_signed_id; lia.
Qed.

Lemma conv_signed_is_int : forall c, conv_signed c = true -> conv_is_int c = true.
Proof. intros c H. destruct (conv_signed_cases c H) as [-> | ->]; reflexivity. Qed.

(* Int through a numeric specification: text written by %[+][ ][0][width][l]d or ...i for a value the
   directive can represent is read back by %[l]d (or %[l]i when no zero padding was asked for) into the
   same value, consuming exactly that text *)
Theorem int_dec_roundtrip : forall cf sp ssp z rest,
  conv_signed (n_conv sp) = true ->
  (n_conv ssp = 100 \/ (n_conv ssp = 105 /\ n_zero sp = false)) ->
  in_range sp z -> in_range ssp z ->
  (n_long ssp = false -> int_restore cf ssp = true) ->
  stops_int rest ->
  scan_num cf ssp (print_num sp (VInt z) ++ rest) = Some (VInt z, length (print_num sp (VInt z))).
Proof.
  intros cf sp ssp z rest Hc Hsc Hz Hz' Hse Hr.
  assert (Hsc' : conv_signed (n_conv ssp) = true) by (destruct Hsc as [-> | [-> _]]; reflexivity).
  unfold print_num, scan_num. rewrite (conv_signed_is_int _ Hc), (conv_signed_is_int _ Hsc').
  destruct (print_int_signed_shape sp z Hc Hz) as (k1 & sg & k2 & Ep & Hsg & Hneg & Hk2).
  rewrite Ep. rewrite <- !app_assoc.
  rewrite scan_int_text_shape; [| destruct Hsc as [-> | [-> Hz0]]; [now left | right; split; [reflexivity | now apply Hk2]] | assumption | assumption].
  rewrite Hneg, store_int_signed by assumption.
  f_equal. f_equal. rewrite !app_length, !repeat_length. lia.
Qed.

(* ================================================================== unsigned directives: u x X o *)

Definition ubase (b : N) : Prop := b = 8 \/ b = 10 \/ b = 16.

Lemma ubase_bounds : forall b, ubase b -> 2 <= b /\ b <= 16.
Proof. intros b [-> | [-> | ->]]; lia. Qed.

Lemma zeros_digits : forall b j, ubase b -> all_digits b (repeat c_zero j) /\ value_of b (repeat c_zero j) 0 = 0.
Proof.
  intros b j Hb. assert (Hz : digit_in b c_zero = Some 0) by (destruct Hb as [-> | [-> | ->]]; reflexivity).
  induction j as [|j [IH1 IH2]]; [split; [constructor|reflexivity]|].
  split.
  - cbn [repeat]. constructor; [rewrite Hz; discriminate | exact IH1].
  - cbn [repeat value_of]. rewrite Hz. exact IH2.
Qed.

Lemma digit_not_x : forall b c, digit_in b c <> None -> (c =? c_x) = false /\ (c =? c_X) = false.
Proof.
  intros b c H. unfold digit_in, digit_val in H. unfold c_x, c_X.
  revert H. nb; try congruence; split; reflexivity.
Qed.

(* what may follow: not a digit of the base, and not x / X (after a lone 0 it would start a hex prefix) *)
Definition stops_base (b : N) (rest : text) : Prop :=
  match rest with
  | [] => True
  | c :: _ => digit_in b c = None /\ c <> c_x /\ c <> c_X
  end.

Lemma stops_base_stops : forall b rest, stops_base b rest -> stops b rest.
Proof. intros b [|c r] H; [exact I|]. simpl in *. tauto. Qed.

Lemma no_hex_prefix : forall b t rest, t <> [] -> all_digits b t -> stops_base b rest ->
  has_hex_prefix b (t ++ rest) = false.
Proof.
  intros b t rest Hne Hd Hr. destruct t as [|c t]; [congruence|]. clear Hne.
  inversion Hd as [|? ? Hc Ht]; subst. cbn [app].
  destruct t as [|c2 t].
  - cbn [app]. destruct rest as [|x [|h r]]; try reflexivity.
    simpl in Hr. destruct Hr as (_ & Hx & HX). apply N.eqb_neq in Hx, HX.
    unfold has_hex_prefix. rewrite Hx, HX. cbn [orb]. rewrite andb_false_r. reflexivity.
  - inversion Ht as [|? ? Hc2 _]; subst. destruct (digit_not_x b c2 Hc2) as [Hx HX].
    cbn [app]. unfold has_hex_prefix. destruct (t ++ rest); [reflexivity|].
    rewrite Hx, HX. cbn [orb]. rewrite andb_false_r. reflexivity.
Qed.

Lemma scan_int_body_base : forall b upper k mag rest n2, ubase b -> stops_base b rest ->
  scan_int_body b (repeat c_zero k ++ print_nat b upper mag ++ rest) n2
  = Some (mag, (n2 + k + length (print_nat b upper mag))%nat).
Proof.
  intros b upper k mag rest n2 Hb Hr. destruct (ubase_bounds b Hb) as [Hlo Hhi].
  destruct (zeros_digits b k Hb) as [Hzd Hzv].
  pose proof (print_nat_all b upper Hlo Hhi mag) as Hpd.
  unfold scan_int_body. rewrite app_assoc.
  rewrite no_hex_prefix; [| | now apply all_digits_app | assumption].
  2:{ intros E. apply app_eq_nil in E. destruct E as [_ E]. now apply (print_nat_nonempty b upper mag). }
  assert (Hb0 : (b =? 0) = false) by (destruct Hb as [-> | [-> | ->]]; reflexivity). rewrite Hb0.
  rewrite <- app_assoc.
  rewrite scan_digits_app by exact Hzd. rewrite scan_digits_app by exact Hpd.
  rewrite scan_digits_stop by (now apply stops_base_stops).
  rewrite Hzv, print_nat_value by assumption. rewrite repeat_length.
  destruct (0 + k + length (print_nat b upper mag))%nat eqn:E.
  - exfalso. apply (print_nat_nonempty b upper mag). apply length_zero_iff_nil. lia.
  - f_equal. f_equal. lia.
Qed.

Definition conv_unsigned (c : byte) : Prop := c = 117 \/ c = 120 \/ c = 88 \/ c = 111.

Lemma conv_unsigned_facts : forall c, conv_unsigned c ->
  conv_signed c = false /\ conv_is_int c = true /\ ubase (conv_base c) /\ (c =? 105) = false.
Proof. intros c [-> | [-> | [-> | ->]]]; repeat split; try reflexivity; unfold ubase; cbn; auto. Qed.

Definition urange (sp : nspec) (z : Z) : Prop :=
  if n_long sp then (- two63 <= z < two63)%Z else (0 <= z < 2 * spec_half sp)%Z.

Lemma scan_unsigned_shape : forall sconv b upper k1 k2 mag rest,
  conv_unsigned sconv -> conv_base sconv = b -> ubase b -> stops_base b rest ->
  scan_int_text sconv (repeat c_space k1 ++ repeat c_zero k2 ++ print_nat b upper mag ++ rest)
  = Some (false, mag, (k1 + k2 + length (print_nat b upper mag))%nat).
Proof.
  intros sconv b upper k1 k2 mag rest Hsc Hbase Hb Hr.
  destruct (conv_unsigned_facts _ Hsc) as (_ & _ & _ & H105).
  destruct (ubase_bounds _ Hb) as [Hlo Hhi].
  unfold scan_int_text. rewrite skip_ws_spaces. rewrite H105, Hbase.
  set (digs := print_nat b upper mag).
  assert (Hfirst : exists c r, repeat c_zero k2 ++ digs ++ rest = c :: r /\ digit_in b c <> None).
  { destruct k2 as [|k2].
    - cbn [repeat app]. pose proof (print_nat_all b upper Hlo Hhi mag) as Ha. fold digs in Ha.
      pose proof (print_nat_nonempty b upper mag) as Hn. fold digs in Hn.
      destruct digs as [|c r]; [congruence|]. inversion Ha; subst. cbn [app]. eauto.
    - cbn [repeat app]. eexists _, _. split; [reflexivity|].
      destruct Hb as [-> | [-> | ->]]; discriminate. }
  destruct Hfirst as (c & r & Ec & Hcd).
  destruct (digit_not_sign _ c Hcd) as [Hm Hp]. pose proof (digit_not_space _ c Hcd) as Hsp.
  rewrite Ec. rewrite skip_ws_nonspace by assumption. cbn [scan_sign]. rewrite Hm, Hp. rewrite <- Ec.
  unfold digs. rewrite scan_int_body_base by assumption.
  reflexivity.
Qed.

Lemma store_unsigned : forall signext ssp sp z,
  conv_unsigned (n_conv sp) -> conv_unsigned (n_conv ssp) -> n_long ssp = n_long sp -> n_short ssp = n_short sp ->
  urange sp z ->
  store_int signext ssp false (Z.to_N (Z.abs (int_arg sp z))) = z.
Proof.
  intros signext ssp sp z Hc Hsc Hlong Hshort Hz.
  destruct (conv_unsigned_facts _ Hc) as (Hs & _). destruct (conv_unsigned_facts _ Hsc) as (Hs' & _).
  assert (Hh : spec_half ssp = spec_half sp) by (unfold spec_half; now rewrite Hlong, Hshort).
  pose proof (spec_half_bounds sp) as Hb.
  unfold store_int. rewrite Hs'. rewrite Hlong, Hh. unfold int_arg. rewrite Hs. unfold urange in Hz.
  destruct (n_long sp) eqn:El.
  - assert (Hsh : spec_half sp = two63) by (unfold spec_half; now rewrite El). rewrite Hsh.
    change (2 * two63)%Z with two64.
    assert (H0 : (0 <= z mod two64 < two64)%Z) by (apply Z.mod_pos_bound; reflexivity).
    rewrite Z2N.id by lia. rewrite Z.abs_eq by lia.
    destruct (Z.ltb_spec (two64 - 1) (z mod two64)); [lia|].
    unfold wrap_signed. rewrite Z.mod_mod by (unfold two64; lia).
    change two64 with (2 * two63)%Z. apply wrap_signed_id; unfold two63 in *; lia.
  - assert (H0 : (z mod (2 * spec_half sp) = z)%Z) by (apply Z.mod_small; lia).
    rewrite H0. rewrite Z2N.id by lia. rewrite Z.abs_eq by lia.
    destruct (Z.ltb_spec (two64 - 1) z); [unfold two64, two63 in *; lia|].
    rewrite H0. rewrite andb_false_r. reflexivity.
Qed.

(* Int through an unsigned directive without '#': %[0][width][l]u / x / X / o, read back by a directive of
   the same base.  With `l` this holds for EVERY int64 (two's complement: -5 is written as 2^64 - 5 and
   read back as -5); without `l` for 0 <= z < 2^32 *)
Theorem int_unsigned_roundtrip : forall cf sp ssp z rest,
  conv_unsigned (n_conv sp) -> conv_unsigned (n_conv ssp) -> conv_base (n_conv ssp) = conv_base (n_conv sp) ->
  n_alt sp = false -> n_long ssp = n_long sp -> n_short ssp = n_short sp -> urange sp z ->
  stops_base (conv_base (n_conv sp)) rest ->
  scan_num cf ssp (print_num sp (VInt z) ++ rest) = Some (VInt z, length (print_num sp (VInt z))).
Proof.
  intros cf sp ssp z rest Hc Hsc Hbase Halt Hlong Hshort Hz Hr.
  destruct (conv_unsigned_facts _ Hc) as (Hs & Hi & Hb & _).
  destruct (conv_unsigned_facts _ Hsc) as (Hs' & Hi' & _ & _).
  unfold print_num, scan_num. rewrite Hi, Hi'. unfold print_int. rewrite Hs, Halt.
  cbn [length Nat.add app]. unfold pad.
  destruct (n_zero sp).
  - change (repeat c_zero ?k ++ ?d) with (repeat c_space 0 ++ repeat c_zero k ++ d).
    rewrite <- !app_assoc.
    rewrite (scan_unsigned_shape (n_conv ssp) _ _ O _ _ rest Hsc Hbase Hb Hr).
    rewrite (store_unsigned _ ssp sp z Hc Hsc Hlong Hshort Hz).
    f_equal. f_equal. rewrite !app_length, !repeat_length. simpl. lia.
  - match goal with |- context [repeat c_space ?k ++ ?d] =>
      change (repeat c_space k ++ d) with (repeat c_space k ++ repeat c_zero 0 ++ d) end.
    rewrite <- !app_assoc.
    rewrite (scan_unsigned_shape (n_conv ssp) _ _ _ O _ rest Hsc Hbase Hb Hr).
    rewrite (store_unsigned _ ssp sp z Hc Hsc Hlong Hshort Hz).
    f_equal. f_equal. rewrite !app_length, !repeat_length. simpl. lia.
Qed.

(* an Int written by one numeric directive and read by another: the two classes proved above *)
Definition int_directive_ok (cf : config) (sp ssp : nspec) (z : Z) (after : text) : Prop :=
  (conv_signed (n_conv sp) = true /\
   (n_conv ssp = 100 \/ (n_conv ssp = 105 /\ n_zero sp = false)) /\
   in_range sp z /\ in_range ssp z /\
   (n_long ssp = false -> int_restore cf ssp = true) /\ stops_int after)
  \/
  (conv_unsigned (n_conv sp) /\ conv_unsigned (n_conv ssp) /\
   conv_base (n_conv ssp) = conv_base (n_conv sp) /\ n_alt sp = false /\
   n_long ssp = n_long sp /\ n_short ssp = n_short sp /\
   urange sp z /\ stops_base (conv_base (n_conv sp)) after).

Theorem int_directive_roundtrip : forall cf sp ssp z after, int_directive_ok cf sp ssp z after ->
  scan_num cf ssp (print_num sp (VInt z) ++ after) = Some (VInt z, length (print_num sp (VInt z))).
Proof.
  intros cf sp ssp z after [(H1 & H2 & H3 & H4 & H5 & H6) | (H1 & H2 & H3 & H4 & H5 & H5' & H6 & H7)].
  - now apply int_dec_roundtrip.
  - now apply int_unsigned_roundtrip.
Qed.

(* ================================================================== any injective escape table *)

(* the reader's table that undoes a writer's table *)
Definition invert_table (se : list (N * N)) : list (N * N) := map (fun cl => (snd cl, fst cl)) se.

(* admissible writer tables: distinct letters (injective), no NUL among the escaped bytes, the quote and
   the backslash are escaped *)
Definition show_table_ok (se : list (N * N)) : Prop :=
  NoDup (map snd se) /\ Forall (fun cl => fst cl <> 0) se /\
  assoc c_quote se <> None /\ assoc c_bslash se <> None.

Lemma assoc_invert : forall se c l, NoDup (map snd se) -> In (c, l) se -> assoc l (invert_table se) = Some c.
Proof.
  induction se as [|[a b] r IH]; intros c l Hnd Hin; [destruct Hin|].
  cbn [invert_table map fst snd assoc]. cbn [map snd] in Hnd. inversion Hnd as [|? ? Hnotin Hnd']; subst.
  destruct (N.eqb_spec b l) as [->|Hne].
  - destruct Hin as [E|Hin]; [inversion E; reflexivity|].
    exfalso. apply Hnotin. change l with (snd (c, l)). now apply in_map.
  - destruct Hin as [E|Hin]; [inversion E; congruence|]. now apply IH.
Qed.

Lemma show_table_ok_tables : forall se, show_table_ok se -> esc_tables_ok se (invert_table se) = true.
Proof.
  intros se (Hnd & Hnz & Hq & Hb). unfold esc_tables_ok.
  apply andb_true_intro. split; [apply andb_true_intro; split|].
  - apply forallb_forall. intros [c l] Hin. cbn [fst snd].
    rewrite (assoc_invert se c l Hnd Hin). rewrite N.eqb_refl. cbn [andb].
    rewrite Forall_forall in Hnz. specialize (Hnz (c, l) Hin). cbn [fst] in Hnz.
    apply N.eqb_neq in Hnz. now rewrite Hnz.
  - destruct (assoc c_quote se); [reflexivity|congruence].
  - destruct (assoc c_bslash se); [reflexivity|congruence].
Qed.

(* String round trip for EVERY admissible escape table, read back with the inverse table *)
Theorem string_roundtrip_any_table : forall se, show_table_ok se ->
  forall s rest, nul_free s ->
  look_string true (invert_table se) (show_string se s ++ rest) = LDone s (length (show_string se s)).
Proof. intros se H s rest Hs. apply string_roundtrip; [now apply show_table_ok_tables | assumption]. Qed.
