(* RoundTripProofs.v — proofs about the round-trip model (C15). *)
From Coq Require Import List NArith ZArith Bool Lia.
From CelloV Require Import RoundTrip.
Import ListNotations.
Local Open Scope N_scope.
