(* Extraction of the dispatch model (C08) for the correspondence driver.  ExtrOcamlBasic only:
   strings stay the extracted inductive (String of ascii * string); the driver converts. *)
From Coq Require Import List Arith String Extraction ExtrOcamlBasic.
From CelloV Require Import Generated Dispatch.

Definition d_cache_num : nat := cello_cache_num.
Definition d_wiring : list (nat * string) := cache_wiring.
Definition d_objects : list string := builtin_objects.
Definition d_classes : list (string * nat) := builtin_classes.
Definition d_types : list (string * list (string * list bool)) := builtin_types.

Definition d_skipnull : bool := cache_write_skips_null.
Definition d_reread : bool := cache_fetch_rereads.
Definition d_implements_cached : bool := implements_uses_cache.
Definition d_implements_method_cached : bool := implements_method_uses_cache.

Extraction Language OCaml.
Extraction "../ocaml/gen/Dispatch.ml" d_skipnull d_reread d_implements_cached d_implements_method_cached d_cache_num d_wiring d_objects d_classes d_types
  step lookup spec_lookup method_result implements_method_result cast_result
  thread_step sys_step run_sched idle_thread check_inv cold_type
  wiring_ids cn_of builtin_decl builtin_imem index_of wired_slot decl_lookup run_history.
