(* ThreadsProofs.v — proofs about the interleaving machine of Threads.v (property C13).
   Stdlib + lia only.  c = clear_on_catch, b = busy_result; the positive theorems are about the
   machine with shared_exc = false (exception record found through the thread's own TLS). *)
From Coq Require Import List Arith Bool Lia.
From Coq Require String.
From CelloV Require Import Generated Threads.
Import ListNotations.

(* ------------------------------------------------------------------ list updates *)
Lemma nth_error_upd_eq : forall A (l : list A) i x, i < length l -> nth_error (upd l i x) i = Some x.
Proof. induction l; destruct i; simpl; intros; try lia; auto. apply IHl; lia. Qed.

Lemma nth_error_upd_ne : forall A (l : list A) i j x, i <> j -> nth_error (upd l i x) j = nth_error l j.
Proof. induction l; destruct i, j; simpl; intros; try congruence; auto. Qed.

Lemma length_upd : forall A (l : list A) i x, length (upd l i x) = length l.
Proof. induction l; destruct i; simpl; intros; auto. Qed.

Lemma map_upd : forall A B (f : A -> B) l i x, map f (upd l i x) = upd (map f l) i (f x).
Proof. induction l; destruct i; simpl; intros; auto. f_equal; auto. Qed.

Lemma upd_same : forall A (l : list A) i x, nth_error l i = Some x -> upd l i x = l.
Proof. induction l; destruct i; simpl; intros; try congruence. f_equal; auto. Qed.

Lemma upd_upd : forall A (l : list A) i x y, upd (upd l i x) i y = upd l i y.
Proof. induction l; destruct i; simpl; intros; auto. f_equal; auto. Qed.

Lemma nth_error_upd_some : forall A (l : list A) i j x y,
  nth_error (upd l i x) j = Some y -> (i = j /\ y = x) \/ (i <> j /\ nth_error l j = Some y).
Proof.
  induction l as [|a l IH]; intros i j x y H; destruct i, j; simpl in *; try discriminate; auto.
  - inversion H; auto.
  - destruct (IH _ _ _ _ H) as [[? ?]|[? ?]]; [left|right]; split; auto.
Qed.

Lemma nth_error_map_some : forall A B (f : A -> B) l i y,
  nth_error (map f l) i = Some y -> exists x, nth_error l i = Some x /\ y = f x.
Proof.
  intros. rewrite nth_error_map in H. destruct (nth_error l i); simpl in H; try discriminate.
  inversion H. eauto.
Qed.

(* ------------------------------------------------------------------ thread-local step *)
Section Local.
Variable c : bool.

Lemma lstep_done : forall ok l, done l = true -> lstep c ok l = l.
Proof. intros. unfold lstep. rewrite H. reflexivity. Qed.

Lemma lstep_fatal : forall ok l, fatal l = true -> lstep c ok l = l.
Proof. intros. unfold lstep. rewrite H. rewrite orb_true_r. reflexivity. Qed.

Lemma alone_S : forall ok h l, alone c (ok :: h) l = lstep c ok (alone c h l).
Proof. reflexivity. Qed.

Lemma alone_done : forall h l, done l = true -> alone c h l = l.
Proof. induction h; intros; auto. rewrite alone_S, IHh; auto using lstep_done. Qed.

Lemma alone_add : forall h1 h2 l, alone c (h1 ++ h2) l = alone c h1 (alone c h2 l).
Proof. intros. unfold alone. apply fold_right_app. Qed.

(* once the thread has finished, further instructions (whatever the answers) change nothing *)
Lemma alone_final : forall h h' l, done (alone c h l) = true -> alone c (h' ++ h) l = alone c h l.
Proof. intros. rewrite alone_add. apply alone_done; auto. Qed.

Lemma do_throw_me : forall l e k, me (do_throw c l e k) = me l.
Proof.
  intros. unfold do_throw. destruct (1 <=? depth (exc l)); [destruct (land e (depth (exc l)) k) as [[? ?]|]|]; reflexivity.
Qed.

Lemma lstep_me : forall ok l, me (lstep c ok l) = me l.
Proof.
  intros. unfold lstep. destruct (done l || fatal l); auto.
  destruct (code l) as [|[o| | |] k]; auto.
  - destruct o; simpl; auto using do_throw_me;
      repeat match goal with |- context[match ?x with _ => _ end] => destruct x end; simpl; auto using do_throw_me.
  - repeat match goal with |- context[match ?x with _ => _ end] => destruct x end; simpl; auto using do_throw_me.
    rewrite do_throw_me. reflexivity.
Qed.

Lemma alone_me : forall h l, me (alone c h l) = me l.
Proof. induction h; intros; auto. rewrite alone_S, lstep_me. auto. Qed.


Lemma do_throw_reg : forall l e k, reg (do_throw c l e k) = reg l /\ fin (do_throw c l e k) = fin l.
Proof.
  intros. unfold do_throw. destruct (1 <=? depth (exc l)); [destruct (land e (depth (exc l)) k) as [[? ?]|]|]; auto.
Qed.

Definition own (l : lstate) : Prop := forall o, In o (reg l) \/ In o (fin l) -> fst o = me l.

Lemma lstep_own : forall ok l, own l -> own (lstep c ok l).
Proof.
  intros ok l O. unfold own. rewrite lstep_me. unfold lstep.
  destruct (done l || fatal l); auto.
  assert (T : forall e k o, In o (reg (do_throw c l e k)) \/ In o (fin (do_throw c l e k)) -> fst o = me l).
  { intros e k o. destruct (do_throw_reg l e k) as [-> ->]. apply O. }
  assert (T' : forall x e k o, In o (reg (do_throw c (set_exc l x) e k)) \/ In o (fin (do_throw c (set_exc l x) e k)) -> fst o = me l).
  { intros x e k o. destruct (do_throw_reg (set_exc l x) e k) as [-> ->]. apply O. }
  destruct (code l) as [|[o| | |] k].
  - simpl. intros o [[]|H]. apply in_app_or in H. destruct H; [|apply in_rev in H]; auto.
  - destruct o; simpl; auto;
      repeat match goal with |- context[match ?x with _ => _ end] => destruct x end; simpl; auto;
      try (intros ? ?; eapply T; eassumption).
    + intros o [[<-|H]|H]; auto.
    + intros o [H|H].
      * apply filter_In in H. destruct H; auto.
      * apply in_app_or in H. destruct H; auto. apply in_rev in H. apply filter_In in H. destruct H; auto.
  - repeat match goal with |- context[match ?x with _ => _ end] => destruct x end; simpl; auto;
      try (intros ? ?; eapply T'; eassumption).
  - simpl. auto.
  - simpl. auto.
Qed.

Lemma alone_own : forall h l, own l -> own (alone c h l).
Proof. induction h; intros; auto. rewrite alone_S. apply lstep_own; auto. Qed.

Lemma linit_own : forall t p, own (linit t p).
Proof. intros t p o [[]|[]]. Qed.


(* ---- a pending store (second half of a non-atomic increment) only ever sits at the head of the
   continuation, and only an OIncr puts it there *)
Definition nostore (k : list kitem) : Prop := forall m, ~ In (KStore m) k.

Lemma nostore_app_kop : forall body x k, (forall m, x <> KStore m) -> nostore k -> nostore (map KOp body ++ x :: k).
Proof.
  intros body x k Hx Hk m Hin. apply in_app_or in Hin. destruct Hin as [Hin|[Hin|Hin]].
  - apply in_map_iff in Hin. destruct Hin as [? [? ?]]. discriminate.
  - eapply Hx; eauto.
  - eapply Hk; eauto.
Qed.

Lemma nostore_app_kop' : forall body k, nostore k -> nostore (map KOp body ++ k).
Proof.
  intros body k Hk m Hin. apply in_app_or in Hin. destruct Hin as [Hin|Hin].
  - apply in_map_iff in Hin. destruct Hin as [? [? ?]]. discriminate.
  - eapply Hk; eauto.
Qed.

Lemma nostore_tail : forall x k, nostore (x :: k) -> nostore k.
Proof. intros x k H m Hin. apply (H m). right. auto. Qed.

Lemma land_nostore : forall e k d d' k', land e d k = Some (d', k') -> nostore k -> nostore k'.
Proof.
  induction k as [|x k IH]; simpl; intros d d' k' H N; try discriminate.
  pose proof (nostore_tail _ _ N) as Nk.
  destruct x; simpl in H; try (eapply IH; eauto; fail).
  destruct (catches cs e).
  - inversion H; subst. apply nostore_app_kop'; auto.
  - destruct (d - 1); try discriminate. eapply IH; eauto.
Qed.

Lemma do_throw_nostore : forall l e k, nostore k -> nostore (code (do_throw c l e k)).
Proof.
  intros l e k N. unfold do_throw. destruct (1 <=? depth (exc l)).
  - destruct (land e (depth (exc l)) k) as [[d' k']|] eqn:E; simpl.
    + eapply land_nostore; eauto.
    + intros m [].
  - simpl. intros m [].
Qed.

Lemma lstep_code : forall ok l, done l = false -> fatal l = false -> nostore (tl (code l)) ->
  nostore (code (lstep c ok l)) \/ exists m k, code l = KOp (OIncr m) :: k /\ code (lstep c ok l) = KStore m :: k.
Proof.
  intros ok l Hd Hf W. unfold lstep. rewrite Hd, Hf. simpl.
  destruct (code l) as [|[o| | |] k]; simpl in W.
  - left. simpl. intros m [].
  - destruct o; simpl; auto;
      try (left; repeat match goal with |- context[match ?x with _ => _ end] => destruct x end; simpl;
           auto using do_throw_nostore; fail).
    + left. apply nostore_app_kop; auto. discriminate.
    + left. apply nostore_app_kop; auto. discriminate.
    + left. destruct ok; simpl; auto. apply nostore_app_kop; auto. discriminate.
    + right. eauto.
  - left. repeat match goal with |- context[match ?x with _ => _ end] => destruct x end; simpl;
      auto using do_throw_nostore, nostore_app_kop'.
  - left. auto.
  - left. auto.
Qed.

Lemma lstep_wf : forall ok l, done l = false -> fatal l = false -> nostore (tl (code l)) -> nostore (tl (code (lstep c ok l))).
Proof.
  intros ok l Hd Hf W. destruct (lstep_code ok l Hd Hf W) as [N|[m [k [E1 E2]]]].
  - destruct (code (lstep c ok l)); simpl; auto. eapply nostore_tail; eauto.
  - rewrite E2. simpl. rewrite E1 in W. exact W.
Qed.

End Local.

(* ------------------------------------------------------------------ shape of a machine step *)
Section Machine.
Variables c b : bool.
Notation G := (gstep c b false false).
Notation R := (run c b false false).

(* what an executed instruction of thread t does besides advancing t's own core:
   g1 = the state with the mutex table / a counter / ANOTHER thread's started-joined flag changed,
   s1 = t's new synchronisation side *)
Inductive pre (t : tid) (g : gstate) (l : lstate) (s : sstate) : gstate -> sstate -> bool -> Prop :=
| pre_local : pre t g l s g s true
| pre_acquire : forall m, mtx g m = None ->
    pre t g l s (set_mtx g m (Some t)) (set_holding s (m :: holding s)) true
| pre_busy : forall m o, mtx g m = Some o -> b = true ->
    pre t g l s g (set_holding s (m :: holding s)) true
| pre_tryfail : forall m o, mtx g m = Some o -> b = false ->       (* OTryOnce refused: the section is skipped *)
    pre t g l s g s false
| pre_release : forall m, mtx g m = Some t ->
    pre t g l s (set_mtx g m None) (set_holding s (rem_mid m (holding s))) true
| pre_load : forall m k, code l = KOp (OIncr m) :: k -> nmem m (holding s) = true ->
    pre t g l s g (set_tmp s (cells g m)) true
| pre_store : forall m k, code l = KStore m :: k ->
    pre t g l s (set_cell g m (S (tmp s))) s true
| pre_spawn : forall u lu su, nth_error (thr g) u = Some (lu, su) -> started su = false ->
    pre t g l s (set_thr g u (lu, set_started su)) s true
| pre_respawn : forall u lu su p, nth_error (thr g) u = Some (lu, su) ->     (* Thread object called again *)
    started su = true -> done lu = true -> joined su = true -> nth_error (progs g) u = Some p ->
    pre t g l s (set_thr g u (restart lu p, relaunch su)) s true
| pre_copy : forall v lv sv p tau, nth_error (thr g) v = Some (lv, sv) -> started sv = false ->    (* copy of a Thread object *)
    nth_error (progs g) v = Some p ->
    pre t g l s (set_thr g v (set_tls (linit v p) tau, launch_copy sv tau)) s true
| pre_join : forall u lu su k, code l = KOp (OJoin u) :: k ->
    nth_error (thr g) u = Some (lu, su) -> started su = true -> done lu = true -> joined su = false ->
    pre t g l s (set_thr g u (lu, set_joined su)) s true
| pre_peek : forall u lu su k, code l = KOp (OPeek u) :: k -> nth_error (thr g) u = Some (lu, su) ->
    pre t g l s g (add_seen s (u, out lu)) true.

Inductive shape (t : tid) (g : gstate) : gstate -> Prop :=
| sh_same : shape t g g
| sh_ub : forall l s, nth_error (thr g) t = Some (l, s) -> shape t g (set_thr g t (l, set_ub s))
| sh_adv : forall l s g1 s1 ok,
    nth_error (thr g) t = Some (l, s) ->
    aborted g = false -> started s = true -> done l = false -> fatal l = false -> ub s = false ->
    pre t g l s g1 s1 ok ->
    (forall m k, code l = KOp (OIncr m) :: k ->      (* an OIncr at the head is executed as the guarded load *)
       nmem m (holding s) = true /\ g1 = g /\ s1 = set_tmp s (cells g m)) ->
    shape t g (advance_ok c false ok g1 t l s1).

Ltac nohd := let HH := fresh in intros ? ? HH; discriminate HH.

Lemma gstep_shape : forall t g, shape t g (G t g).
Proof.
  intros t g. unfold gstep.
  destruct (aborted g) eqn:Hab; [constructor|].
  destruct (nth_error (thr g) t) as [[l s]|] eqn:Ht; [|constructor].
  destruct (negb (started s) || done l || fatal l || ub s) eqn:Hrun; [constructor|].
  apply orb_false_elim in Hrun. destruct Hrun as [Hrun Hub].
  apply orb_false_elim in Hrun. destruct Hrun as [Hrun Hfa].
  apply orb_false_elim in Hrun. destruct Hrun as [Hst Hdo].
  apply negb_false_iff in Hst.
  assert (ADV : forall g1 s1 ok, pre t g l s g1 s1 ok ->
            (forall m k, code l = KOp (OIncr m) :: k -> nmem m (holding s) = true /\ g1 = g /\ s1 = set_tmp s (cells g m)) ->
            shape t g (advance_ok c false ok g1 t l s1))
    by (intros; eapply sh_adv; eauto).
  assert (UB : shape t g (set_thr g t (l, set_ub s))) by (apply sh_ub; auto).
  destruct (code l) as [|[o| | |] k] eqn:Hc.
  - apply ADV; [constructor | nohd].
  - destruct o; try (apply ADV; [constructor | nohd]; fail).
    + (* lock *) unfold acquire. destruct (mtx g m) eqn:Hm; simpl; [constructor|]. apply ADV; [constructor; auto | nohd].
    + (* unlock *) unfold release. destruct (mtx g m) as [ow|] eqn:Hm; auto.
      destruct (ow =? t) eqn:E; auto. apply Nat.eqb_eq in E; subst ow. apply ADV; [constructor; auto | nohd].
    + (* tryspin *) unfold acquire. destruct (mtx g m) eqn:Hm.
      * simpl. destruct b eqn:Hb; [|constructor]. apply ADV; [eapply pre_busy; eauto | nohd].
      * apply ADV; [constructor; auto | nohd].
    + (* with *) unfold acquire. destruct (mtx g m) eqn:Hm; simpl; [constructor|]. apply ADV; [constructor; auto | nohd].
    + (* try once *) destruct (mtx g m) eqn:Hm.
      * destruct b eqn:Hb; [apply ADV; [eapply pre_busy; eauto | nohd] | apply ADV; [eapply pre_tryfail; eauto | nohd]].
      * apply ADV; [constructor; auto | nohd].
    + (* incr *) destruct (nmem m (holding s)) eqn:Hh; auto.
      apply ADV; [eapply pre_load; eauto | intros m' k' HH; inversion HH; subst; auto].
    + (* spawn *) destruct (nth_error (thr g) t0) as [[lu su]|] eqn:Hu; auto.
      destruct (started su) eqn:Hs; [|apply ADV; [eapply pre_spawn; eauto | nohd]].
      destruct (done lu) eqn:Hd; simpl; auto. destruct (joined su) eqn:Hj; simpl; auto.
      destruct (nth_error (progs g) t0) as [p|] eqn:Hp; auto.
      apply ADV; [eapply pre_respawn; eauto | nohd].
    + (* join *) destruct (nth_error (thr g) t0) as [[lu su]|] eqn:Hu; auto.
      destruct (started su) eqn:Hs; simpl; [|apply ADV; [constructor | nohd]].
      destruct (done lu) eqn:Hd; simpl; [|constructor].
      destruct (joined su) eqn:Hj; auto. apply ADV; [eapply pre_join; eauto | nohd].
    + (* peek *) destruct (nth_error (thr g) t0) as [[lu su]|] eqn:Hu; auto.
      apply ADV; [eapply pre_peek; eauto | nohd].
    + (* copy of a Thread object *)
      destruct (nth_error (thr g) v) as [[lv sv]|] eqn:Hv; auto.
      destruct (nth_error (thr g) u) as [[lu su]|] eqn:Hu; auto.
      destruct (nth_error (progs g) v) as [p|] eqn:Hp; auto.
      destruct (started sv) eqn:Hs; auto.
      destruct ((u =? t) || (started su && done lu && joined su)); auto.
      apply ADV; [eapply pre_copy; eauto | nohd].
  - apply ADV; [constructor | nohd].
  - unfold release. destruct (mtx g m) as [ow|] eqn:Hm; auto.
    destruct (ow =? t) eqn:E; auto. apply Nat.eqb_eq in E; subst ow. apply ADV; [constructor; auto | nohd].
  - apply ADV; [eapply pre_store; eauto | nohd].
Qed.

(* ------------------------------------------------------------------ lookups after a step *)
Lemma adv_lookup : forall ok g1 t l s1 t' l' s',
  nth_error (thr (advance_ok c false ok g1 t l s1)) t' = Some (l', s') ->
  (t' = t /\ l' = lstep c ok l /\ s' = bump ok s1) \/ (t' <> t /\ nth_error (thr g1) t' = Some (l', s')).
Proof.
  intros. unfold advance_ok in H; simpl in H. apply nth_error_upd_some in H.
  destruct H as [[? E]|[? ?]]; [left|right]; auto. inversion E; auto.
Qed.

Lemma set_thr_lookup : forall g u x t' y,
  nth_error (thr (set_thr g u x)) t' = Some y ->
  (t' = u /\ y = x) \/ (t' <> u /\ nth_error (thr g) t' = Some y).
Proof.
  intros. unfold set_thr in H; simpl in H. apply nth_error_upd_some in H.
  destruct H as [[? E]|[? ?]]; [left|right]; auto.
Qed.

(* ------------------------------------------------------------------ what a step does to the other threads *)
Lemma pre_self : forall t g l s g1 s1 ok, pre t g l s g1 s1 ok ->
  hist s1 = hist s /\ past s1 = past s /\ joined s1 = joined s /\ progs g1 = progs g /\ tls0 s1 = tls0 s.
Proof. intros. inversion H; subst; simpl; auto. Qed.

(* an entry of g1 is the entry of g up to started/joined flags — or the relaunch of a finished, joined thread —
   or the launch of a Thread object made by copy() *)
Definition same_entry (g : gstate) (t' : tid) (l' : lstate) (s' : sstate) : Prop :=
  exists s0, nth_error (thr g) t' = Some (l', s0) /\ holding s' = holding s0 /\ tmp s' = tmp s0 /\
             hist s' = hist s0 /\ past s' = past s0 /\ tls0 s' = tls0 s0 /\
             (joined s' = true -> joined s0 = true \/ done l' = true).

Lemma pre_lookup : forall t g l s g1 s1 ok, pre t g l s g1 s1 ok ->
  forall t' l' s', nth_error (thr g1) t' = Some (l', s') ->
    same_entry g t' l' s'
    \/ (exists lu su p, nth_error (thr g) t' = Some (lu, su) /\ done lu = true /\ joined su = true /\
                         nth_error (progs g) t' = Some p /\ l' = restart lu p /\ s' = relaunch su)
    \/ (exists lv sv p tau, nth_error (thr g) t' = Some (lv, sv) /\ started sv = false /\
                         nth_error (progs g) t' = Some p /\ l' = set_tls (linit t' p) tau /\ s' = launch_copy sv tau).
Proof.
  intros t g l s g1 s1 ok P t' l' s' H.
  assert (SAME : forall s0, nth_error (thr g) t' = Some (l', s0) -> holding s' = holding s0 -> tmp s' = tmp s0 ->
            hist s' = hist s0 -> past s' = past s0 -> tls0 s' = tls0 s0 ->
            (joined s' = true -> joined s0 = true \/ done l' = true) -> same_entry g t' l' s')
    by (intros; unfold same_entry; eauto 12).
  inversion P; subst; simpl in H; try (left; apply (SAME s'); auto; fail);
    apply nth_error_upd_some in H; destruct H as [[<- E]|[? H]]; try (left; apply (SAME s'); auto; fail);
    inversion E; subst.
  - left. apply (SAME su); auto.
  - right. left. exists lu, su, p. auto 10.
  - right. right. exists lv, sv, p, tau. auto 10.
  - left. apply (SAME su); auto.
Qed.

(* ------------------------------------------------------------------ isolation *)
Definition iso_inv (ps : list (list op)) (g : gstate) : Prop :=
  progs g = ps /\
  forall t l s, nth_error (thr g) t = Some (l, s) ->
    exists p, nth_error ps t = Some p /\ l = alone c (hist s) (base c t p (tls0 s) (past s)).

Lemma init_from_nth : forall ps k t,
  nth_error (init_from k ps) t = option_map (fun p => (linit (k + t) p, sinit (k + t =? 0))) (nth_error ps t).
Proof.
  induction ps; intros; destruct t; simpl; auto.
  - rewrite Nat.add_0_r. reflexivity.
  - rewrite IHps. replace (S k + t) with (k + S t) by lia. reflexivity.
Qed.

Lemma iso_init : forall ps, iso_inv ps (ginit ps).
Proof.
  intros ps. split; auto. intros t l s H. unfold ginit in H; simpl in H.
  rewrite init_from_nth in H. destruct (nth_error ps t) eqn:E; simpl in H; inversion H; subst. eauto.
Qed.

Lemma iso_step : forall ps t g, iso_inv ps g -> iso_inv ps (G t g).
Proof.
  intros ps t g [IP I]. destruct (gstep_shape t g) as [|l s Ht|l s g1 s1 ok Ht Hab Hst Hdo Hfa Hub P PI]; [split; auto| |].
  - split; auto. intros t' l' s' H. apply set_thr_lookup in H. destruct H as [[-> E]|[Hne H]]; auto.
    inversion E; subst. apply (I _ _ _ Ht).
  - destruct (pre_self _ _ _ _ _ _ _ P) as [Eh [Ep [_ [Eg Et]]]].
    split; [unfold advance_ok; simpl; congruence|].
    intros t' l' s' H. apply adv_lookup in H. destruct H as [[-> [-> ->]]|[Hne H]].
    + destruct (I _ _ _ Ht) as [p [Hp Hl]]. exists p. split; auto. simpl. rewrite Eh, Ep.
      change (alone c (ok :: hist s) (base c t p (tls0 s) (past s))) with (lstep c ok (alone c (hist s) (base c t p (tls0 s) (past s)))).
      congruence.
    + destruct (pre_lookup _ _ _ _ _ _ _ P _ _ _ H) as [[s0 [H0 [_ [_ [Eh0 [Ep0 [Et0 _]]]]]]]|[[lu [su [p [H0 [_ [_ [Hp [-> ->]]]]]]]]|[lv [sv [p [tau [H0 [_ [Hp [-> ->]]]]]]]]]].
      * rewrite Eh0, Ep0, Et0. apply (I _ _ _ H0).
      * destruct (I _ _ _ H0) as [p' [Hp' Hl]]. assert (p' = p) by congruence. subst p'.
        exists p. split; auto. simpl. congruence.
      * destruct (I _ _ _ H0) as [p' [Hp' _]]. assert (p' = p) by congruence. subst p'.
        exists p. split; auto.
Qed.

Lemma iso_run : forall ps sched g, iso_inv ps g -> iso_inv ps (R sched g).
Proof. induction sched; simpl; intros; auto. apply IHsched. apply iso_step; auto. Qed.

(* For EVERY schedule: the core of every thread (continuation, collector registry and finalisation
   ledger, exception record, thread-local storage, result trace) is a function of its OWN program and
   of the answers its OWN trylock attempts got, over all the runs of its Thread object (hist: the
   current run, past: the completed ones): it is what the thread reaches on its own with the same answers. *)
Theorem isolation_core : forall ps sched t l s,
  nth_error (thr (R sched (ginit ps))) t = Some (l, s) ->
  exists p, nth_error ps t = Some p /\ l = alone c (hist s) (base c t p (tls0 s) (past s)).
Proof. intros. destruct (iso_run ps sched _ (iso_init ps)) as [_ I]. eauto. Qed.

(* first run, no try-once section refused (e.g. the program has none): the stand-alone run proper *)
Corollary isolation_plain : forall ps sched t l s,
  nth_error (thr (R sched (ginit ps))) t = Some (l, s) -> past s = [] -> tls0 s = [] ->
  forallb (fun x => x) (hist s) = true ->
  exists p, nth_error ps t = Some p /\ l = alone_n c (steps s) (linit t p).
Proof.
  intros ps sched t l s H Hp Ht0 H0. destruct (isolation_core _ _ _ _ _ H) as [p [Hp' Hl]]. exists p. split; auto.
  rewrite Hp, Ht0 in Hl. simpl in Hl. change (set_tls (linit t p) []) with (linit t p) in Hl.
  assert (E : repeat true (length (hist s)) = hist s).
  { clear - H0. induction (hist s) as [|x h IH]; simpl in *; auto.
    apply andb_true_iff in H0. destruct H0 as [-> H0]. f_equal. auto. }
  unfold alone_n, steps. rewrite E. exact Hl.
Qed.

(* a finished thread has computed exactly its complete stand-alone result (whatever comes after) *)
Theorem isolation_finished : forall ps sched t l s,
  nth_error (thr (R sched (ginit ps))) t = Some (l, s) -> done l = true ->
  exists p, nth_error ps t = Some p /\ forall h', alone c (h' ++ hist s) (base c t p (tls0 s) (past s)) = l.
Proof.
  intros. destruct (isolation_core _ _ _ _ _ H) as [p [Hp Hl]]. exists p. split; auto.
  intros. subst l. apply alone_final. auto.
Qed.

(* frame: an instruction of t never changes the core of another thread — except that calling a Thread object
   whose previous run has finished and been joined starts its next run, and that calling a fresh copy of a Thread
   object starts it with the snapshot of the TLS table it was copied from *)
Theorem step_frame : forall t t' g, t <> t' ->
  core (G t g) t' = core g t' \/
  (exists lu su p, nth_error (thr g) t' = Some (lu, su) /\ done lu = true /\ joined su = true /\
                   nth_error (progs g) t' = Some p /\ core (G t g) t' = Some (restart lu p)) \/
  (exists lv sv p tau, nth_error (thr g) t' = Some (lv, sv) /\ started sv = false /\
                   nth_error (progs g) t' = Some p /\ core (G t g) t' = Some (set_tls (linit t' p) tau)).
Proof.
  intros t t' g Hne. unfold core.
  destruct (gstep_shape t g) as [|l s Ht|l s g1 s1 ok Ht Hab Hst Hdo Hfa Hub P PI]; auto.
  - left. unfold set_thr; simpl. rewrite nth_error_upd_ne; auto.
  - unfold advance_ok; simpl. rewrite nth_error_upd_ne; auto.
    destruct (nth_error (thr g1) t') as [[l' s']|] eqn:H.
    + destruct (pre_lookup _ _ _ _ _ _ _ P _ _ _ H) as [[s0 [H0 _]]|[[lu [su [p [H0 [Hd [Hj [Hp [-> ->]]]]]]]]|[lv [sv [p [tau [H0 [Hs [Hp [-> ->]]]]]]]]]].
      * left. rewrite H0. reflexivity.
      * right. left. exists lu, su, p. auto 10.
      * right. right. exists lv, sv, p, tau. auto 10.
    + left. inversion P; subst; simpl in H; try (rewrite H; reflexivity);
        unfold set_thr in H; simpl in H;
        match type of H with nth_error (upd _ ?x _) _ = None =>
          (destruct (Nat.eq_dec x t') as [->|Hn]; [rewrite nth_error_upd_eq in H; [discriminate | apply nth_error_Some; congruence]
                                                 | rewrite nth_error_upd_ne in H; auto; rewrite H; reflexivity]) end.
Qed.

(* no thread's collector ever finalises (or even registers) an object allocated by another thread *)
Lemma base_me : forall t p tau pa, me (base c t p tau pa) = t.
Proof. induction pa; simpl; auto. rewrite alone_me. auto. Qed.

Lemma base_own : forall t p tau pa, own (base c t p tau pa).
Proof.
  induction pa; simpl; [intros o [[]|[]]|].
  pose proof (alone_own c a _ IHpa) as O. intros o [[]|Hin]. simpl in Hin. apply O. auto.
Qed.

Theorem no_foreign_finalisation : forall ps sched t l s o,
  nth_error (thr (R sched (ginit ps))) t = Some (l, s) ->
  In o (reg l) \/ In o (fin l) -> fst o = t.
Proof.
  intros. destruct (isolation_core _ _ _ _ _ H) as [p [Hp Hl]].
  assert (O : own l) by (subst l; apply alone_own, base_own).
  rewrite (O o H0). subst l. rewrite alone_me. apply base_me.
Qed.

(* ------------------------------------------------------------------ mutual exclusion *)
Definition mx_inv (g : gstate) : Prop :=
  forall t l s m, nth_error (thr g) t = Some (l, s) -> In m (holding s) -> mtx g m = Some t.

Lemma rem_mid_in : forall m m' h, In m (rem_mid m' h) -> m <> m' /\ In m h.
Proof.
  intros. unfold rem_mid in H. apply filter_In in H. destruct H as [H1 H2].
  apply negb_true_iff, Nat.eqb_neq in H2. auto.
Qed.

Lemma mx_step : b = false -> forall t g, mx_inv g -> mx_inv (G t g).
Proof.
  intros Hb t g I. destruct (gstep_shape t g) as [|l s Ht|l s g1 s1 ok Ht Hab Hst Hdo Hfa Hub P PI]; auto.
  - intros t' l' s' m H Hin. apply set_thr_lookup in H. destruct H as [[-> E]|[Hne H]].
    + inversion E; subst. simpl in Hin. eapply I; eauto.
    + eapply I; eauto.
  - intros t' l' s' m H Hin. apply adv_lookup in H.
    inversion P; subst; simpl in *; try congruence;
      destruct H as [[-> [-> ->]]|[Hne H]]; simpl in *;
      try (eapply I; eauto; fail).
    + (* acquire, t itself *) unfold fupd. destruct Hin as [<-|Hin].
      * rewrite Nat.eqb_refl. reflexivity.
      * destruct (m =? m0); auto. eapply I; eauto.
    + (* acquire, another thread *) unfold fupd. destruct (m =? m0) eqn:E.
      * apply Nat.eqb_eq in E; subst m0. rewrite (I _ _ _ _ H Hin) in H0. discriminate.
      * eapply I; eauto.
    + (* release, t itself *) apply rem_mid_in in Hin. destruct Hin as [Hne Hin]. unfold fupd.
      apply Nat.eqb_neq in Hne. rewrite Hne. eapply I; eauto.
    + (* release, another thread *) unfold fupd. destruct (m =? m0) eqn:E.
      * apply Nat.eqb_eq in E; subst m0. rewrite (I _ _ _ _ H Hin) in H0. congruence.
      * eapply I; eauto.
    + (* spawn: another thread's flag *) apply set_thr_lookup in H. destruct H as [[-> E]|[? H]].
      * inversion E; subst. simpl in Hin. eapply I; eauto.
      * eapply I; eauto.
    + (* the Thread object is called again *) apply set_thr_lookup in H. destruct H as [[-> E]|[? H]].
      * inversion E; subst. simpl in Hin. eapply I; eauto.
      * eapply I; eauto.
    + (* a copy of a Thread object is called *) apply set_thr_lookup in H. destruct H as [[-> E]|[? H]].
      * inversion E; subst. simpl in Hin. eapply I; eauto.
      * eapply I; eauto.
    + apply set_thr_lookup in H. destruct H as [[-> E]|[? H]].
      * inversion E; subst. simpl in Hin. eapply I; eauto.
      * eapply I; eauto.
Qed.

Lemma mx_init : forall ps, mx_inv (ginit ps).
Proof.
  intros ps t l s m H Hin. unfold ginit in H; simpl in H. rewrite init_from_nth in H.
  destruct (nth_error ps t); simpl in H; inversion H; subst. destruct Hin.
Qed.

Lemma mx_run : b = false -> forall sched g, mx_inv g -> mx_inv (R sched g).
Proof. intros Hb. induction sched; simpl; intros; auto. apply IHsched, mx_step; auto. Qed.

(* For EVERY schedule and every lock / trylock / unlock / with pattern: two threads never hold the
   same mutex at the same time (holding = acquired by lock, successful trylock or with-entry and
   not yet released), provided Mutex_Trylock answers false on EBUSY. *)
Theorem mutex_exclusion_gen : b = false -> forall ps sched t1 t2 l1 s1 l2 s2 m,
  nth_error (thr (R sched (ginit ps))) t1 = Some (l1, s1) ->
  nth_error (thr (R sched (ginit ps))) t2 = Some (l2, s2) ->
  In m (holding s1) -> In m (holding s2) -> t1 = t2.
Proof.
  intros Hb ps sched t1 t2 l1 s1 l2 s2 m H1 H2 I1 I2.
  pose proof (mx_run Hb sched _ (mx_init ps)) as I.
  pose proof (I _ _ _ _ H1 I1). pose proof (I _ _ _ _ H2 I2). congruence.
Qed.

(* ------------------------------------------------------------------ lock has no timeout *)
(* lock / with-entry on an owned mutex: the step is the identity, however often it is retried — the
   instruction never completes without the mutex (Mutex_Lock = blocking pthread_mutex_lock) *)
Lemma blocked_lock_step : forall t g l s m k o,
  nth_error (thr g) t = Some (l, s) ->
  (code l = KOp (OLock m) :: k \/ exists bd, code l = KOp (OWith m bd) :: k) ->
  mtx g m = Some o -> G t g = g.
Proof.
  intros t g l s m k o Ht Hc Hm. unfold gstep. destruct (aborted g); auto. rewrite Ht.
  destruct (negb (started s) || done l || fatal l || ub s); auto.
  destruct Hc as [-> | [bd ->]]; unfold acquire; rewrite Hm; reflexivity.
Qed.

Theorem lock_waits_gen : forall n t g l s m k o,
  nth_error (thr g) t = Some (l, s) ->
  (code l = KOp (OLock m) :: k \/ exists bd, code l = KOp (OWith m bd) :: k) ->
  mtx g m = Some o -> Nat.iter n (G t) g = g.
Proof.
  induction n; intros; simpl; auto. rewrite (IHn t g l s m k o); auto. eapply blocked_lock_step; eauto.
Qed.

(* ... and when it does complete, the thread owns the mutex *)
Theorem lock_acquires_gen : forall t g l s m k,
  nth_error (thr g) t = Some (l, s) ->
  aborted g = false -> started s = true -> done l = false -> fatal l = false -> ub s = false ->
  (code l = KOp (OLock m) :: k \/ exists bd, code l = KOp (OWith m bd) :: k) ->
  mtx g m = None ->
  mtx (G t g) m = Some t /\
  option_map (fun ls => holding (snd ls)) (nth_error (thr (G t g)) t) = Some (m :: holding s).
Proof.
  intros t g l s m k Ht Hab Hst Hdo Hfa Hub Hc Hm.
  assert (Hlen : t < length (thr g)) by (apply nth_error_Some; congruence).
  unfold gstep. rewrite Hab, Ht, Hst, Hdo, Hfa, Hub. simpl.
  destruct Hc as [-> | [bd ->]]; unfold acquire; rewrite Hm; unfold advance, advance_ok, set_mtx; simpl;
    (split; [unfold fupd; rewrite Nat.eqb_refl; reflexivity | rewrite nth_error_upd_eq; auto]).
Qed.

(* ------------------------------------------------------------------ guarded counters lose no update *)
Lemma nmem_in : forall m h, nmem m h = true -> In m h.
Proof.
  intros. unfold nmem in H. apply existsb_exists in H. destruct H as [x [Hin E]].
  apply Nat.eqb_eq in E. subst. auto.
Qed.

Definition inc_inv (g : gstate) : Prop :=
  forall t l s, nth_error (thr g) t = Some (l, s) ->
    nostore (tl (code l)) /\
    forall m k, code l = KStore m :: k -> In m (holding s) /\ tmp s = cells g m.

Lemma pre_cells : forall t g l s g1 s1 ok, pre t g l s g1 s1 ok ->
  cells g1 = cells g \/ exists m k, code l = KStore m :: k /\ cells g1 = fupd (cells g) m (S (tmp s)).
Proof. intros. inversion H; subst; simpl; eauto. Qed.

Lemma inc_step : b = false -> forall t g, mx_inv g -> inc_inv g -> inc_inv (G t g).
Proof.
  intros Hb t g MX I. destruct (gstep_shape t g) as [|l s Ht|l s g1 s1 ok Ht Hab Hst Hdo Hfa Hub P PI]; auto.
  - intros t' l' s' H. apply set_thr_lookup in H. destruct H as [[-> E]|[Hne H]].
    + inversion E; subst. simpl. apply (I _ _ _ Ht).
    + apply (I _ _ _ H).
  - intros t' l' s' H. apply adv_lookup in H. destruct H as [[-> [-> ->]]|[Hne H]].
    + (* the stepping thread *)
      destruct (I _ _ _ Ht) as [W N]. split; [apply lstep_wf; auto|].
      intros m k Hc. destruct (lstep_code c ok l Hdo Hfa W) as [NS|[m0 [k0 [E1 E2]]]].
      * exfalso. rewrite Hc in NS. apply (NS m). left. reflexivity.
      * rewrite E2 in Hc. inversion Hc; subst m0 k0.
        destruct (PI _ _ E1) as [Hh [-> ->]]. simpl. split; [apply nmem_in; auto | reflexivity].
    + (* another thread *)
      destruct (pre_lookup _ _ _ _ _ _ _ P _ _ _ H) as [[s0 [H0 [Eh [Et _]]]]|[[lu [su [p [H0 [_ [_ [_ [-> ->]]]]]]]]|[lv [sv [p [tau [H0 [_ [_ [-> ->]]]]]]]]]].
      * destruct (I _ _ _ H0) as [W N]. split; auto.
        intros m k Hc. destruct (N _ _ Hc) as [Hin Htmp]. rewrite Eh, Et. split; auto.
        unfold advance_ok; simpl. destruct (pre_cells _ _ _ _ _ _ _ P) as [->|[m' [k' [Hc' ->]]]]; auto.
        unfold fupd. destruct (m =? m') eqn:E; auto.
        apply Nat.eqb_eq in E; subst m'. exfalso.
        destruct (I _ _ _ Ht) as [_ N']. destruct (N' _ _ Hc') as [Hin' _].
        pose proof (MX _ _ _ _ Ht Hin'). pose proof (MX _ _ _ _ H0 Hin). congruence.
      * (* relaunched: the continuation is the plain program *)
        simpl. split.
        -- intros m Hin. destruct p; simpl in Hin; auto. apply in_map_iff in Hin. destruct Hin as [? [? ?]]. discriminate.
        -- intros m k Hc. destruct p; simpl in Hc; discriminate.
      * (* launched copy: the continuation is the plain program *)
        simpl. split.
        -- intros m Hin. destruct p; simpl in Hin; auto. apply in_map_iff in Hin. destruct Hin as [? [? ?]]. discriminate.
        -- intros m k Hc. destruct p; simpl in Hc; discriminate.
Qed.

Lemma inc_init : forall ps, inc_inv (ginit ps).
Proof.
  intros ps t l s H. unfold ginit in H; simpl in H. rewrite init_from_nth in H.
  destruct (nth_error ps t) as [p|]; simpl in H; inversion H; subst. simpl. split.
  - intros m Hin. destruct p; simpl in Hin; auto. apply in_map_iff in Hin. destruct Hin as [? [? ?]]. discriminate.
  - intros m k Hc. destruct p; simpl in Hc; discriminate.
Qed.

Lemma inc_run : b = false -> forall sched g, mx_inv g -> inc_inv g -> mx_inv (R sched g) /\ inc_inv (R sched g).
Proof.
  intros Hb. induction sched; simpl; intros; auto. apply IHsched; [apply mx_step | apply inc_step]; auto.
Qed.

(* For EVERY schedule: a thread about to store the second half of `cell = cell + 1` still holds the mutex
   and the value it loaded is still the cell's value — nobody wrote in between; the store then adds
   exactly one to the CURRENT value (no lost update). *)
Theorem guarded_increment_gen : b = false -> forall ps sched t l s m k,
  let g := R sched (ginit ps) in
  nth_error (thr g) t = Some (l, s) -> code l = KStore m :: k ->
  In m (holding s) /\ tmp s = cells g m /\
  (aborted g = false -> started s = true -> done l = false -> fatal l = false -> ub s = false ->
   cells (G t g) m = S (cells g m)).
Proof.
  intros Hb ps sched t l s m k g Ht Hc.
  destruct (inc_run Hb sched _ (mx_init ps) (inc_init ps)) as [_ I].
  destruct (I _ _ _ Ht) as [_ N]. destruct (N _ _ Hc) as [Hin Htmp].
  split; auto. split; auto.
  intros Hab Hst Hdo Hfa Hub. unfold gstep. fold g. rewrite Hab, Ht, Hst, Hdo, Hfa, Hub. simpl. rewrite Hc.
  unfold advance, advance_ok, set_cell; simpl. unfold fupd. rewrite Nat.eqb_refl. rewrite Htmp. reflexivity.
Qed.

(* ------------------------------------------------------------------ join *)
Definition jn_inv (g : gstate) : Prop :=
  forall u lu su, nth_error (thr g) u = Some (lu, su) -> joined su = true -> done lu = true.

Lemma jn_step : forall t g, jn_inv g -> jn_inv (G t g).
Proof.
  intros t g I. destruct (gstep_shape t g) as [|l s Ht|l s g1 s1 ok Ht Hab Hst Hdo Hfa Hub P PI]; auto.
  - intros u lu su H Hj. apply set_thr_lookup in H. destruct H as [[-> E]|[Hne H]].
    + inversion E; subst. simpl in Hj. eapply I; eauto.
    + eapply I; eauto.
  - intros u lu su H Hj. apply adv_lookup in H. destruct H as [[-> [-> ->]]|[Hne H]].
    + destruct (pre_self _ _ _ _ _ _ _ P) as [_ [_ [Ej _]]].
      change (joined (bump ok s1)) with (joined s1) in Hj. rewrite Ej in Hj.
      rewrite (I _ _ _ Ht Hj) in Hdo. discriminate.
    + destruct (pre_lookup _ _ _ _ _ _ _ P _ _ _ H) as [[s0 [H0 [_ [_ [_ [_ [_ J]]]]]]]|[[lu' [su' [p [_ [_ [_ [_ [_ ->]]]]]]]]|[lv [sv [p [tau [_ [_ [_ [_ ->]]]]]]]]]].
      * destruct (J Hj); auto. eapply I; eauto.
      * discriminate Hj.
      * discriminate Hj.
Qed.

Lemma jn_init : forall ps, jn_inv (ginit ps).
Proof.
  intros ps u lu su H Hj. unfold ginit in H; simpl in H. rewrite init_from_nth in H.
  destruct (nth_error ps u); simpl in H; inversion H; subst. discriminate.
Qed.

Lemma jn_run : forall sched g, jn_inv g -> jn_inv (R sched g).
Proof. induction sched; simpl; intros; auto. apply IHsched, jn_step; auto. Qed.

(* join returns only after the joined thread's function has finished (and its collector is gone) *)
Theorem join_waits : forall ps sched u lu su,
  nth_error (thr (R sched (ginit ps))) u = Some (lu, su) -> joined su = true -> done lu = true.
Proof. intros. eapply (jn_run sched _ (jn_init ps)); eauto. Qed.

(* join publishes: whenever the LATEST call of Thread object u has been joined, whatever any thread reads
   from u is the complete result of that latest run (and of the earlier ones): u has finished, its core is
   final for every continuation of its history, and the read returns exactly its trace *)
Theorem join_publishes_gen : forall ps sched t u lu su p l s k,
  let g := R sched (ginit ps) in
  nth_error (thr g) u = Some (lu, su) -> joined su = true ->
  nth_error ps u = Some p ->
  nth_error (thr g) t = Some (l, s) ->
  aborted g = false -> started s = true -> done l = false -> fatal l = false -> ub s = false ->
  code l = KOp (OPeek u) :: k ->
  done lu = true /\
  (forall h', alone c (h' ++ hist su) (base c u p (tls0 su) (past su)) = lu) /\
  option_map (fun ls => seen (snd ls)) (nth_error (thr (G t g)) t) = Some ((u, out lu) :: seen s).
Proof.
  intros ps sched t u lu su p l s k g Hu Hj Hp Ht Hab Hst Hdo Hfa Hub Hc.
  assert (Hd : done lu = true) by (eapply join_waits; eauto).
  split; auto. split.
  - destruct (isolation_finished _ _ _ _ _ Hu Hd) as [p' [Hp' F]]. assert (p' = p) by congruence. subst p'. exact F.
  - unfold gstep. fold g. rewrite Hab, Ht, Hst, Hdo, Hfa, Hub. simpl. rewrite Hc, Hu.
    unfold advance, advance_ok; simpl. rewrite nth_error_upd_eq.
    + reflexivity.
    + apply nth_error_Some. congruence.
Qed.

(* a call of a Thread object starts a NEW run: it is not joined until a join executed after that call returns *)
Theorem call_resets_join : forall t g u lu su p l s k,
  nth_error (thr g) t = Some (l, s) -> aborted g = false -> started s = true -> done l = false ->
  fatal l = false -> ub s = false -> code l = KOp (OSpawn u) :: k ->
  nth_error (thr g) u = Some (lu, su) -> started su = true -> done lu = true -> joined su = true ->
  nth_error (progs g) u = Some p -> t <> u ->
  nth_error (thr (G t g)) u = Some (restart lu p, relaunch su).
Proof.
  intros t g u lu su p l s k Ht Hab Hst Hdo Hfa Hub Hc Hu Hsu Hdu Hju Hp Hne.
  unfold gstep. rewrite Hab, Ht, Hst, Hdo, Hfa, Hub. simpl. rewrite Hc, Hu, Hsu, Hdu, Hju, Hp. simpl.
  unfold advance, advance_ok; simpl. rewrite nth_error_upd_ne; auto.
  apply nth_error_upd_eq. apply nth_error_Some. congruence.
Qed.

(* a Thread object made by copy(current(Thread)) and called: it starts with a SNAPSHOT of the caller's TLS and
   with its own fresh exception record (depth 0, inactive), empty collector registry and empty trace — whatever
   try depth the caller is at; afterwards `isolation` applies to it like to any other thread *)
Theorem copy_of_self_gen : forall t g v lv sv p l s k,
  nth_error (thr g) t = Some (l, s) -> aborted g = false -> started s = true -> done l = false ->
  fatal l = false -> ub s = false -> code l = KOp (OSpawnCopy v t) :: k ->
  nth_error (thr g) v = Some (lv, sv) -> started sv = false -> nth_error (progs g) v = Some p -> t <> v ->
  exists l' s', nth_error (thr (G t g)) v = Some (l', s') /\
    tls l' = tls l /\ exc l' = mkE 0 false None /\ reg l' = [] /\ fin l' = [] /\ out l' = [] /\ code l' = map KOp p /\
    started s' = true /\ joined s' = false /\ tls0 s' = tls l.
Proof.
  intros t g v lv sv p l s k Ht Hab Hst Hdo Hfa Hub Hc Hv Hsv Hp Hne.
  exists (set_tls (linit v p) (tls l)), (launch_copy sv (tls l)). split; [|repeat split].
  unfold gstep. rewrite Hab, Ht, Hst, Hdo, Hfa, Hub. simpl. rewrite Hc, Hv, Ht, Hp, Hsv. simpl.
  rewrite Nat.eqb_refl. simpl.
  unfold advance, advance_ok; simpl. rewrite nth_error_upd_ne; auto.
  apply nth_error_upd_eq. apply nth_error_Some. congruence.
Qed.

End Machine.

(* ------------------------------------------------------------------ the variants that do NOT work *)
(* one process-wide exception record (shared_exc = true): two threads with a try block each disturb
   each other — thread 2's final exception depth differs from its stand-alone run *)
Definition ps_shared : list (list op) :=
  [[OSpawn 1; OSpawn 2]; [OTry [OObs] [] []]; [OTry [OObs] [] []]].
Definition sched_shared : list tid := [0; 0; 1; 2].

(* after thread 1 and thread 2 have each entered their try block, thread 2's exception depth is 2,
   on its own it is 1 *)
Lemma isolation_refuted_shared : forall c b,
  exists ps sched t,
    match nth_error (thr (run c b true false sched (ginit ps))) t, nth_error ps t with
    | Some (l, s), Some p => depth (exc l) =? depth (exc (alone c (hist s) (linit t p))) = false
    | _, _ => False
    end.
Proof.
  intros. exists ps_shared, sched_shared, 2. destruct c, b; vm_compute; reflexivity.
Qed.

(* Mutex_Trylock answering true on EBUSY: two threads hold the same mutex *)
Lemma exclusion_refuted_busy_true : forall c,
  exists ps sched l1 s1 l2 s2 m,
    nth_error (thr (run c true false false sched (ginit ps))) 0 = Some (l1, s1) /\
    nth_error (thr (run c true false false sched (ginit ps))) 1 = Some (l2, s2) /\
    In m (holding s1) /\ In m (holding s2).
Proof.
  intros. exists [[OSpawn 1; OTrySpin 0; OYield]; [OTrySpin 0; OYield]], [0; 0; 1].
  destruct c; vm_compute; do 4 eexists; exists 0; (split; [reflexivity|split; [reflexivity|split; left; reflexivity]]).
Qed.

(* pre-repair Thread_Mark (a collection walks the TLS tables of other running threads and writes into
   them): after thread 1's collection thread 2 no longer finds the binding it has just stored *)
Lemma isolation_refuted_foreign_walk : forall c b,
  exists ps sched t,
    match nth_error (thr (run c b false true sched (ginit ps))) t, nth_error ps t with
    | Some (l, s), Some p => length (tls l) =? length (tls (alone c (hist s) (linit t p))) = false
    | _, _ => False
    end.
Proof.
  intros. exists [[OSpawn 1; OSpawn 2]; [OCollect]; [OTlsSet 1 5; OTlsGet 1]], [0; 0; 2; 1], 2.
  destruct c, b; vm_compute; reflexivity.
Qed.

(* ------------------------------------------------------------------ tie to the source (Generated.v) *)
(* the mutable file-scope statics of Thread.c / Exception.c / GC.c are exactly the audited ones:
   the TLS key and its created-flag (written before any Thread exists: the main macro's new_raw(GC)
   calls current(Thread)), and the main thread's Thread/Exception singletons (written by the main
   thread only).  No per-thread datum lives in a static. *)
Import String.
Definition audited_statics : list String.string :=
  ["Thread.Thread_TLS_Key_Created"; "Thread.Thread_Key_Wrapper"; "Thread.Thread_Main"; "Thread.Exception_Main"]%string.

Lemma statics_audited : thr_statics = audited_statics.
Proof. reflexivity. Qed.

Lemma source_shapes :
  thr_exc_via_tls = true /\ thr_gc_via_tls = true /\ thr_current_via_key = true /\
  thr_init_own_records = true /\ thr_join_waits = true /\ thr_with_is_lock_unlock = true /\
  thr_trylock_busy_result = false /\ thr_mark_own_tls_only = true /\ thr_lock_blocking = true.
Proof. repeat split; reflexivity. Qed.
