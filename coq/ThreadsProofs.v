(* ThreadsProofs.v — proofs about the interleaving machine of Threads.v (property C13).
   Stdlib + lia only.  c = clear_on_catch, b = busy_result; the positive theorems are about the
   machine with shared_exc = false (exception record found through the thread's own TLS). *)
From Coq Require Import List Arith Bool Lia.
From Coq Require String.
From CelloV Require Import Generated Threads.
Import ListNotations.

(* ------------------------------------------------------------------ list updates *)
Lemma nth_error_upd_eq : forall A (l : list A) i x, i < length l -> nth_error (upd l i x) i = Some x.
Proof. induction l; destruct i; simpl; intros; try lia; auto. apply IHl; lia. Qed.

Lemma nth_error_upd_ne : forall A (l : list A) i j x, i <> j -> nth_error (upd l i x) j = nth_error l j.
Proof. induction l; destruct i, j; simpl; intros; try congruence; auto. Qed.

Lemma length_upd : forall A (l : list A) i x, length (upd l i x) = length l.
Proof. induction l; destruct i; simpl; intros; auto. Qed.

Lemma map_upd : forall A B (f : A -> B) l i x, map f (upd l i x) = upd (map f l) i (f x).
Proof. induction l; destruct i; simpl; intros; auto. f_equal; auto. Qed.

Lemma upd_same : forall A (l : list A) i x, nth_error l i = Some x -> upd l i x = l.
Proof. induction l; destruct i; simpl; intros; try congruence. f_equal; auto. Qed.

Lemma upd_upd : forall A (l : list A) i x y, upd (upd l i x) i y = upd l i y.
Proof. induction l; destruct i; simpl; intros; auto. f_equal; auto. Qed.

Lemma nth_error_map_some : forall A B (f : A -> B) l i y,
  nth_error (map f l) i = Some y -> exists x, nth_error l i = Some x /\ y = f x.
Proof.
  intros. rewrite nth_error_map in H. destruct (nth_error l i); simpl in H; try discriminate.
  inversion H. eauto.
Qed.

(* ------------------------------------------------------------------ thread-local step *)
Section Local.
Variable c : bool.

Lemma lstep_done : forall l, done l = true -> lstep c l = l.
Proof. intros. unfold lstep. rewrite H. reflexivity. Qed.

Lemma lstep_fatal : forall l, fatal l = true -> lstep c l = l.
Proof. intros. unfold lstep. rewrite H. rewrite orb_true_r. reflexivity. Qed.

Lemma alone_S : forall n l, alone c (S n) l = lstep c (alone c n l).
Proof. reflexivity. Qed.

Lemma alone_done : forall n l, done l = true -> alone c n l = l.
Proof. induction n; intros; auto. rewrite alone_S, IHn; auto using lstep_done. Qed.

Lemma alone_add : forall n m l, alone c (n + m) l = alone c n (alone c m l).
Proof. induction n; intros; auto. simpl plus. rewrite !alone_S, IHn. reflexivity. Qed.

Lemma alone_final : forall n m l, done (alone c n l) = true -> n <= m -> alone c m l = alone c n l.
Proof.
  intros. replace m with ((m - n) + n) by lia. rewrite alone_add. apply alone_done; auto.
Qed.

Lemma do_throw_me : forall l e k, me (do_throw c l e k) = me l.
Proof.
  intros. unfold do_throw. destruct (1 <=? depth (exc l)); [destruct (land e (depth (exc l)) k) as [[? ?]|]|]; reflexivity.
Qed.

Lemma lstep_me : forall l, me (lstep c l) = me l.
Proof.
  intros. unfold lstep. destruct (done l || fatal l); auto.
  destruct (code l) as [|[o| | |] k]; auto.
  - destruct o; simpl; auto using do_throw_me;
      repeat match goal with |- context[match ?x with _ => _ end] => destruct x end; simpl; auto using do_throw_me.
  - repeat match goal with |- context[match ?x with _ => _ end] => destruct x end; simpl; auto using do_throw_me.
    rewrite do_throw_me. reflexivity.
Qed.

Lemma alone_me : forall n l, me (alone c n l) = me l.
Proof. induction n; intros; auto. rewrite alone_S, lstep_me. auto. Qed.

End Local.

(* ------------------------------------------------------------------ shape of a machine step *)
Section Machine.
Variables c b : bool.
Notation G := (gstep c b false).
Notation R := (run c b false).

(* what an executed instruction of thread t does besides advancing t's own core:
   g1 = the state with the mutex table / a counter / ANOTHER thread's started-joined flag changed,
   s1 = t's new synchronisation side *)
Inductive pre (t : tid) (g : gstate) (l : lstate) (s : sstate) : gstate -> sstate -> Prop :=
| pre_local : pre t g l s g s
| pre_acquire : forall m, mtx g m = None ->
    pre t g l s (set_mtx g m (Some t)) (set_holding s (m :: holding s))
| pre_busy : forall m o, mtx g m = Some o -> b = true ->
    pre t g l s g (set_holding s (m :: holding s))
| pre_release : forall m, mtx g m = Some t ->
    pre t g l s (set_mtx g m None) (set_holding s (rem_mid m (holding s)))
| pre_load : forall m k, code l = KOp (OIncr m) :: k ->
    pre t g l s g (set_tmp s (cells g m))
| pre_store : forall m k, code l = KStore m :: k ->
    pre t g l s (set_cell g m (S (tmp s))) s
| pre_spawn : forall u lu su, nth_error (thr g) u = Some (lu, su) -> started su = false ->
    pre t g l s (set_thr g u (lu, set_started su)) s
| pre_join : forall u lu su k, code l = KOp (OJoin u) :: k ->
    nth_error (thr g) u = Some (lu, su) -> started su = true -> done lu = true -> joined su = false ->
    pre t g l s (set_thr g u (lu, set_joined su)) s
| pre_peek : forall u lu su k, code l = KOp (OPeek u) :: k -> nth_error (thr g) u = Some (lu, su) ->
    pre t g l s g (add_seen s (u, out lu)).

Inductive shape (t : tid) (g : gstate) : gstate -> Prop :=
| sh_same : shape t g g
| sh_ub : forall l s, nth_error (thr g) t = Some (l, s) -> shape t g (set_thr g t (l, set_ub s))
| sh_adv : forall l s g1 s1,
    nth_error (thr g) t = Some (l, s) ->
    aborted g = false -> started s = true -> done l = false -> fatal l = false -> ub s = false ->
    pre t g l s g1 s1 ->
    shape t g (advance c false g1 t l s1).

Lemma gstep_shape : forall t g, shape t g (G t g).
Proof.
  intros t g. unfold gstep.
  destruct (aborted g) eqn:Hab; [constructor|].
  destruct (nth_error (thr g) t) as [[l s]|] eqn:Ht; [|constructor].
  destruct (negb (started s) || done l || fatal l || ub s) eqn:Hrun; [constructor|].
  apply orb_false_elim in Hrun. destruct Hrun as [Hrun Hub].
  apply orb_false_elim in Hrun. destruct Hrun as [Hrun Hfa].
  apply orb_false_elim in Hrun. destruct Hrun as [Hst Hdo].
  apply negb_false_iff in Hst.
  assert (ADV : forall g1 s1, pre t g l s g1 s1 -> shape t g (advance c false g1 t l s1))
    by (intros; eapply sh_adv; eauto).
  assert (UB : shape t g (set_thr g t (l, set_ub s))) by (apply sh_ub; auto).
  destruct (code l) as [|[o| | |] k] eqn:Hc.
  - apply ADV; constructor.
  - destruct o; try (apply ADV; constructor; fail).
    + (* lock *) unfold acquire. destruct (mtx g m) eqn:Hm; simpl; [constructor|]. apply ADV. constructor; auto.
    + (* unlock *) unfold release. destruct (mtx g m) as [ow|] eqn:Hm; auto.
      destruct (ow =? t) eqn:E; auto. apply Nat.eqb_eq in E; subst ow. apply ADV. constructor; auto.
    + (* tryspin *) unfold acquire. destruct (mtx g m) eqn:Hm.
      * simpl. destruct b eqn:Hb; [|constructor]. apply ADV. eapply pre_busy; eauto.
      * apply ADV. constructor; auto.
    + (* with *) unfold acquire. destruct (mtx g m) eqn:Hm; simpl; [constructor|]. apply ADV. constructor; auto.
    + (* incr *) apply ADV. eapply pre_load; eauto.
    + (* spawn *) destruct (nth_error (thr g) t0) as [[lu su]|] eqn:Hu; auto.
      destruct (started su) eqn:Hs; auto. apply ADV. eapply pre_spawn; eauto.
    + (* join *) destruct (nth_error (thr g) t0) as [[lu su]|] eqn:Hu; auto.
      destruct (started su) eqn:Hs; simpl; [|apply ADV; constructor].
      destruct (done lu) eqn:Hd; simpl; [|constructor].
      destruct (joined su) eqn:Hj; auto. apply ADV. eapply pre_join; eauto.
    + (* peek *) destruct (nth_error (thr g) t0) as [[lu su]|] eqn:Hu; auto.
      apply ADV. eapply pre_peek; eauto.
  - apply ADV; constructor.
  - unfold release. destruct (mtx g m) as [ow|] eqn:Hm; auto.
    destruct (ow =? t) eqn:E; auto. apply Nat.eqb_eq in E; subst ow. apply ADV. constructor; auto.
  - apply ADV. eapply pre_store; eauto.
Qed.

End Machine.
