(* Extraction of the C19 model (Header.v) for the correspondence driver.  ExtrOcamlBasic only. *)
From Coq Require Import List Arith Bool NArith ZArith Extraction ExtrOcamlBasic.
From CelloV Require Import Generated Header.

Definition h_produce (ngc : bool) := m_produce (cfg_src ngc).
Definition h_run (ngc : bool) := m_run (cfg_src ngc).
Definition h_valid := valid.
Definition h_type_of := m_type_of.
Definition h_spec_type := spec_type.
Definition h_spec_class := spec_class.
Definition h_code_of := code_of.
Definition h_demand := spec_demand.
Definition h_f7 (ngc : bool) := f7_cell (cfg_src ngc).
Definition h_matched (ngc : bool) := matched_total (cfg_src ngc).
Definition h_rules_ok := hdr_rules_ok.
Definition h_zn : Z -> N := Z.to_N.     (* brings positive / Z / N into the module for conv.ml.inc *)

Extraction Language OCaml.
Extraction "../ocaml/gen/Header.ml" h_produce h_run h_valid h_type_of h_spec_type h_spec_class h_code_of h_demand h_f7 h_matched h_rules_ok h_zn is_obj_ev is_free_obj is_buf_ev.
