(* Properties_C06_glue.v — the abstract registry of the life-cycle machine (C06) is a sound abstraction of
   the concrete robin-hood registry of C17 (statements only; proofs in coq/LifecycleGlue.v).
   Re-checked by props/C06.py on every run in which C17's model (coq/RegistryModel.v, parameterised by
   what tools/genx_gcreg.py reads off src/GC.c) can be regenerated from the working tree. *)
From CelloV Require Import Generated Lifecycle LifecycleProofs LifecycleGlue.
From Coq Require Import List.
Import ListNotations.

(* ---------------------------------------------------------------------------------------------
   The abstract registry of the life-cycle machine is a sound abstraction of the concrete robin-hood
   registry of property C17 (coq/RegistryModel.v; RM, RP = RegistryModel, RegistryProofs).
   Vocabulary (coq/LifecycleGlue.v): abs_reg / abs_pend = a C17 state seen as registry list (slot
   order, root flags) and pending list; Rel d g s = the C17 state g and the life-cycle state s show
   the same registered set with the same root flags, the same pending list entry by entry, the same
   running flag and mitems, the same number of destructor calls per address, the same ownership;
   Tab / TabM = table part of C17's invariant; c_order g / c_marks g = the order in which C17's
   compaction loop hands entries to the pending list / its mark bits; crun = both machines driven by
   one history of C17 operations; boxlike d = a destructor deletes at most one object and allocates
   nothing; gadm_run = addresses are not reused. *)

(* GC_Sweep on the concrete table (compaction loop with wrap-around, GC_Resize_Less, finaliser loop
   with destructor-issued removals) IS the sweep of the life-cycle machine for order := c_order g,
   marks := c_marks g — so everything proved for all orders and marks holds for the table's *)
Theorem lifecycle_glue_sweep : forall hashf d, boxlike d -> forall A g s g',
  TabM hashf g -> RM.pending g = [] -> Rel d g s -> GInv A s ->
  RP.Gsweep hashf d true true g = Some g' ->
  Tab hashf g' /\ Rel d g' (sweep c17_rule true (fin_top c17_rule true true true nopro) (c_order g) (c_marks g) s) /\
  RM.pending g' = [] /\ Mono g g'.
Proof. exact glue_sweep_thm. Qed.
Print Assumptions lifecycle_glue_sweep.

(* GC_Rem on the concrete table — del, del_root, and the del a destructor issues while a sweep is in
   progress (g may have a non-empty pending list) — is GC_Rem of the life-cycle machine *)
Theorem lifecycle_glue_rem : forall hashf d, boxlike d -> forall f A g s p g',
  Tab hashf g -> Rel d g s -> GInv A s ->
  RP.Grem hashf d true f g p = Some g' ->
  Tab hashf g' /\ Rel d g' (gc_rem c17_rule true (fin_top c17_rule true true true nopro) s (idn p)) /\ Mono g g'.
Proof. exact glue_rem_thm. Qed.
Print Assumptions lifecycle_glue_rem.

(* every admissible history of C17 operations (alloc/alloc_root with threshold collections, del,
   del_raw, collections, sweeps, stop/start) without address reuse: the concrete registry and the
   life-cycle machine stay related *)
Theorem lifecycle_glue_history : forall hashf d, boxlike d -> RP.dtors_ok d -> forall ops,
  RP.Gadm hashf d true true ops RM.gc_init -> gadm_run hashf d ops RM.gc_init ->
  let gs := crun hashf d ops RM.gc_init (cinit d) in
  fst gs = RP.Grun hashf d true true ops RM.gc_init /\ GL hashf d (fst gs) (snd gs).
Proof. exact glue_history_thm. Qed.
Print Assumptions lifecycle_glue_history.

(* C06 on the run whose registry IS the concrete robin-hood table, read off C17's own event log:
   no address finalised twice; teardown finalises every registered non-root address exactly once;
   del of a registered address finalises it exactly once.  `_partial`: destructors that allocate
   (C17's d_spawns) and re-used addresses are not covered — see coq/LifecycleGlue.v, section 7. *)
Theorem lifecycle_over_concrete_registry_partial : forall hashf d, boxlike d -> RP.dtors_ok d -> forall ops,
  RP.Gadm hashf d true true ops RM.gc_init -> gadm_run hashf d ops RM.gc_init ->
  (forall p, cnt_fin p (RM.evs (RP.Grun hashf d true true ops RM.gc_init)) <= 1) /\
  (forall ops' p, ops = ops' ++ [RM.OSweep] ->
     RP.Regs (RM.slots (RP.Grun hashf d true true ops' RM.gc_init)) p false ->
     cnt_fin p (RM.evs (RP.Grun hashf d true true ops RM.gc_init)) = 1) /\
  (forall ops' p r, ops = ops' ++ [RM.ORem p] ->
     RM.running (RP.Grun hashf d true true ops' RM.gc_init) = true ->
     RP.Regs (RM.slots (RP.Grun hashf d true true ops' RM.gc_init)) p r ->
     cnt_fin p (RM.evs (RP.Grun hashf d true true ops RM.gc_init)) = 1).
Proof. exact over_concrete_registry_partial. Qed.
Print Assumptions lifecycle_over_concrete_registry_partial.

(* non-vacuity: a Box and the object it owns reclaimed by the same sweep of a table with colliding
   addresses, a root, an explicit del, teardown *)
Example lifecycle_glue_inhabited :
  boxlike gx_d /\ RP.dtors_ok gx_d /\
  RP.Gadm gx_hash gx_d true true gx_ops RM.gc_init /\ gadm_run gx_hash gx_d gx_ops RM.gc_init /\
  cnt_fin gx_owned (RM.evs (RP.Grun gx_hash gx_d true true gx_ops RM.gc_init)) = 1.
Proof.
  exact (conj gx_boxlike (conj gx_dok (conj (proj1 gx_admissible) (conj (proj2 gx_admissible) gx_owned_once)))).
Qed.
