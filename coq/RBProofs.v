(* RBProofs.v — proofs about the Tree model (RBTree.v): contents and order. *)
From Coq Require Import List Arith Bool ZArith Lia.
From CelloV Require Import RBTree.
Import ListNotations.

Section Contents.
  Variables K V : Type.
  Notation tree := (tree K V).
  Notation path := (path K V).

  Lemma lookup_empty (cmp : K -> K -> comparison) : forall k, lookup K V cmp E k = None.
  Proof. reflexivity. Qed.
End Contents.
