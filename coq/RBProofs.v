(* RBProofs.v — proofs about the Tree model (RBTree.v), part 1: CONTENTS AND ORDER.
   Every rotation / recolouring / fix-up step leaves the in-order list unchanged (list
   equations); search-tree order is `sorted (inorder t)`; set / rem / lookup on a sorted tree
   are a_set / a_rem / a_get on its in-order list.  Nothing here depends on colours. *)
From Coq Require Import List Arith Bool ZArith Lia Sorted.
From CelloV Require Import RBTree.
Import ListNotations.

Section Contents.
  Variables K V : Type.
  Variable cmp : K -> K -> comparison.
  Variable use_succ : bool -> bool -> bool.
  Hypothesis cmp_eq : forall a b, cmp a b = Eq -> a = b.
  Hypothesis cmp_refl : forall a, cmp a a = Eq.
  Hypothesis cmp_anti : forall a b, cmp a b = CompOpp (cmp b a).
  Hypothesis cmp_trans : forall a b c, cmp a b = Lt -> cmp b c = Lt -> cmp a c = Lt.

  Notation tree := (tree K V).
  Notation path := (path K V).
  Notation frame := (frame K V).
  Notation inorder := (inorder K V).
  Notation plug := (plug K V).
  Notation fill := (fill K V).
  Notation kv := (K * V)%type.

  (* what lies before / after the hole of a path, in in-order *)
  Fixpoint pl (p : path) : list kv :=
    match p with
    | [] => []
    | F _ _ DL _ _ _ _ :: p' => pl p'
    | F _ _ DR _ k v s :: p' => pl p' ++ inorder s ++ [(k, v)]
    end.
  Fixpoint pr (p : path) : list kv :=
    match p with
    | [] => []
    | F _ _ DL _ k v s :: p' => (k, v) :: inorder s ++ pr p'
    | F _ _ DR _ _ _ _ :: p' => pr p'
    end.

  Lemma inorder_plug : forall p t, inorder (plug t p) = pl p ++ inorder t ++ pr p.
  Proof.
    induction p as [|[d c k v s] p IH]; intros t; simpl.
    - now rewrite app_nil_r.
    - rewrite IH. destruct d; simpl; repeat (rewrite <- app_assoc; simpl); reflexivity.
  Qed.

  Lemma inorder_blacken : forall t, inorder (blacken K V t) = inorder t.
  Proof. destruct t; reflexivity. Qed.

  Ltac lists := repeat (rewrite inorder_plug || rewrite inorder_blacken || rewrite app_nil_r || simpl || rewrite <- app_assoc); try reflexivity.

  (* ------------------------------------------------------------ Tree_Set_Fix keeps the in-order list *)
  Lemma set_fix_inorder_n : forall n p, length p <= n -> forall t r,
    set_fix K V t p = Ok r -> inorder r = inorder (plug t p).
  Proof.
    induction n as [|n IH]; intros p Hl t r H.
    - destruct p; [|simpl in Hl; lia]. simpl in H. inversion H. lists.
    - destruct p as [|[d [] pk pv s] p1].
      + simpl in H. inversion H. lists.
      + destruct p1 as [|[d2 gc gk gv u] p2]; [discriminate H|].
        cbn [set_fix] in H. destruct (is_red K V u).
        * apply IH in H; [|simpl in Hl |- *; lia]. rewrite H.
          destruct d, d2; lists.
        * destruct t as [|tc tl tk tv tr]; [discriminate H|].
          destruct d2, d; inversion H; lists.
      + simpl in H. inversion H. reflexivity.
  Qed.

  Lemma set_fix_inorder : forall p t r, set_fix K V t p = Ok r -> inorder r = pl p ++ inorder t ++ pr p.
  Proof. intros. rewrite <- inorder_plug. eapply set_fix_inorder_n; eauto. Qed.

  (* ------------------------------------------------------------ Tree_Rem_Fix keeps the in-order list *)
  Lemma rem_finish_inorder : forall t d pc pk pv s r,
    rem_finish K V t d pc pk pv s = Ok r -> inorder r = inorder (fill (F K V d pc pk pv s) t).
  Proof.
    intros t d pc pk pv s r H. unfold rem_finish in H.
    destruct s as [|sc sl sk sv sr]; [discriminate|].
    destruct (negb (cblack pc) && cblack sc && is_black K V sl && is_black K V sr).
    { inversion H. destruct d; lists. }
    destruct sc, d;
      repeat match type of H with
             | context [if ?b then _ else _] => destruct b
             | context [match ?x with E => _ | T _ _ _ _ _ => _ end] => is_var x; destruct x
             end; try discriminate; inversion H; lists.
  Qed.

  Lemma rem_fix_inorder : forall p t r, rem_fix K V t p = Ok r -> inorder r = pl p ++ inorder t ++ pr p.
  Proof.
    induction p as [|[d pc pk pv s] p IH]; intros t r H.
    - simpl in H. inversion H. lists.
    - cbn [rem_fix] in H. destruct s as [|[] sl sk sv sr]; [discriminate| |].
      + destruct d.
        * destruct (rem_finish K V t DL Red pk pv sl) eqn:Hf; try discriminate.
          apply rem_finish_inorder in Hf. simpl in H. inversion H. lists. rewrite Hf. lists.
        * destruct (rem_finish K V t DR Red pk pv sr) eqn:Hf; try discriminate.
          apply rem_finish_inorder in Hf. simpl in H. inversion H. lists. rewrite Hf. lists.
      + destruct (cblack pc && is_black K V sl && is_black K V sr).
        * apply IH in H. rewrite H. destruct d; lists.
        * destruct (rem_finish K V t d pc pk pv (T Black sl sk sv sr)) eqn:Hf; try discriminate.
          apply rem_finish_inorder in Hf. simpl in H. inversion H. lists. rewrite Hf. destruct d; lists.
  Qed.

  (* ------------------------------------------------------------ Tree_Rem_Fix treats `node` as opaque.
     The C code runs Tree_Rem_Fix(node) while the node is still in the tree and splices the child in
     afterwards (Tree_Replace); the model puts the child into the focus first.  Both agree because the
     repair only rebuilds the CONTEXT of the focus: for every path there is a path q, computed without
     looking at the focus, such that the result is the focus plugged into q — or the repair crashes for
     every focus. *)
  Lemma plug_app : forall p q t, plug t (p ++ q) = plug (plug t p) q.
  Proof. induction p as [|f p IH]; intros q t; simpl; auto. Qed.

  Lemma rem_finish_opaque : forall d pc pk pv s,
    (exists fs, forall t, rem_finish K V t d pc pk pv s = Ok (plug t fs)) \/
    (forall t, rem_finish K V t d pc pk pv s = Crash).
  Proof.
    intros d pc pk pv s. unfold rem_finish.
    destruct s as [|sc sl sk sv sr]; [right; reflexivity|].
    destruct (negb (cblack pc) && cblack sc && is_black K V sl && is_black K V sr).
    { left. exists [F K V d Black pk pv (T Red sl sk sv sr)]. intros t. destruct d; reflexivity. }
    destruct sc, d;
      repeat match goal with
             | |- context [if ?b then _ else _] => destruct b
             | |- context [match ?x with E => _ | T _ _ _ _ _ => _ end] => is_var x; destruct x
             end;
      try (right; reflexivity);
      match goal with
      | |- (exists fs, forall t, Ok (T ?c (T Black t ?k ?v ?a) ?k2 ?v2 ?b) = _) \/ _ =>
          left; exists [F K V DL Black k v a; F K V DL c k2 v2 b]; reflexivity
      | |- (exists fs, forall t, Ok (T ?c ?a ?k2 ?v2 (T Black ?b ?k ?v t)) = _) \/ _ =>
          left; exists [F K V DR Black k v b; F K V DR c k2 v2 a]; reflexivity
      end.
  Qed.

  Lemma rem_fix_opaque : forall p,
    (exists q, forall t, rem_fix K V t p = Ok (plug t q)) \/ (forall t, rem_fix K V t p = Crash).
  Proof.
    induction p as [|[d pc pk pv s] p IH].
    - left. exists []. reflexivity.
    - cbn [rem_fix]. destruct s as [|[] sl sk sv sr]; [right; reflexivity| |].
      + destruct d.
        * destruct (rem_finish_opaque DL Red pk pv sl) as [(fs & Hf)|Hf].
          -- left. exists (fs ++ F K V DL Black sk sv sr :: p). intros t. rewrite Hf. simpl.
             now rewrite plug_app.
          -- right. intros t. now rewrite Hf.
        * destruct (rem_finish_opaque DR Red pk pv sr) as [(fs & Hf)|Hf].
          -- left. exists (fs ++ F K V DR Black sk sv sl :: p). intros t. rewrite Hf. simpl.
             now rewrite plug_app.
          -- right. intros t. now rewrite Hf.
      + destruct (cblack pc && is_black K V sl && is_black K V sr).
        * destruct IH as [(q & Hq)|Hq].
          -- left. exists (F K V d Black pk pv (T Red sl sk sv sr) :: q). intros t. now rewrite Hq.
          -- right. intros t. now rewrite Hq.
        * destruct (rem_finish_opaque d pc pk pv (T Black sl sk sv sr)) as [(fs & Hf)|Hf].
          -- left. exists (fs ++ p). intros t. rewrite Hf. simpl. now rewrite plug_app.
          -- right. intros t. now rewrite Hf.
  Qed.

  (* ------------------------------------------------------------ Tree_Maximum *)
  Lemma max_node_spec : forall t q, t <> E ->
    exists c l k v q', max_node K V t q = (T c l k v E, q') /\ max_kv K V t = Some (k, v) /\
                       pl q' ++ inorder l ++ [(k, v)] = pl q ++ inorder t /\ pr q' = pr q.
  Proof.
    induction t as [|c l IHl k v r IHr]; intros q Hne; [congruence|].
    destruct r as [|rc rl rk rv rr].
    - exists c, l, k, v, q. simpl. repeat split; reflexivity.
    - destruct (IHr (F K V DR c k v l :: q)) as (c' & l' & k' & v' & q' & H1 & H2 & H3 & H4); [congruence|].
      exists c', l', k', v', q'.
      change (max_node K V (T c l k v (T rc rl rk rv rr)) q) with (max_node K V (T rc rl rk rv rr) (F K V DR c k v l :: q)).
      change (max_kv K V (T c l k v (T rc rl rk rv rr))) with (max_kv K V (T rc rl rk rv rr)).
      rewrite H1, H2. repeat split; auto.
      rewrite H3. lists.
  Qed.

  (* ------------------------------------------------------------ Tree_Rem after the search *)
  Lemma rem_splice_inorder : forall nc chld p1 r,
    rem_splice K V nc chld p1 = Ok r -> inorder r = pl p1 ++ inorder chld ++ pr p1.
  Proof.
    intros nc chld p1 r H. unfold rem_splice in H.
    assert (G : forall r0, match nc with Black => rem_fix K V chld p1 | Red => Ok (plug chld p1) end = Ok r0 ->
                           inorder r0 = pl p1 ++ inorder chld ++ pr p1).
    { intros r0 H0. destruct nc; [inversion H0; lists | now apply rem_fix_inorder]. }
    destruct p1.
    - destruct (match nc with Black => _ | Red => _ end); try discriminate.
      simpl in H. inversion H. rewrite inorder_blacken. now apply G.
    - now apply G.
  Qed.

  Lemma rem_node_inorder : forall nc nl nk nv nr p1 r,
    rem_node K V (T nc nl nk nv nr) p1 = Ok r -> (nl = E \/ nr = E) ->
    inorder r = pl p1 ++ inorder nl ++ inorder nr ++ pr p1.
  Proof.
    intros nc nl nk nv nr p1 r H Hc. simpl in H. apply rem_splice_inorder in H. rewrite H.
    destruct Hc as [-> | ->]; [destruct nr|]; lists.
  Qed.

  Lemma min_node_spec : forall t q, t <> E ->
    exists c k v r q', min_node K V t q = (T c E k v r, q') /\ min_kv K V t = Some (k, v) /\
                       (k, v) :: inorder r ++ pr q' = inorder t ++ pr q /\ pl q' = pl q.
  Proof.
    induction t as [|c l IHl k v r IHr]; intros q Hne; [congruence|].
    destruct l as [|lc ll lk lv lr].
    - exists c, k, v, r, q. simpl. repeat split; reflexivity.
    - destruct (IHl (F K V DL c k v r :: q)) as (c' & k' & v' & r' & q' & H1 & H2 & H3 & H4); [congruence|].
      exists c', k', v', r', q'.
      change (min_node K V (T c (T lc ll lk lv lr) k v r) q) with (min_node K V (T lc ll lk lv lr) (F K V DL c k v r :: q)).
      change (min_kv K V (T c (T lc ll lk lv lr) k v r)) with (min_kv K V (T lc ll lk lv lr)).
      rewrite H1, H2. repeat split; auto.
      rewrite H3. lists.
  Qed.

  Lemma rem_pred_inorder : forall xc xl xr p r, xl <> E ->
    rem_pred K V xc xl xr p = Ok r -> inorder r = pl p ++ inorder xl ++ inorder xr ++ pr p.
  Proof.
    intros xc xl xr p r Hne H. unfold rem_pred in H.
    destruct (max_node_spec xl [] Hne) as (c' & l' & k' & v' & q' & _ & H2 & _ & _).
    rewrite H2 in H.
    destruct (max_node_spec xl (F K V DL xc k' v' xr :: p) Hne)
      as (c2 & l2 & k2 & v2 & q2 & G1 & G2 & G3 & G4).
    rewrite H2 in G2. inversion G2; subst k2 v2.
    rewrite G1 in H. apply rem_node_inorder in H; auto. rewrite H.
    rewrite G4. cbn [pl pr] in *.
    transitivity ((pl q2 ++ inorder l2 ++ [(k', v')]) ++ inorder xr ++ pr p).
    { repeat (rewrite <- app_assoc; simpl). reflexivity. }
    rewrite G3. repeat (rewrite <- app_assoc; simpl). reflexivity.
  Qed.

  Lemma rem_succ_inorder : forall xc xl xr p r, xr <> E ->
    rem_succ K V xc xl xr p = Ok r -> inorder r = pl p ++ inorder xl ++ inorder xr ++ pr p.
  Proof.
    intros xc xl xr p r Hne H. unfold rem_succ in H.
    destruct (min_node_spec xr [] Hne) as (c' & k' & v' & r' & q' & _ & H2 & _ & _).
    rewrite H2 in H.
    destruct (min_node_spec xr (F K V DR xc k' v' xl :: p) Hne)
      as (c2 & k2 & v2 & r2 & q2 & G1 & G2 & G3 & G4).
    rewrite H2 in G2. inversion G2; subst k2 v2.
    rewrite G1 in H. apply rem_node_inorder in H; auto. rewrite H.
    rewrite G4. cbn [pl pr] in *. simpl (inorder E ++ _).
    repeat (rewrite <- app_assoc; simpl).
    change ((k', v') :: inorder r2 ++ pr q2) with (((k', v') :: inorder r2 ++ pr q2)).
    rewrite G3. reflexivity.
  Qed.

  Lemma rem_at_inorder : forall xc xl xk xv xr p r,
    rem_at K V use_succ (T xc xl xk xv xr) p = Ok r -> inorder r = pl p ++ inorder xl ++ inorder xr ++ pr p.
  Proof.
    intros xc xl xk xv xr p r H. unfold rem_at in H.
    destruct xl as [|lc ll lk lv lr].
    - apply rem_node_inorder in H; auto.
    - destruct xr as [|rc rl rk rv rr].
      + apply rem_node_inorder in H; auto.
      + destruct (donor_is_succ K V use_succ _ _).
        * apply rem_succ_inorder in H; auto; congruence.
        * apply rem_pred_inorder in H; auto; congruence.
  Qed.

  (* ------------------------------------------------------------ order *)
  Definition gtk (a b : kv) := cmp (fst a) (fst b) = Gt.
  Definition sorted (l : list kv) := StronglySorted gtk l.       (* strictly DESCENDING keys *)
  Definition all_gt (k : K) (l : list kv) := Forall (fun e => cmp (fst e) k = Gt) l.
  Definition all_lt (k : K) (l : list kv) := Forall (fun e => cmp (fst e) k = Lt) l.

  Notation a_get := (a_get K V cmp).
  Notation a_set := (a_set K V cmp).
  Notation a_rem := (a_rem K V cmp).
  Notation a_set_all := (a_set_all K V cmp).

  Lemma cmp_gt_lt : forall a b, cmp a b = Gt <-> cmp b a = Lt.
  Proof. intros a b. rewrite (cmp_anti a b). destruct (cmp b a); simpl; split; congruence. Qed.

  Lemma sorted_app : forall A B,
    sorted (A ++ B) <-> (sorted A /\ sorted B /\ Forall (fun a => Forall (gtk a) B) A).
  Proof.
    unfold sorted. induction A as [|a A IH]; intros B; simpl.
    - split; [intros H; repeat split; auto; constructor | tauto].
    - split.
      + intros H. inversion H as [|? ? H1 H2]; subst. apply IH in H1 as (HA & HB & HAB).
        apply Forall_app in H2 as [H2a H2b].
        repeat split; auto; constructor; auto.
      + intros (HA & HB & HAB). inversion HA; subst. inversion HAB; subst.
        constructor. apply IH; auto. apply Forall_app; auto.
  Qed.

  Lemma sorted_mid : forall A k v B, sorted (A ++ (k, v) :: B) -> all_gt k A /\ all_lt k B.
  Proof.
    intros A k v B H. apply sorted_app in H as (_ & HB & HAB). split.
    - eapply Forall_impl; [|exact HAB]. intros a Ha. inversion Ha; subst. assumption.
    - inversion HB; subst. eapply Forall_impl; [|eassumption]. intros b Hb.
      apply cmp_gt_lt. exact Hb.
  Qed.

  Lemma gt_ne : forall k l, all_gt k l -> Forall (fun e => cmp (fst e) k <> Eq) l.
  Proof. intros k l H. eapply Forall_impl; [|exact H]. simpl. intros a Ha. congruence. Qed.
  Lemma lt_ne : forall k l, all_lt k l -> Forall (fun e => cmp (fst e) k <> Eq) l.
  Proof. intros k l H. eapply Forall_impl; [|exact H]. simpl. intros a Ha. congruence. Qed.

  Lemma a_get_app_ne : forall A M k, Forall (fun e => cmp (fst e) k <> Eq) A -> a_get (A ++ M) k = a_get M k.
  Proof.
    induction A as [|[k' v'] A IH]; intros M k H; simpl; auto.
    inversion H; subst. simpl in *. destruct (cmp k' k); try congruence; auto.
  Qed.
  Lemma a_rem_app_ne : forall A M k, Forall (fun e => cmp (fst e) k <> Eq) A -> a_rem (A ++ M) k = A ++ a_rem M k.
  Proof.
    induction A as [|[k' v'] A IH]; intros M k H; simpl; auto.
    inversion H; subst. simpl in *. destruct (cmp k' k); try congruence; rewrite IH; auto.
  Qed.
  Lemma a_set_app_gt : forall A M k v, all_gt k A -> a_set (A ++ M) k v = A ++ a_set M k v.
  Proof.
    induction A as [|[k' v'] A IH]; intros M k v H; simpl; auto.
    inversion H; subst. simpl in *. rewrite H2. rewrite IH; auto.
  Qed.
  Lemma a_get_lt : forall B k, all_lt k B -> a_get B k = None.
  Proof. intros B k H. rewrite <- (app_nil_r B). rewrite a_get_app_ne; auto using lt_ne. Qed.
  Lemma a_rem_lt : forall B k, all_lt k B -> a_rem B k = B.
  Proof. intros B k H. rewrite <- (app_nil_r B) at 1. rewrite a_rem_app_ne; auto using lt_ne. simpl. now rewrite !app_nil_r. Qed.
  Lemma a_set_lt : forall B k v, all_lt k B -> a_set B k v = (k, v) :: B.
  Proof. intros [|[k' v'] B] k v H; simpl; auto. inversion H; subst. simpl in *. now rewrite H2. Qed.

  Lemma Forall_a_set : forall (P : kv -> Prop) m k v, Forall P m -> P (k, v) -> Forall P (a_set m k v).
  Proof.
    induction m as [|[k' v'] m IH]; intros k v H Hk; simpl.
    - constructor; auto.
    - inversion H; subst. destruct (cmp k' k); constructor; auto.
  Qed.
  Lemma Forall_a_rem : forall (P : kv -> Prop) m k, Forall P m -> Forall P (a_rem m k).
  Proof.
    induction m as [|[k' v'] m IH]; intros k H; simpl; auto.
    inversion H; subst. destruct (cmp k' k); auto.
  Qed.

  Lemma sorted_a_set : forall m k v, sorted m -> sorted (a_set m k v).
  Proof.
    unfold sorted. induction m as [|[k' v'] m IH]; intros k v H; simpl.
    - constructor; constructor.
    - inversion H as [|? ? H1 H2]; subst. destruct (cmp k' k) eqn:Hc.
      + apply cmp_eq in Hc. subst k'. constructor; auto.
      + constructor; auto. constructor.
        * unfold gtk; simpl. now apply cmp_gt_lt.
        * eapply Forall_impl; [|exact H2]. unfold gtk; simpl. intros a Ha.
          apply cmp_gt_lt. apply cmp_gt_lt in Ha. eapply cmp_trans; eauto.
      + constructor; auto. apply Forall_a_set; auto.
  Qed.

  Lemma sorted_a_rem : forall m k, sorted m -> sorted (a_rem m k).
  Proof.
    unfold sorted. induction m as [|[k' v'] m IH]; intros k H; simpl; auto.
    inversion H as [|? ? H1 H2]; subst. destruct (cmp k' k); auto; constructor; auto using Forall_a_rem.
  Qed.

  Lemma a_set_all_sorted : forall m acc, sorted (acc ++ m) -> a_set_all acc m = acc ++ m.
  Proof.
    induction m as [|[k v] m IH]; intros acc H; simpl.
    - now rewrite app_nil_r.
    - assert (Hg : all_gt k acc) by (apply sorted_mid in H; tauto).
      rewrite <- (app_nil_r acc) at 1. rewrite a_set_app_gt by assumption. simpl.
      rewrite IH; rewrite <- app_assoc; simpl; auto.
  Qed.

  Lemma sorted_a_set_all : forall kvs m, sorted m -> sorted (a_set_all m kvs).
  Proof. induction kvs as [|[k v] r IH]; intros m H; simpl; auto using sorted_a_set. Qed.

  (* ------------------------------------------------------------ the descent *)
  Lemma lookup_descend : forall t k p,
    lookup K V cmp t k = match fst (descend K V cmp t k p) with T _ _ _ v _ => Some v | E => None end.
  Proof.
    induction t as [|c l IHl k' v r IHr]; intros k p; simpl; auto.
    destruct (cmp k' k); simpl; auto.
  Qed.

  Ltac norm := simpl; repeat (rewrite <- app_assoc; simpl).
  Ltac norm_in H := simpl in H; repeat (rewrite <- app_assoc in H; simpl in H).

  Lemma sorted_node : forall A l k v r B,
    sorted (A ++ (inorder l ++ (k, v) :: inorder r) ++ B) ->
    all_gt k A /\ all_gt k (inorder l) /\ all_lt k (inorder r) /\ all_lt k B.
  Proof.
    intros A l k v r B H. norm_in H. rewrite app_assoc in H. apply sorted_mid in H as [Hg Hl].
    apply Forall_app in Hg as [? ?]. apply Forall_app in Hl as [? ?]. auto.
  Qed.

  Lemma descend_spec : forall t k p x p',
    descend K V cmp t k p = (x, p') ->
    sorted (pl p ++ inorder t ++ pr p) -> all_gt k (pl p) -> all_lt k (pr p) ->
    pl p' ++ inorder x ++ pr p' = pl p ++ inorder t ++ pr p /\ all_gt k (pl p') /\ all_lt k (pr p') /\
    (x = E \/ exists c l v r, x = T c l k v r) /\ plug x p' = plug t p.
  Proof.
    induction t as [|c l IHl k' v r IHr]; intros k p x p' H Hs Hg Hl.
    - simpl in H. inversion H; subst. repeat split; auto.
    - simpl in H. assert (Hn := Hs). simpl in Hn. apply sorted_node in Hn as (Hgp & Hgl & Hlr & Hlp).
      destruct (cmp k' k) eqn:Hc.
      + apply cmp_eq in Hc. subst k'. inversion H; subst. repeat split; auto.
        right. now exists c, l, v, r.
      + (* node key smaller: go left; the node and its right subtree are below k *)
        apply IHl in H; clear IHl IHr.
        * destruct H as (H1 & H2 & H3 & H4 & H5). repeat split; auto.
          rewrite H1. norm. reflexivity.
        * norm. norm_in Hs. exact Hs.
        * exact Hg.
        * simpl. constructor; [exact Hc|]. apply Forall_app. split; [|exact Hl].
          eapply Forall_impl; [|exact Hlr]. simpl. intros a Ha. eapply cmp_trans; eauto.
      + (* node key larger: go right; the node and its left subtree are above k *)
        apply IHr in H; clear IHl IHr.
        * destruct H as (H1 & H2 & H3 & H4 & H5). repeat split; auto.
          rewrite H1. norm. reflexivity.
        * norm. norm_in Hs. exact Hs.
        * simpl. apply Forall_app. split; [exact Hg|]. apply Forall_app. split.
          -- eapply Forall_impl; [|exact Hgl]. simpl. intros a Ha.
             apply cmp_gt_lt. apply cmp_gt_lt in Ha. apply cmp_gt_lt in Hc. eapply cmp_trans; eauto.
          -- constructor; auto.
        * exact Hl.
  Qed.

  Lemma descend_root : forall t k x p',
    descend K V cmp t k [] = (x, p') -> sorted (inorder t) ->
    pl p' ++ inorder x ++ pr p' = inorder t /\ all_gt k (pl p') /\ all_lt k (pr p') /\
    (x = E \/ exists c l v r, x = T c l k v r) /\ plug x p' = t.
  Proof.
    intros t k x p' H Hs. apply descend_spec in H.
    - simpl in H. rewrite app_nil_r in H. exact H.
    - simpl. rewrite app_nil_r. exact Hs.
    - constructor.
    - constructor.
  Qed.

  (* ------------------------------------------------------------ lookup / set / rem against the specification *)
  Lemma lookup_spec : forall t k, sorted (inorder t) -> lookup K V cmp t k = a_get (inorder t) k.
  Proof.
    intros t k Hs. rewrite (lookup_descend t k []).
    destruct (descend K V cmp t k []) as [x p'] eqn:Hd. apply descend_root in Hd; auto.
    destruct Hd as (H1 & H2 & H3 & H4 & _). simpl. rewrite <- H1.
    rewrite a_get_app_ne by auto using gt_ne.
    destruct H4 as [-> | (c & l & v & r & ->)].
    - simpl. symmetry. now apply a_get_lt.
    - rewrite <- H1 in Hs. apply sorted_node in Hs as (_ & Hg & _ & _).
      simpl. rewrite <- app_assoc. rewrite a_get_app_ne by auto using gt_ne.
      simpl. now rewrite cmp_refl.
  Qed.

  Lemma set_root_spec : forall t k v r added,
    sorted (inorder t) -> set_root K V cmp t k v = Ok (r, added) ->
    inorder r = a_set (inorder t) k v /\
    length (inorder r) = (if added then S (length (inorder t)) else length (inorder t)).
  Proof.
    intros t k v r added Hs H. unfold set_root in H.
    destruct (descend K V cmp t k []) as [x p'] eqn:Hd. apply descend_root in Hd; auto.
    destruct Hd as (H1 & H2 & H3 & H4 & _). rewrite <- H1.
    rewrite a_set_app_gt by assumption.
    destruct H4 as [-> | (c & l & v0 & r0 & ->)].
    - destruct (set_fix K V (T Red E k v E) p') as [r1| |] eqn:Hf; try discriminate.
      simpl in H. inversion H; subst. apply set_fix_inorder in Hf. rewrite Hf. simpl.
      rewrite a_set_lt by assumption. split; auto.
      rewrite !app_length. simpl. lia.
    - inversion H; subst. rewrite inorder_plug. simpl.
      rewrite <- H1 in Hs. apply sorted_node in Hs as (_ & Hg & _ & _).
      rewrite <- !app_assoc. rewrite a_set_app_gt by assumption. simpl. rewrite cmp_refl.
      split; auto. rewrite !app_length. simpl. rewrite !app_length. simpl. lia.
  Qed.

  Lemma rem_spec : forall t k x p',
    sorted (inorder t) -> descend K V cmp t k [] = (x, p') ->
    match x with
    | E => a_get (inorder t) k = None
    | T _ _ _ _ _ =>
        a_get (inorder t) k <> None /\
        forall r, rem_at K V use_succ x p' = Ok r ->
                  inorder r = a_rem (inorder t) k /\ length (inorder r) = pred (length (inorder t))
    end.
  Proof.
    intros t k x p' Hs Hd. apply descend_root in Hd; auto.
    destruct Hd as (H1 & H2 & H3 & H4 & _). rewrite <- H1.
    rewrite a_get_app_ne by auto using gt_ne. rewrite a_rem_app_ne by auto using gt_ne.
    destruct H4 as [-> | (c & l & v0 & r0 & ->)].
    - simpl. now apply a_get_lt.
    - rewrite <- H1 in Hs. apply sorted_node in Hs as (_ & Hg & Hl & _).
      simpl. rewrite <- !app_assoc. rewrite a_get_app_ne by auto using gt_ne.
      rewrite a_rem_app_ne by auto using gt_ne. simpl. rewrite cmp_refl.
      split; [congruence|]. intros r Hr. apply (rem_at_inorder c l k v0 r0) in Hr. rewrite Hr.
      rewrite a_rem_lt.
      + split; auto. rewrite !app_length. simpl. rewrite !app_length. simpl. lia.
      + apply Forall_app; auto.
  Qed.
End Contents.
