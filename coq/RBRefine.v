(* RBRefine.v — proofs about the Tree model (RBTree.v), part 4: the Tree object against the
   ordered association-list specification, step by step and over whole histories. *)
From Coq Require Import List Arith Bool ZArith Lia Sorted.
From CelloV Require Import RBTree RBProofs RBBalance RBIter.
Import ListNotations.

Definition total_order {K : Type} (cmp : K -> K -> comparison) : Prop :=
  (forall a b, cmp a b = Eq -> a = b) /\
  (forall a, cmp a a = Eq) /\
  (forall a b, cmp a b = CompOpp (cmp b a)) /\
  (forall a b c, cmp a b = Lt -> cmp b c = Lt -> cmp a c = Lt).

Section Refine.
  Variables K V : Type.
  Variable cmp : K -> K -> comparison.
  Variable use_succ : bool -> bool -> bool.   (* Tree_Rem's donor rule: arbitrary *)
  Hypothesis cmp_eq : forall a b, cmp a b = Eq -> a = b.
  Hypothesis cmp_refl : forall a, cmp a a = Eq.
  Hypothesis cmp_anti : forall a b, cmp a b = CompOpp (cmp b a).
  Hypothesis cmp_trans : forall a b c, cmp a b = Lt -> cmp b c = Lt -> cmp a c = Lt.

  Notation rbt := (rbt K V).
  Notation inorder := (inorder K V).
  Notation sorted := (sorted K V cmp).
  Notation a_get := (a_get K V cmp).
  Notation a_set := (a_set K V cmp).
  Notation a_rem := (a_rem K V cmp).
  Notation a_set_all := (a_set_all K V cmp).
  Notation t_step := (t_step K V cmp use_succ).
  Notation spec_step := (spec_step K V cmp).

  (* abstraction: the bindings in iteration order (descending keys) *)
  Definition abs (t : rbt) : amap K V := inorder (root K V t).

  (* search-tree order, red-black shape, item counter *)
  Definition rb_inv (t : rbt) : Prop :=
    sorted (abs t) /\ rb_tree K V (root K V t) /\ nitems K V t = length (abs t).

  Lemma rb_inv_empty : rb_inv (t_empty K V).
  Proof.
    split; [constructor|]. split; [|reflexivity]. split; [reflexivity|]. exists 0. constructor.
  Qed.

  Lemma t_set_ok : forall t k v, rb_inv t ->
    exists t', t_set K V cmp t k v = Ok t' /\ rb_inv t' /\ abs t' = a_set (abs t) k v.
  Proof.
    intros t k v (Hs & Hb & Hn). unfold t_set.
    destruct (set_root_valid K V cmp (root K V t) k v Hb) as (r & added & Hr & Hv).
    rewrite Hr. simpl.
    destruct (set_root_spec K V cmp cmp_eq cmp_refl cmp_anti cmp_trans _ _ _ _ _ Hs Hr) as (Hi & Hl).
    eexists. split; [reflexivity|]. unfold rb_inv, abs in *. simpl. split; [|exact Hi].
    split; [rewrite Hi; apply sorted_a_set; auto|]. split; [exact Hv|].
    rewrite Hl. destruct added; lia.
  Qed.

  Lemma t_set_all_ok : forall kvs t, rb_inv t ->
    exists t', t_set_all K V cmp t kvs = Ok t' /\ rb_inv t' /\ abs t' = a_set_all (abs t) kvs.
  Proof.
    induction kvs as [|[k v] kvs IH]; intros t Hi; simpl.
    - eauto.
    - destruct (t_set_ok t k v Hi) as (t1 & H1 & Hi1 & Ha1). rewrite H1. simpl.
      destruct (IH t1 Hi1) as (t2 & H2 & Hi2 & Ha2). exists t2. rewrite Ha2, Ha1. auto.
  Qed.

  Lemma a_get_in_sorted : forall m k v, sorted m -> In (k, v) m -> a_get m k = Some v.
  Proof.
    intros m k v Hs Hin. apply in_split in Hin as (A & B & ->).
    apply sorted_mid in Hs as [Hg _]; auto.
    rewrite a_get_app_ne by (apply gt_ne; auto). simpl. now rewrite cmp_refl.
  Qed.

  Lemma t_set_from_ok : forall src m t,
    (forall k v, In (k, v) m -> lookup K V cmp src k = Some v) -> rb_inv t ->
    exists t', t_set_from K V cmp src t (keys K V m) = Ok t' /\ rb_inv t' /\ abs t' = a_set_all (abs t) m.
  Proof.
    induction m as [|[k v] m IH]; intros t Hl Hi; simpl.
    - eauto.
    - rewrite (Hl k v) by (left; reflexivity).
      destruct (t_set_ok t k v Hi) as (t1 & H1 & Hi1 & Ha1). rewrite H1. simpl.
      destruct (IH t1) as (t2 & H2 & Hi2 & Ha2); auto.
      { intros k' v' Hin. apply Hl. right. exact Hin. }
      exists t2. rewrite Ha2, Ha1. auto.
  Qed.

  Lemma t_assign_from_ok : forall src, rb_inv src ->
    exists t', t_assign_from K V cmp src = Ok t' /\ rb_inv t' /\ abs t' = abs src.
  Proof.
    intros src (Hs & Hb & Hn). unfold t_assign_from.
    rewrite (iter_forward_spec K V src Hn). simpl.
    destruct (t_set_from_ok (root K V src) (abs src) (t_empty K V)) as (t' & H1 & Hi & Ha).
    - intros k v Hin. rewrite lookup_spec; auto. apply a_get_in_sorted; auto.
    - apply rb_inv_empty.
    - exists t'. split; [exact H1|]. split; auto. rewrite Ha.
      change (abs (t_empty K V)) with (@nil (K * V)).
      apply a_set_all_sorted; auto.
  Qed.

  (* ------------------------------------------------------------ one operation *)
  Lemma step_refines : forall t o, rb_inv t ->
    rb_inv (fst (t_step t o)) /\
    abs (fst (t_step t o)) = fst (spec_step (abs t) o) /\
    snd (t_step t o) = snd (spec_step (abs t) o).
  Proof.
    intros t o Hi. destruct o as [k v|k|k|k|n| |kvs]; simpl.
    - (* set *)
      destruct (t_set_ok t k v Hi) as (t' & H1 & Hi' & Ha). rewrite H1. simpl. auto.
    - (* rem *)
      assert (Hi0 := Hi). destruct Hi as (Hs & Hb & Hn).
      destruct (descend K V cmp (root K V t) k []) as [x p'] eqn:Hd.
      pose proof (rem_spec K V cmp use_succ cmp_eq cmp_refl cmp_anti cmp_trans _ _ _ _ Hs Hd) as Hr.
      destruct x as [|c l k0 v0 r].
      + fold (abs t) in Hr. rewrite Hr. simpl. split; [exact Hi0|split; reflexivity].
      + destruct Hr as (Hg & Hr). fold (abs t) in Hg.
        destruct (a_get (abs t) k) eqn:Hga; [|congruence].
        destruct (foc_root K V _ Hb) as (n0 & Hf).
        destruct (descend_foc K V cmp _ _ _ _ _ _ Hf Hd) as (m & Hm).
        destruct (rem_at_valid K V use_succ _ _ _ _ _ _ _ Hm) as (r1 & Hr1 & Hv1).
        rewrite Hr1. simpl. destruct (Hr r1 Hr1) as (Hi1 & Hl1).
        unfold rb_inv, abs in *. simpl. split; [|split; [exact Hi1|reflexivity]].
        split; [rewrite Hi1; apply sorted_a_rem; auto|]. split; [exact Hv1|].
        rewrite Hl1, Hn. reflexivity.
    - (* get *)
      assert (Hi0 := Hi). destruct Hi as (Hs & Hb & Hn). rewrite lookup_spec by auto.
      split; [exact Hi0|split; reflexivity].
    - (* mem *)
      assert (Hi0 := Hi). destruct Hi as (Hs & Hb & Hn). rewrite lookup_spec by auto.
      split; [exact Hi0|split; reflexivity].
    - (* resize *)
      destruct n; simpl; (split; [|split; reflexivity]); auto using rb_inv_empty.
    - (* copy *)
      destruct (t_assign_from_ok t Hi) as (t' & H1 & Hi' & Ha). rewrite H1. simpl. auto.
    - (* assign from a tree built from kvs *)
      destruct (t_set_all_ok kvs (t_empty K V) rb_inv_empty) as (src & H1 & Hi1 & Ha1).
      rewrite H1. simpl.
      destruct (t_assign_from_ok src Hi1) as (t' & H2 & Hi2 & Ha2). rewrite H2. simpl.
      split; [exact Hi2|split; [|reflexivity]]. rewrite Ha2, Ha1. reflexivity.
  Qed.

  Lemma spec_step_total : forall m o, snd (spec_step m o) <> OCrash V /\ snd (spec_step m o) <> OFuel V.
  Proof.
    intros m o. destruct o as [k v|k|k|k|n| |kvs]; simpl; try (split; discriminate).
    - destruct (a_get m k); split; discriminate.
    - destruct (a_get m k); split; discriminate.
    - destruct n; split; discriminate.
  Qed.

  (* ------------------------------------------------------------ whole histories *)
  Theorem run_refines : forall ops t, rb_inv t ->
    rb_inv (t_run K V cmp use_succ ops t) /\
    abs (t_run K V cmp use_succ ops t) = spec_run K V cmp ops (abs t) /\
    t_outs K V cmp use_succ ops t = spec_outs K V cmp ops (abs t).
  Proof.
    induction ops as [|o ops IH]; intros t Hi; simpl.
    - auto.
    - destruct (step_refines t o Hi) as (Hi1 & Ha1 & Ho1).
      destruct (IH _ Hi1) as (Hi2 & Ha2 & Ho2).
      rewrite Ha2, Ho2, Ha1, Ho1. auto.
  Qed.

  Lemma spec_outs_total : forall ops m,
    ~ In (OCrash V) (spec_outs K V cmp ops m) /\ ~ In (OFuel V) (spec_outs K V cmp ops m).
  Proof.
    induction ops as [|o ops IH]; intros m; simpl; [tauto|].
    destruct (spec_step_total m o) as (H1 & H2). destruct (IH (fst (spec_step m o))) as (H3 & H4).
    split; intros [H|H]; auto.
  Qed.

  (* ------------------------------------------------------------ observations of a valid tree *)
  Lemma size_inorder : forall t : tree K V, size K V t = length (inorder t).
  Proof.
    induction t; simpl; auto. rewrite app_length. simpl. lia.
  Qed.

  Definition kgt (a b : K) : Prop := cmp a b = Gt.

  Lemma sorted_keys : forall m, sorted m -> StronglySorted kgt (keys K V m).
  Proof.
    induction 1; simpl; constructor; auto.
    unfold keys. apply Forall_map. exact H0.
  Qed.

  Theorem inv_observations : forall t, rb_inv t ->
    iter_forward K V t = Ok (keys K V (abs t)) /\
    iter_backward K V t = Ok (rev (keys K V (abs t))) /\
    StronglySorted kgt (keys K V (abs t)) /\
    length (keys K V (abs t)) = nitems K V t /\
    (forall k, lookup K V cmp (root K V t) k = a_get (abs t) k) /\
    2 ^ height K V (root K V t) <= (nitems K V t + 1) ^ 2.
  Proof.
    intros t (Hs & Hb & Hn). repeat split.
    - apply iter_forward_spec; auto.
    - apply iter_backward_spec; auto.
    - apply sorted_keys; auto.
    - unfold keys. rewrite map_length. auto.
    - intros k. apply lookup_spec; auto.
    - rewrite Hn. unfold abs. rewrite <- size_inorder. apply rb_height_bound; auto.
  Qed.
End Refine.

(* ---------------------------------------------------------------- the key orders of the instances *)
Lemma int_cmp_total : total_order int_cmp.
Proof.
  unfold int_cmp. repeat split.
  - intros a b. apply Z.compare_eq.
  - apply Z.compare_refl.
  - intros a b. apply Z.compare_antisym.
  - intros a b c. rewrite !Z.compare_lt_iff. lia.
Qed.

Lemma bytes_cmp_total : total_order bytes_cmp.
Proof.
  repeat split.
  - induction a as [|x a IH]; destruct b as [|y b]; simpl; try discriminate; auto.
    destruct (N.compare x y) eqn:Hc; try discriminate.
    intros H. apply N.compare_eq in Hc. subst. f_equal. auto.
  - induction a as [|x a IH]; simpl; auto. now rewrite N.compare_refl.
  - induction a as [|x a IH]; destruct b as [|y b]; simpl; auto.
    rewrite (N.compare_antisym y x). destruct (N.compare y x); simpl; auto.
  - induction a as [|x a IH]; destruct b as [|y b]; destruct c as [|z c]; simpl; try discriminate; auto.
    destruct (N.compare x y) eqn:Hxy; destruct (N.compare y z) eqn:Hyz; try discriminate.
    + apply N.compare_eq in Hxy. apply N.compare_eq in Hyz. subst. rewrite N.compare_refl. apply IH.
    + apply N.compare_eq in Hxy. subst. rewrite Hyz. auto.
    + apply N.compare_eq in Hyz. subst. rewrite Hxy. auto.
    + intros _ _. rewrite N.compare_lt_iff in *. assert (Hxz : (x < z)%N) by lia.
      apply N.compare_lt_iff in Hxz. now rewrite Hxz.
Qed.

(* ---------------------------------------------------------------- statements for Properties_C03.v *)
Section Statements.
  Variables K V : Type.
  Variable cmp : K -> K -> comparison.
  Variable use_succ : bool -> bool -> bool.   (* Tree_Rem's donor rule: arbitrary *)
  Hypothesis TO : total_order cmp.

  Let t0 := t_empty K V.

  Theorem step_refines_total : forall t o, rb_inv K V cmp t ->
    rb_inv K V cmp (fst (t_step K V cmp use_succ t o)) /\
    abs K V (fst (t_step K V cmp use_succ t o)) = fst (spec_step K V cmp (abs K V t) o) /\
    snd (t_step K V cmp use_succ t o) = snd (spec_step K V cmp (abs K V t) o).
  Proof. destruct TO as (H1 & H2 & H3 & H4). apply step_refines; assumption. Qed.

  Theorem refines_total : forall ops,
    rb_inv K V cmp (t_run K V cmp use_succ ops t0) /\
    abs K V (t_run K V cmp use_succ ops t0) = spec_run K V cmp ops [] /\
    t_outs K V cmp use_succ ops t0 = spec_outs K V cmp ops [] /\
    ~ In (OCrash V) (t_outs K V cmp use_succ ops t0) /\ ~ In (OFuel V) (t_outs K V cmp use_succ ops t0).
  Proof.
    destruct TO as (H1 & H2 & H3 & H4). intros ops.
    destruct (run_refines K V cmp use_succ H1 H2 H3 H4 ops t0 (rb_inv_empty K V cmp)) as (Hi & Ha & Ho).
    split; [exact Hi|]. split; [exact Ha|]. split; [exact Ho|]. rewrite Ho. apply spec_outs_total.
  Qed.

  Theorem observations_total : forall t, rb_inv K V cmp t ->
    iter_forward K V t = Ok (keys K V (abs K V t)) /\
    iter_backward K V t = Ok (rev (keys K V (abs K V t))) /\
    StronglySorted (kgt K cmp) (keys K V (abs K V t)) /\
    length (keys K V (abs K V t)) = nitems K V t /\
    (forall k, lookup K V cmp (root K V t) k = a_get K V cmp (abs K V t) k) /\
    2 ^ height K V (root K V t) <= (nitems K V t + 1) ^ 2.
  Proof. destruct TO as (H1 & H2 & H3 & H4). apply inv_observations; assumption. Qed.

  (* the descent of Tree_Get / Tree_Mem / Tree_Set / Tree_Rem visits at most 2*log2(n+1) nodes (integer form);
     the fix-up loops recurse on the path it leaves *)
  Theorem search_depth_total : forall t k x p, rb_inv K V cmp t ->
    descend K V cmp (root K V t) k [] = (x, p) -> 2 ^ length p <= (nitems K V t + 1) ^ 2.
  Proof.
    intros t k x p (Hs & Hb & Hn) Hd. rewrite Hn. unfold abs. rewrite <- size_inorder.
    eapply rb_search_depth; eauto.
  Qed.

  Theorem empty_tests_agree : forall t, rb_inv K V cmp t -> (nitems K V t = 0 <-> root K V t = E).
  Proof.
    intros t (Hs & Hb & Hn). rewrite Hn. unfold abs. destruct (root K V t); simpl.
    - tauto.
    - rewrite app_length. simpl. split; [lia | discriminate].
  Qed.

  (* after ANY history: the observations of the tree are those of the ordered map *)
  Theorem history_observations_total : forall ops,
    let t := t_run K V cmp use_succ ops t0 in
    let m := spec_run K V cmp ops [] in
    nitems K V t = length m /\
    iter_forward K V t = Ok (keys K V m) /\
    iter_backward K V t = Ok (rev (keys K V m)) /\
    StronglySorted (kgt K cmp) (keys K V m) /\
    (forall k, lookup K V cmp (root K V t) k = a_get K V cmp m k) /\
    2 ^ height K V (root K V t) <= (length m + 1) ^ 2.
  Proof.
    intros ops t m. destruct (refines_total ops) as (Hi & Ha & _).
    destruct (observations_total _ Hi) as (O1 & O2 & O3 & O4 & O5 & O6).
    fold t in Ha, O1, O2, O3, O4, O5, O6. fold m in Ha. rewrite Ha in *.
    unfold keys in O4. rewrite map_length in O4. rewrite <- O4 in O6. auto 10.
  Qed.
End Statements.

(* what a tree shows depends only on the ordered map its history denotes: neither on the history that
   built it, nor on the shape the rebalancing left, nor on the successor/predecessor choice of Tree_Rem *)
Theorem history_independent_total : forall (K V : Type) (cmp : K -> K -> comparison) (us1 us2 : bool -> bool -> bool),
  total_order cmp -> forall ops1 ops2 : list (op K V),
  spec_run K V cmp ops1 [] = spec_run K V cmp ops2 [] ->
  let t1 := t_run K V cmp us1 ops1 (t_empty K V) in
  let t2 := t_run K V cmp us2 ops2 (t_empty K V) in
  nitems K V t1 = nitems K V t2 /\
  iter_forward K V t1 = iter_forward K V t2 /\
  iter_backward K V t1 = iter_backward K V t2 /\
  (forall k, lookup K V cmp (root K V t1) k = lookup K V cmp (root K V t2) k).
Proof.
  intros K V cmp us1 us2 Ht ops1 ops2 E t1 t2.
  destruct (history_observations_total K V cmp us1 Ht ops1) as (A1 & A2 & A3 & _ & A5 & _).
  destruct (history_observations_total K V cmp us2 Ht ops2) as (B1 & B2 & B3 & _ & B5 & _).
  fold t1 in A1, A2, A3, A5. fold t2 in B1, B2, B3, B5. rewrite <- E in B1, B2, B3, B5.
  repeat split; try congruence.
Qed.
