(* SeqModels.v — executable models of src/Array.c, src/List.c, src/Tuple.c (property C04:
   Array, List and Tuple behave as sequences) and the abstract list specification they are
   proved to refine (SeqProofs.v, SortProofs.v, Properties_C04.v).
   MODEL ONLY (no proofs here).  Names of the C functions are given in comments.

   Conventions: keys are int64 values given as Z (the models are exact for keys in the int64
   range: `nitems + i` with i < 0 cannot overflow); lengths, capacities and positions are nat.
   A step returns (state', outcome); ORaise e = the C code throws e (state' = state wherever the
   repaired code checks before it mutates), OCrash = the C code would read or write outside the
   backing store / read uninitialised memory, OFuel = a loop of the model ran out of fuel (both
   excluded by theorem for in-range use). *)
From Coq Require Import List Arith Bool ZArith Permutation Sorted.
From CelloV Require TableModel.
Import ListNotations.

Notation cexn := TableModel.cexn.
Notation IndexError := TableModel.IndexError.
Notation ValueError := TableModel.ValueError.
Notation FormatError := TableModel.FormatError.
Notation ClassError := TableModel.ClassError.

Inductive res (A : Type) := Ok (a : A) | Crash | Fuel.
Arguments Ok {A} a.
Arguments Crash {A}.
Arguments Fuel {A}.

(* ------------------------------------------------------------------ memory helpers *)
Section Mem.
  Variable X : Type.

  (* p[i] = x  (None: outside the block) *)
  Fixpoint set_at (l : list X) (i : nat) (x : X) : option (list X) :=
    match l, i with
    | [], _ => None
    | _ :: r, 0 => Some (x :: r)
    | y :: r, S j => match set_at r j x with Some r' => Some (y :: r') | None => None end
    end.

  (* realloc(p, n units): keeps the common prefix, new units are junk *)
  Definition realloc (junk : X) (l : list X) (n : nat) : list X :=
    firstn n l ++ repeat junk (n - length l).

  (* memmove(p + dst, p + src, n units)  (None: source or destination leaves the block) *)
  Definition memmove (l : list X) (dst src n : nat) : option (list X) :=
    if (src + n <=? length l) && (dst + n <=? length l)
    then Some (firstn dst l ++ firstn n (skipn src l) ++ skipn (dst + n) l)
    else None.

  (* p[i] = x0; p[i+1] = x1; ... *)
  Fixpoint write_all (l : list X) (i : nat) (xs : list X) : option (list X) :=
    match xs with
    | [] => Some l
    | x :: r => match set_at l i x with Some l' => write_all l' (S i) r | None => None end
    end.
End Mem.
Arguments set_at {X}.
Arguments realloc {X}.
Arguments memmove {X}.
Arguments write_all {X}.

(* ------------------------------------------------------------------ quicksort as coded *)
(* Array_Sort_Part / Tuple_Sort_Part: Lomuto partition, pivot taken from the middle and
   swapped to the right end, over swap.  l, r, s are int64 in C: r = s-1 may be -1. *)
Section QSort.
  Variable X : Type.
  Variable f : X -> X -> bool.

  Definition swap_at (l : list X) (i j : nat) : option (list X) :=
    match nth_error l i, nth_error l j with
    | Some a, Some b =>
      match set_at l i b with Some l1 => set_at l1 j a | None => None end
    | _, _ => None
    end.

  (* for (i = l; i < r; i++) { if (f(a[i], a[r])) { swap(a[i], a[s]); s++; } }   n = r - i *)
  Fixpoint part_loop (n : nat) (xs : list X) (i s r : nat) : option (list X * nat) :=
    match n with
    | 0 => Some (xs, s)
    | S n' =>
      match nth_error xs i, nth_error xs r with
      | Some a, Some b =>
        if f a b
        then match swap_at xs i s with
             | Some xs' => part_loop n' xs' (S i) (S s) r
             | None => None end
        else part_loop n' xs (S i) s r
      | _, _ => None
      end
    end.

  (* X_Sort_Partition(a, l, r, f), 0 <= l < r *)
  Definition partition (xs : list X) (l r : nat) : option (list X * nat) :=
    let p := l + (r - l) / 2 in
    match swap_at xs p r with
    | Some xs1 =>
      match part_loop (r - l) xs1 l l r with
      | Some (xs2, s) =>
        match swap_at xs2 s r with Some xs3 => Some (xs3, s) | None => None end
      | None => None
      end
    | None => None
    end.

  (* X_Sort_Part(a, l, r, f) *)
  Fixpoint sort_part (fuel : nat) (xs : list X) (l r : Z) : res (list X) :=
    if (l <? r)%Z then
      match fuel with
      | 0 => Fuel
      | S fu =>
        if (l <? 0)%Z then Crash else
        match partition xs (Z.to_nat l) (Z.to_nat r) with
        | None => Crash
        | Some (xs1, s) =>
          match sort_part fu xs1 l (Z.of_nat s - 1) with
          | Ok xs2 => sort_part fu xs2 (Z.of_nat s + 1) r
          | e => e
          end
        end
      end
    else Ok xs.

  (* X_Sort_By(self, f): Sort_Part(self, 0, len - 1, f); fuel = length *)
  Definition qsort (xs : list X) : res (list X) :=
    sort_part (length xs) xs 0%Z (Z.of_nat (length xs) - 1)%Z.
End QSort.
Arguments swap_at {X}.
Arguments part_loop {X}.
Arguments partition {X}.
Arguments sort_part {X}.
Arguments qsort {X}.

(* Array_Push_At: for (j = nitems-1; j > i; j--) swap(item j, item j-1)   (cnt = nitems-1 - i) *)
Fixpoint bubble {X : Type} (cnt : nat) (cs : list X) (j : nat) : option (list X) :=
  match cnt with
  | 0 => Some cs
  | S c => match swap_at cs j (j - 1) with Some cs' => bubble c cs' (j - 1) | None => None end
  end.

Inductive kind := KArray | KList | KTuple.

Section Seq.
  Variable E : Type.
  Variable eqb : E -> E -> bool.     (* eq(a, b): cmp(a, b) == 0 *)
  Variable ltb : E -> E -> bool.     (* the function handed to sort_by; sort() hands over lt *)
  Variable same : E -> E -> bool.    (* pointer identity `a is b` (used by Tuple iteration only) *)
  Variable zero : E.                 (* an element read from zeroed memory (List_Resize growth) *)
  (* Array_Reserve_More / Array_Reserve_Less rules (Generated.v): cond nitems nslots, size nitems nslots *)
  Variables grow_cond shrink_cond : nat -> nat -> bool.
  Variables grow_size shrink_size : nat -> nat -> nat.

  Inductive out :=
  | OUnit | OVal (v : E) | OBool (b : bool) | ORaise (e : cexn)
  | OCrash      (* out-of-block access or read of uninitialised memory *)
  | OFuel.      (* a loop of the model ran out of fuel *)

  Inductive sop :=
  | SPush (v : E) | SPop | SPushAt (k : Z) (v : E) | SPopAt (k : Z)
  | SSet (k : Z) (v : E) | SGet (k : Z) | SMem (v : E) | SRem (v : E)
  | SConcat (vs : list E)      (* concat(self, other), vs = what iterating `other` yields *)
  | SAppend (v : E) | SResize (n : nat) | SSort
  | SAssign (vs : list E)      (* assign(self, other), vs = get(other, 0..len-1) *)
  | SCopy.                     (* self := copy(self) *)

  (* i = i < 0 ? n + i : i *)
  Definition norm (n : nat) (k : Z) : Z := if (k <? 0)%Z then (Z.of_nat n + k)%Z else k.
  (* if (i < 0 or i >= (int64_t)n) *)
  Definition oob (n : nat) (i : Z) : bool := (i <? 0)%Z || (i >=? Z.of_nat n)%Z.

  (* ================================================================== Array *)
  (* cells: one per slot; None = never written since (re)allocation *)
  Record array := mkA { cells : list (option E); nitems : nat; nslots : nat }.

  (* Array_New(type, v0, v1, ...) *)
  Definition a_new (vs : list E) : array := mkA (map Some vs) (length vs) (length vs).

  (* Array_Reserve_More *)
  Definition a_reserve_more (a : array) : array :=
    if grow_cond (nitems a) (nslots a)
    then let n := grow_size (nitems a) (nslots a) in mkA (realloc None (cells a) n) (nitems a) n
    else a.

  (* Array_Reserve_Less *)
  Definition a_reserve_less (a : array) : array :=
    if shrink_cond (nitems a) (nslots a)
    then let n := shrink_size (nitems a) (nslots a) in mkA (realloc None (cells a) n) (nitems a) n
    else a.

  (* *Array_Item(a, i) read as an element *)
  Definition a_cell (a : array) (i : nat) : option E :=
    match nth_error (cells a) i with Some (Some v) => Some v | _ => None end.

  (* for (i = 0; i < nitems; i++) if (eq(Array_Item(a, i), obj)) ...   -> first index *)
  Fixpoint cells_find (cs : list (option E)) (n i : nat) (v : E) {struct n} : option (option nat) :=
    match n with
    | 0 => Some None
    | S n' =>
      match cs with
      | Some x :: r => if eqb x v then Some (Some i) else cells_find r n' (S i) v
      | _ => None
      end
    end.

  (* values of the first n cells *)
  Fixpoint cells_values (cs : list (option E)) (n : nat) {struct n} : option (list E) :=
    match n with
    | 0 => Some []
    | S n' =>
      match cs with
      | Some x :: r => match cells_values r n' with Some vs => Some (x :: vs) | None => None end
      | _ => None
      end
    end.
  Definition a_values (a : array) : option (list E) := cells_values (cells a) (nitems a).

  (* Array_Pop_At after the key has been turned into an in-range position n *)
  Definition a_pop_pos (a : array) (n : nat) : array * out :=
    match memmove (cells a) n (n + 1) (nitems a - 1 - n) with
    | Some cs => (a_reserve_less (mkA cs (nitems a - 1) (nslots a)), OUnit)
    | None => (a, OCrash)
    end.

  Definition a_pop_at (a : array) (k : Z) : array * out :=
    let i := norm (nitems a) k in
    if oob (nitems a) i then (a, ORaise IndexError) else a_pop_pos a (Z.to_nat i).

  (* Array_Iter_Init / Array_Iter_Next: the cursor is a slot index (Z) *)
  Fixpoint a_iter_loop (fuel : nat) (a : array) (cur : Z) (acc : list E) : res (list E) :=
    match fuel with
    | 0 => Fuel
    | S fu =>
      match a_cell a (Z.to_nat cur) with
      | None => Crash
      | Some v =>
        if (Z.of_nat (nitems a) - 1 <=? cur)%Z then Ok (rev (v :: acc))
        else a_iter_loop fu a (cur + 1)%Z (v :: acc)
      end
    end.
  Definition a_iter (a : array) : res (list E) :=
    if nitems a =? 0 then Ok [] else a_iter_loop (nitems a) a 0%Z [].

  Definition a_step (a : array) (o : sop) : array * out :=
    match o with
    | SPush v | SAppend v =>
      (* Array_Push: nitems++; Reserve_More; nitems--; Alloc(nitems); assign; nitems++ *)
      let a1 := a_reserve_more (mkA (cells a) (S (nitems a)) (nslots a)) in
      match set_at (cells a1) (nitems a) (Some v) with
      | Some cs => (mkA cs (S (nitems a)) (nslots a1), OUnit)
      | None => (a, OCrash)
      end
    | SPop =>
      if nitems a =? 0 then (a, ORaise IndexError)
      else (a_reserve_less (mkA (cells a) (nitems a - 1) (nslots a)), OUnit)
    | SPushAt k v =>
      (* index normalised and checked against the length the array will have; the new element is
         constructed behind the last one, counted, and then swapped down to its position *)
      let i := norm (nitems a + 1) k in
      if oob (nitems a + 1) i then (a, ORaise IndexError) else
      let a1 := a_reserve_more (mkA (cells a) (S (nitems a)) (nslots a)) in
      match set_at (cells a1) (nitems a) (Some v) with
      | Some cs =>
        match bubble (nitems a - Z.to_nat i) cs (nitems a) with
        | Some cs' => (mkA cs' (S (nitems a)) (nslots a1), OUnit)
        | None => (a, OCrash)
        end
      | None => (a, OCrash)
      end
    | SPopAt k => a_pop_at a k
    | SGet k =>
      let i := norm (nitems a) k in
      if oob (nitems a) i then (a, ORaise IndexError) else
      match a_cell a (Z.to_nat i) with Some v => (a, OVal v) | None => (a, OCrash) end
    | SSet k v =>
      let i := norm (nitems a) k in
      if oob (nitems a) i then (a, ORaise IndexError) else
      match set_at (cells a) (Z.to_nat i) (Some v) with
      | Some cs => (mkA cs (nitems a) (nslots a), OUnit)
      | None => (a, OCrash)
      end
    | SMem v =>
      match cells_find (cells a) (nitems a) 0 v with
      | Some (Some _) => (a, OBool true)
      | Some None => (a, OBool false)
      | None => (a, OCrash)
      end
    | SRem v =>
      (* Array_Rem: first i with eq(item i, obj): Array_Pop_At(a, $I(i)) *)
      match cells_find (cells a) (nitems a) 0 v with
      | Some (Some i) => a_pop_at a (Z.of_nat i)
      | Some None => (a, ORaise ValueError)
      | None => (a, OCrash)
      end
    | SConcat vs =>
      (* Array_Concat: reserve for nitems + len(obj), then construct and count one by one *)
      let a1 := a_reserve_more (mkA (cells a) (nitems a + length vs) (nslots a)) in
      match write_all (cells a1) (nitems a) (map Some vs) with
      | Some cs => (mkA cs (nitems a + length vs) (nslots a1), OUnit)
      | None => (a, OCrash)
      end
    | SResize n =>
      (* Array_Resize: 0 clears; otherwise drop the tail beyond n, nslots = n, realloc *)
      if n =? 0 then (mkA [] 0 0, OUnit)
      else (mkA (realloc None (cells a) n) (Nat.min n (nitems a)) n, OUnit)
    | SSort =>
      match a_values a with
      | None => (a, OCrash)
      | Some vs =>
        match qsort ltb vs with
        | Ok vs' => (mkA (map Some vs' ++ skipn (nitems a) (cells a)) (nitems a) (nslots a), OUnit)
        | Crash => (a, OCrash)
        | Fuel => (a, OFuel)
        end
      end
    | SAssign vs => (a_new vs, OUnit)      (* Array_Assign: clear, nitems = nslots = len(obj) *)
    | SCopy =>
      match a_values a with Some vs => (a_new vs, OUnit) | None => (a, OCrash) end
    end.

  (* ================================================================== List *)
  (* the chain of nodes from head, and the separately kept counter *)
  Record llist := mkL { lelems : list E; lnitems : nat }.

  Definition l_new (vs : list E) : llist := mkL vs (length vs).

  Inductive atres := AtPos (p : nat) | AtOob | AtCrash.

  (* item = head; while (i) { item = next(item); i--; }   -> position reached *)
  Fixpoint walk (xs : list E) (i pos : nat) : atres :=
    match xs with
    | [] => AtCrash
    | _ :: r => match i with 0 => AtPos pos | S j => walk r j (S pos) end
    end.
  Definition walk_next (xs : list E) (i : nat) : atres := walk xs i 0.
  (* item = tail; while (j) { item = prev(item); j--; } *)
  Definition walk_prev (xs : list E) (j : nat) : atres :=
    match walk (rev xs) j 0 with AtPos p => AtPos (length xs - 1 - p) | r => r end.

  (* List_At *)
  Definition l_at (l : llist) (k : Z) : atres :=
    let n := lnitems l in
    let i := norm n k in
    if oob n i then AtOob
    else if (i <=? Z.of_nat (n / 2))%Z then walk_next (lelems l) (Z.to_nat i)
    else walk_prev (lelems l) (n - Z.to_nat i - 1).

  Definition insert_at (i : nat) (v : E) (l : list E) : list E := firstn i l ++ v :: skipn i l.
  Definition remove_at (i : nat) (l : list E) : list E := firstn i l ++ skipn (S i) l.
  Definition replace_at (i : nat) (v : E) (l : list E) : list E := firstn i l ++ v :: skipn (S i) l.

  Fixpoint find_first (xs : list E) (i : nat) (v : E) : option nat :=
    match xs with
    | [] => None
    | x :: r => if eqb x v then Some i else find_first r (S i) v
    end.

  (* get(self, 0), ..., get(self, nitems-1) *)
  Fixpoint l_values_from (l : llist) (n i : nat) : option (list E) :=
    match n with
    | 0 => Some []
    | S n' =>
      match l_at l (Z.of_nat i) with
      | AtPos p =>
        match nth_error (lelems l) p, l_values_from l n' (S i) with
        | Some v, Some vs => Some (v :: vs)
        | _, _ => None
        end
      | _ => None
      end
    end.
  Definition l_values (l : llist) : option (list E) := l_values_from l (lnitems l) 0.

  (* List_Iter_Init / List_Iter_Next *)
  Definition l_iter (l : llist) : res (list E) :=
    if lnitems l =? 0 then Ok []
    else match lelems l with [] => Crash | _ => Ok (lelems l) end.

  Definition l_step (l : llist) (o : sop) : llist * out :=
    match o with
    | SPush v | SAppend v => (mkL (lelems l ++ [v]) (S (lnitems l)), OUnit)
    | SPop =>
      if lnitems l =? 0 then (l, ORaise IndexError)
      else match lelems l with
           | [] => (l, OCrash)
           | _ => (mkL (removelast (lelems l)) (lnitems l - 1), OUnit)
           end
    | SPushAt k v =>
      (* curr = i is 0 ? head : List_At(l, i); link the new node before curr *)
      if (k =? 0)%Z then (mkL (v :: lelems l) (S (lnitems l)), OUnit)
      else match l_at l k with
           | AtPos p => (mkL (insert_at p v (lelems l)) (S (lnitems l)), OUnit)
           | AtOob => (l, ORaise IndexError)
           | AtCrash => (l, OCrash)
           end
    | SPopAt k =>
      match l_at l k with
      | AtPos p => (mkL (remove_at p (lelems l)) (lnitems l - 1), OUnit)
      | AtOob => (l, ORaise IndexError)
      | AtCrash => (l, OCrash)
      end
    | SGet k =>
      match l_at l k with
      | AtPos p => match nth_error (lelems l) p with Some v => (l, OVal v) | None => (l, OCrash) end
      | AtOob => (l, ORaise IndexError)
      | AtCrash => (l, OCrash)
      end
    | SSet k v =>
      match l_at l k with
      | AtPos p => (mkL (replace_at p v (lelems l)) (lnitems l), OUnit)
      | AtOob => (l, ORaise IndexError)
      | AtCrash => (l, OCrash)
      end
    | SMem v => (l, OBool (existsb (fun x => eqb x v) (lelems l)))
    | SRem v =>
      match find_first (lelems l) 0 v with
      | Some p => (mkL (remove_at p (lelems l)) (lnitems l - 1), OUnit)
      | None => (l, ORaise ValueError)
      end
    | SConcat vs => (mkL (lelems l ++ vs) (lnitems l + length vs), OUnit)
    | SResize n =>
      if n =? 0 then (mkL [] 0, OUnit)
      else if n <? lnitems l then
        (* unlink the tail nitems - n times *)
        if length (lelems l) <? lnitems l - n then (l, OCrash)
        else (mkL (firstn (length (lelems l) - (lnitems l - n)) (lelems l)) n, OUnit)
      else (mkL (lelems l ++ repeat zero (n - lnitems l)) n, OUnit)
    | SSort => (l, ORaise ClassError)          (* List has no Sort instance *)
    | SAssign vs => (l_new vs, OUnit)
    | SCopy => match l_values l with Some vs => (l_new vs, OUnit) | None => (l, OCrash) end
    end.

  (* ================================================================== Tuple *)
  Inductive titem := TObj (p : E) | TTerm | TJunk.
  (* items array; theap = header(self)->alloc is AllocHeap (stack/static tuples cannot be reallocated) *)
  Record tuple := mkTu { titems : list titem; theap : bool }.

  Definition t_new (vs : list E) (heap : bool) : tuple := mkTu (map TObj vs ++ [TTerm]) heap.

  (* Tuple_Len: while (items[i] isnt Terminal) i++ *)
  Fixpoint t_len_from (its : list titem) (i : nat) : option nat :=
    match its with
    | [] => None
    | TTerm :: _ => Some i
    | _ :: r => t_len_from r (S i)
    end.
  Definition t_len (t : tuple) : option nat := t_len_from (titems t) 0.

  (* Tuple_Iter_Next(self, curr): items[i+1] for the first i with items[i] is curr *)
  Fixpoint t_next (its : list titem) (curr : E) : option titem :=
    match its with
    | [] => None
    | TTerm :: _ => Some TTerm
    | TObj p :: r => if same p curr then (match r with x :: _ => Some x | [] => None end)
                     else t_next r curr
    | TJunk :: r => t_next r curr
    end.

  (* foreach (x in t) collect x *)
  Fixpoint t_iter_loop (fuel : nat) (its : list titem) (cur : titem) (acc : list E) : res (list E) :=
    match fuel with
    | 0 => Fuel
    | S fu =>
      match cur with
      | TTerm => Ok (rev acc)
      | TJunk => Crash
      | TObj p =>
        match t_next its p with
        | Some nx => t_iter_loop fu its nx (p :: acc)
        | None => Crash
        end
      end
    end.
  Definition t_iter_fuel (fuel : nat) (t : tuple) : res (list E) :=
    match titems t with [] => Crash | c :: _ => t_iter_loop fuel (titems t) c [] end.
  Definition t_iter (t : tuple) : res (list E) := t_iter_fuel (S (length (titems t))) t.

  (* Tuple_Mem: foreach (obj in self) if (eq(obj, item)) return true *)
  Fixpoint t_mem_loop (fuel : nat) (its : list titem) (cur : titem) (v : E) : res bool :=
    match fuel with
    | 0 => Fuel
    | S fu =>
      match cur with
      | TTerm => Ok false
      | TJunk => Crash
      | TObj p =>
        if eqb p v then Ok true else
        match t_next its p with
        | Some nx => t_mem_loop fu its nx v
        | None => Crash
        end
      end
    end.

  (* Tuple_Rem: first i with eq(item, items[i]) *)
  Fixpoint t_find (its : list titem) (i : nat) (v : E) : option (option nat) :=
    match its with
    | [] => None
    | TTerm :: _ => Some None
    | TObj p :: r => if eqb v p then Some (Some i) else t_find r (S i) v
    | TJunk :: _ => None
    end.

  (* items[0..n-1] as objects *)
  Fixpoint t_objs (its : list titem) (n : nat) {struct n} : option (list E) :=
    match n with
    | 0 => Some []
    | S n' =>
      match its with
      | TObj p :: r => match t_objs r n' with Some vs => Some (p :: vs) | None => None end
      | _ => None
      end
    end.

  (* Tuple_Pop_At with an in-range position: allocation check, memmove, realloc *)
  Definition t_pop_pos (t : tuple) (n i : nat) : tuple * out :=
    if negb (theap t) then (t, ORaise ValueError) else
    match memmove (titems t) i (i + 1) (n - i) with
    | Some its => (mkTu (realloc TJunk its n) (theap t), OUnit)
    | None => (t, OCrash)
    end.

  Definition t_pop_at (t : tuple) (n : nat) (k : Z) : tuple * out :=
    let i := norm n k in
    if oob n i then (t, ORaise IndexError) else t_pop_pos t n (Z.to_nat i).

  Definition t_step (t : tuple) (o : sop) : tuple * out :=
    match t_len t with
    | None => (t, OCrash)
    | Some n =>
      match o with
      | SPush v | SAppend v =>
        if negb (theap t) then (t, ORaise ValueError) else
        let its := realloc TJunk (titems t) (n + 2) in
        match write_all its n [TObj v; TTerm] with
        | Some its' => (mkTu its' (theap t), OUnit)
        | None => (t, OCrash)
        end
      | SPop =>
        if n =? 0 then (t, ORaise IndexError) else
        if negb (theap t) then (t, ORaise ValueError) else
        match set_at (realloc TJunk (titems t) n) (n - 1) TTerm with
        | Some its' => (mkTu its' (theap t), OUnit)
        | None => (t, OCrash)
        end
      | SPushAt k v =>
        let i := norm n k in
        if oob n i then (t, ORaise IndexError) else
        if negb (theap t) then (t, ORaise ValueError) else
        let p := Z.to_nat i in
        match memmove (realloc TJunk (titems t) (n + 2)) (p + 1) p (n - p + 1) with
        | Some its =>
          match set_at its p (TObj v) with
          | Some its' => (mkTu its' (theap t), OUnit)
          | None => (t, OCrash)
          end
        | None => (t, OCrash)
        end
      | SPopAt k => t_pop_at t n k
      | SGet k =>
        let i := norm n k in
        if oob n i then (t, ORaise IndexError) else
        match nth_error (titems t) (Z.to_nat i) with
        | Some (TObj p) => (t, OVal p)
        | _ => (t, OCrash)
        end
      | SSet k v =>
        let i := norm n k in
        if oob n i then (t, ORaise IndexError) else
        match set_at (titems t) (Z.to_nat i) (TObj v) with
        | Some its => (mkTu its (theap t), OUnit)
        | None => (t, OCrash)
        end
      | SMem v =>
        match titems t with
        | [] => (t, OCrash)
        | c :: _ =>
          match t_mem_loop (S (length (titems t))) (titems t) c v with
          | Ok b => (t, OBool b)
          | Crash => (t, OCrash)
          | Fuel => (t, OFuel)
          end
        end
      | SRem v =>
        match t_find (titems t) 0 v with
        | Some (Some i) => t_pop_at t n (Z.of_nat i)
        | Some None => (t, ORaise ValueError)
        | None => (t, OCrash)
        end
      | SConcat vs =>
        if negb (theap t) then (t, ORaise ValueError) else
        let its := realloc TJunk (titems t) (n + 1 + length vs) in
        match write_all its n (map TObj vs) with
        | Some its1 =>
          match set_at its1 (n + length vs) TTerm with
          | Some its2 => (mkTu its2 (theap t), OUnit)
          | None => (t, OCrash)
          end
        | None => (t, OCrash)
        end
      | SResize m =>
        if negb (theap t) then (t, ORaise ValueError) else
        if m <? n then
          match set_at (realloc TJunk (titems t) (m + 1)) m TTerm with
          | Some its => (mkTu its (theap t), OUnit)
          | None => (t, OCrash)
          end
        else (t, ORaise FormatError)
      | SSort =>
        match t_objs (titems t) n with
        | None => (t, OCrash)
        | Some vs =>
          match qsort ltb vs with
          | Ok vs' => (mkTu (map TObj vs' ++ skipn n (titems t)) (theap t), OUnit)
          | Crash => (t, OCrash)
          | Fuel => (t, OFuel)
          end
        end
      | SAssign vs =>
        if negb (theap t) then (t, ORaise ValueError) else
        let its := realloc TJunk (titems t) (length vs + 1) in
        match write_all its 0 (map TObj vs ++ [TTerm]) with
        | Some its' => (mkTu its' (theap t), OUnit)
        | None => (t, OCrash)
        end
      | SCopy =>
        (* assign(alloc(Tuple), self): a fresh heap tuple holding the same pointers *)
        match t_objs (titems t) n with
        | Some vs => (t_new vs true, OUnit)
        | None => (t, OCrash)
        end
      end
    end.

  (* ================================================================== pre-repair variants *)
  (* the error paths as they were before the fix: commits (DESIGN section 8 D13, D14, D15); kept so
     that Properties_C04.v can state `..._pre_repair_refuted` next to the positive theorems *)
  (* D13 (cab8f5d): Array_Push_At counted and reserved first, then checked against the new length *)
  Definition a_push_at_old (a : array) (k : Z) (v : E) : array * out :=
    let a1 := a_reserve_more (mkA (cells a) (S (nitems a)) (nslots a)) in
    let i := norm (nitems a1) k in
    if oob (nitems a1) i then (a1, ORaise IndexError) else
    let n := Z.to_nat i in
    match memmove (cells a1) (n + 1) n (nitems a1 - 1 - n) with
    | Some cs =>
      match set_at cs n (Some v) with
      | Some cs' => (mkA cs' (nitems a1) (nslots a1), OUnit)
      | None => (a, OCrash)
      end
    | None => (a, OCrash)
    end.
  (* D14 (9c281b5): Tuple_Pop_At moved the elements before the allocation-class check *)
  Definition t_pop_at_old (t : tuple) (n : nat) (k : Z) : tuple * out :=
    let i := norm n k in
    if oob n i then (t, ORaise IndexError) else
    let p := Z.to_nat i in
    match memmove (titems t) p (p + 1) (n - p) with
    | Some its =>
      if negb (theap t) then (mkTu its (theap t), ORaise ValueError)
      else (mkTu (realloc TJunk its n) (theap t), OUnit)
    | None => (t, OCrash)
    end.
  (* D15 (898595c): Tuple_Rem fell off the end of the loop silently *)
  Definition t_rem_old (t : tuple) (n : nat) (v : E) : tuple * out :=
    match t_find (titems t) 0 v with
    | Some (Some i) => t_pop_at t n (Z.of_nat i)
    | Some None => (t, OUnit)
    | None => (t, OCrash)
    end.

  (* ================================================================== specification *)
  (* the abstract sequence is a `list E` *)
  Definition le (x y : E) : bool := negb (ltb y x).

  Fixpoint insert_sorted (x : E) (l : list E) : list E :=
    match l with
    | [] => [x]
    | y :: r => if le x y then x :: l else y :: insert_sorted x r
    end.
  (* reference sort of the executable specification (insertion sort); the theorems use the
     relation Permutation /\ StronglySorted, of which this is one instance *)
  Definition isort (l : list E) : list E := fold_right insert_sorted [] l.

  Fixpoint remove_first (v : E) (l : list E) : list E :=
    match l with
    | [] => []
    | x :: r => if eqb x v then r else x :: remove_first v r
    end.

  Definition inb (n : nat) (i : Z) : bool := (0 <=? i)%Z && (i <? Z.of_nat n)%Z.

  (* position at which push_at(v, k) inserts, per container (DESIGN section 8, O8):
     Array counts a negative key from the NEW length and accepts k = len;
     List accepts k = 0 always, otherwise like get; Tuple like get *)
  Definition push_at_pos (c : kind) (n : nat) (k : Z) : option nat :=
    match c with
    | KArray => let i := norm (n + 1) k in if inb (n + 1) i then Some (Z.to_nat i) else None
    | KList => if (k =? 0)%Z then Some 0
               else let i := norm n k in if inb n i then Some (Z.to_nat i) else None
    | KTuple => let i := norm n k in if inb n i then Some (Z.to_nat i) else None
    end.

  (* the in-range contract of each operation, per container, exactly as implemented *)
  Definition in_range (c : kind) (l : list E) (o : sop) : bool :=
    let n := length l in
    match o with
    | SPush _ | SAppend _ | SMem _ | SConcat _ | SAssign _ | SCopy => true
    | SPop => negb (n =? 0)
    | SPushAt k _ => match push_at_pos c n k with Some _ => true | None => false end
    | SPopAt k | SGet k | SSet k _ => inb n (norm n k)
    | SRem v => existsb (fun x => eqb x v) l
    | SResize m => match c with KTuple => m <? n | _ => true end
    | SSort => match c with KList => false | _ => true end
    end.

  (* meaning of an operation on the abstract sequence; outside the contract: the documented
     exception and an unchanged sequence (that half is property C12's business) *)
  Definition spec_step (c : kind) (l : list E) (o : sop) : list E * out :=
    let n := length l in
    if negb (in_range c l o) then
      (l, ORaise match o with
                 | SRem _ => ValueError
                 | SResize _ => FormatError
                 | SSort => ClassError
                 | _ => IndexError end)
    else
    match o with
    | SPush v | SAppend v => (l ++ [v], OUnit)
    | SPop => (removelast l, OUnit)
    | SPushAt k v =>
      match push_at_pos c n k with
      | Some p => (insert_at p v l, OUnit)
      | None => (l, OUnit)
      end
    | SPopAt k => (remove_at (Z.to_nat (norm n k)) l, OUnit)
    | SSet k v => (replace_at (Z.to_nat (norm n k)) v l, OUnit)
    | SGet k => match nth_error l (Z.to_nat (norm n k)) with Some v => (l, OVal v) | None => (l, OUnit) end
    | SMem v => (l, OBool (existsb (fun x => eqb x v) l))
    | SRem v => (remove_first v l, OUnit)
    | SConcat vs => (l ++ vs, OUnit)
    | SResize m =>
      match c with
      | KList => (firstn m l ++ repeat zero (m - n), OUnit)
      | _ => (firstn m l, OUnit)
      end
    | SSort => (isort l, OUnit)
    | SAssign vs => (vs, OUnit)
    | SCopy => (l, OUnit)
    end.

  (* what a model state stands for *)
  Definition a_abs (a : array) : list E :=
    match a_values a with Some vs => vs | None => [] end.
  Definition l_abs (l : llist) : list E := lelems l.
  Definition t_abs (t : tuple) : list E :=
    match t_len t with
    | Some n => match t_objs (titems t) n with Some vs => vs | None => [] end
    | None => []
    end.

  (* ================================================================== statements *)
  (* (definitions only; they are proved in SeqProofs.v, SortProofs.v, SeqTupleProofs.v) *)

  (* one step of the abstract sequence as a RELATION: sort is specified, not computed — any
     permutation ordered by the comparison function is accepted (quicksort is not stable, and a
     Tuple sorts pointers), every other operation is the function spec_step *)
  Definition sorted_by_ltb (l : list E) : Prop := StronglySorted (fun x y => ltb y x = false) l.
  Definition spec_ok (c : kind) (l : list E) (o : sop) (l' : list E) (r : out) : Prop :=
    match o with
    | SSort =>
      if in_range c l o then r = OUnit /\ Permutation l l' /\ sorted_by_ltb l'
      else spec_step c l o = (l', r)
    | _ => spec_step c l o = (l', r)
    end.

  (* invariants of the three representations *)
  Definition a_inv (a : array) : Prop :=
    exists vs rest, cells a = map Some vs ++ rest /\ length vs = nitems a /\ length (cells a) = nslots a.
  Definition l_inv (l : llist) : Prop := lnitems l = length (lelems l).
  (* pairwise distinct pointers (finding F3: Tuple iteration is by pointer identity) *)
  Fixpoint distinct (vs : list E) : Prop :=
    match vs with
    | [] => True
    | x :: r => (forall y, In y r -> same x y = false /\ same y x = false) /\ distinct r
    end.
  Definition t_inv (t : tuple) : Prop :=
    theap t = true /\ exists vs, titems t = map TObj vs ++ [TTerm] /\ distinct vs.

  (* the pointers an operation stores into a Tuple must be new to it and pairwise distinct *)
  Definition new_to (vs : list E) (v : E) : Prop :=
    forall x, In x vs -> same x v = false /\ same v x = false.
  Definition t_fresh (vs : list E) (o : sop) : Prop :=
    match o with
    | SPush v | SAppend v | SPushAt _ v | SSet _ v => new_to vs v
    | SConcat ws => distinct ws /\ forall w, In w ws -> new_to vs w
    | SAssign ws => distinct ws
    | _ => True
    end.

  (* reads: operations that only observe *)
  Definition is_read (o : sop) : bool := match o with SGet _ | SMem _ => true | _ => false end.
  Definition is_write (o : sop) : bool := negb (is_read o).
  Section Runs.
    Variable St : Type.
    Variable step : St -> sop -> St * out.
    Fixpoint final (s : St) (ops : list sop) : St :=
      match ops with [] => s | o :: r => final (fst (step s o)) r end.
    Fixpoint trace (s : St) (ops : list sop) : list (sop * out) :=
      match ops with [] => [] | o :: r => (o, snd (step s o)) :: trace (fst (step s o)) r end.
  End Runs.

  (* "the representation refines the abstract sequence along a history": as long as every
     operation is inside the container's contract (and `extra` holds), each step keeps the
     invariant, and outcome and new abstract value are those of the specification *)
  Section Refines.
    Variable St : Type.
    Variable step : St -> sop -> St * out.
    Variable abs : St -> list E.
    Variable inv : St -> Prop.
    Variable c : kind.
    Variable extra : list E -> sop -> Prop.
    Fixpoint refines (s : St) (ops : list sop) : Prop :=
      match ops with
      | [] => True
      | o :: r =>
        in_range c (abs s) o = true -> extra (abs s) o ->
        inv (fst (step s o)) /\
        spec_ok c (abs s) o (abs (fst (step s o))) (snd (step s o)) /\
        refines (fst (step s o)) r
      end.
    (* the same along EVERY history: an operation outside the contract is covered by spec_ok too
       (spec_step then demands the documented exception and an unchanged sequence) *)
    Fixpoint refines_all (s : St) (ops : list sop) : Prop :=
      match ops with
      | [] => True
      | o :: r =>
        extra (abs s) o ->
        inv (fst (step s o)) /\
        spec_ok c (abs s) o (abs (fst (step s o))) (snd (step s o)) /\
        refines_all (fst (step s o)) r
      end.
  End Refines.
End Seq.
