(* ConfigProofs.v — proofs about coq/Config.v (property C18).
   Part A: the abstract interpreter — an execution on which no switch-guarded test succeeds is
           independent of the configuration record (generic in state, values, API and history).
   Part B: the sequence API of Array.c — contract characterised arithmetically, every configuration
           meets the configuration-free specification inside the contract, configurations differ outside.
   Part C: audit of the source facts re-extracted by tools/genx_cfg.py. *)
From Coq Require Import List Arith Bool ZArith String Lia.
From CelloV Require Import Generated Config.
Import ListNotations.
Local Open Scope Z_scope.

(* ------------------------------------------------------------------ Part A0: the method cache *)

(* a filled slot holds what a scan for the class wired to it returns *)
Definition cache_ok (t : tyobj) : Prop :=
  forall c i x, slot_of c = Some i -> nth_error (tslots t) i = Some (Some x) -> scan (tinsts t) c = Some x.

Definition types_ok (T : types) : Prop := Forall cache_ok T.
Definition same_insts (T1 T2 : types) : Prop := map tinsts T1 = map tinsts T2.

Lemma wiring_nodup : nodupb (map fst cfg_cache_wiring) = true.
Proof. vm_compute. reflexivity. Qed.

Lemma nodupb_spec : forall l, nodupb l = true -> NoDup l.
Proof.
  induction l as [| x t IH]; simpl; intros H; [constructor |].
  apply andb_prop in H. destruct H as [H1 H2]. constructor; [| apply IH; exact H2].
  intro Hin. apply negb_true_iff in H1.
  assert (existsb (Nat.eqb x) t = true) as E.
  { apply existsb_exists. exists x. split; [exact Hin | apply Nat.eqb_refl]. }
  rewrite E in H1. discriminate.
Qed.

Lemma find_slot_in : forall (w : list (nat * nat)) c i,
  match find (fun x : nat * nat => Nat.eqb (snd x) c) w with Some x => Some (fst x) | None => None end = Some i ->
  In (i, c) w.
Proof.
  induction w as [| [j d] w IH]; simpl; intros c i H; [discriminate |].
  destruct (Nat.eqb d c) eqn:E.
  - apply Nat.eqb_eq in E. simpl in H. inversion H; subst. left; reflexivity.
  - right. apply IH. exact H.
Qed.

Lemma nodup_fst_inj : forall (w : list (nat * nat)), NoDup (map fst w) ->
  forall i c1 c2, In (i, c1) w -> In (i, c2) w -> c1 = c2.
Proof.
  induction w as [| [j d] w IH]; simpl; intros Hn i c1 c2 H1 H2; [contradiction |].
  inversion Hn as [| ? ? Hnotin Hn']; subst.
  destruct H1 as [H1 | H1]; destruct H2 as [H2 | H2].
  - inversion H1; inversion H2; subst. reflexivity.
  - inversion H1; subst. exfalso. apply Hnotin. apply (in_map fst) in H2. exact H2.
  - inversion H2; subst. exfalso. apply Hnotin. apply (in_map fst) in H1. exact H1.
  - eapply IH; eassumption.
Qed.

(* no two classes share a cache slot *)
Lemma slot_of_inj : forall c1 c2 i, slot_of c1 = Some i -> slot_of c2 = Some i -> c1 = c2.
Proof.
  unfold slot_of. intros c1 c2 i H1 H2.
  apply find_slot_in in H1. apply find_slot_in in H2.
  eapply nodup_fst_inj; [apply nodupb_spec, wiring_nodup | exact H1 | exact H2].
Qed.

Lemma nth_error_set_slot_eq : forall l i (v : option inst), (i < List.length l)%nat -> nth_error (set_slot l i v) i = Some v.
Proof.
  induction l as [| x t IH]; simpl; intros i v H; [lia |].
  destruct i; simpl; [reflexivity | apply IH; lia].
Qed.

Lemma nth_error_set_slot_neq : forall l i j (v : option inst), i <> j -> nth_error (set_slot l i v) j = nth_error l j.
Proof.
  induction l as [| x t IH]; simpl; intros i j v H; [reflexivity |].
  destruct i; destruct j; simpl; try reflexivity; try congruence.
  apply IH. congruence.
Qed.

Lemma lookup_insts : forall b t c, tinsts (fst (lookup b t c)) = tinsts t.
Proof.
  intros b t c. unfold lookup. destruct b; [| reflexivity].
  destruct (slot_of c); [| reflexivity].
  destruct (nth_error (tslots t) n) as [[x |] |]; reflexivity.
Qed.

(* the cached lookup returns what the scan returns *)
Lemma lookup_result : forall b t c, cache_ok t -> snd (lookup b t c) = scan (tinsts t) c.
Proof.
  intros b t c Hok. unfold lookup. destruct b; [| reflexivity].
  destruct (slot_of c) as [i |] eqn:Hs; [| reflexivity].
  destruct (nth_error (tslots t) i) as [[x |] |] eqn:Hn; simpl; try reflexivity.
  symmetry. eapply Hok; eassumption.
Qed.

(* and keeps the cache sound *)
Lemma lookup_ok : forall b t c, cache_ok t -> cache_ok (fst (lookup b t c)).
Proof.
  intros b t c Hok. unfold lookup. destruct b; [| exact Hok].
  destruct (slot_of c) as [i |] eqn:Hs; [| exact Hok].
  destruct (nth_error (tslots t) i) as [[x |] |] eqn:Hn; simpl; try exact Hok.
  intros c' i' x' Hs' Hn'. simpl in *.
  destruct (Nat.eq_dec i i') as [E | E].
  - subst i'. assert (c' = c) by (eapply slot_of_inj; eassumption). subst c'.
    rewrite nth_error_set_slot_eq in Hn'.
    + inversion Hn'. reflexivity.
    + apply nth_error_Some. rewrite Hn. discriminate.
  - rewrite nth_error_set_slot_neq in Hn' by exact E. eapply Hok; eassumption.
Qed.

Lemma map_set_type : forall (T : types) n t t', nth_error T n = Some t -> tinsts t' = tinsts t ->
  map tinsts (set_type T n t') = map tinsts T.
Proof.
  induction T as [| x r IH]; simpl; intros n t t' Hn He; [reflexivity |].
  destruct n; simpl in *.
  - inversion Hn; subst. rewrite He. reflexivity.
  - f_equal. eapply IH; eassumption.
Qed.

Lemma forall_set_type : forall (T : types) n t', types_ok T -> cache_ok t' -> types_ok (set_type T n t').
Proof.
  unfold types_ok. induction T as [| x r IH]; simpl; intros n t' HT Ht; [constructor |].
  inversion HT; subst. destruct n; constructor; auto.
Qed.

Lemma types_ok_nth : forall (T : types) n t, types_ok T -> nth_error T n = Some t -> cache_ok t.
Proof.
  unfold types_ok. intros T n t HT Hn. rewrite Forall_forall in HT. apply HT. eapply nth_error_In; eassumption.
Qed.

Lemma lookup_in_result : forall b T ty c, types_ok T -> snd (lookup_in b T ty c) = scan_in T ty c.
Proof.
  intros b T ty c HT. unfold lookup_in, scan_in.
  destruct (nth_error T ty) as [t |] eqn:Hn; [| reflexivity].
  pose proof (lookup_result b t c (types_ok_nth T ty t HT Hn)) as H.
  destruct (lookup b t c) as [t' r]. exact H.
Qed.

Lemma lookup_in_insts : forall b T ty c, same_insts (fst (lookup_in b T ty c)) T.
Proof.
  intros b T ty c. unfold same_insts, lookup_in.
  destruct (nth_error T ty) as [t |] eqn:Hn; [| reflexivity].
  pose proof (lookup_insts b t c) as H.
  destruct (lookup b t c) as [t' r]. simpl in *. eapply map_set_type; eassumption.
Qed.

Lemma lookup_in_ok : forall b T ty c, types_ok T -> types_ok (fst (lookup_in b T ty c)).
Proof.
  intros b T ty c HT. unfold lookup_in.
  destruct (nth_error T ty) as [t |] eqn:Hn; [| exact HT].
  pose proof (lookup_ok b t c (types_ok_nth T ty t HT Hn)) as H.
  destruct (lookup b t c) as [t' r]. simpl in *. apply forall_set_type; assumption.
Qed.

Lemma nth_error_map_tinsts : forall (T1 T2 : types) n, same_insts T1 T2 ->
  option_map tinsts (nth_error T1 n) = option_map tinsts (nth_error T2 n).
Proof.
  unfold same_insts. induction T1 as [| x r IH]; destruct T2 as [| y q]; simpl; intros n H; try discriminate.
  - destruct n; reflexivity.
  - inversion H. destruct n; simpl; [congruence | apply IH; assumption].
Qed.

Lemma scan_in_insts : forall T1 T2 ty c, same_insts T1 T2 -> scan_in T1 ty c = scan_in T2 ty c.
Proof.
  intros T1 T2 ty c H. unfold scan_in. pose proof (nth_error_map_tinsts T1 T2 ty H) as E.
  destruct (nth_error T1 ty), (nth_error T2 ty); simpl in E; try discriminate; [| reflexivity].
  inversion E as [E']. rewrite E'. reflexivity.
Qed.

Lemma same_insts_refl : forall T, same_insts T T.
Proof. reflexivity. Qed.
Lemma same_insts_sym : forall T1 T2, same_insts T1 T2 -> same_insts T2 T1.
Proof. unfold same_insts; intros; congruence. Qed.
Lemma same_insts_trans : forall T1 T2 T3, same_insts T1 T2 -> same_insts T2 T3 -> same_insts T1 T3.
Proof. unfold same_insts; intros; congruence. Qed.

(* sequences of lookups on one type: the cache is transparent (the statement about Type.c alone) *)
Fixpoint lookups (b : bool) (t : tyobj) (cs : list cls) : list (option inst) :=
  match cs with
  | [] => []
  | c :: r => let '(t', x) := lookup b t c in x :: lookups b t' r
  end.

Lemma lookups_transparent : forall cs t1 t2, cache_ok t1 -> cache_ok t2 -> tinsts t1 = tinsts t2 ->
  lookups true t1 cs = lookups false t2 cs.
Proof.
  induction cs as [| c r IH]; intros t1 t2 H1 H2 He; [reflexivity |].
  cbn [lookups].
  pose proof (lookup_result true t1 c H1) as R1. pose proof (lookup_ok true t1 c H1) as K1.
  pose proof (lookup_insts true t1 c) as I1.
  destruct (lookup true t1 c) as [t1' x1]. cbn [fst snd] in *.
  change (lookup false t2 c) with (t2, scan (tinsts t2) c). cbn iota.
  rewrite R1, He. f_equal. apply IH; [exact K1 | exact H2 | congruence].
Qed.

Lemma fresh_type_ok : forall insts, cache_ok (fresh_type insts).
Proof.
  intros insts c i x _ Hn. unfold fresh_type in Hn. cbn [tslots] in Hn.
  apply nth_error_In in Hn. apply repeat_spec in Hn. discriminate.
Qed.

(* ------------------------------------------------------------------ Part A *)
Section InterpProofs.
  Variables St Val : Type.
  Notation prog := (prog St Val).
  Notation run := (run St Val).
  Notation fires := (fires St Val).

  Lemma fires_insts : forall (p : prog) s T1 T2, same_insts T1 T2 -> fires p s T1 = fires p s T2.
  Proof.
    induction p as [o | k IH | s' k IH | sw b e k IH | ty cl k IH]; intros s T1 T2 H; simpl.
    - reflexivity.
    - apply IH; exact H.
    - apply IH; exact H.
    - destruct b; [reflexivity | apply IH; exact H].
    - rewrite (scan_in_insts T1 T2 ty cl H). apply IH; exact H.
  Qed.

  (* result triple of a run, componentwise *)
  Definition rst (r : St * types * outcome Val) : St := fst (fst r).
  Definition rty (r : St * types * outcome Val) : types := snd (fst r).
  Definition rout (r : St * types * outcome Val) : outcome Val := snd r.

  (* simulation: sound caches with the same instance lists, no guarded test succeeds ⇒ same state and
     outcome under every two configuration records, caches stay sound, instance lists untouched *)
  Lemma run_sim : forall (p : prog) s T1 T2 c1 c2,
    types_ok T1 -> types_ok T2 -> same_insts T1 T2 -> fires p s T1 = false ->
    rst (run c1 p s T1) = rst (run c2 p s T2) /\ rout (run c1 p s T1) = rout (run c2 p s T2) /\
    types_ok (rty (run c1 p s T1)) /\ types_ok (rty (run c2 p s T2)) /\
    same_insts (rty (run c1 p s T1)) (rty (run c2 p s T2)) /\ same_insts T1 (rty (run c1 p s T1)).
  Proof.
    induction p as [o | k IH | s' k IH | sw b e k IH | ty cl k IH]; intros s T1 T2 c1 c2 H1 H2 Hs Hf; simpl in *.
    - repeat split; auto using same_insts_refl.
    - apply IH; assumption.
    - apply IH; assumption.
    - destruct b; [discriminate Hf |]. rewrite !andb_false_r. apply IH; assumption.
    - pose proof (lookup_in_result (cache c1) T1 ty cl H1) as R1.
      pose proof (lookup_in_result (cache c2) T2 ty cl H2) as R2.
      pose proof (lookup_in_ok (cache c1) T1 ty cl H1) as K1.
      pose proof (lookup_in_ok (cache c2) T2 ty cl H2) as K2.
      pose proof (lookup_in_insts (cache c1) T1 ty cl) as I1.
      pose proof (lookup_in_insts (cache c2) T2 ty cl) as I2.
      destruct (lookup_in (cache c1) T1 ty cl) as [T1' r1].
      destruct (lookup_in (cache c2) T2 ty cl) as [T2' r2]. simpl in *.
      assert (Er : scan_in T2 ty cl = scan_in T1 ty cl) by (symmetry; apply scan_in_insts; exact Hs).
      rewrite Er in R2. subst r1 r2.
      assert (Hs' : same_insts T1' T2').
      { eapply same_insts_trans; [exact I1 |]. eapply same_insts_trans; [exact Hs |]. apply same_insts_sym; exact I2. }
      assert (Hf' : fires (k (scan_in T1 ty cl)) s T1' = false).
      { rewrite (fires_insts _ s T1' T1 I1). exact Hf. }
      destruct (IH (scan_in T1 ty cl) s T1' T2' c1 c2 K1 K2 Hs' Hf') as (A & B & C & D & E & F).
      repeat split; auto.
      eapply same_insts_trans; [apply same_insts_sym; exact I1 | exact F].
  Qed.

  (* the theorem as the property states it: one table, two configurations *)
  Lemma run_indep : forall (p : prog) s T c1 c2,
    types_ok T -> fires p s T = false ->
    rst (run c1 p s T) = rst (run c2 p s T) /\ rout (run c1 p s T) = rout (run c2 p s T).
  Proof.
    intros p s T c1 c2 HT Hf.
    destruct (run_sim p s T T c1 c2 HT HT (same_insts_refl T) Hf) as (A & B & _). split; assumption.
  Qed.

  Definition all_on (c : config) : Prop := forall sw, checks c sw = true.

  Lemma default_all_on : all_on cfg_default.
  Proof. intro sw; reflexivity. Qed.

  (* a guarded test that succeeds makes the all-checks build raise *)
  Lemma fires_raises : forall (p : prog) s T c,
    all_on c -> types_ok T -> fires p s T = true -> is_raise Val (rout (run c p s T)) = true.
  Proof.
    induction p as [o | k IH | s' k IH | sw b e k IH | ty cl k IH]; intros s T c Hc HT Hf; simpl in *.
    - discriminate.
    - apply IH; assumption.
    - apply IH; assumption.
    - rewrite Hc. destruct b; simpl; [reflexivity | apply IH; assumption].
    - pose proof (lookup_in_result (cache c) T ty cl HT) as R.
      pose proof (lookup_in_ok (cache c) T ty cl HT) as K.
      pose proof (lookup_in_insts (cache c) T ty cl) as I.
      destruct (lookup_in (cache c) T ty cl) as [T' r]. simpl in *. subst r.
      apply IH; [exact Hc | exact K |]. rewrite (fires_insts _ s T' T I). exact Hf.
  Qed.

  Lemma no_raise_no_fire : forall (p : prog) s T c,
    all_on c -> types_ok T -> is_raise Val (rout (run c p s T)) = false -> fires p s T = false.
  Proof.
    intros p s T c Hc HT Hr. destruct (fires p s T) eqn:Hf; [| reflexivity].
    rewrite (fires_raises p s T c Hc HT Hf) in Hr. discriminate.
  Qed.

  (* the property's wording for one call: no error path under the default build ⇒ every build agrees *)
  Lemma run_indep_no_raise : forall (p : prog) s T c,
    types_ok T -> is_raise Val (rout (run cfg_default p s T)) = false ->
    rst (run c p s T) = rst (run cfg_default p s T) /\ rout (run c p s T) = rout (run cfg_default p s T).
  Proof.
    intros p s T c HT Hr. apply run_indep; [exact HT |].
    eapply no_raise_no_fire; [apply default_all_on | exact HT | exact Hr].
  Qed.

  (* a run consults `checks` and `cache` only: the collector field is not read by the interpreter
     (collector transparency is the subject of C01, not of this model) *)
  Lemma run_reads_checks_cache : forall (p : prog) s T c1 c2,
    (forall sw, checks c1 sw = checks c2 sw) -> cache c1 = cache c2 -> run c1 p s T = run c2 p s T.
  Proof.
    induction p as [o | k IH | s' k IH | sw b e k IH | ty cl k IH]; intros s T c1 c2 Hc Hk; simpl.
    - reflexivity.
    - apply IH; assumption.
    - apply IH; assumption.
    - rewrite Hc. destruct (checks c2 sw && b); [reflexivity | apply IH; assumption].
    - rewrite Hk. destruct (lookup_in (cache c2) T ty cl) as [T' r]. apply IH; assumption.
  Qed.

  Section HistoryProofs.
    Variable Op : Type.
    Variable body : Op -> prog.
    Notation run_history := (run_history St Val Op body).
    Notation history_fires := (history_fires St Val Op body).
    Notation no_error_path := (no_error_path St Val Op body).

    Definition hst (r : St * types * list (outcome Val)) : St := fst (fst r).
    Definition hty (r : St * types * list (outcome Val)) : types := snd (fst r).
    Definition hout (r : St * types * list (outcome Val)) : list (outcome Val) := snd r.

    Lemma history_sim : forall h s T0 T1 T2 c1 c2,
      types_ok T0 -> types_ok T1 -> types_ok T2 -> same_insts T0 T1 -> same_insts T0 T2 ->
      history_fires h s T0 = false ->
      hst (run_history c1 h s T1) = hst (run_history c2 h s T2) /\
      hout (run_history c1 h s T1) = hout (run_history c2 h s T2) /\
      types_ok (hty (run_history c1 h s T1)) /\ types_ok (hty (run_history c2 h s T2)) /\
      same_insts (hty (run_history c1 h s T1)) (hty (run_history c2 h s T2)).
    Proof.
      induction h as [| o h IH]; intros s T0 T1 T2 c1 c2 H0 H1 H2 S1 S2 Hf; simpl in *.
      - repeat split; auto. eapply same_insts_trans; [apply same_insts_sym; exact S1 | exact S2].
      - destruct (fires (body o) s T0) eqn:Ho; [discriminate Hf |].
        destruct (run_sim (body o) s T0 T1 cfg_default c1 H0 H1 S1 Ho) as (A1 & B1 & C1 & D1 & E1 & F1).
        destruct (run_sim (body o) s T0 T2 cfg_default c2 H0 H2 S2 Ho) as (A2 & B2 & C2 & D2 & E2 & F2).
        destruct (run cfg_default (body o) s T0) as [[s0 T0'] r0].
        destruct (run c1 (body o) s T1) as [[s1 T1'] r1].
        destruct (run c2 (body o) s T2) as [[s2 T2'] r2].
        unfold rst, rty, rout in *. simpl in *. subst s1 s2 r1 r2.
        destruct (is_crash Val r0).
        + unfold hst, hty, hout; simpl. repeat split; auto.
          eapply same_insts_trans; [apply same_insts_sym; exact E1 | exact E2].
        + specialize (IH s0 T0' T1' T2' c1 c2 C1 D1 D2 E1 E2 Hf).
          destruct (run_history c1 h s0 T1') as [[s1' T1''] rs1].
          destruct (run_history c2 h s0 T2') as [[s2' T2''] rs2].
          unfold hst, hty, hout in *. simpl in *.
          destruct IH as (A & B & C & D & E). subst. repeat split; auto.
    Qed.

    Lemma history_indep : forall h s T c1 c2,
      types_ok T -> history_fires h s T = false ->
      hst (run_history c1 h s T) = hst (run_history c2 h s T) /\
      hout (run_history c1 h s T) = hout (run_history c2 h s T).
    Proof.
      intros h s T c1 c2 HT Hf.
      destruct (history_sim h s T T T c1 c2 HT HT HT (same_insts_refl T) (same_insts_refl T) Hf) as (A & B & _).
      split; assumption.
    Qed.

    Lemma no_error_path_no_fire : forall h s T,
      types_ok T -> no_error_path h s T = true -> history_fires h s T = false.
    Proof.
      unfold Config.no_error_path.
      induction h as [| o h IH]; intros s T HT Hn; simpl in *.
      - reflexivity.
      - destruct (fires (body o) s T) eqn:Ho.
        + pose proof (fires_raises (body o) s T cfg_default default_all_on HT Ho) as Hr.
          destruct (run cfg_default (body o) s T) as [[s' T'] r]. unfold rout in Hr. simpl in Hr.
          destruct (is_crash Val r).
          * simpl in Hn. rewrite Hr in Hn. discriminate.
          * destruct (run_history cfg_default h s' T') as [[s'' T''] rs]. simpl in Hn.
            rewrite Hr in Hn. discriminate.
        + assert (HT' : types_ok (rty (run cfg_default (body o) s T))).
          { destruct (run_sim (body o) s T T cfg_default cfg_default HT HT (same_insts_refl T) Ho) as (_ & _ & C & _). exact C. }
          destruct (run cfg_default (body o) s T) as [[s' T'] r]. unfold rty in HT'. simpl in HT'.
          destruct (is_crash Val r) eqn:Hc; [reflexivity |].
          apply IH; [exact HT' |].
          destruct (run_history cfg_default h s' T') as [[s'' T''] rs]. simpl in Hn |- *.
          apply andb_prop in Hn. tauto.
    Qed.

    Theorem history_config_independent : forall h s T c1 c2,
      types_ok T -> no_error_path h s T = true ->
      hst (run_history c1 h s T) = hst (run_history c2 h s T) /\
      hout (run_history c1 h s T) = hout (run_history c2 h s T).
    Proof. intros. apply history_indep; [assumption | apply no_error_path_no_fire; assumption]. Qed.
  End HistoryProofs.
End InterpProofs.

(* ------------------------------------------------------------------ Part A2: lifting a specification *)
(* How C18 composes with the functional properties: if the DEFAULT build meets a configuration-free
   specification of an API (what C02–C04, C16 … establish), and the specification's domain is inside the
   contract (no guarded test succeeds where it is defined), then EVERY build meets it on every history the
   specification accepts. *)
Definition all_some {A} (l : list (option A)) : bool := forallb (fun x => match x with Some _ => true | None => false end) l.
Definition strip {A} (d : A) (l : list (option A)) : list A := map (fun x => match x with Some a => a | None => d end) l.

Section LiftSpec.
  Variables St Val Op : Type.
  Variable body : Op -> prog St Val.
  Variable spec : Op -> St -> option (St * outcome Val).

  (* specification transcript of a history; stops at the first call outside the specification's domain *)
  Fixpoint spec_history (h : list Op) (s : St) : St * list (option (outcome Val)) :=
    match h with
    | [] => (s, [])
    | o :: h' => match spec o s with
                 | None => (s, [None])
                 | Some (s', r) => let '(s'', rs) := spec_history h' s' in (s'', Some r :: rs)
                 end
    end.

  Hypothesis spec_in_contract : forall o s T r, types_ok T -> spec o s = Some r -> fires St Val (body o) s T = false.
  Hypothesis default_meets_spec : forall o s T s' r, types_ok T -> spec o s = Some (s', r) ->
    rst St Val (run St Val cfg_default (body o) s T) = s' /\ rout St Val (run St Val cfg_default (body o) s T) = r.
  Hypothesis spec_no_crash : forall o s s' r, spec o s = Some (s', r) -> is_crash Val r = false.

  Theorem every_build_meets_spec : forall h s T c,
    types_ok T -> all_some (snd (spec_history h s)) = true ->
    hst St Val (run_history St Val Op body c h s T) = fst (spec_history h s) /\
    hout St Val (run_history St Val Op body c h s T) = strip OCrash (snd (spec_history h s)).
  Proof.
    induction h as [| o h IH]; intros s T c HT Ha; simpl in *.
    - split; reflexivity.
    - destruct (spec o s) as [[s' r] |] eqn:E; [| discriminate Ha].
      pose proof (spec_in_contract o s T (s', r) HT E) as Hf.
      destruct (run_sim St Val (body o) s T T c cfg_default HT HT (same_insts_refl T) Hf) as (A & B & C & _).
      destruct (default_meets_spec o s T s' r HT E) as [D1 D2].
      destruct (run St Val c (body o) s T) as [[s1 T1] r1]. unfold rst, rout, rty in *. simpl in *.
      rewrite D1 in A. rewrite D2 in B. subst s1 r1.
      rewrite (spec_no_crash o s s' r E).
      specialize (IH s' T1 c C).
      destruct (spec_history h s') as [s'' rs]. simpl in *. specialize (IH Ha).
      destruct (run_history St Val Op body c h s' T1) as [[s2 T2] rs2]. unfold hst, hout in *. simpl in *.
      destruct IH as [I1 I2]. subst. split; reflexivity.
  Qed.
End LiftSpec.

(* ------------------------------------------------------------------ Part B: Array *)

Lemma nth_error_in_range : forall (s : aseq) (j : Z),
  0 <= j < zlen s -> exists v, nth_error s (Z.to_nat j) = Some v.
Proof.
  intros s j Hj. unfold zlen in Hj.
  destruct (nth_error s (Z.to_nat j)) eqn:E; [eauto |].
  apply nth_error_None in E. lia.
Qed.

Definition in_contract (o : aop) (s : aseq) : Prop :=
  let n := zlen s in
  match o with
  | AGet i | ASet i _ | APopAt i => - n <= i < n
  | APushAt _ i => - (n + 1) <= i < n + 1
  | APop => 0 < n
  | APush _ | ALen | AMem _ | ARem _ => True
  end.

Ltac zb :=
  repeat match goal with
  | |- context [?a <? ?b] => destruct (Z.ltb_spec a b)
  | |- context [?a <=? ?b] => destruct (Z.leb_spec a b)
  | |- context [?a >=? ?b] => rewrite (Z.geb_leb a b)
  | |- context [?a =? ?b] => destruct (Z.eqb_spec a b)
  end.

(* the contract, arithmetically: a guarded test of the body succeeds exactly outside it *)
Lemma afires_char : forall o s T, fires aseq Z (abody o) s T = false <-> in_contract o s.
Proof.
  intros o s T. pose proof (Zle_0_nat (List.length s)) as Hn. fold (zlen s) in Hn.
  destruct o; simpl;
    unfold cfg_Array_Get_guard, cfg_Array_Get_norm, cfg_Array_Set_guard, cfg_Array_Set_norm,
           cfg_Array_Push_At_guard, cfg_Array_Push_At_norm, cfg_Array_Pop_guard,
           cfg_Array_Pop_At_guard, cfg_Array_Pop_At_norm;
    try tauto.
  - (* AGet *)
    destruct (item s _); zb; simpl; split; intros; try discriminate; try lia; try reflexivity.
  - (* ASet *)
    destruct (in_range _ _); zb; simpl; split; intros; try discriminate; try lia; try reflexivity.
  - (* APushAt *)
    destruct (in_range _ _); zb; simpl; split; intros; try discriminate; try lia; try reflexivity.
  - (* APop *)
    zb; simpl; split; intros; try discriminate; try lia; try reflexivity.
  - (* APopAt *)
    destruct (in_range _ _); zb; simpl; split; intros; try discriminate; try lia; try reflexivity.
  - (* ARem *) destruct (index_of s v 0); simpl; tauto.
Qed.

(* the specification is defined exactly on the contract *)
Lemma aspec_defined : forall o s, in_contract o s <-> exists r, aspec o s = Some r.
Proof.
  intros o s. pose proof (Zle_0_nat (List.length s)) as Hn. fold (zlen s) in Hn.
  destruct o; simpl; unfold wrap.
  - (* AGet *)
    split.
    + intros H. destruct (Z.leb_spec (- zlen s) i); [| lia]. destruct (Z.ltb_spec i (zlen s)); [| lia]. simpl.
      destruct (nth_error_in_range s (if i <? 0 then zlen s + i else i)) as [v Hv].
      { destruct (Z.ltb_spec i 0); lia. }
      rewrite Hv. eauto.
    + intros [r H]. destruct (Z.leb_spec (- zlen s) i); destruct (Z.ltb_spec i (zlen s)); simpl in H;
        try discriminate; lia.
  - split.
    + intros H. destruct (Z.leb_spec (- zlen s) i); [| lia]. destruct (Z.ltb_spec i (zlen s)); [| lia]. simpl. eauto.
    + intros [r H]. destruct (Z.leb_spec (- zlen s) i); destruct (Z.ltb_spec i (zlen s)); simpl in H;
        try discriminate; lia.
  - split; eauto.
  - split.
    + intros H. destruct (Z.leb_spec (- (zlen s + 1)) i); [| lia]. destruct (Z.ltb_spec i (zlen s + 1)); [| lia]. simpl. eauto.
    + intros [r H]. destruct (Z.leb_spec (- (zlen s + 1)) i); destruct (Z.ltb_spec i (zlen s + 1)); simpl in H;
        try discriminate; lia.
  - split.
    + intros H. destruct (Z.ltb_spec 0 (zlen s)); [| lia]. eauto.
    + intros [r H]. destruct (Z.ltb_spec 0 (zlen s)); [lia | discriminate].
  - split.
    + intros H. destruct (Z.leb_spec (- zlen s) i); [| lia]. destruct (Z.ltb_spec i (zlen s)); [| lia]. simpl. eauto.
    + intros [r H]. destruct (Z.leb_spec (- zlen s) i); destruct (Z.ltb_spec i (zlen s)); simpl in H;
        try discriminate; lia.
  - split; eauto.
  - split; eauto.
  - split; [| tauto]. intros _. destruct (index_of s v 0); eauto.
Qed.

(* inside the contract every configuration computes what the configuration-free specification says *)
Ltac zb_all :=
  repeat (match goal with
  | H : context [?a <? ?b] |- _ => destruct (Z.ltb_spec a b)
  | H : context [?a <=? ?b] |- _ => destruct (Z.leb_spec a b)
  | |- context [?a >=? ?b] => rewrite (Z.geb_leb a b)
  | |- context [?a <? ?b] => destruct (Z.ltb_spec a b)
  | |- context [?a <=? ?b] => destruct (Z.leb_spec a b)
  | |- context [?a =? ?b] => destruct (Z.eqb_spec a b)
  end; simpl in *; try discriminate; try lia).

Lemma array_meets_spec : forall o s s' r c T,
  aspec o s = Some (s', r) -> run aseq Z c (abody o) s T = (s', T, r).
Proof.
  intros o s s' r c T H. pose proof (Zle_0_nat (List.length s)) as Hn. fold (zlen s) in Hn.
  destruct o; simpl in *;
    unfold wrap, cfg_Array_Get_guard, cfg_Array_Get_norm, cfg_Array_Set_guard, cfg_Array_Set_norm,
           cfg_Array_Push_At_guard, cfg_Array_Push_At_norm, cfg_Array_Pop_guard,
           cfg_Array_Pop_At_guard, cfg_Array_Pop_At_norm, item, in_range in *;
    zb_all;
    repeat match type of H with
           | match ?x with _ => _ end = _ => destruct x eqn:?
           end; try discriminate;
    inversion H; subst; clear H;
    zb_all; rewrite ?andb_false_r; simpl;
    repeat match goal with E : nth_error _ _ = _ |- _ => rewrite E end; try reflexivity.
Qed.

(* the specification never crashes *)
Lemma aspec_no_crash : forall o s s' r, aspec o s = Some (s', r) -> is_crash Z r = false.
Proof.
  intros o s s' r H. destruct o; simpl in H;
    repeat match type of H with
    | (if ?b then _ else _) = _ => destruct b
    | match ?x with _ => _ end = _ => destruct x
    end; inversion H; reflexivity.
Qed.

(* histories: a history the specification accepts throughout is computed identically by every build *)
Lemma array_history_meets_spec_gen : forall h s c T,
  all_some (snd (aspec_history h s)) = true ->
  run_history aseq Z aop abody c h s T = (fst (aspec_history h s), T, strip OCrash (snd (aspec_history h s))).
Proof.
  induction h as [| o h IH]; intros s c T Ha; simpl in *.
  - reflexivity.
  - destruct (aspec o s) as [[s' r] |] eqn:E; [| discriminate Ha].
    rewrite (array_meets_spec o s s' r c T E). rewrite (aspec_no_crash o s s' r E).
    specialize (IH s' c T).
    destruct (aspec_history h s') as [s'' rs]. simpl in *.
    rewrite IH by exact Ha. reflexivity.
Qed.

Lemma array_history_meets_spec : forall h s c,
  all_some (snd (aspec_history h s)) = true ->
  arun c h s = (fst (aspec_history h s), strip OCrash (snd (aspec_history h s))).
Proof.
  intros h s c Ha. unfold arun. rewrite (array_history_meets_spec_gen h s c [] Ha). reflexivity.
Qed.

(* and such a history is one on which no guarded test succeeds *)
Lemma array_spec_history_in_contract_gen : forall h s T,
  all_some (snd (aspec_history h s)) = true -> history_fires aseq Z aop abody h s T = false.
Proof.
  induction h as [| o h IH]; intros s T Ha; simpl in *.
  - reflexivity.
  - destruct (aspec o s) as [[s' r] |] eqn:E; [| discriminate Ha].
    assert (Hc : in_contract o s) by (apply aspec_defined; eauto).
    apply (afires_char o s T) in Hc. rewrite Hc.
    rewrite (array_meets_spec o s s' r cfg_default T E). rewrite (aspec_no_crash o s s' r E).
    apply IH. destruct (aspec_history h s') as [s'' rs]. exact Ha.
Qed.

Lemma array_spec_history_in_contract : forall h s,
  all_some (snd (aspec_history h s)) = true -> afires h s = false.
Proof. intros. unfold afires. apply array_spec_history_in_contract_gen. assumption. Qed.

(* the Array API satisfies the three hypotheses of the lifting theorem *)
Lemma array_lift_hypotheses :
  (forall o s T r, types_ok T -> aspec o s = Some r -> fires aseq Z (abody o) s T = false) /\
  (forall o s T s' r, types_ok T -> aspec o s = Some (s', r) ->
     rst aseq Z (run aseq Z cfg_default (abody o) s T) = s' /\ rout aseq Z (run aseq Z cfg_default (abody o) s T) = r) /\
  (forall o s s' r, aspec o s = Some (s', r) -> is_crash Z r = false).
Proof.
  repeat split.
  - intros o s T r _ E. apply afires_char. apply aspec_defined. eauto.
  - rewrite (array_meets_spec o s s' r cfg_default T H0). reflexivity.
  - rewrite (array_meets_spec o s s' r cfg_default T H0). reflexivity.
  - exact aspec_no_crash.
Qed.

Lemma types_ok_nil : types_ok [].
Proof. constructor. Qed.

Theorem array_config_independent : forall h s c1 c2,
  afires h s = false -> arun c1 h s = arun c2 h s.
Proof.
  intros h s c1 c2 H. unfold arun, afires in *.
  destruct (history_indep aseq Z aop abody h s [] c1 c2 types_ok_nil H) as [A B].
  unfold hst, hout in *.
  destruct (run_history aseq Z aop abody c1 h s []) as [[s1 T1] r1].
  destruct (run_history aseq Z aop abody c2 h s []) as [[s2 T2] r2]. simpl in *. subst. reflexivity.
Qed.

(* outside the contract the builds do differ: the hypothesis cannot be dropped *)
Lemma array_out_of_contract_differs :
  exists o s, snd (run aseq Z cfg_default (abody o) s []) = ORaise XIndexOutOfBounds /\
              snd (run aseq Z (cfg_build true false false) (abody o) s []) = OCrash.
Proof. exists (AGet 0), []. split; reflexivity. Qed.

(* the dispatching API: with sound caches, calls on which the METHOD check does not fire give the same
   instances under every configuration; and it does matter: an unsound cache changes the answer *)
Definition two_types : types :=
  [fresh_type [(11, 7); (10, 9)]%nat; fresh_type [(11, 3)]%nat].     (* 11 = Len, 10 = Hash *)

Lemma two_types_ok : types_ok two_types.
Proof. repeat constructor; apply fresh_type_ok. Qed.

Lemma dispatch_example :
  history_fires unit nat dop dbody [DCall 0 11; DCall 0 10; DCall 1 11; DCall 0 11]%nat tt two_types = false /\
  hout unit nat (run_history unit nat dop dbody (cfg_build true true true)
                   [DCall 0 11; DCall 0 10; DCall 1 11; DCall 0 11]%nat tt two_types)
    = [OVal 7; OVal 9; OVal 3; OVal 7]%nat.
Proof. split; vm_compute; reflexivity. Qed.

(* a slot filled with the wrong instance (what a wiring that shares a slot between two classes
   produces) is visible: the soundness hypothesis cannot be dropped either *)
Lemma unsound_cache_differs :
  exists T, same_insts T two_types /\
    rout unit nat (run unit nat cfg_default (dbody (DCall 0 10%nat)) tt T) <>
    rout unit nat (run unit nat (cfg_build false true false) (dbody (DCall 0 10%nat)) tt T).
Proof.
  exists [mkTy (set_slot (repeat None cello_cache_num) 6 (Some 7%nat)) [(11, 7); (10, 9)]%nat;
          fresh_type [(11, 3)]%nat].
  split; [reflexivity |]. vm_compute. discriminate.
Qed.

(* ------------------------------------------------------------------ Part C: audit *)

Lemma switches_from_source : cfg_check_switches = map switch_name all_switches.
Proof. reflexivity. Qed.

Lemma guarded_blocks_audited :
  forallb block_ok cfg_guarded_blocks = true /\
  forallb known_switch cfg_guarded_blocks = true /\
  list_eqb str4_eqb non_test_blocks audited_non_test = true.
Proof. repeat split; vm_compute; reflexivity. Qed.

Lemma pure_calls_audited :
  forallb (fun f => existsb (String.eqb f) audited_pure_calls) cfg_pure_calls = true.
Proof. vm_compute; reflexivity. Qed.

Lemma ngc_cache_sites_audited :
  list_eqb pair_eqb cfg_ngc_blocks audited_ngc_blocks = true /\
  list_eqb String.eqb cfg_cache_files audited_cache_files = true.
Proof. split; vm_compute; reflexivity. Qed.

Lemma bound_guards_audited : list_eqb str3_eqb cfg_bound_guards audited_bound_guards = true.
Proof. vm_compute; reflexivity. Qed.

Lemma cache_wiring_audited :
  nodupb (map fst cfg_cache_wiring) = true /\
  forallb (fun w : nat * nat => andb (Nat.ltb (fst w) cello_cache_num) (Nat.ltb (snd w) (List.length cfg_class_names))) cfg_cache_wiring = true /\
  List.length cfg_cache_wiring = cello_cache_num.
Proof. repeat split; vm_compute; reflexivity. Qed.

Definition b2n (b : bool) : nat := if b then 1%nat else 0%nat.

Lemma header_words_char : forall c,
  header_words c = (1 + b2n (checks c SwAlloc) + b2n (checks c SwMagic))%nat.
Proof.
  intro c. unfold header_words. vm_compute cfg_header_fields. simpl.
  destruct (checks c SwAlloc), (checks c SwMagic); reflexivity.
Qed.

Lemma header_words_builds : forall nocache ngc,
  header_words (cfg_build false nocache ngc) = 3%nat /\ header_words (cfg_build true nocache ngc) = 1%nat.
Proof. intros. rewrite !header_words_char. split; reflexivity. Qed.

(* ------------------------------------------------------------------ Part C2: del and owning destructors *)

Lemma del_agrees_on_objects : forall c1 c2 a, del_model c1 (Some a) = del_model c2 (Some a).
Proof. reflexivity. Qed.

(* del(NULL) is where the builds part: nothing with the collector, ValueError / crash without *)
Lemma del_null_differs :
  del_model cfg_default None = DNothing /\
  del_model (cfg_build false false true) None = DRaise XValueError /\
  del_model (cfg_build true false true) None = DCrash.
Proof. repeat split; reflexivity. Qed.

Lemma guarded_owner_del_agrees : forall c1 c2 x, owner_del true c1 x = owner_del true c2 x.
Proof. intros c1 c2 [a |]; reflexivity. Qed.

(* Box_Del as the source has it *)
Lemma box_del_agrees : forall c1 c2 x, owner_del cfg_box_del_guarded c1 x = owner_del cfg_box_del_guarded c2 x.
Proof. exact guarded_owner_del_agrees. Qed.

(* a container of owners (Array / List / Table / Tree of Box) destroyed element by element *)
Lemma owners_del_agree : forall c1 c2 xs,
  map (owner_del cfg_box_del_guarded c1) xs = map (owner_del cfg_box_del_guarded c2) xs.
Proof. intros c1 c2 xs. apply map_ext. intro x. apply box_del_agrees. Qed.

Lemma unguarded_owner_del_differs :
  owner_del false cfg_default None <> owner_del false (cfg_build false false true) None /\
  owner_del false cfg_default None <> owner_del false (cfg_build true false true) None.
Proof. split; discriminate. Qed.

Lemma del_forwards_audited :
  forallb del_forward_ok cfg_del_forwards = true /\
  list_eqb str4_eqb cfg_del_forwards audited_del_forwards = true.
Proof. split; vm_compute; reflexivity. Qed.

(* ------------------------------------------------------------------ Part D: collector transparency *)
Lemma hget_upd : forall h a o x, hget (upd h a o) x = if Nat.eqb x a then Some o else hget h x.
Proof. reflexivity. Qed.

Inductive reach (h : heap) (rs : roots) : addr -> Prop :=
| reach_root : forall r a, nth_error rs r = Some (Some a) -> reach h rs a
| reach_field : forall a o i b, reach h rs a -> hget h a = Some o -> nth_error (fields o) i = Some b -> reach h rs b.

(* what C01 establishes for the real collector: a collection leaves every reachable object as it is *)
Definition collector_safe (collect : nat -> heap -> roots -> heap) : Prop :=
  forall n h rs a, reach h rs a -> hget (collect n h rs) a = hget h a.

(* h1 (heap of the run with collections) agrees with h2 (heap of the run without) on what h2 can reach *)
Definition agree (h1 h2 : heap) (rs : roots) : Prop := forall a, reach h2 rs a -> hget h1 a = hget h2 a.

Lemma reach_transfer : forall h1 h2 rs a, agree h1 h2 rs -> reach h2 rs a -> reach h1 rs a.
Proof.
  intros h1 h2 rs a Hag H. induction H as [r a Hr | a o i b Ha IH Ho Hi].
  - eapply reach_root; eassumption.
  - eapply reach_field; [exact IH | | exact Hi]. rewrite (Hag a Ha). exact Ho.
Qed.

Lemma deref_from_agree : forall h1 h2 rs is a, agree h1 h2 rs -> reach h2 rs a ->
  deref_from h1 a is = deref_from h2 a is.
Proof.
  induction is as [| i r IH]; intros a Hag Ha; simpl; [reflexivity |].
  rewrite (Hag a Ha). destruct (hget h2 a) as [o |] eqn:Ho; [| reflexivity].
  destruct (nth_error (fields o) i) as [b |] eqn:Hi; [| reflexivity].
  apply IH; [exact Hag | eapply reach_field; eassumption].
Qed.

Lemma deref_agree : forall h1 h2 rs p, agree h1 h2 rs -> deref h1 rs p = deref h2 rs p.
Proof.
  intros h1 h2 rs [r is] Hag. unfold deref; simpl.
  destruct (nth_error rs r) as [[a |] |] eqn:Hr; try reflexivity.
  apply (deref_from_agree h1 h2 rs); [exact Hag | eapply reach_root; exact Hr].
Qed.

Lemma deref_from_reach : forall h rs is a b, reach h rs a -> deref_from h a is = Some b -> reach h rs b.
Proof.
  induction is as [| i r IH]; intros a b Ha H; simpl in H.
  - inversion H; subst; exact Ha.
  - destruct (hget h a) as [o |] eqn:Ho; [| discriminate].
    destruct (nth_error (fields o) i) as [c |] eqn:Hi; [| discriminate].
    eapply IH; [| exact H]. eapply reach_field; eassumption.
Qed.

Lemma deref_reach : forall h rs p b, deref h rs p = Some b -> reach h rs b.
Proof.
  intros h rs [r is] b H. unfold deref in H; simpl in H.
  destruct (nth_error rs r) as [[a |] |] eqn:Hr; try discriminate.
  eapply deref_from_reach; [eapply reach_root; exact Hr | exact H].
Qed.

Lemma deref_all_agree : forall h1 h2 rs ps, agree h1 h2 rs -> deref_all h1 rs ps = deref_all h2 rs ps.
Proof.
  induction ps as [| p r IH]; intros Hag; simpl; [reflexivity |].
  rewrite (deref_agree h1 h2 rs p Hag), (IH Hag). reflexivity.
Qed.

Lemma deref_all_reach : forall h rs ps l, deref_all h rs ps = Some l -> forall b, In b l -> reach h rs b.
Proof.
  induction ps as [| p r IH]; intros l H b Hb; simpl in H.
  - inversion H; subst. contradiction.
  - destruct (deref h rs p) as [a |] eqn:Hp; [| discriminate].
    destruct (deref_all h rs r) as [l' |] eqn:Hr; [| discriminate].
    inversion H; subst. destruct Hb as [Hb | Hb].
    + subst. eapply deref_reach; exact Hp.
    + eapply IH; [reflexivity | exact Hb].
Qed.

Lemma nth_error_set_root : forall rs n v r x, nth_error (set_root rs n v) r = Some x ->
  (r = n /\ x = v) \/ nth_error rs r = Some x.
Proof.
  induction rs as [| y t IH]; intros n v r x H; simpl in H.
  - destruct r; discriminate.
  - destruct n; destruct r; simpl in *.
    + inversion H; subst. left; split; reflexivity.
    + right; exact H.
    + right; exact H.
    + destruct (IH n v r x H) as [[E1 E2] | E]; [left; split; congruence | right; exact E].
Qed.

Lemma nth_error_set_field : forall l n v j c, nth_error (set_field l n v) j = Some c ->
  c = v \/ nth_error l j = Some c.
Proof.
  induction l as [| y t IH]; intros n v j c H; simpl in H.
  - destruct j; discriminate.
  - destruct n; destruct j; simpl in *.
    + inversion H; subst. left; reflexivity.
    + right; exact H.
    + right; exact H.
    + eapply IH; exact H.
Qed.

(* reachability after each kind of update is included in: the updated address, or what was reachable *)
Lemma reach_upd : forall h rs rs' a o,
  (forall r x, nth_error rs' r = Some (Some x) -> x = a \/ reach h rs x) ->
  (forall i b, nth_error (fields o) i = Some b -> reach h rs b) ->
  forall x, reach (upd h a o) rs' x -> x = a \/ reach h rs x.
Proof.
  intros h rs rs' a o Hroots Hfields x H.
  induction H as [r x Hr | x0 o0 i b Hx0 IH Ho0 Hi].
  - eapply Hroots; exact Hr.
  - rewrite hget_upd in Ho0. destruct (Nat.eqb x0 a) eqn:E.
    + inversion Ho0; subst o0. right. eapply Hfields; exact Hi.
    + apply Nat.eqb_neq in E. destruct IH as [IH | IH]; [contradiction |].
      right. eapply reach_field; eassumption.
Qed.

Lemma agree_upd : forall h1 h2 rs rs' a o,
  agree h1 h2 rs ->
  (forall x, reach (upd h2 a o) rs' x -> x = a \/ reach h2 rs x) ->
  agree (upd h1 a o) (upd h2 a o) rs'.
Proof.
  intros h1 h2 rs rs' a o Hag Hsub x Hx. rewrite !hget_upd.
  destruct (Nat.eqb x a) eqn:E; [reflexivity |].
  apply Nat.eqb_neq in E. destruct (Hsub x Hx) as [F | F]; [contradiction | apply Hag; exact F].
Qed.

Lemma reach_roots_only : forall h rs rs',
  (forall r x, nth_error rs' r = Some (Some x) -> reach h rs x) ->
  forall x, reach h rs' x -> reach h rs x.
Proof.
  intros h rs rs' Hroots x H. induction H as [r x Hr | x0 o0 i b Hx0 IH Ho0 Hi].
  - eapply Hroots; exact Hr.
  - eapply reach_field; eassumption.
Qed.

Definition related (s1 s2 : gstate) : Prop :=
  agree (gheap s1) (gheap s2) (groots s2) /\ groots s1 = groots s2 /\ gnext s1 = gnext s2.

Lemma gstep_related : forall o s1 s2, related s1 s2 ->
  snd (gstep s1 o) = snd (gstep s2 o) /\ related (fst (gstep s1 o)) (fst (gstep s2 o)).
Proof.
  intros o [h1 rs1 n1] [h2 rs n] (Hag & Hr & Hn). simpl in *. subst rs1 n1.
  destruct o as [dst v fs | p | p v | p i q | dst p | dst]; simpl.
  - (* GAlloc *)
    rewrite (deref_all_agree h1 h2 rs fs Hag).
    destruct (deref_all h2 rs fs) as [l |] eqn:Hl; simpl.
    + split; [reflexivity |]. repeat split; simpl.
      eapply agree_upd; [exact Hag |].
      apply reach_upd.
      * intros r x Hx. apply nth_error_set_root in Hx. destruct Hx as [[_ E] | E].
        -- inversion E. left; reflexivity.
        -- right. eapply reach_root; exact E.
      * simpl. intros i b Hb. eapply deref_all_reach; [exact Hl | eapply nth_error_In; exact Hb].
    + split; [reflexivity |]. repeat split; assumption.
  - (* GRead *)
    rewrite (deref_agree h1 h2 rs p Hag).
    destruct (deref h2 rs p) as [a |] eqn:Hp; simpl.
    + rewrite (Hag a (deref_reach h2 rs p a Hp)).
      destruct (hget h2 a); simpl; (split; [reflexivity | repeat split; assumption]).
    + split; [reflexivity | repeat split; assumption].
  - (* GWrite *)
    rewrite (deref_agree h1 h2 rs p Hag).
    destruct (deref h2 rs p) as [a |] eqn:Hp; simpl.
    + pose proof (deref_reach h2 rs p a Hp) as Ra. rewrite (Hag a Ra).
      destruct (hget h2 a) as [ob |] eqn:Hob; simpl.
      * split; [reflexivity |]. repeat split; simpl.
        eapply agree_upd; [exact Hag |]. apply reach_upd.
        -- intros r x Hx. right. eapply reach_root; exact Hx.
        -- simpl. intros i b Hb. eapply (reach_field h2 rs a ob); eassumption.
      * split; [reflexivity | repeat split; assumption].
    + split; [reflexivity | repeat split; assumption].
  - (* GSetField *)
    rewrite (deref_agree h1 h2 rs p Hag), (deref_agree h1 h2 rs q Hag).
    destruct (deref h2 rs p) as [a |] eqn:Hp; simpl; [| split; [reflexivity | repeat split; assumption]].
    destruct (deref h2 rs q) as [b |] eqn:Hq; simpl; [| split; [reflexivity | repeat split; assumption]].
    pose proof (deref_reach h2 rs p a Hp) as Ra. pose proof (deref_reach h2 rs q b Hq) as Rb.
    rewrite (Hag a Ra). destruct (hget h2 a) as [ob |] eqn:Hob; simpl.
    + split; [reflexivity |]. repeat split; simpl.
      eapply agree_upd; [exact Hag |]. apply reach_upd.
      * intros r x Hx. right. eapply reach_root; exact Hx.
      * simpl. intros j c Hc. apply nth_error_set_field in Hc. destruct Hc as [E | E].
        -- subst; exact Rb.
        -- eapply (reach_field h2 rs a ob); eassumption.
    + split; [reflexivity | repeat split; assumption].
  - (* GMove *)
    rewrite (deref_agree h1 h2 rs p Hag).
    destruct (deref h2 rs p) as [a |] eqn:Hp; simpl; [| split; [reflexivity | repeat split; assumption]].
    split; [reflexivity |]. repeat split; simpl.
    intros x Hx. apply Hag. eapply reach_roots_only; [| exact Hx].
    intros r y Hy. apply nth_error_set_root in Hy. destruct Hy as [[_ E] | E].
    + inversion E; subst. eapply deref_reach; exact Hp.
    + eapply reach_root; exact E.
  - (* GDrop *)
    split; [reflexivity |]. repeat split; simpl.
    intros x Hx. apply Hag. eapply reach_roots_only; [| exact Hx].
    intros r y Hy. apply nth_error_set_root in Hy. destruct Hy as [[_ E] | E]; [discriminate |].
    eapply reach_root; exact E.
Qed.

Lemma collect_related : forall collect n s1 s2, collector_safe collect -> related s1 s2 ->
  related (mkG (collect n (gheap s1) (groots s1)) (groots s1) (gnext s1)) s2.
Proof.
  intros collect n [h1 rs1 n1] [h2 rs n2] Hsafe (Hag & Hr & Hn). simpl in *. subst rs1 n1.
  repeat split; simpl. intros a Ha.
  rewrite (Hsafe n h1 rs a (reach_transfer h1 h2 rs a Hag Ha)). apply Hag; exact Ha.
Qed.

Lemma related_refl : forall s, related s s.
Proof. intros s. repeat split. Qed.

Lemma grun_related : forall collect ops n1 n2 s1 s2 gc1,
  collector_safe collect -> related s1 s2 ->
  snd (grun gc1 collect n1 ops s1) = snd (grun false collect n2 ops s2) /\
  related (fst (grun gc1 collect n1 ops s1)) (fst (grun false collect n2 ops s2)).
Proof.
  induction ops as [| o r IH]; intros n1 n2 s1 s2 gc1 Hsafe Hrel; simpl.
  - split; [reflexivity | exact Hrel].
  - set (s0 := if gc1 then mkG (collect n1 (gheap s1) (groots s1)) (groots s1) (gnext s1) else s1).
    assert (Hrel0 : related s0 s2).
    { unfold s0. destruct gc1; [apply collect_related; assumption | exact Hrel]. }
    destruct (gstep_related o s0 s2 Hrel0) as [Ho Hs].
    destruct (gstep s0 o) as [s1' o1]. destruct (gstep s2 o) as [s2' o2]. simpl in Ho, Hs. subst o2.
    destruct (IH (S n1) (S n2) s1' s2' gc1 Hsafe Hs) as [A B].
    destruct (grun gc1 collect (S n1) r s1') as [s1'' outs1].
    destruct (grun false collect (S n2) r s2') as [s2'' outs2]. simpl in *.
    split; [congruence | exact B].
Qed.

(* collector transparency: with a collector that leaves reachable objects alone, a program that reaches
   objects only through its registers observes the same values whether the collector is compiled in or
   not, whatever the collection schedule *)
Theorem gc_transparent : forall collect ops s gc,
  collector_safe collect ->
  snd (grun gc collect 0 ops s) = snd (grun false collect 0 ops s).
Proof.
  intros collect ops s gc Hsafe.
  destruct (grun_related collect ops 0 0 s s gc Hsafe (related_refl s)) as [A _]. exact A.
Qed.

(* the concrete sweep is safe: whatever is reachable is in a register or pointed to by a heap entry *)
Lemma hget_In : forall h a o, hget h a = Some o -> In (a, o) h.
Proof.
  induction h as [| [x ob] t IH]; simpl; intros a o H; [discriminate |].
  destruct (Nat.eqb a x) eqn:E.
  - apply Nat.eqb_eq in E. inversion H; subst. left; reflexivity.
  - right. apply IH; exact H.
Qed.

Lemma hget_filter : forall (P : addr -> bool) h a, P a = true ->
  hget (filter (fun e : addr * gobj => P (fst e)) h) a = hget h a.
Proof.
  induction h as [| [x ob] t IH]; simpl; intros a Ha; [reflexivity |].
  destruct (P x) eqn:Px; simpl.
  - destruct (Nat.eqb a x); [reflexivity | apply IH; exact Ha].
  - destruct (Nat.eqb a x) eqn:E; [| apply IH; exact Ha].
    apply Nat.eqb_eq in E. subst. rewrite Ha in Px. discriminate.
Qed.

Lemma reach_rooted_or_pointed : forall h rs a, reach h rs a -> is_root rs a || pointed h a = true.
Proof.
  intros h rs a H. destruct H as [r a Hr | a0 o i b _ Ho Hi].
  - apply orb_true_iff. left. unfold is_root. apply existsb_exists.
    exists (Some a). split; [eapply nth_error_In; exact Hr | apply Nat.eqb_refl].
  - apply orb_true_iff. right. unfold pointed. apply existsb_exists.
    exists (a0, o). split; [apply hget_In; exact Ho |]. simpl.
    apply existsb_exists. exists b. split; [eapply nth_error_In; exact Hi | apply Nat.eqb_refl].
Qed.

Lemma sweep_unreferenced_safe : collector_safe (fun _ => sweep_unreferenced).
Proof.
  intros n h rs a Ha. unfold sweep_unreferenced.
  apply (hget_filter (fun x => is_root rs x || pointed h x)). apply reach_rooted_or_pointed; exact Ha.
Qed.

Theorem gc_config_independent : forall collect ops s c1 c2,
  collector_safe collect ->
  snd (grun_cfg c1 collect 0%nat ops s) = snd (grun_cfg c2 collect 0%nat ops s).
Proof.
  intros collect ops s c1 c2 Hsafe. unfold grun_cfg.
  rewrite (gc_transparent collect ops s (gc c1) Hsafe), (gc_transparent collect ops s (gc c2) Hsafe). reflexivity.
Qed.

Definition g_empty : gstate := mkG [] [None; None; None] 0%nat.

Lemma identity_collector_safe : collector_safe (fun _ h _ => h).
Proof. intros n h rs a _. reflexivity. Qed.

(* a collector that frees a reachable object is visible: the safety hypothesis cannot be dropped *)
Lemma unsafe_collector_differs :
  exists collect ops,
    snd (grun true collect 0%nat ops g_empty) <> snd (grun false collect 0%nat ops g_empty).
Proof.
  exists (fun _ _ _ => []), [GAlloc 0%nat 5%Z []; GRead (0%nat, [])].
  vm_compute. discriminate.
Qed.
