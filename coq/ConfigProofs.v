(* ConfigProofs.v — proofs about coq/Config.v (property C18).
   Part A: the abstract interpreter — an execution on which no switch-guarded test succeeds is
           independent of the configuration record (generic in state, values, API and history).
   Part B: the sequence API of Array.c — contract characterised arithmetically, every configuration
           meets the configuration-free specification inside the contract, configurations differ outside.
   Part C: audit of the source facts re-extracted by tools/genx_cfg.py. *)
From Coq Require Import List Arith Bool ZArith String Lia.
From CelloV Require Import Generated Config.
Import ListNotations.
Local Open Scope Z_scope.

(* ------------------------------------------------------------------ Part A *)
Section InterpProofs.
  Variables St Val : Type.
  Notation prog := (prog St Val).
  Notation run := (run St Val).
  Notation fires := (fires St Val).

  Lemma run_indep : forall (p : prog) s c1 c2,
    fires p s = false -> run c1 p s = run c2 p s.
  Proof.
    induction p as [o | k IH | s' k IH | sw b e k IH]; intros s c1 c2 Hf; simpl in *.
    - reflexivity.
    - apply IH; exact Hf.
    - apply IH; exact Hf.
    - destruct b; [discriminate Hf |].
      rewrite !andb_false_r. apply IH; exact Hf.
  Qed.

  Definition all_on (c : config) : Prop := forall sw, checks c sw = true.

  Lemma default_all_on : all_on cfg_default.
  Proof. intro sw; reflexivity. Qed.

  (* a guarded test that succeeds makes the all-checks build raise *)
  Lemma fires_raises : forall (p : prog) s c,
    all_on c -> fires p s = true -> is_raise Val (snd (run c p s)) = true.
  Proof.
    induction p as [o | k IH | s' k IH | sw b e k IH]; intros s c Hc Hf; simpl in *.
    - discriminate.
    - apply IH; assumption.
    - apply IH; assumption.
    - rewrite Hc. destruct b; simpl.
      + reflexivity.
      + apply IH; assumption.
  Qed.

  Lemma no_raise_no_fire : forall (p : prog) s c,
    all_on c -> is_raise Val (snd (run c p s)) = false -> fires p s = false.
  Proof.
    intros p s c Hc Hr. destruct (fires p s) eqn:Hf; [| reflexivity].
    rewrite (fires_raises p s c Hc Hf) in Hr. discriminate.
  Qed.

  (* the property's wording for one call: no error path under the default build ⇒ every build agrees *)
  Lemma run_indep_no_raise : forall (p : prog) s c,
    is_raise Val (snd (run cfg_default p s)) = false -> run c p s = run cfg_default p s.
  Proof.
    intros p s c Hr. apply run_indep. eapply no_raise_no_fire; [apply default_all_on | exact Hr].
  Qed.

  (* a run only ever consults `checks`: the cache and collector fields are not read by the interpreter
     (their transparency is the subject of C08 and C01, not of this model) *)
  Lemma run_checks_only : forall (p : prog) s c1 c2,
    (forall sw, checks c1 sw = checks c2 sw) -> run c1 p s = run c2 p s.
  Proof.
    induction p as [o | k IH | s' k IH | sw b e k IH]; intros s c1 c2 Hc; simpl.
    - reflexivity.
    - apply IH; exact Hc.
    - apply IH; exact Hc.
    - rewrite Hc. destruct (checks c2 sw && b); [reflexivity | apply IH; exact Hc].
  Qed.

  Section HistoryProofs.
    Variable Op : Type.
    Variable body : Op -> prog.
    Notation run_history := (run_history St Val Op body).
    Notation history_fires := (history_fires St Val Op body).
    Notation no_error_path := (no_error_path St Val Op body).

    Lemma history_indep : forall h s c1 c2,
      history_fires h s = false -> run_history c1 h s = run_history c2 h s.
    Proof.
      induction h as [| o h IH]; intros s c1 c2 Hf; simpl in *.
      - reflexivity.
      - destruct (fires (body o) s) eqn:Ho; [discriminate Hf |].
        rewrite (run_indep (body o) s c1 cfg_default Ho).
        rewrite (run_indep (body o) s c2 cfg_default Ho).
        destruct (run cfg_default (body o) s) as [s' r].
        destruct (is_crash Val r); [reflexivity |].
        rewrite (IH s' c1 c2 Hf). reflexivity.
    Qed.

    Lemma no_error_path_no_fire : forall h s,
      no_error_path h s = true -> history_fires h s = false.
    Proof.
      unfold Config.no_error_path.
      induction h as [| o h IH]; intros s Hn; simpl in *.
      - reflexivity.
      - destruct (fires (body o) s) eqn:Ho.
        + pose proof (fires_raises (body o) s cfg_default default_all_on Ho) as Hr.
          destruct (run cfg_default (body o) s) as [s' r]. simpl in Hr.
          destruct (is_crash Val r).
          * simpl in Hn. rewrite Hr in Hn. discriminate.
          * destruct (run_history cfg_default h s') as [s'' rs]. simpl in Hn.
            rewrite Hr in Hn. discriminate.
        + destruct (run cfg_default (body o) s) as [s' r].
          destruct (is_crash Val r) eqn:Hc; [reflexivity |].
          apply IH.
          destruct (run_history cfg_default h s') as [s'' rs]. simpl in Hn |- *.
          apply andb_prop in Hn. tauto.
    Qed.

    Theorem history_config_independent : forall h s c1 c2,
      no_error_path h s = true -> run_history c1 h s = run_history c2 h s.
    Proof. intros. apply history_indep, no_error_path_no_fire; assumption. Qed.
  End HistoryProofs.
End InterpProofs.

(* ------------------------------------------------------------------ Part B: Array *)

Lemma nth_error_in_range : forall (s : aseq) (j : Z),
  0 <= j < zlen s -> exists v, nth_error s (Z.to_nat j) = Some v.
Proof.
  intros s j Hj. unfold zlen in Hj.
  destruct (nth_error s (Z.to_nat j)) eqn:E; [eauto |].
  apply nth_error_None in E. lia.
Qed.

Definition in_contract (o : aop) (s : aseq) : Prop :=
  let n := zlen s in
  match o with
  | AGet i | ASet i _ | APopAt i => - n <= i < n
  | APushAt _ i => - (n + 1) <= i < n + 1
  | APop => 0 < n
  | APush _ | ALen | AMem _ | ARem _ => True
  end.

Ltac zb :=
  repeat match goal with
  | |- context [?a <? ?b] => destruct (Z.ltb_spec a b)
  | |- context [?a <=? ?b] => destruct (Z.leb_spec a b)
  | |- context [?a >=? ?b] => rewrite (Z.geb_leb a b)
  | |- context [?a =? ?b] => destruct (Z.eqb_spec a b)
  end.

(* the contract, arithmetically: a guarded test of the body succeeds exactly outside it *)
Lemma afires_char : forall o s, fires aseq Z (abody o) s = false <-> in_contract o s.
Proof.
  intros o s. pose proof (Zle_0_nat (List.length s)) as Hn. fold (zlen s) in Hn.
  destruct o; simpl;
    unfold cfg_Array_Get_guard, cfg_Array_Get_norm, cfg_Array_Set_guard, cfg_Array_Set_norm,
           cfg_Array_Push_At_guard, cfg_Array_Push_At_norm, cfg_Array_Pop_guard,
           cfg_Array_Pop_At_guard, cfg_Array_Pop_At_norm;
    try tauto.
  - (* AGet *)
    destruct (item s _); zb; simpl; split; intros; try discriminate; try lia; try reflexivity.
  - (* ASet *)
    destruct (in_range _ _); zb; simpl; split; intros; try discriminate; try lia; try reflexivity.
  - (* APushAt *)
    destruct (in_range _ _); zb; simpl; split; intros; try discriminate; try lia; try reflexivity.
  - (* APop *)
    zb; simpl; split; intros; try discriminate; try lia; try reflexivity.
  - (* APopAt *)
    destruct (in_range _ _); zb; simpl; split; intros; try discriminate; try lia; try reflexivity.
  - (* ARem *) destruct (index_of s v 0); simpl; tauto.
Qed.

(* the specification is defined exactly on the contract *)
Lemma aspec_defined : forall o s, in_contract o s <-> exists r, aspec o s = Some r.
Proof.
  intros o s. pose proof (Zle_0_nat (List.length s)) as Hn. fold (zlen s) in Hn.
  destruct o; simpl; unfold wrap.
  - (* AGet *)
    split.
    + intros H. destruct (Z.leb_spec (- zlen s) i); [| lia]. destruct (Z.ltb_spec i (zlen s)); [| lia]. simpl.
      destruct (nth_error_in_range s (if i <? 0 then zlen s + i else i)) as [v Hv].
      { destruct (Z.ltb_spec i 0); lia. }
      rewrite Hv. eauto.
    + intros [r H]. destruct (Z.leb_spec (- zlen s) i); destruct (Z.ltb_spec i (zlen s)); simpl in H;
        try discriminate; lia.
  - split.
    + intros H. destruct (Z.leb_spec (- zlen s) i); [| lia]. destruct (Z.ltb_spec i (zlen s)); [| lia]. simpl. eauto.
    + intros [r H]. destruct (Z.leb_spec (- zlen s) i); destruct (Z.ltb_spec i (zlen s)); simpl in H;
        try discriminate; lia.
  - split; eauto.
  - split.
    + intros H. destruct (Z.leb_spec (- (zlen s + 1)) i); [| lia]. destruct (Z.ltb_spec i (zlen s + 1)); [| lia]. simpl. eauto.
    + intros [r H]. destruct (Z.leb_spec (- (zlen s + 1)) i); destruct (Z.ltb_spec i (zlen s + 1)); simpl in H;
        try discriminate; lia.
  - split.
    + intros H. destruct (Z.ltb_spec 0 (zlen s)); [| lia]. eauto.
    + intros [r H]. destruct (Z.ltb_spec 0 (zlen s)); [lia | discriminate].
  - split.
    + intros H. destruct (Z.leb_spec (- zlen s) i); [| lia]. destruct (Z.ltb_spec i (zlen s)); [| lia]. simpl. eauto.
    + intros [r H]. destruct (Z.leb_spec (- zlen s) i); destruct (Z.ltb_spec i (zlen s)); simpl in H;
        try discriminate; lia.
  - split; eauto.
  - split; eauto.
  - split; [| tauto]. intros _. destruct (index_of s v 0); eauto.
Qed.

(* inside the contract every configuration computes what the configuration-free specification says *)
Ltac zb_all :=
  repeat (match goal with
  | H : context [?a <? ?b] |- _ => destruct (Z.ltb_spec a b)
  | H : context [?a <=? ?b] |- _ => destruct (Z.leb_spec a b)
  | |- context [?a >=? ?b] => rewrite (Z.geb_leb a b)
  | |- context [?a <? ?b] => destruct (Z.ltb_spec a b)
  | |- context [?a <=? ?b] => destruct (Z.leb_spec a b)
  | |- context [?a =? ?b] => destruct (Z.eqb_spec a b)
  end; simpl in *; try discriminate; try lia).

Lemma array_meets_spec : forall o s s' r c,
  aspec o s = Some (s', r) -> run aseq Z c (abody o) s = (s', r).
Proof.
  intros o s s' r c H. pose proof (Zle_0_nat (List.length s)) as Hn. fold (zlen s) in Hn.
  destruct o; simpl in *;
    unfold wrap, cfg_Array_Get_guard, cfg_Array_Get_norm, cfg_Array_Set_guard, cfg_Array_Set_norm,
           cfg_Array_Push_At_guard, cfg_Array_Push_At_norm, cfg_Array_Pop_guard,
           cfg_Array_Pop_At_guard, cfg_Array_Pop_At_norm, item, in_range in *;
    zb_all;
    repeat match type of H with
           | match ?x with _ => _ end = _ => destruct x eqn:?
           end; try discriminate;
    inversion H; subst; clear H;
    zb_all; rewrite ?andb_false_r; simpl;
    repeat match goal with E : nth_error _ _ = _ |- _ => rewrite E end; try reflexivity.
Qed.

(* the specification never crashes *)
Lemma aspec_no_crash : forall o s s' r, aspec o s = Some (s', r) -> is_crash Z r = false.
Proof.
  intros o s s' r H. destruct o; simpl in H;
    repeat match type of H with
    | (if ?b then _ else _) = _ => destruct b
    | match ?x with _ => _ end = _ => destruct x
    end; inversion H; reflexivity.
Qed.

Definition all_some {A} (l : list (option A)) : bool := forallb (fun x => match x with Some _ => true | None => false end) l.
Definition strip {A} (d : A) (l : list (option A)) : list A := map (fun x => match x with Some a => a | None => d end) l.

(* histories: a history the specification accepts throughout is computed identically by every build *)
Lemma array_history_meets_spec : forall h s c,
  all_some (snd (aspec_history h s)) = true ->
  arun c h s = (fst (aspec_history h s), strip OCrash (snd (aspec_history h s))).
Proof.
  unfold arun. induction h as [| o h IH]; intros s c Ha; simpl in *.
  - reflexivity.
  - destruct (aspec o s) as [[s' r] |] eqn:E; [| discriminate Ha].
    rewrite (array_meets_spec o s s' r c E). rewrite (aspec_no_crash o s s' r E).
    specialize (IH s' c).
    destruct (aspec_history h s') as [s'' rs]. simpl in *.
    rewrite IH by exact Ha. reflexivity.
Qed.

(* and such a history is one on which no guarded test succeeds *)
Lemma array_spec_history_in_contract : forall h s,
  all_some (snd (aspec_history h s)) = true -> afires h s = false.
Proof.
  unfold afires. induction h as [| o h IH]; intros s Ha; simpl in *.
  - reflexivity.
  - destruct (aspec o s) as [[s' r] |] eqn:E; [| discriminate Ha].
    assert (Hc : in_contract o s) by (apply aspec_defined; eauto).
    apply afires_char in Hc. rewrite Hc.
    rewrite (array_meets_spec o s s' r cfg_default E). rewrite (aspec_no_crash o s s' r E).
    apply IH. destruct (aspec_history h s') as [s'' rs]. exact Ha.
Qed.

Theorem array_config_independent : forall h s c1 c2,
  afires h s = false -> arun c1 h s = arun c2 h s.
Proof. intros. unfold arun. apply history_indep. exact H. Qed.

(* outside the contract the builds do differ: the hypothesis cannot be dropped *)
Lemma array_out_of_contract_differs :
  exists o s, snd (run aseq Z cfg_default (abody o) s) = ORaise XIndexOutOfBounds /\
              snd (run aseq Z (cfg_build true false false) (abody o) s) = OCrash.
Proof. exists (AGet 0), []. split; reflexivity. Qed.

(* ------------------------------------------------------------------ Part C: audit *)

Lemma switches_from_source : cfg_check_switches = map switch_name all_switches.
Proof. reflexivity. Qed.

Lemma guarded_blocks_audited :
  forallb block_ok cfg_guarded_blocks = true /\
  forallb known_switch cfg_guarded_blocks = true /\
  list_eqb str4_eqb non_test_blocks audited_non_test = true.
Proof. repeat split; vm_compute; reflexivity. Qed.

Lemma pure_calls_audited :
  forallb (fun f => existsb (String.eqb f) audited_pure_calls) cfg_pure_calls = true.
Proof. vm_compute; reflexivity. Qed.

Lemma ngc_cache_sites_audited :
  list_eqb pair_eqb cfg_ngc_blocks audited_ngc_blocks = true /\
  list_eqb pair_eqb cfg_cache_uses audited_cache_uses = true.
Proof. split; vm_compute; reflexivity. Qed.

Definition b2n (b : bool) : nat := if b then 1%nat else 0%nat.

Lemma header_words_char : forall c,
  header_words c = (1 + b2n (checks c SwAlloc) + b2n (checks c SwMagic))%nat.
Proof.
  intro c. unfold header_words. vm_compute cfg_header_fields. simpl.
  destruct (checks c SwAlloc), (checks c SwMagic); reflexivity.
Qed.

Lemma header_words_builds : forall nocache ngc,
  header_words (cfg_build false nocache ngc) = 3%nat /\ header_words (cfg_build true nocache ngc) = 1%nat.
Proof. intros. rewrite !header_words_char. split; reflexivity. Qed.
