(* RBTree.v — executable model of src/Tree.c (red-black ordered map) and the ordered
   association-list specification it is proved to refine (RBProofs*.v, Properties_C03.v).
   MODEL ONLY (no proofs here).

   Representation.  A node is `T colour left key val right` (T for tree node; `N` is taken by
   the binary naturals); NULL is `E`.  Parent pointers are not represented: every place where the C code walks a parent link is modelled with a
   zipper (`path` = list of frames, innermost first).  The colour bit that the C code keeps
   in the low bit of the parent pointer is the `colour` field.

   Orientation (as in the C code): c = cmp(node_key, key); c < 0 (node key smaller) goes
   LEFT.  Larger keys are on the left, in-order traversal (left, node, right) is DESCENDING.

   Loops.  The descent loops recurse on the tree, the fix-up loops (Tree_Set_Fix,
   Tree_Rem_Fix) and the climbing loops of Tree_Iter_Next/Prev recurse on the path — Coq's
   termination check accepts them, so they need no fuel.  The only loop on fuel is the
   caller's `foreach` (iter_loop): fuel = nitems + 1, `Fuel` = exhausted (excluded by theorem).
   `Crash` = the C code would dereference NULL there. *)
From Coq Require Import List Arith Bool ZArith.
Import ListNotations.

Inductive color := Red | Black.
Inductive texn := TKeyError | TFormatError.

Inductive res (A : Type) :=
| Ok (a : A)
| Crash            (* the C code would dereference NULL *)
| Fuel.            (* iteration loop out of fuel *)
Arguments Ok {A} a.
Arguments Crash {A}.
Arguments Fuel {A}.

Definition rbind {A B} (x : res A) (f : A -> res B) : res B :=
  match x with Ok a => f a | Crash => Crash | Fuel => Fuel end.
Definition rmap {A B} (f : A -> B) (x : res A) : res B := rbind x (fun a => Ok (f a)).

Section RB.
  Variables K V : Type.
  Variable cmp : K -> K -> comparison.   (* cmp a b = Lt / Eq / Gt  <->  C cmp(a,b) < 0 / == 0 / > 0 *)
  (* donor choice of Tree_Rem for a node with two children, read from the source (Generated.v):
     use_succ (predecessor is black) (successor is red) = true  -> the in-order SUCCESSOR refills the node,
     otherwise the in-order predecessor.  The pinned tree always takes the predecessor (fun _ _ => false);
     every theorem is proved for ALL such functions. *)
  Variable use_succ : bool -> bool -> bool.

  Inductive tree := E | T (c : color) (l : tree) (k : K) (v : V) (r : tree).

  Inductive dir := DL | DR.              (* the focus is the left / right child of the frame's node *)
  Inductive frame := F (d : dir) (c : color) (k : K) (v : V) (sib : tree).
  Definition path := list frame.         (* innermost frame first *)

  Definition fill (f : frame) (t : tree) : tree :=
    match f with
    | F DL c k v s => T c t k v s
    | F DR c k v s => T c s k v t
    end.

  Fixpoint plug (t : tree) (p : path) : tree :=
    match p with [] => t | f :: p' => plug (fill f t) p' end.

  Definition color_of (t : tree) : color :=          (* Tree_Get_Color: NULL is black *)
    match t with T c _ _ _ _ => c | E => Black end.
  Definition is_red (t : tree) : bool := match color_of t with Red => true | Black => false end.
  Definition is_black (t : tree) : bool := negb (is_red t).
  Definition blacken (t : tree) : tree :=
    match t with E => E | T _ l k v r => T Black l k v r end.
  Definition cblack (c : color) : bool := match c with Black => true | Red => false end.

  (* ---------------------------------------------------------------- Tree_Get / Tree_Mem *)
  Fixpoint lookup (t : tree) (k : K) : option V :=
    match t with
    | E => None
    | T _ l k' v r =>
        match cmp k' k with
        | Eq => Some v
        | Lt => lookup l k            (* c < 0 ? left : right *)
        | Gt => lookup r k
        end
    end.

  (* the same descent remembering the way (used by Tree_Set and Tree_Rem) *)
  Fixpoint descend (t : tree) (k : K) (p : path) : tree * path :=
    match t with
    | E => (E, p)
    | T c l k' v r =>
        match cmp k' k with
        | Eq => (t, p)
        | Lt => descend l k (F DL c k' v r :: p)
        | Gt => descend r k (F DR c k' v l :: p)
        end
    end.

  (* ---------------------------------------------------------------- Tree_Set_Fix
     focus t (the node `node`), path p.  Cases in the order of the C code:
       parent NULL            -> node black, done
       parent black           -> done
       uncle red              -> parent, uncle black, grandparent red, continue at grandparent
       inner child            -> rotate the parent (node := old parent), then as outer child
       outer child            -> parent black, grandparent red, rotate the grandparent
     A red parent without grandparent makes the C code read *Tree_Left(NULL): Crash. *)
  Fixpoint set_fix (t : tree) (p : path) : res tree :=
    match p with
    | [] => Ok (blacken t)
    | F _ Black _ _ _ :: _ => Ok (plug t p)
    | F _ Red _ _ _ :: [] => Crash
    | F d Red pk pv s :: F d2 gc gk gv u :: p2 =>
        if is_red u
        then set_fix (fill (F d2 Red gk gv (blacken u)) (fill (F d Black pk pv s) t)) p2
        else
          match t with
          | E => Crash
          | T _ tl tk tv tr =>
              match d2, d with
              | DL, DL => Ok (plug (T Black t pk pv (T Red s gk gv u)) p2)
              | DL, DR => Ok (plug (T Black (T Red s pk pv tl) tk tv (T Red tr gk gv u)) p2)
              | DR, DL => Ok (plug (T Black (T Red u gk gv tl) tk tv (T Red tr pk pv s)) p2)
              | DR, DR => Ok (plug (T Black (T Red u gk gv s) pk pv t) p2)
              end
          end
    end.

  (* ---------------------------------------------------------------- Tree_Set *)
  Definition set_root (t : tree) (k : K) (v : V) : res (tree * bool) :=   (* bool: a node was added *)
    match descend t k [] with
    | (T c l _ _ r, p) => Ok (plug (T c l k v r) p, false)      (* c is 0: assign key and value *)
    | (E, p) => rmap (fun r => (r, true)) (set_fix (T Red E k v E) p)   (* Tree_Alloc: red leaf *)
    end.

  (* ---------------------------------------------------------------- Tree_Rem_Fix
     focus t = the subtree standing where `node` is (Tree_Rem_Fix never looks at node's own
     colour or children, so the model already puts the child there), parent frame first.

     rem_finish = the loop body after the red-sibling step and after the "all black, climb"
     test:  (3) red parent, black sibling, black nephews -> recolour;
            (4) black sibling, near nephew red, far nephew black -> rotate the sibling;
            (5) sibling takes the parent's colour, parent black, far nephew black, rotate parent.
     NULL sibling or NULL far nephew: the C code dereferences NULL (Crash). *)
  Definition rem_finish (t : tree) (d : dir) (pc : color) (pk : K) (pv : V) (s : tree) : res tree :=
    match s with
    | E => Crash
    | T sc sl sk sv sr =>
        if negb (cblack pc) && cblack sc && is_black sl && is_black sr
        then Ok (fill (F d Black pk pv (T Red sl sk sv sr)) t)
        else
          let s' :=
            match sc, d with
            | Black, DL =>
                if is_red sl && is_black sr
                then match sl with
                     | T _ a x y b => T Black a x y (T Red b sk sv sr)    (* Tree_Rotate_Right(sibling) *)
                     | E => s
                     end
                else s
            | Black, DR =>
                if is_red sr && is_black sl
                then match sr with
                     | T _ a x y b => T Black (T Red sl sk sv a) x y b    (* Tree_Rotate_Left(sibling) *)
                     | E => s
                     end
                else s
            | Red, _ => s
            end in
          match s' with
          | E => Crash
          | T _ sl' sk' sv' sr' =>
              match d with
              | DL => match sr' with
                      | E => Crash                                         (* Tree_Set_Black(NULL) *)
                      | T _ a x y b => Ok (T pc (T Black t pk pv sl') sk' sv' (T Black a x y b))
                      end
              | DR => match sl' with
                      | E => Crash
                      | T _ a x y b => Ok (T pc (T Black a x y b) sk' sv' (T Black sr' pk pv t))
                      end
              end
          end
    end.

  Fixpoint rem_fix (t : tree) (p : path) : res tree :=
    match p with
    | [] => Ok t                                             (* parent NULL: return *)
    | F d pc pk pv s :: p' =>
        match s with
        | E => Crash                                         (* *Tree_Left(NULL sibling) *)
        | T Red sl sk sv sr =>
            (* (1) red sibling: parent red, sibling black, rotate the parent towards node;
               the parent is now red, so test (2) fails and the body finishes *)
            match d with
            | DL => rmap (fun r => plug r (F DL Black sk sv sr :: p')) (rem_finish t DL Red pk pv sl)
            | DR => rmap (fun r => plug r (F DR Black sk sv sl :: p')) (rem_finish t DR Red pk pv sr)
            end
        | T Black sl sk sv sr =>
            if cblack pc && is_black sl && is_black sr
            then (* (2) everything black: sibling red, continue at the parent *)
              rem_fix (fill (F d Black pk pv (T Red sl sk sv sr)) t) p'
            else rmap (fun r => plug r p') (rem_finish t d pc pk pv s)
        end
    end.

  (* ---------------------------------------------------------------- Tree_Maximum *)
  Fixpoint max_node (t : tree) (p : path) : tree * path :=
    match t with
    | E => (E, p)
    | T c l k v r =>
        match r with
        | E => (t, p)
        | T _ _ _ _ _ => max_node r (F DR c k v l :: p)
        end
    end.

  Fixpoint max_kv (t : tree) : option (K * V) :=
    match t with
    | E => None
    | T _ _ k v r => match r with E => Some (k, v) | T _ _ _ _ _ => max_kv r end
    end.

  (* ---------------------------------------------------------------- Tree_Minimum (mirror image) *)
  Fixpoint min_node (t : tree) (p : path) : tree * path :=
    match t with
    | E => (E, p)
    | T c l k v r =>
        match l with
        | E => (t, p)
        | T _ _ _ _ _ => min_node l (F DL c k v r :: p)
        end
    end.

  Fixpoint min_kv (t : tree) : option (K * V) :=
    match t with
    | E => None
    | T _ l k v _ => match l with E => Some (k, v) | T _ _ _ _ _ => min_kv l end
    end.

  (* ---------------------------------------------------------------- Tree_Rem, after the search.
     rem_splice: `node` (colour nc, at most one child chld, way p1) is taken out:
       if (Tree_Is_Black(node)) { node takes chld's colour; Tree_Rem_Fix(node); }
       Tree_Replace(node, chld);  a new root is made black *)
  Definition rem_splice (nc : color) (chld : tree) (p1 : path) : res tree :=
    let r := match nc with
             | Black => rem_fix chld p1
             | Red => Ok (plug chld p1)
             end in
    match p1 with [] => rmap blacken r | _ :: _ => r end.

  Definition rem_node (node : tree) (p1 : path) : res tree :=
    match node with
    | E => Crash
    | T nc nl _ _ nr => rem_splice nc (match nr with E => nl | T _ _ _ _ _ => nr end) p1
    end.

  (* two children: the key and value of an in-order neighbour (the donor) are copied into the node
     (memcpy; the node keeps its colour) and the donor is taken out instead.
     rem_pred: donor = Tree_Maximum(left subtree);  rem_succ: donor = Tree_Minimum(right subtree) *)
  Definition rem_pred (xc : color) (xl xr : tree) (p : path) : res tree :=
    match max_kv xl with
    | Some (pk, pv) => let '(node, p1) := max_node xl (F DL xc pk pv xr :: p) in rem_node node p1
    | None => Crash
    end.

  Definition rem_succ (xc : color) (xl xr : tree) (p : path) : res tree :=
    match min_kv xr with
    | Some (sk, sv) => let '(node, p1) := min_node xr (F DR xc sk sv xl :: p) in rem_node node p1
    | None => Crash
    end.

  Definition donor_is_succ (xl xr : tree) : bool :=
    use_succ (is_black (fst (max_node xl []))) (is_red (fst (min_node xr []))).

  (* x = the node found, p = the way to it *)
  Definition rem_at (x : tree) (p : path) : res tree :=
    match x with
    | E => Crash
    | T xc xl xk xv xr =>
        match xl, xr with
        | T _ _ _ _ _, T _ _ _ _ _ =>
            if donor_is_succ xl xr then rem_succ xc xl xr p else rem_pred xc xl xr p
        | _, _ => rem_node x p
        end
    end.

  (* ---------------------------------------------------------------- iteration
     a position is a node together with the way to it *)
  Definition pos := (tree * path)%type.

  Fixpoint leftmost (t : tree) (p : path) : pos :=
    match t with
    | E => (E, p)
    | T c l k v r => match l with E => (t, p) | T _ _ _ _ _ => leftmost l (F DL c k v r :: p) end
    end.

  Fixpoint rightmost (t : tree) (p : path) : pos :=
    match t with
    | E => (E, p)
    | T c l k v r => match r with E => (t, p) | T _ _ _ _ _ => rightmost r (F DR c k v l :: p) end
    end.

  (* Tree_Iter_Next's while(true): parent NULL -> Terminal; coming from the left -> the parent;
     coming from the right -> climb *)
  Fixpoint climb_next (t : tree) (p : path) : option pos :=
    match p with
    | [] => None
    | F DL c k v s :: p' => Some (T c t k v s, p')
    | F DR c k v s :: p' => climb_next (T c s k v t) p'
    end.

  Fixpoint climb_prev (t : tree) (p : path) : option pos :=
    match p with
    | [] => None
    | F DR c k v s :: p' => Some (T c s k v t, p')
    | F DL c k v s :: p' => climb_prev (T c t k v s) p'
    end.

  Definition iter_next (ps : pos) : res (option pos) :=
    match ps with
    | (E, _) => Crash
    | (T c l k v r as t, p) =>
        match r with
        | E => Ok (climb_next t p)
        | T _ _ _ _ _ => Ok (Some (leftmost r (F DR c k v l :: p)))
        end
    end.

  Definition iter_prev (ps : pos) : res (option pos) :=
    match ps with
    | (E, _) => Crash
    | (T c l k v r as t, p) =>
        match l with
        | E => Ok (climb_prev t p)
        | T _ _ _ _ _ => Ok (Some (rightmost l (F DL c k v r :: p)))
        end
    end.

  Record rbt := mkT { root : tree; nitems : nat }.

  Definition iter_init (t : rbt) : res (option pos) :=
    match nitems t with
    | 0 => Ok None
    | S _ => match root t with E => Crash | T _ _ _ _ _ => Ok (Some (leftmost (root t) [])) end
    end.

  Definition iter_last (t : rbt) : res (option pos) :=
    match nitems t with
    | 0 => Ok None
    | S _ => match root t with E => Crash | T _ _ _ _ _ => Ok (Some (rightmost (root t) [])) end
    end.

  (* foreach: the caller's loop, on fuel *)
  Fixpoint iter_loop (next : pos -> res (option pos)) (fuel : nat) (cur : option pos) : res (list K) :=
    match cur with
    | None => Ok []
    | Some ps =>
        match fuel with
        | 0 => Fuel
        | S f =>
            match ps with
            | (E, _) => Crash
            | (T _ _ k _ _, _) => rbind (next ps) (fun nx => rmap (cons k) (iter_loop next f nx))
            end
        end
    end.

  Definition iter_forward (t : rbt) : res (list K) :=
    rbind (iter_init t) (iter_loop iter_next (S (nitems t))).
  Definition iter_backward (t : rbt) : res (list K) :=
    rbind (iter_last t) (iter_loop iter_prev (S (nitems t))).

  (* ---------------------------------------------------------------- operations on the Tree object *)
  Definition t_empty : rbt := mkT E 0.

  Definition t_set (t : rbt) (k : K) (v : V) : res rbt :=
    rmap (fun rb : tree * bool => let (r, added) := rb in
                                  mkT r (if added then S (nitems t) else nitems t))
         (set_root (root t) k v).

  Fixpoint t_set_all (t : rbt) (kvs : list (K * V)) : res rbt :=
    match kvs with
    | [] => Ok t
    | (k, v) :: r => rbind (t_set t k v) (fun t' => t_set_all t' r)
    end.

  (* Tree_Assign(self, src) with src a Tree: clear, then for every key of src in iteration
     order  Tree_Set(self, key, get(src, key)).  A key missing in src would raise KeyError
     inside get: not representable from a tree's own iteration, modelled as Crash. *)
  Fixpoint t_set_from (src : tree) (t : rbt) (ks : list K) : res rbt :=
    match ks with
    | [] => Ok t
    | k :: r => match lookup src k with
                | Some v => rbind (t_set t k v) (fun t' => t_set_from src t' r)
                | None => Crash
                end
    end.

  Definition t_assign_from (src : rbt) : res rbt :=
    rbind (iter_forward src) (t_set_from (root src) t_empty).

  Inductive out :=
  | OUnit | OVal (v : V) | OBool (b : bool) | ORaise (e : texn)
  | OCrash      (* the C code would dereference NULL here *)
  | OFuel.      (* the iteration loop of the model ran out of fuel: excluded by theorem *)

  Inductive op :=
  | TSet (k : K) (v : V) | TRem (k : K) | TGet (k : K) | TMem (k : K)
  | TResize (n : nat)
  | TCopy                          (* t := copy(t)  = new + assign(t) ; the old tree is deleted *)
  | TAssign (kvs : list (K * V)).  (* assign(t, s) where s = Tree built by successive set of kvs *)

  Definition lift (t : rbt) (r : res rbt) : rbt * out :=
    match r with Ok t' => (t', OUnit) | Crash => (t, OCrash) | Fuel => (t, OFuel) end.

  Definition t_step (t : rbt) (o : op) : rbt * out :=
    match o with
    | TSet k v => lift t (t_set t k v)
    | TGet k => (t, match lookup (root t) k with Some v => OVal v | None => ORaise TKeyError end)
    | TMem k => (t, OBool (match lookup (root t) k with Some _ => true | None => false end))
    | TRem k =>
        match descend (root t) k [] with
        | (E, _) => (t, ORaise TKeyError)
        | (x, p) => lift t (rmap (fun r => mkT r (pred (nitems t))) (rem_at x p))
        end
    | TResize 0 => (t_empty, OUnit)                 (* Tree_Clear *)
    | TResize (S _) => (t, ORaise TFormatError)
    | TCopy => lift t (t_assign_from t)
    | TAssign kvs => lift t (rbind (t_set_all t_empty kvs) t_assign_from)
    end.

  Fixpoint t_run (ops : list op) (t : rbt) : rbt :=
    match ops with [] => t | o :: r => t_run r (fst (t_step t o)) end.

  Fixpoint t_outs (ops : list op) (t : rbt) : list out :=      (* the outcome of every step *)
    match ops with [] => [] | o :: r => snd (t_step t o) :: t_outs r (fst (t_step t o)) end.

  (* ---------------------------------------------------------------- specification:
     association list kept in DESCENDING key order (the order of forward iteration) *)
  Definition amap := list (K * V).

  Fixpoint a_get (m : amap) (k : K) : option V :=
    match m with
    | [] => None
    | (k', v) :: r => match cmp k' k with Eq => Some v | _ => a_get r k end
    end.

  Fixpoint a_rem (m : amap) (k : K) : amap :=
    match m with
    | [] => []
    | (k', v) :: r => match cmp k' k with Eq => a_rem r k | _ => (k', v) :: a_rem r k end
    end.

  Fixpoint a_set (m : amap) (k : K) (v : V) : amap :=
    match m with
    | [] => [(k, v)]
    | (k', v') :: r =>
        match cmp k' k with
        | Eq => (k, v) :: r
        | Lt => (k, v) :: m
        | Gt => (k', v') :: a_set r k v
        end
    end.

  Fixpoint a_set_all (m : amap) (kvs : list (K * V)) : amap :=
    match kvs with [] => m | (k, v) :: r => a_set_all (a_set m k v) r end.

  Definition spec_step (m : amap) (o : op) : amap * out :=
    match o with
    | TSet k v => (a_set m k v, OUnit)
    | TGet k => (m, match a_get m k with Some v => OVal v | None => ORaise TKeyError end)
    | TMem k => (m, OBool (match a_get m k with Some _ => true | None => false end))
    | TRem k => match a_get m k with
                | Some _ => (a_rem m k, OUnit)
                | None => (m, ORaise TKeyError)
                end
    | TResize 0 => ([], OUnit)
    | TResize (S _) => (m, ORaise TFormatError)
    | TCopy => (m, OUnit)
    | TAssign kvs => (a_set_all [] kvs, OUnit)
    end.

  Fixpoint spec_run (ops : list op) (m : amap) : amap :=
    match ops with [] => m | o :: r => spec_run r (fst (spec_step m o)) end.

  Fixpoint spec_outs (ops : list op) (m : amap) : list out :=
    match ops with [] => [] | o :: r => snd (spec_step m o) :: spec_outs r (fst (spec_step m o)) end.

  (* ---------------------------------------------------------------- observations used by the driver *)
  Fixpoint inorder (t : tree) : list (K * V) :=
    match t with E => [] | T _ l k v r => inorder l ++ (k, v) :: inorder r end.

  Fixpoint size (t : tree) : nat :=
    match t with E => 0 | T _ l _ _ r => S (size l + size r) end.

  Fixpoint height (t : tree) : nat :=
    match t with E => 0 | T _ l _ _ r => S (Nat.max (height l) (height r)) end.

End RB.

Arguments E {K V}.
Arguments T {K V} c l k v r.

(* ---------------------------------------------------------------- key orders of the instances
   Int keys: Int_Cmp compares the two int64 values (a < b ? -1 : a > b ? 1 : 0).
   String keys: String_Cmp = strcmp = lexicographic order of the unsigned bytes. *)
Definition int_cmp : Z -> Z -> comparison := Z.compare.

Fixpoint bytes_cmp (a b : list N) : comparison :=
  match a, b with
  | [], [] => Eq
  | [], _ :: _ => Lt
  | _ :: _, [] => Gt
  | x :: a', y :: b' => match N.compare x y with Eq => bytes_cmp a' b' | c => c end
  end.
