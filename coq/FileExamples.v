(* FileExamples.v — concrete runs of FileModel.v: the pre-repair variants of File_Close are
   refuted (D19, D22), and the hypotheses of the theorems of Properties_C20.v are inhabited. *)
From Coq Require Import List Arith Bool ZArith Lia.
From CelloV Require Import FileModel FileProofs FileRoundTrip.
Import ListNotations.

Definition xws (b : nat) : bool := (b =? 32) || (b =? 10).
Definition xdigit (b : nat) : bool := (48 <=? b) && (b <=? 57).
Definition xsign (b : nat) : bool := (b =? 45) || (b =? 43).
Definition xcreat (p : nat) : bool := (p <? 3) || (p =? 4).
Definition xfull (p : nat) : bool := p =? 4.
Definition xfs0 : fsys nat := fun p => if p =? 4 then Some [] else None.
Definition xobjs0 : nat -> fobj := fun i => if (i =? 2) || (i =? 3) then FObj None else FDead.
Definition xrun (tests_closed clears_always : bool) :=
  run nat 0 xws xdigit xsign xcreat xfull tests_closed clears_always (w_init nat xfs0 xobjs0).

Lemma xobjs0_free : forall i h, xobjs0 i <> FObj (Some h).
Proof. intros i h. unfold xobjs0. destruct ((i =? 2) || (i =? 3)); discriminate. Qed.

(* D19: File_Close without the closed test hands NULL to fclose — sclose twice … *)
Lemma d19_refuted :
  exists ops, In (OCrash nat) (snd (xrun false true ops)) /\
              In EvCloseNull (w_trace nat (fst (xrun false true ops))).
Proof. exists [ONew nat 0; OClose nat 0]. vm_compute. split; auto. Qed.

(* … or a with block whose body closed the File *)
Lemma d19_with_refuted :
  exists ops, In (OCrash nat) (snd (xrun false true ops)).
Proof. exists [OWith nat 2; OOpen nat 2 0 MW; OClose nat 2; OExit nat]. vm_compute. auto 6. Qed.

(* D22: File_Close that keeps the handle when fclose fails: del closes the stream a second time *)
Lemma d22_refuted :
  exists ops, In (OCrash nat) (snd (xrun true false ops)) /\
              In (EvStale 0) (w_trace nat (fst (xrun true false ops))).
Proof. exists [ONewOpen nat 0 4 MW; OWrite nat 0 [7]; OClose nat 0; ODel nat 0]. vm_compute. split; auto. Qed.

(* the same histories on the repaired File_Close *)
Example d19_repaired :
  snd (xrun true true [ONew nat 0; OClose nat 0; OWith nat 2; OOpen nat 2 0 MW; OClose nat 2; OExit nat])
  = [OkUnit nat; ORaise nat FIOError; OkUnit nat; OkUnit nat; OkUnit nat; ORaise nat FIOError].
Proof. vm_compute. reflexivity. Qed.

Example d22_repaired :
  let r := xrun true true [ONewOpen nat 0 4 MW; OWrite nat 0 [7]; OClose nat 0; OTell nat 0; ODel nat 0] in
  snd r = [OkUnit nat; OkWrite nat 1; ORaise nat FIOError; ORaise nat FIOError; OkUnit nat] /\
  w_trace nat (fst r) = [EvClose 0; EvOpen 0].
Proof. vm_compute. split; reflexivity. Qed.

(* non-vacuity: a closed File exists, and the operations meant by `uses` *)
Example closed_file_exists :
  w_objs nat (w_init nat xfs0 xobjs0) 2 = FObj None /\ uses nat (ORead nat 2 5) 2 /\ uses nat (OClose nat 2) 2.
Proof. vm_compute. auto. Qed.

(* non-vacuity of the ledger theorem: a history in which three streams are opened, one File is
   re-opened while open, one is closed by del and one by a with block; all three closed once *)
Example ledger_example :
  let r := xrun true true [ONewOpen nat 0 0 MW; OOpen nat 0 1 MWp; OWith nat 0; OOpen nat 2 0 MR; OExit nat;
                           ONewOpen nat 1 3 MW; OClose nat 2; ODel nat 0] in
  w_trace nat (fst r) = [EvClose 2; EvClose 1; EvOpen 2; EvOpen 1; EvClose 0; EvOpen 0] /\
  snd r = [OkUnit nat; OkUnit nat; OkUnit nat; OkUnit nat; OkUnit nat; ORaise nat FIOError; OkUnit nat; OkUnit nat].
Proof. vm_compute. split; reflexivity. Qed.

(* non-vacuity of the round trip: chunks with an empty one, written "w+", read back "r" after a
   prefix history that used the File before *)
Example roundtrip_example :
  let pre := [ONewOpen nat 0 1 MW; OWrite nat 0 [9; 9]; OClose nat 0] in
  let w := fst (xrun true true pre) in
  w_objs nat w 0 = FObj None /\
  snd (run nat 0 xws xdigit xsign xcreat xfull true true w
         (reopen_history nat 0 1 MWp MR [[1; 0]; []; [0; 2; 3]] [1; 0; 3; 1]))
  = [OkUnit nat; OkWrite nat 1; OkWrite nat 0; OkWrite nat 1; OkNum nat 5; OkUnit nat; OkUnit nat;
     OkRead nat 1 [1]; OkRead nat 0 []; OkRead nat 1 [0; 0; 2]; OkRead nat 1 [3];
     OkNum nat 5; OkBool nat false; OkRead nat 0 []; OkBool nat true].
Proof. vm_compute. split; reflexivity. Qed.

Example seek_example :
  let w := fst (xrun true true []) in
  back_to_start 3 (-3)%Z SeekEnd /\
  snd (run nat 0 xws xdigit xsign xcreat xfull true true w
         (seek_history nat 3 2 (-3)%Z SeekEnd [[5]; [6; 7]] [2; 1]))
  = [OkUnit nat; OkWrite nat 1; OkWrite nat 1; OkNum nat 3; OkUnit nat;
     OkRead nat 1 [5; 6]; OkRead nat 1 [7];
     OkNum nat 3; OkBool nat false; OkRead nat 0 []; OkBool nat true].
Proof. split; [right; right; auto|vm_compute; reflexivity]. Qed.

(* non-vacuity of the text round trip: ASCII classes are disjoint, and two records survive *)
From CelloV Require Import FileText.

Lemma x_ws_not_digit : forall b, xws b = true -> xdigit b = false.
Proof.
  intros b H. unfold xws, xdigit in *. apply orb_true_iff in H.
  destruct H as [H|H]; apply Nat.eqb_eq in H; subst; reflexivity.
Qed.
Lemma x_digit_not_sign : forall b, xdigit b = true -> xsign b = false.
Proof.
  intros b H. unfold xdigit, xsign in *. apply andb_true_iff in H. destruct H as [H1 H2].
  apply Nat.leb_le in H1. destruct (Nat.eqb_spec b 45); [lia|]. destruct (Nat.eqb_spec b 43); [lia|]. reflexivity.
Qed.
Lemma x_sign_not_ws : forall b, xsign b = true -> xws b = false.
Proof.
  intros b H. unfold xws, xsign in *. apply orb_true_iff in H.
  destruct H as [H|H]; apply Nat.eqb_eq in H; subst; reflexivity.
Qed.

Definition xrec1 : trec nat := mkR nat [45] [55] [119; 111].               (* -7 wo *)
Definition xrec2 : trec nat := mkR nat [] [49; 50] [104; 101; 108; 108; 111].   (* 12 hello *)

Example text_example :
  well_formed nat xws xdigit xsign xrec1 /\ well_formed nat xws xdigit xsign xrec2 /\
  snd (xrun true true (text_history nat 32 10 2 1 MW MR [xrec1; xrec2]))
  = [OkUnit nat; OkUnit nat; OkUnit nat; OkUnit nat; OkUnit nat;
     OkScan nat [45; 55] [119; 111]; OkScan nat [49; 50] [104; 101; 108; 108; 111];
     OkBool nat true; ORaise nat FFormatError].
Proof.
  split; [|split].
  - unfold well_formed, xrec1; simpl. repeat split; try discriminate; auto.
    right. exists 45. auto.
  - unfold well_formed, xrec2; simpl. repeat split; try discriminate; auto 10.
  - vm_compute. reflexivity.
Qed.

(* non-vacuity of the seek theorem: SEEK_END -4 in a 6-byte file, read 3 *)
Example seek_anywhere_example :
  let w := fst (xrun true true [ONewOpen nat 1 2 MWp; OWrite nat 1 [10; 11; 12; 13; 14; 15]; OSeek nat 1 1%Z SeekSet]) in
  w_objs nat w 1 = FObj (Some 0) /\
  m_read (s_mode (f_st (w_files nat w 0))) = true /\
  seek_target 6 (s_pos (f_st (w_files nat w 0))) (-4)%Z SeekEnd = Some (Z.of_nat 2) /\
  snd (run nat 0 xws xdigit xsign xcreat xfull true true w
         [OSeek nat 1 (-4)%Z SeekEnd; OTell nat 1; OEof nat 1; ORead nat 1 3; OTell nat 1])
  = [OkUnit nat; OkNum nat 2; OkBool nat false; OkRead nat 1 [12; 13; 14]; OkNum nat 5].
Proof. vm_compute. repeat split; reflexivity. Qed.

(* non-vacuity of the frame theorem: File 2 stays open at position 2 while File 0 is opened, written, deleted *)
Example frame_example :
  let w := fst (xrun true true [OOpen nat 2 0 MWp; OWrite nat 2 [1; 2]]) in
  target nat (w_stack nat w) (ONewOpen nat 0 1 MW) <> Some 2 /\
  abs_obj nat w (w_objs nat w 2) = SOpen (mkS 0 2 false MWp) /\
  let w' := fst (run nat 0 xws xdigit xsign xcreat xfull true true w [ONewOpen nat 0 1 MW; OWrite nat 0 [5]; ODel nat 0]) in
  abs_obj nat w' (w_objs nat w' 2) = SOpen (mkS 0 2 false MWp).
Proof. split; [simpl; discriminate|]. vm_compute. split; reflexivity. Qed.

(* non-vacuity of the Format-sink theorem: one piece of 300 bytes (longer than a 256-byte buffer), an empty
   piece and a short one, read back in chunks 256 + 0 + 47 *)
Example print_read_example :
  let w := fst (xrun true true [ONew nat 0]) in
  let ts := [repeat 7 300; []; [60; 62; 10]] in
  w_objs nat w 0 = FObj None /\ list_sum [256; 0; 47] = length (concat ts) /\
  snd (run nat 0 xws xdigit xsign xcreat xfull true true w (print_history nat 0 1 MW MR ts [256; 0; 47]))
  = [OkUnit nat; OkUnit nat; OkUnit nat; OkUnit nat; OkNum nat 303; OkUnit nat; OkUnit nat;
     OkRead nat 1 (repeat 7 256); OkRead nat 0 []; OkRead nat 1 (repeat 7 44 ++ [60; 62; 10]);
     OkNum nat 303; OkBool nat false; OkRead nat 0 []; OkBool nat true].
Proof. vm_compute. repeat split; reflexivity. Qed.
