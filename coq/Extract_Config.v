(* Extraction of the configuration model (C18) for the correspondence driver.
   ExtrOcamlBasic only; numbers stay the extracted inductive types. *)
From Coq Require Import List ZArith Extraction ExtrOcamlBasic.
From CelloV Require Import Generated Config.

Definition z_ltb := Z.ltb.

Extraction Language OCaml.
Extraction "../ocaml/gen/Config.ml" cfg_build cfg_default arun afires aspec_history header_words z_ltb.
