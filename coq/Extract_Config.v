(* Extraction of the configuration model (C18) for the correspondence driver.
   ExtrOcamlBasic only; numbers stay the extracted inductive types.  Nothing that mentions Coq's
   `string` is extracted (it would shadow OCaml's in the driver). *)
From Coq Require Import List ZArith NArith Extraction ExtrOcamlBasic.
From CelloV Require Import Generated Config.

Definition z_ltb := Z.ltb.
Definition n_zero : N := 0%N.      (* conv.ml.inc mentions the type N *)

Extraction Language OCaml.
Definition g_init (nregs : nat) : gstate := mkG nil (repeat None nregs) 0.
Definition g_collect (_ : nat) := sweep_unreferenced.

Extraction "../ocaml/gen/Config.ml" cfg_build cfg_default arun afires aspec_history z_ltb n_zero
  grun g_init g_collect.
