(* TableProofs.v — proofs about TableModel.v *)
From Coq Require Import List Arith Bool NArith ZArith Lia.
From CelloV Require Import Generated RobinHood TableModel.
Import ListNotations.

(* the capacity rule always leaves a free slot: ideal n > n, for the generated prime
   table and load factor (re-proved whenever Generated.v changes) *)
Lemma first_ge_ge l x p : first_ge l x = Some p -> (x <= p)%N.
Proof.
  induction l as [|q l IH]; simpl; [discriminate|].
  destruct (N.leb_spec x q) as [Hle|Hgt]; intros Hs; [injection Hs as <-; assumption | auto].
Qed.

Lemma mult_ge_ge last x : (0 < last)%N -> (x <= mult_ge last x)%N.
Proof.
  intros Hl. unfold mult_ge. destruct (N.eqb_spec last 0) as [->|_]; [lia|].
  pose proof (N.div_mod (x + last - 1) last ltac:(lia)) as Hd.
  pose proof (N.mod_lt (x + last - 1) last ltac:(lia)). nia.
Qed.

Lemma ideal_N_gt primes num den n :
  (0 < num)%N -> (num < den)%N -> (0 < List.last primes 0)%N ->
  (n < ideal_size_N primes num den n)%N.
Proof.
  intros Hn Hd Hl. unfold ideal_size_N.
  assert (Hx : (n + 1 <= (n + 1) * den / num)%N).
  { apply N.div_le_lower_bound; nia. }
  destruct (first_ge primes _) eqn:Hf.
  - apply first_ge_ge in Hf. lia.
  - pose proof (mult_ge_ge (List.last primes 0%N) ((n + 1) * den / num)%N Hl). lia.
Qed.

Lemma ideal_gt : forall n : nat, n < ideal_size table_primes table_load_num table_load_den n.
Proof.
  intros n. unfold ideal_size.
  assert (H : (N.of_nat n < ideal_size_N table_primes table_load_num table_load_den (N.of_nat n))%N)
    by (apply ideal_N_gt; vm_compute; reflexivity).
  lia.
Qed.
