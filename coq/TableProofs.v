(* TableProofs.v — proofs about TableModel.v *)
From Coq Require Import List Arith Bool NArith ZArith Lia.
From CelloV Require Import Generated RobinHood TableModel.
Import ListNotations.

(* the capacity rule always leaves a free slot: ideal n > n, for the generated prime
   table and load factor (re-proved whenever Generated.v changes) *)
Lemma first_ge_ge l x p : first_ge l x = Some p -> (x <= p)%N.
Proof.
  induction l as [|q l IH]; simpl; [discriminate|].
  destruct (N.leb_spec x q) as [Hle|Hgt]; intros Hs; [injection Hs as <-; assumption | auto].
Qed.

Lemma mult_ge_ge last x : (0 < last)%N -> (x <= mult_ge last x)%N.
Proof.
  intros Hl. unfold mult_ge. destruct (N.eqb_spec last 0) as [->|_]; [lia|].
  pose proof (N.div_mod (x + last - 1) last ltac:(lia)) as Hd.
  pose proof (N.mod_lt (x + last - 1) last ltac:(lia)). nia.
Qed.

Lemma ideal_N_gt primes num den n :
  (0 < num)%N -> (num < den)%N -> (0 < List.last primes 0)%N ->
  (n < ideal_size_N primes num den n)%N.
Proof.
  intros Hn Hd Hl. unfold ideal_size_N.
  assert (Hx : (n + 1 <= (n + 1) * den / num)%N).
  { apply N.div_le_lower_bound; nia. }
  destruct (first_ge primes _) eqn:Hf.
  - apply first_ge_ge in Hf. lia.
  - pose proof (mult_ge_ge (List.last primes 0%N) ((n + 1) * den / num)%N Hl). lia.
Qed.

Lemma ideal_gt : forall n : nat, n < ideal_size table_primes table_load_num table_load_den n.
Proof.
  intros n. unfold ideal_size.
  assert (H : (N.of_nat n < ideal_size_N table_primes table_load_num table_load_den (N.of_nat n))%N)
    by (apply ideal_N_gt; vm_compute; reflexivity).
  lia.
Qed.

(* ====================================================================================
   Refinement: the Table model (TableModel.v) refines the association-list finite map
   for EVERY hash function.  Generic slot-array facts come from RobinHoodProofs.v.    *)
From Coq Require Import Permutation.
From CelloV Require Import RobinHoodProofs.

Section Spec.
  Variables K V : Type.
  Variable keq : K -> K -> bool.
  Hypothesis keq_spec : forall a b, keq a b = true <-> a = b.

  Local Notation a_get := (a_get K V keq).
  Local Notation a_rem := (a_rem K V keq).
  Local Notation a_set := (a_set K V keq).

  Lemma keq_refl k : keq k k = true.
  Proof. apply keq_spec. reflexivity. Qed.

  Lemma keq_false a b : a <> b -> keq a b = false.
  Proof. intros H. destruct (keq a b) eqn:E; [|reflexivity]. apply keq_spec in E. contradiction. Qed.

  Lemma a_get_none (m : amap K V) k : a_get m k = None <-> ~ In k (map fst m).
  Proof.
    induction m as [|[k' v] m IH]; simpl; [tauto|].
    destruct (keq k' k) eqn:E.
    - apply keq_spec in E. subst. split; [discriminate|]. intros H. exfalso. apply H. auto.
    - rewrite IH. split; [|tauto]. intros H [->|H1]; [|tauto]. rewrite keq_refl in E. discriminate.
  Qed.

  Lemma a_get_some (m : amap K V) k v : NoDup (map fst m) -> (a_get m k = Some v <-> In (k, v) m).
  Proof.
    induction m as [|[k' v'] m IH]; simpl; intros Hnd; [split; [discriminate|tauto]|].
    inversion Hnd as [|? ? Hnin Hnd']; subst.
    destruct (keq k' k) eqn:E.
    - apply keq_spec in E. subst k'. split.
      + intros H. injection H as ->. auto.
      + intros [H|H]; [congruence|]. exfalso. apply Hnin. apply (in_map fst) in H. exact H.
    - rewrite (IH Hnd'). split; [auto|]. intros [H|H]; [|exact H]. injection H as -> ->.
      rewrite keq_refl in E. discriminate.
  Qed.

  Lemma in_a_rem (m : amap K V) k e : In e (a_rem m k) <-> In e m /\ fst e <> k.
  Proof.
    induction m as [|[k' v'] m IH]; simpl; [tauto|].
    destruct (keq k' k) eqn:E.
    - apply keq_spec in E. subst k'. rewrite IH. split; [tauto|]. intros [[<-|H] Hne]; [simpl in Hne; congruence|tauto].
    - simpl. rewrite IH. split; [|tauto]. intros [<-|H]; [|tauto]. split; [auto|]. simpl. intros ->.
      rewrite keq_refl in E. discriminate.
  Qed.

  Lemma nodup_a_rem (m : amap K V) k : NoDup (map fst m) -> NoDup (map fst (a_rem m k)).
  Proof.
    induction m as [|[k' v'] m IH]; simpl; intros Hnd; [constructor|].
    inversion Hnd as [|? ? Hnin Hnd']; subst.
    destruct (keq k' k); [auto|]. simpl. constructor; [|auto].
    intros Hin. apply Hnin. apply in_map_iff in Hin. destruct Hin as [e [He Hin]].
    apply in_a_rem in Hin. apply in_map_iff. exists e. tauto.
  Qed.

  Lemma nodup_a_set (m : amap K V) k v : NoDup (map fst m) -> NoDup (map fst (a_set m k v)).
  Proof.
    intros Hnd. unfold TableModel.a_set. simpl. constructor; [|apply nodup_a_rem; assumption].
    intros Hin. apply in_map_iff in Hin. destruct Hin as [e [He Hin]]. apply in_a_rem in Hin. tauto.
  Qed.

  Lemma in_a_set (m : amap K V) k v e : In e (a_set m k v) <-> e = (k, v) \/ (In e m /\ fst e <> k).
  Proof. unfold TableModel.a_set. simpl. rewrite in_a_rem. intuition auto. Qed.

  Lemma nodup_fst_nodup (m : list (K * V)) : NoDup (map fst m) -> NoDup m.
  Proof. apply NoDup_map_inv. Qed.

  (* maps with the same bindings answer every operation alike *)
  Lemma same_bindings_perm (m1 m2 : amap K V) : NoDup (map fst m1) -> NoDup (map fst m2) ->
    (forall k, a_get m1 k = a_get m2 k) -> Permutation m1 m2.
  Proof.
    intros H1 H2 Hg. apply NoDup_Permutation.
    - apply NoDup_map_inv with (f := fst). assumption.
    - apply NoDup_map_inv with (f := fst). assumption.
    - intros [k v]. rewrite <- (a_get_some m1 k v H1), <- (a_get_some m2 k v H2), Hg. tauto.
  Qed.

  Lemma spec_out_same (m1 m2 : amap K V) o : NoDup (map fst m1) -> NoDup (map fst m2) ->
    (forall k, a_get m1 k = a_get m2 k) -> snd (spec_step K V keq m1 o) = snd (spec_step K V keq m2 o).
  Proof.
    intros H1 H2 Hg. pose proof (Permutation_length (same_bindings_perm m1 m2 H1 H2 Hg)) as Hl.
    destruct o; unfold TableModel.spec_step; try rewrite Hg; try rewrite Hl; try reflexivity.
    - destruct (a_get m2 k); reflexivity.
    - destruct (a_get m2 k); reflexivity.
    - destruct (a_get m2 k); reflexivity.
    - destruct (n =? 0); [reflexivity|]. destruct (n <? length m2); reflexivity.
  Qed.

End Spec.

(* the resize policy read from the source is admissible: whenever a rehash is decided or declined,
   the slot count stays above the item count.  Re-proved for the generated expressions. *)
Lemma grow_trigger_ge n : n <= table_grow_trigger n.
Proof. unfold table_grow_trigger. lia. Qed.
Lemma grow_target_ge n : n <= table_grow_target n.
Proof. unfold table_grow_target. lia. Qed.
Lemma shrink_target_ge n : n <= table_shrink_target n.
Proof. unfold table_shrink_target. lia. Qed.

Lemma resize_policy_admissible_proof : forall n : nat,
  n <= table_grow_trigger n /\ n <= table_grow_target n /\ n <= table_shrink_target n.
Proof. intros n. split; [apply grow_trigger_ge|split; [apply grow_target_ge|apply shrink_target_ge]]. Qed.

Section TP.
  Variables K V : Type.
  Variable keq : K -> K -> bool.
  Variable hash : K -> N.
  Variable swap : nat -> nat -> bool.
  Variable primes : list N.
  Variables num den : N.
  Hypothesis keq_spec : forall a b, keq a b = true <-> a = b.
  (* the repaired rule of Table_Set_Move, `if (j > p)`: Generated.table_swap *)
  Hypothesis swap_strict : forall j p, swap j p = true -> p < j.
  Hypothesis swap_ge : forall j p, swap j p = false -> j <= p.
  (* Table_Ideal_Size always leaves a free slot: ideal_gt for the generated data *)
  Hypothesis ideal_gt : forall n, n < ideal_size primes num den n.

  Local Notation entry := (entry K V).
  Local Notation table := (table K V).
  Local Notation slots := (slots K V).
  Local Notation nitems := (nitems K V).
  Local Notation nslots := (nslots K V).
  Local Notation mkT := (mkT K V).
  Local Notation home := (home K hash).
  Local Notation ideal := (ideal primes num den).
  Local Notation t_iter := (t_iter K V).
  Local Notation t_len := (t_len K V).
  Local Notation t_step := (t_step K V keq hash swap primes num den).
  Local Notation set_move := (set_move K V keq hash swap).
  Local Notation t_rehash := (t_rehash K V keq hash swap).
  Local Notation resize_more := (resize_more K V keq hash swap primes num den).
  Local Notation resize_less := (resize_less K V keq hash swap primes num den).
  Local Notation t_lookup := (t_lookup K V keq hash).
  Local Notation set_all := (set_all K V keq hash swap).
  Local Notation t_assign_from := (t_assign_from K V keq hash swap primes num den).
  Local Notation t_empty := (t_empty K V primes num den).
  Local Notation t_run := (t_run K V keq hash swap primes num den).
  Local Notation spec_step := (spec_step K V keq).
  Local Notation spec_run := (spec_run K V keq).
  Local Notation a_get := (a_get K V keq).
  Local Notation a_rem := (a_rem K V keq).
  Local Notation a_set := (a_set K V keq).
  Local Notation Holds := (Holds entry).
  Local Notation occupied := (occupied entry).
  Local Notation entries := (entries entry).
  Local Notation at_ := (at_ entry).
  Local Notation new_wins := (fun (_ new : entry) => new).

  Lemma swap_le j p : swap j p = true -> p <= j.
  Proof. intros H. apply swap_strict in H. lia. Qed.

  (* home slot of a key in an array of n slots *)
  Definition hmn (n : nat) : K -> nat := fun k => home k n.

  Lemma home_lt k n : 0 < n -> hmn n k < n.
  Proof.
    intros Hn. unfold hmn, TableModel.home.
    pose proof (N.mod_lt (hash k) (N.of_nat n) ltac:(lia)). lia.
  Qed.

  (* the slot array is a well-formed robin-hood array for the current slot count, and
     nitems counts the occupied slots *)
  Definition pre_inv (t : table) : Prop :=
    core K entry fst (hmn (nslots t)) (slots t) /\ nitems t = occupied (slots t).
  (* ... and there is a free slot (or no slot array at all, after resize(t,0)) *)
  Definition t_inv (t : table) : Prop :=
    pre_inv t /\ (nitems t < nslots t \/ nslots t = 0).
  (* abstraction relation: the table holds exactly the bindings of the map *)
  Definition R (t : table) (m : amap K V) : Prop :=
    NoDup (map fst m) /\ forall e, In e (t_iter t) <-> In e m.

  (* nslots t unfolds to @length (tslot K V) _: transport along an equation instead of rewriting *)
  Lemma core_n n n' (l : list (slot entry)) : n = n' ->
    core K entry fst (hmn n) l -> core K entry fst (hmn n') l.
  Proof. intros ->. auto. Qed.

  Lemma iter_holds (t : table) e : In e (t_iter t) <-> Holds (slots t) e.
  Proof. apply in_entries. Qed.

  Lemma entries_repeat n : entries (repeat None n) = [].
  Proof. induction n as [|n IH]; [reflexivity|]. simpl repeat. rewrite entries_cons. exact IH. Qed.

  Lemma pre_inv_fresh n : pre_inv (mkT (repeat None n) 0).
  Proof.
    split; [apply core_repeat|]. simpl. rewrite occupied_repeat. reflexivity.
  Qed.

  Lemma inv_uq t : pre_inv t -> UQ K entry fst (slots t).
  Proof. intros [[_ [_ H]] _]. exact H. Qed.

  Lemma iter_nodup t : pre_inv t -> NoDup (map fst (t_iter t)).
  Proof. intros H. apply UQ_NoDup. apply inv_uq. assumption. Qed.

  Lemma nslots0_iter t : nslots t = 0 -> t_iter t = [].
  Proof.
    unfold TableModel.nslots, TableModel.t_iter. intros H. apply length_zero_iff_nil in H. rewrite H. reflexivity.
  Qed.

  Lemma R_exists t : pre_inv t -> R t (t_iter t).
  Proof. intros H. split; [apply iter_nodup; assumption|tauto]. Qed.

  Lemma R_perm t m : pre_inv t -> R t m -> Permutation (t_iter t) m.
  Proof.
    intros Hi [Hnd Hin]. apply NoDup_Permutation; [| |exact Hin].
    - apply NoDup_map_inv with (f := fst). apply iter_nodup. assumption.
    - apply NoDup_map_inv with (f := fst). assumption.
  Qed.

  Lemma R_len t m : pre_inv t -> R t m -> nitems t = length m.
  Proof.
    intros Hi Hr. pose proof (R_perm t m Hi Hr) as Hp. apply Permutation_length in Hp.
    destruct Hi as [_ Hn]. rewrite Hn. exact Hp.
  Qed.

  Lemma R_nil t m : t_iter t = [] -> R t m -> m = [].
  Proof.
    intros Hnil [_ Hin]. destruct m as [|e m]; [reflexivity|].
    exfalso. specialize (Hin e). rewrite Hnil in Hin. apply Hin. left. reflexivity.
  Qed.

  (* ---------------------------------------------------------------- lookup *)
  Lemma lookup_spec t k : t_inv t ->
    exists r, t_lookup t k = Some r /\
      match r with
      | Some e => In e (t_iter t) /\ fst e = k
      | None => forall e, In e (t_iter t) -> fst e <> k
      end.
  Proof.
    intros [[Hc Hn] Hload]. unfold TableModel.t_lookup.
    destruct (Nat.eqb_spec (nslots t) 0) as [H0|H0].
    - exists None. split; [reflexivity|]. rewrite (nslots0_iter t H0). intros e [].
    - destruct (find_spec K entry keq fst keq_spec (hmn (nslots t)) (slots t) k Hc
                  (home_lt k (nslots t) ltac:(lia))) as [r [Hf Hr]].
      unfold rh_find. unfold hmn in Hf at 1. unfold TableModel.nslots in *. rewrite Hf.
      destruct r as [i|].
      + destruct Hr as [e [Hat Hk]]. rewrite Hat. exists (Some e). split; [reflexivity|].
        split; [|exact Hk]. apply iter_holds. exists i, (hmn (length (slots t)) k). exact Hat.
      + exists None. split; [reflexivity|]. intros e He. apply iter_holds in He.
        destruct He as [a [g Ha]]. eapply Hr; eauto.
  Qed.

  Lemma lookup_refines t m k : t_inv t -> R t m ->
    t_lookup t k = Some (match a_get m k with Some v => Some (k, v) | None => None end).
  Proof.
    intros Hi [Hnd Hin]. destruct (lookup_spec t k Hi) as [r [Hl Hr]]. rewrite Hl. f_equal.
    destruct r as [[k' v]|].
    - destruct Hr as [He Hk]. simpl in Hk. subst k'. apply Hin in He.
      apply (a_get_some K V keq keq_spec m k v Hnd) in He. rewrite He. reflexivity.
    - destruct (a_get m k) as [v|] eqn:Hg; [|reflexivity]. exfalso.
      apply (a_get_some K V keq keq_spec m k v Hnd) in Hg. apply Hin in Hg. apply (Hr _ Hg). reflexivity.
  Qed.

  (* ---------------------------------------------------------------- Table_Set_Move *)
  Lemma set_move_spec t k v : pre_inv t -> nitems t < nslots t ->
    exists t1, set_move t k v = Some t1 /\ pre_inv t1 /\ nslots t1 = nslots t /\
      (forall e, In e (t_iter t1) <-> e = (k, v) \/ (In e (t_iter t) /\ fst e <> k)) /\
      nitems t1 <= S (nitems t).
  Proof.
    intros [Hc Hn] Hload.
    assert (Hh0 : hmn (nslots t) (fst (k, v)) < length (slots t)) by (apply home_lt; unfold TableModel.nslots in *; lia).
    assert (Hocc : occupied (slots t) < length (slots t)) by (unfold TableModel.nslots in Hload; lia).
    destruct (insert_spec K entry keq fst swap new_wins keq_spec swap_le swap_ge
                ltac:(intros e c H; exact eq_refl) (hmn (nslots t)) (slots t) (k, v) Hc swap_strict Hh0 Hocc)
      as [l' [fresh [newe [Hins [Hc' [Hlen [Hh [Hk [Hfr Hnf]]]]]]]]].
    assert (Hnew : newe = (k, v)).
    { destruct fresh; [destruct (Hfr eq_refl) as [_ [H _]]; exact H|].
      destruct (Hnf eq_refl) as [[eold [_ [_ H]]] _]. exact H. }
    subst newe. simpl in Hins, Hh.
    exists (mkT l' (if fresh then S (nitems t) else nitems t)).
    split.
    { unfold TableModel.set_move, rh_insert. unfold hmn in Hins. rewrite Hins. reflexivity. }
    split; [|split; [exact Hlen|split]].
    - split; simpl.
      + apply (core_n (nslots t)); [symmetry; exact Hlen|exact Hc'].
      + destruct fresh; [destruct (Hfr eq_refl) as [_ [_ H]]|destruct (Hnf eq_refl) as [_ H]]; lia.
    - intros e. rewrite !iter_holds. simpl. apply Hh.
    - simpl. destruct fresh; lia.
  Qed.

  (* ---------------------------------------------------------------- Table_Rehash *)
  Lemma t_rehash_spec t n : UQ K entry fst (slots t) -> occupied (slots t) < n ->
    exists t2, t_rehash t n = Some t2 /\ t_inv t2 /\ nslots t2 = n /\
      (forall e, In e (t_iter t2) <-> In e (t_iter t)) /\ nitems t2 = occupied (slots t).
  Proof.
    intros Huq Hocc.
    assert (Hho : forall k, home k n = hmn n k) by reflexivity.
    assert (Hhm : forall k, hmn n k < n) by (intros k; apply home_lt; lia).
    assert (Hle : occupied (slots t) <= n) by lia.
    destruct (rehash_spec K entry keq fst swap new_wins keq_spec swap_le swap_ge (hmn n) home (slots t) n
                Huq Hho Hhm Hle)
      as [l' [Hr [Hc' [Hlen [Hh Ho]]]]].
    exists (mkT l' (occupied l')). split.
    { unfold TableModel.t_rehash, rh_rehash. rewrite Hr. reflexivity. }
    split; [|split; [exact Hlen|split]].
    - split; [split|]; simpl.
      + apply (core_n n); [symmetry; exact Hlen|exact Hc'].
      + reflexivity.
      + left. change (occupied l' < length l'). lia.
    - intros e. rewrite !iter_holds. simpl. apply Hh.
    - simpl. exact Ho.
  Qed.

  Lemma resize_more_spec t : pre_inv t ->
    exists t2, resize_more t = Some t2 /\ t_inv t2 /\
      (forall e, In e (t_iter t2) <-> In e (t_iter t)) /\ nitems t2 = nitems t.
  Proof.
    intros Hp. pose proof Hp as [Hc Hn]. unfold TableModel.resize_more.
    pose proof (ideal_gt (table_grow_trigger (nitems t))) as Hid. fold ideal in Hid.
    pose proof (ideal_gt (table_grow_target (nitems t))) as Hit. fold ideal in Hit.
    pose proof (grow_trigger_ge (nitems t)) as Hg1. pose proof (grow_target_ge (nitems t)) as Hg2.
    destruct (Nat.ltb_spec (nslots t) (ideal (table_grow_trigger (nitems t)))) as [Hlt|Hge].
    - destruct (t_rehash_spec t (ideal (table_grow_target (nitems t))) (inv_uq t Hp) ltac:(lia)) as [t2 [Hr [Hi [_ [Hit2 Hni]]]]].
      exists t2. split; [exact Hr|]. split; [exact Hi|]. split; [exact Hit2|lia].
    - exists t. split; [reflexivity|]. split; [|split; [tauto|reflexivity]].
      split; [exact Hp|]. left. lia.
  Qed.

  Lemma resize_less_spec t : pre_inv t -> nitems t < nslots t ->
    exists t2, resize_less t = Some t2 /\ t_inv t2 /\
      (forall e, In e (t_iter t2) <-> In e (t_iter t)) /\ nitems t2 = nitems t.
  Proof.
    intros Hp Hload. pose proof Hp as [Hc Hn]. unfold TableModel.resize_less.
    pose proof (ideal_gt (table_shrink_target (nitems t))) as Hit. fold ideal in Hit.
    pose proof (shrink_target_ge (nitems t)) as Hg2.
    destruct (Nat.ltb_spec (ideal (table_shrink_trigger (nitems t))) (nslots t)) as [Hlt|Hge].
    - destruct (t_rehash_spec t (ideal (table_shrink_target (nitems t))) (inv_uq t Hp) ltac:(lia)) as [t2 [Hr [Hi [_ [Hit2 Hni]]]]].
      exists t2. split; [exact Hr|]. split; [exact Hi|]. split; [exact Hit2|lia].
    - exists t. split; [reflexivity|]. split; [|split; [tauto|reflexivity]].
      split; [exact Hp|]. left. lia.
  Qed.

  (* ---------------------------------------------------------------- Table_Assign / copy *)
  Lemma set_all_spec : forall (kvs : list entry) t, pre_inv t -> nitems t + length kvs < nslots t ->
    NoDup (map fst kvs) -> (forall e e', In e kvs -> In e' (t_iter t) -> fst e' <> fst e) ->
    exists t', set_all t kvs = Some t' /\ pre_inv t' /\ nslots t' = nslots t /\
      (forall e, In e (t_iter t') <-> In e kvs \/ In e (t_iter t)) /\
      nitems t' <= nitems t + length kvs.
  Proof.
    induction kvs as [|[k v] r IH]; intros t Hp Hload Hnd Habs.
    - exists t. split; [reflexivity|]. split; [assumption|]. split; [reflexivity|]. split; [simpl; tauto|lia].
    - simpl in Hload, Hnd. inversion Hnd as [|? ? Hnin Hnd']; subst.
      destruct (set_move_spec t k v Hp ltac:(lia)) as [t1 [Hsm [Hp1 [Hns1 [Hit1 Hni1]]]]].
      destruct (IH t1 Hp1) as [t' [Hsa [Hp' [Hns' [Hit' Hni']]]]]; auto.
      + lia.
      + intros e e' He He'. apply Hit1 in He'. destruct He' as [->|[He' _]].
        * simpl. intros Heq. apply Hnin. rewrite Heq. apply in_map. assumption.
        * apply Habs; [right; assumption|assumption].
      + exists t'. split.
        { simpl. rewrite Hsm. exact Hsa. }
        split; [exact Hp'|]. split; [lia|]. split; [|simpl; lia].
        intros e. rewrite Hit', Hit1. simpl. split.
        * intros [H|[H|[H _]]]; auto.
        * intros [[H|H]|H]; auto. right. right. split; [assumption|].
          apply (Habs (k, v) e); [left; reflexivity|assumption].
  Qed.

  Lemma assign_from_spec t : t_inv t ->
    exists t', t_assign_from t = Some t' /\ t_inv t' /\ (forall e, In e (t_iter t') <-> In e (t_iter t)).
  Proof.
    intros [Hp Hload]. pose proof Hp as [Hc Hn]. unfold TableModel.t_assign_from.
    pose proof (ideal_gt (nitems t)) as Hid. fold ideal in Hid.
    set (t0 := mkT (repeat None (ideal (nitems t))) 0).
    assert (Hns0 : nslots t0 = ideal (nitems t)) by apply repeat_length.
    assert (Hlen : length (t_iter t) = nitems t) by (rewrite Hn; reflexivity).
    destruct (set_all_spec (t_iter t) t0 (pre_inv_fresh _)) as [t' [Hsa [Hp' [Hns' [Hit' Hni']]]]].
    - rewrite Hns0, Hlen. simpl. lia.
    - apply iter_nodup. assumption.
    - intros e e' _ He'. unfold t0, TableModel.t_iter in He'. simpl in He'. rewrite entries_repeat in He'. destruct He'.
    - exists t'. split; [exact Hsa|]. split.
      + split; [exact Hp'|]. left. rewrite Hns', Hns0. simpl in Hni'. lia.
      + intros e. rewrite Hit'. unfold t0 at 1, TableModel.t_iter at 2. simpl. rewrite entries_repeat. simpl. tauto.
  Qed.

  (* ---------------------------------------------------------------- one operation *)
  Definition step_ok (t : table) (m : amap K V) (o : op K V) : Prop :=
    t_inv (fst (t_step t o)) /\ R (fst (t_step t o)) (fst (spec_step m o)) /\
    snd (t_step t o) = snd (spec_step m o).

  Lemma t_inv_nil : t_inv (mkT [] 0).
  Proof. split; [apply (pre_inv_fresh 0)|right; reflexivity]. Qed.

  Lemma step_set t m k v : t_inv t -> R t m -> step_ok t m (TSet K V k v).
  Proof.
    intros [Hp Hload] [Hnd Hin]. unfold step_ok, TableModel.t_step.
    set (t0 := if nslots t =? 0 then mkT (repeat None (ideal 0)) 0 else t).
    assert (H0 : pre_inv t0 /\ nitems t0 < nslots t0 /\ forall e, In e (t_iter t0) <-> In e (t_iter t)).
    { unfold t0. destruct (Nat.eqb_spec (nslots t) 0) as [Hz|Hz].
      - split; [apply pre_inv_fresh|]. split.
        + unfold TableModel.nslots. simpl. rewrite repeat_length. apply (ideal_gt 0).
        + intros e. rewrite (nslots0_iter t Hz). unfold TableModel.t_iter. simpl. rewrite entries_repeat. tauto.
      - split; [assumption|]. split; [lia|tauto]. }
    destruct H0 as [Hp0 [Hl0 Hit0]].
    destruct (set_move_spec t0 k v Hp0 Hl0) as [t1 [Hsm [Hp1 [Hns1 [Hit1 Hni1]]]]].
    destruct (resize_more_spec t1 Hp1) as [t2 [Hrm [Hi2 [Hit2 Hni2]]]].
    rewrite Hsm, Hrm. simpl. split; [exact Hi2|]. split; [|reflexivity].
    split; [apply nodup_a_set; assumption|].
    intros e. rewrite Hit2, Hit1, Hit0, Hin. symmetry. apply in_a_set. assumption.
  Qed.

  Lemma step_get t m k : t_inv t -> R t m -> step_ok t m (TGet K V k).
  Proof.
    intros Hi Hr. unfold step_ok, TableModel.t_step, TableModel.spec_step.
    rewrite (lookup_refines t m k Hi Hr). destruct (a_get m k); simpl; auto.
  Qed.

  Lemma step_mem t m k : t_inv t -> R t m -> step_ok t m (TMem K V k).
  Proof.
    intros Hi Hr. unfold step_ok, TableModel.t_step, TableModel.spec_step.
    rewrite (lookup_refines t m k Hi Hr). destruct (a_get m k); simpl; auto.
  Qed.

  Lemma step_rem t m k : t_inv t -> R t m -> step_ok t m (TRem K V k).
  Proof.
    intros Hi Hr. pose proof Hi as [Hp Hload]. pose proof Hp as [Hc Hn]. pose proof Hr as [Hnd Hin].
    unfold step_ok, TableModel.t_step, TableModel.spec_step.
    destruct (Nat.eqb_spec (nslots t) 0) as [Hz|Hz].
    - rewrite (R_nil t m (nslots0_iter t Hz) Hr). simpl. split; [assumption|]. split; [|reflexivity].
      rewrite <- (R_nil t m (nslots0_iter t Hz) Hr). assumption.
    - assert (Hpos : 0 < nslots t) by lia.
      destruct (find_spec K entry keq fst keq_spec (hmn (nslots t)) (slots t) k Hc
                  (home_lt k (nslots t) Hpos)) as [r [Hf Hfr]].
      unfold rh_find. unfold hmn in Hf at 1. rewrite Hf.
      destruct r as [i|].
      + destruct Hfr as [[k' v'] [Hat Hk]]. simpl in Hk. subst k'.
        assert (Hocc : occupied (slots t) < length (slots t)) by (unfold TableModel.nslots in *; lia).
        destruct (delete_at_spec K entry fst (hmn (nslots t)) (slots t) i _ _ Hc Hat Hocc)
          as [l' [Hd [Hc' [Hlen [Hh Ho]]]]].
        unfold rh_delete. rewrite Hd.
        set (t1 := mkT l' (pred (nitems t))).
        assert (Hp1 : pre_inv t1).
        { split; simpl; [|lia]. apply (core_n (nslots t)); [symmetry; exact Hlen|exact Hc']. }
        assert (Hl1 : nitems t1 < nslots t1).
        { assert (Hlen2 : length l' = nslots t) by exact Hlen.
          change (pred (nitems t) < length l'). lia. }
        destruct (resize_less_spec t1 Hp1 Hl1) as [t2 [Hrl [Hi2 [Hit2 Hni2]]]].
        rewrite Hrl.
        assert (Hg : a_get m k = Some v').
        { apply (a_get_some K V keq keq_spec m k v' Hnd). apply Hin. apply iter_holds. exists i, (hmn (nslots t) k). exact Hat. }
        rewrite Hg. simpl. split; [exact Hi2|]. split; [|reflexivity].
        split; [apply nodup_a_rem; assumption|].
        intros e. rewrite Hit2. rewrite (in_a_rem K V keq keq_spec), <- Hin, !iter_holds. apply Hh.
      + assert (Hg : a_get m k = None).
        { apply a_get_none; [assumption|]. intros Hk. apply in_map_iff in Hk. destruct Hk as [e [Hk He]].
          apply Hin in He. apply iter_holds in He. destruct He as [a [g Ha]]. eapply Hfr; eauto. }
        rewrite Hg. simpl. auto.
  Qed.

  Lemma step_resize t m n : t_inv t -> R t m -> step_ok t m (TResize K V n).
  Proof.
    intros Hi Hr. pose proof Hi as [Hp Hload]. pose proof Hp as [Hc Hn]. pose proof Hr as [Hnd Hin].
    unfold step_ok, TableModel.t_step, TableModel.spec_step.
    destruct (Nat.eqb_spec n 0) as [Hz|Hz].
    - simpl. split; [apply t_inv_nil|]. split; [|reflexivity]. split; [constructor|]. intros e. simpl. tauto.
    - rewrite <- (R_len t m Hp Hr).
      destruct (Nat.ltb_spec n (nitems t)) as [Hlt|Hge].
      + simpl. auto.
      + pose proof (ideal_gt n) as Hid. fold ideal in Hid.
        destruct (t_rehash_spec t (ideal n) (inv_uq t Hp) ltac:(lia)) as [t2 [Hrh [Hi2 [_ [Hit2 _]]]]].
        rewrite Hrh. simpl. split; [exact Hi2|]. split; [|reflexivity].
        split; [assumption|]. intros e. rewrite Hit2. apply Hin.
  Qed.

  Lemma step_copy t m : t_inv t -> R t m -> step_ok t m (TSelfCopy K V).
  Proof.
    intros Hi [Hnd Hin]. unfold step_ok, TableModel.t_step, TableModel.spec_step.
    destruct (assign_from_spec t Hi) as [t' [Ha [Hi' Hit']]]. rewrite Ha. simpl.
    split; [exact Hi'|]. split; [|reflexivity]. split; [assumption|].
    intros e. rewrite Hit'. apply Hin.
  Qed.

  (* every operation keeps the invariant, keeps the abstraction relation with the finite map
     and returns what the finite map returns — in particular never OFuel / OCrash *)
  Theorem step_refines t m o : t_inv t -> R t m -> step_ok t m o.
  Proof.
    intros Hi Hr. destruct o.
    - apply step_set; assumption.
    - apply step_rem; assumption.
    - apply step_get; assumption.
    - apply step_mem; assumption.
    - apply step_resize; assumption.
    - apply step_copy; assumption.
  Qed.

  (* ---------------------------------------------------------------- Table_New with pairs, assign *)
  Definition a_set_all (m : amap K V) (kvs : list entry) : amap K V :=
    fold_left (fun m kv => a_set m (fst kv) (snd kv)) kvs m.

  (* duplicates among the pairs allowed: later pairs win *)
  Lemma set_all_refines : forall (kvs : list entry) t m, pre_inv t -> R t m ->
    nitems t + length kvs < nslots t ->
    exists t', set_all t kvs = Some t' /\ pre_inv t' /\ nslots t' = nslots t /\
      nitems t' <= nitems t + length kvs /\ R t' (a_set_all m kvs).
  Proof.
    induction kvs as [|[k v] r IH]; intros t m Hp Hr Hload.
    - exists t. split; [reflexivity|]. split; [assumption|]. split; [reflexivity|]. split; [lia|assumption].
    - simpl in Hload. destruct Hr as [Hnd Hin].
      destruct (set_move_spec t k v Hp ltac:(lia)) as [t1 [Hsm [Hp1 [Hns1 [Hit1 Hni1]]]]].
      assert (Hr1 : R t1 (a_set m k v)).
      { split; [apply nodup_a_set; assumption|]. intros e. rewrite Hit1, Hin. symmetry. apply in_a_set. assumption. }
      destruct (IH t1 (a_set m k v) Hp1 Hr1 ltac:(lia)) as [t' [Hsa [Hp' [Hns' [Hni' Hr']]]]].
      exists t'. split.
      { simpl. rewrite Hsm. exact Hsa. }
      split; [exact Hp'|]. split; [lia|]. split; [simpl; lia|exact Hr'].
  Qed.

  Lemma t_new_refines (kvs : list entry) :
    exists t, t_new K V keq hash swap primes num den kvs = Some t /\ t_inv t /\ R t (a_set_all [] kvs).
  Proof.
    unfold TableModel.t_new. fold ideal.
    pose proof (ideal_gt (length kvs)) as Hid. fold ideal in Hid.
    set (t0 := mkT (repeat None (ideal (length kvs))) 0).
    assert (Hns0 : nslots t0 = ideal (length kvs)) by apply repeat_length.
    assert (Hr0 : R t0 []).
    { split; [constructor|]. intros e. unfold t0, TableModel.t_iter. simpl. rewrite entries_repeat. tauto. }
    destruct (set_all_refines kvs t0 [] (pre_inv_fresh _) Hr0) as [t' [Hsa [Hp' [Hns' [Hni' Hr']]]]].
    - rewrite Hns0. simpl. lia.
    - exists t'. split; [exact Hsa|]. split; [|exact Hr'].
      split; [exact Hp'|]. left. rewrite Hns', Hns0. simpl in Hni'. lia.
  Qed.

  (* Table_Assign(self, src) with src another Table: self becomes a table with src's bindings *)
  Lemma assign_from_refines src m : t_inv src -> R src m ->
    exists t', t_assign_from src = Some t' /\ t_inv t' /\ R t' m.
  Proof.
    intros Hi [Hnd Hin]. destruct (assign_from_spec src Hi) as [t' [Ha [Hi' Hit']]].
    exists t'. split; [exact Ha|]. split; [exact Hi'|]. split; [assumption|].
    intros e. rewrite Hit'. apply Hin.
  Qed.

  (* ---------------------------------------------------------------- histories *)
  Lemma t_inv_empty : t_inv t_empty.
  Proof.
    split; [apply pre_inv_fresh|]. left. unfold TableModel.t_empty, TableModel.nslots. simpl.
    rewrite repeat_length. apply (ideal_gt 0).
  Qed.

  Lemma R_empty : R t_empty [].
  Proof.
    split; [constructor|]. intros e. unfold TableModel.t_empty, TableModel.t_iter. simpl.
    rewrite entries_repeat. tauto.
  Qed.

  Lemma run_refines : forall ops t m, t_inv t -> R t m ->
    t_inv (t_run ops t) /\ R (t_run ops t) (spec_run ops m).
  Proof.
    induction ops as [|o ops IH]; intros t m Hi Hr; [split; assumption|].
    destruct (step_refines t m o Hi Hr) as [Hi' [Hr' _]].
    unfold TableModel.t_run, TableModel.spec_run. simpl. apply IH; assumption.
  Qed.

  Theorem refines_map ops o :
    let t := t_run ops t_empty in
    let m := spec_run ops [] in
    t_inv t /\ R t m /\ snd (t_step t o) = snd (spec_step m o).
  Proof.
    intros t m. destruct (run_refines ops t_empty [] t_inv_empty R_empty) as [Hi Hr].
    fold t in Hi, Hr. fold m in Hr. split; [exact Hi|]. split; [exact Hr|].
    apply (step_refines t m o Hi Hr).
  Qed.

  (* ---------------------------------------------------------------- corollaries *)
  Lemma spec_out_ok m o : snd (spec_step m o) <> OFuel V /\ snd (spec_step m o) <> OCrash V.
  Proof.
    destruct o; unfold TableModel.spec_step;
      repeat match goal with |- context [match ?x with _ => _ end] => destruct x end;
      simpl; split; discriminate.
  Qed.

  (* termination / fuel adequacy and no undefined behaviour of the model *)
  Lemma step_total t o : t_inv t -> snd (t_step t o) <> OFuel V /\ snd (t_step t o) <> OCrash V.
  Proof.
    intros [Hp Hl]. destruct (step_refines t (t_iter t) o (conj Hp Hl) (R_exists t Hp)) as [_ [_ Ho]].
    rewrite Ho. apply spec_out_ok.
  Qed.

  Lemma inv_len t m : t_inv t -> R t m -> t_len t = length m.
  Proof. intros [Hp _] Hr. apply R_len; assumption. Qed.

  Lemma inv_iter_keys t m : t_inv t -> R t m ->
    NoDup (map fst (t_iter t)) /\ Permutation (t_iter t) m /\
    (forall k, In k (map fst (t_iter t)) <-> a_get m k <> None).
  Proof.
    intros [Hp _] Hr. split; [apply iter_nodup; assumption|]. split; [apply R_perm; assumption|].
    intros k. rewrite (a_get_none K V keq keq_spec m k).
    pose proof (Permutation_map fst (R_perm t m Hp Hr)) as Hpm.
    split.
    - intros Hin Hnot. apply Hnot. apply (Permutation_in _ Hpm). assumption.
    - intros Hnn. destruct (in_dec (fun a b => match bool_dec (keq a b) true with
                                             | left e => left (proj1 (keq_spec a b) e)
                                             | right ne => right (fun eq => ne (proj2 (keq_spec a b) eq)) end)
                              k (map fst m)) as [Hin|Hnin]; [|contradiction].
      apply (Permutation_in _ (Permutation_sym Hpm)). assumption.
  Qed.

  Lemma inv_get t m k : t_inv t -> R t m ->
    snd (t_step t (TGet K V k)) = match a_get m k with Some v => OVal V v | None => ORaise V KeyError end /\
    snd (t_step t (TMem K V k)) = OBool V (match a_get m k with Some _ => true | None => false end).
  Proof.
    intros Hi Hr. destruct (step_get t m k Hi Hr) as [_ [_ Hg]]. destruct (step_mem t m k Hi Hr) as [_ [_ Hm]].
    rewrite Hg, Hm. unfold TableModel.spec_step. destruct (a_get m k); split; reflexivity.
  Qed.

  Lemma inv_absent t m k : t_inv t -> R t m -> a_get m k = None ->
    t_step t (TGet K V k) = (t, ORaise V KeyError) /\ t_step t (TRem K V k) = (t, ORaise V KeyError).
  Proof.
    intros Hi Hr Hg. split.
    - unfold TableModel.t_step. rewrite (lookup_refines t m k Hi Hr), Hg. reflexivity.
    - destruct (step_rem t m k Hi Hr) as [_ [_ Ho]]. unfold TableModel.spec_step in Ho. rewrite Hg in Ho. simpl in Ho.
      revert Ho. unfold TableModel.t_step.
      repeat match goal with |- context [match ?x with _ => _ end] => destruct x end; simpl; intros; congruence.
  Qed.

  Lemma spec_run_app ops1 ops2 m : spec_run (ops1 ++ ops2) m = spec_run ops2 (spec_run ops1 m).
  Proof. apply fold_left_app. Qed.

  Lemma spec_run_clear ops ops' : spec_run (ops ++ TResize K V 0 :: ops') [] = spec_run ops' [].
  Proof. rewrite spec_run_app. reflexivity. Qed.
End TP.

(* ---------------------------------------------------------------- the generated rule and sizes *)
Lemma table_swap_strict j p : table_swap j p = true -> p < j.
Proof. unfold table_swap. intros H. apply Nat.ltb_lt in H. exact H. Qed.

Lemma table_swap_ge j p : table_swap j p = false -> j <= p.
Proof. unfold table_swap. intros H. apply Nat.ltb_ge in H. exact H. Qed.

(* ---------------------------------------------------------------- final forms (Properties_C02.v) *)
(* the model with everything that is re-extracted from the C source plugged in *)
Definition T_empty (K V : Type) : table K V := t_empty K V table_primes table_load_num table_load_den.
Definition T_step (K V : Type) (keq : K -> K -> bool) (hash : K -> N) : table K V -> op K V -> table K V * out V :=
  t_step K V keq hash table_swap table_primes table_load_num table_load_den.
Definition T_run (K V : Type) (keq : K -> K -> bool) (hash : K -> N) (ops : list (op K V)) : table K V :=
  t_run K V keq hash table_swap table_primes table_load_num table_load_den ops (T_empty K V).

Lemma t_inv_unfold K V hash (t : table K V) :
  t_inv K V hash t <->
  ((RHL (entry K V) (slots K V t) /\
    WF K (entry K V) fst (fun k => home K hash k (nslots K V t)) (slots K V t) /\
    UQ K (entry K V) fst (slots K V t)) /\
   nitems K V t = occupied (entry K V) (slots K V t)) /\
  (nitems K V t < nslots K V t \/ nslots K V t = 0).
Proof. reflexivity. Qed.

Lemma R_unfold K V (t : table K V) (m : amap K V) :
  R K V t m <-> NoDup (map fst m) /\ forall e, In e (t_iter K V t) <-> In e m.
Proof. reflexivity. Qed.

Section Final.
  Variables K V : Type.
  Variable keq : K -> K -> bool.
  Variable hash : K -> N.
  Hypothesis keq_spec : forall a b, keq a b = true <-> a = b.

  Local Notation t_inv := (t_inv K V hash).
  Local Notation R := (R K V).
  Local Notation T_step := (T_step K V keq hash).
  Local Notation T_run := (T_run K V keq hash).
  Local Notation spec_step := (spec_step K V keq).
  Local Notation spec_run := (spec_run K V keq).
  Local Notation a_get := (a_get K V keq).

  Lemma T_inv_empty : t_inv (T_empty K V).
  Proof. apply t_inv_empty. exact ideal_gt. Qed.

  Lemma T_step_refines (t : table K V) (m : amap K V) (o : op K V) : t_inv t -> R t m ->
    t_inv (fst (T_step t o)) /\ R (fst (T_step t o)) (fst (spec_step m o)) /\
    snd (T_step t o) = snd (spec_step m o).
  Proof. apply (step_refines K V keq hash table_swap _ _ _ keq_spec table_swap_strict table_swap_ge ideal_gt). Qed.

  Lemma T_step_total (t : table K V) (o : op K V) : t_inv t ->
    snd (T_step t o) <> OFuel V /\ snd (T_step t o) <> OCrash V.
  Proof. apply (step_total K V keq hash table_swap _ _ _ keq_spec table_swap_strict table_swap_ge ideal_gt). Qed.

  Lemma T_refines_map (ops : list (op K V)) (o : op K V) :
    let t := T_run ops in
    let m := spec_run ops [] in
    t_inv t /\ R t m /\ snd (T_step t o) = snd (spec_step m o).
  Proof. apply (refines_map K V keq hash table_swap _ _ _ keq_spec table_swap_strict table_swap_ge ideal_gt). Qed.

  Lemma T_len_iter (ops : list (op K V)) :
    let t := T_run ops in
    let m := spec_run ops [] in
    t_len K V t = length m /\
    NoDup (map fst (t_iter K V t)) /\
    Permutation (t_iter K V t) m /\
    (forall k, In k (map fst (t_iter K V t)) <-> a_get m k <> None).
  Proof.
    intros t m. destruct (T_refines_map ops (TSelfCopy K V)) as [Hi [Hr _]]. fold t in Hi, Hr. fold m in Hr.
    split; [apply (inv_len K V hash t m Hi Hr)|]. apply (inv_iter_keys K V keq hash keq_spec t m Hi Hr).
  Qed.

  Lemma T_get_mem (ops : list (op K V)) (k : K) :
    let t := T_run ops in
    let m := spec_run ops [] in
    snd (T_step t (TGet K V k)) = match a_get m k with Some v => OVal V v | None => ORaise V KeyError end /\
    snd (T_step t (TMem K V k)) = OBool V (match a_get m k with Some _ => true | None => false end).
  Proof.
    intros t m. destruct (T_refines_map ops (TSelfCopy K V)) as [Hi [Hr _]].
    apply (inv_get K V keq hash table_swap table_primes table_load_num table_load_den keq_spec t m k Hi Hr).
  Qed.

  Lemma T_absent_keyerror (ops : list (op K V)) (k : K) :
    let t := T_run ops in
    let m := spec_run ops [] in
    a_get m k = None ->
    T_step t (TGet K V k) = (t, ORaise V KeyError) /\ T_step t (TRem K V k) = (t, ORaise V KeyError).
  Proof.
    intros t m. destruct (T_refines_map ops (TSelfCopy K V)) as [Hi [Hr _]].
    apply (inv_absent K V keq hash table_swap _ _ _ keq_spec table_swap_strict table_swap_ge ideal_gt t m k Hi Hr).
  Qed.

  (* resize(t, 0) frees the slot array; whatever came before, the table then behaves as a new one *)
  Lemma T_emptied_keeps_working (ops ops' : list (op K V)) (o : op K V) :
    let t := T_run (ops ++ TResize K V 0 :: ops') in
    let m := spec_run ops' [] in
    t_inv t /\ R t m /\ snd (T_step t o) = snd (spec_step m o).
  Proof.
    intros t m. pose proof (T_refines_map (ops ++ TResize K V 0 :: ops') o) as H.
    cbv zeta in H. rewrite spec_run_clear in H. exact H.
  Qed.

  Lemma T_new_refines (kvs : list (entry K V)) :
    exists t, t_new K V keq hash table_swap table_primes table_load_num table_load_den kvs = Some t /\
      t_inv t /\ R t (a_set_all K V keq [] kvs).
  Proof. apply (t_new_refines K V keq hash table_swap _ _ _ keq_spec table_swap_strict table_swap_ge ideal_gt). Qed.

  Lemma T_assign_refines (src : table K V) (m : amap K V) : t_inv src -> R src m ->
    exists t', t_assign_from K V keq hash table_swap table_primes table_load_num table_load_den src = Some t' /\
      t_inv t' /\ R t' m.
  Proof. apply (assign_from_refines K V keq hash table_swap _ _ _ keq_spec table_swap_strict table_swap_ge ideal_gt). Qed.

  (* two histories that leave the same bindings leave tables that answer alike *)
  Lemma T_order_independent (ops1 ops2 : list (op K V)) :
    let t1 := T_run ops1 in let t2 := T_run ops2 in
    let m1 := spec_run ops1 [] in let m2 := spec_run ops2 [] in
    (forall k, a_get m1 k = a_get m2 k) ->
    (forall o, snd (T_step t1 o) = snd (T_step t2 o)) /\
    t_len K V t1 = t_len K V t2 /\ Permutation (t_iter K V t1) (t_iter K V t2).
  Proof.
    intros t1 t2 m1 m2 Hg.
    destruct (T_refines_map ops1 (TSelfCopy K V)) as [Hi1 [Hr1 _]]. fold t1 in Hi1, Hr1. fold m1 in Hr1.
    destruct (T_refines_map ops2 (TSelfCopy K V)) as [Hi2 [Hr2 _]]. fold t2 in Hi2, Hr2. fold m2 in Hr2.
    pose proof (same_bindings_perm K V keq keq_spec m1 m2 (proj1 Hr1) (proj1 Hr2) Hg) as Hp.
    split; [|split].
    - intros o. destruct (T_step_refines t1 m1 o Hi1 Hr1) as [_ [_ H1]].
      destruct (T_step_refines t2 m2 o Hi2 Hr2) as [_ [_ H2]]. rewrite H1, H2.
      apply (spec_out_same K V keq keq_spec m1 m2 o (proj1 Hr1) (proj1 Hr2) Hg).
    - rewrite (inv_len K V hash t1 m1 Hi1 Hr1), (inv_len K V hash t2 m2 Hi2 Hr2). apply Permutation_length. exact Hp.
    - eapply Permutation_trans; [apply (R_perm K V hash t1 m1 (proj1 Hi1) Hr1)|].
      eapply Permutation_trans; [exact Hp|]. apply Permutation_sym. apply (R_perm K V hash t2 m2 (proj1 Hi2) Hr2).
  Qed.

  (* arguments read from the table itself: in the model arguments are values, so binding k to what
     get k2 returned is binding k to a copy of it — the map becomes m[k := m(k2)] *)
  Lemma T_set_from_get (ops : list (op K V)) (k k2 : K) (v : V) :
    let t := T_run ops in
    let m := spec_run ops [] in
    snd (T_step t (TGet K V k2)) = OVal V v ->
    a_get m k2 = Some v /\
    t_inv (fst (T_step t (TSet K V k v))) /\
    R (fst (T_step t (TSet K V k v))) (a_set K V keq m k v) /\
    snd (T_step t (TSet K V k v)) = OUnit V.
  Proof.
    intros t m Hg. destruct (T_refines_map ops (TSelfCopy K V)) as [Hi [Hr _]]. fold t in Hi, Hr. fold m in Hr.
    destruct (T_get_mem ops k2) as [Hget _]. fold t in Hget. fold m in Hget. rewrite Hg in Hget.
    split.
    - destruct (a_get m k2) as [w|]; [injection Hget as ->; reflexivity|discriminate].
    - destruct (T_step_refines t m (TSet K V k v) Hi Hr) as [Hi' [Hr' Ho]]. auto.
  Qed.
End Final.

(* the same history under two hash functions: same outcomes, same len, same bindings *)
Lemma T_hash_independent (K V : Type) (keq : K -> K -> bool) (hash1 hash2 : K -> N) :
  (forall a b, keq a b = true <-> a = b) ->
  forall (ops : list (op K V)),
  let t1 := T_run K V keq hash1 ops in let t2 := T_run K V keq hash2 ops in
  (forall o, snd (T_step K V keq hash1 t1 o) = snd (T_step K V keq hash2 t2 o)) /\
  t_len K V t1 = t_len K V t2 /\ Permutation (t_iter K V t1) (t_iter K V t2).
Proof.
  intros keq_spec ops t1 t2. set (m := spec_run K V keq ops []).
  destruct (T_refines_map K V keq hash1 keq_spec ops (TSelfCopy K V)) as [Hi1 [Hr1 _]]. fold t1 in Hi1, Hr1. fold m in Hr1.
  destruct (T_refines_map K V keq hash2 keq_spec ops (TSelfCopy K V)) as [Hi2 [Hr2 _]]. fold t2 in Hi2, Hr2. fold m in Hr2.
  split; [|split].
  - intros o. destruct (T_step_refines K V keq hash1 keq_spec t1 m o Hi1 Hr1) as [_ [_ H1]].
    destruct (T_step_refines K V keq hash2 keq_spec t2 m o Hi2 Hr2) as [_ [_ H2]]. rewrite H1, H2. reflexivity.
  - rewrite (inv_len K V hash1 t1 m Hi1 Hr1), (inv_len K V hash2 t2 m Hi2 Hr2). reflexivity.
  - eapply Permutation_trans; [apply (R_perm K V hash1 t1 m (proj1 Hi1) Hr1)|].
    apply Permutation_sym. apply (R_perm K V hash2 t2 m (proj1 Hi2) Hr2).
Qed.

(* ---------------------------------------------------------------- the old rule `if (j >= p)` *)
Local Open Scope Z_scope.
Definition nonstrict_swap (j p : nat) : bool := (p <=? j)%nat.
Definition witness_ops : list (op Z Z) := [TSet Z Z 55 1; TSet Z Z 110 2; TSet Z Z 55 3].
(* the witnesses below are computed with LITERAL sizes (prime table prefix and load factor 9/10 of the
   pinned source), so that they do not move when the tuning of the working tree does *)
Definition pinned_primes : list N := [0; 1; 5; 11; 23; 53]%N.

(* with the pinned rule the refinement fails for the identity hash: keys 55 and 110 share a
   home slot (both are 0 modulo 5); updating the older one inserts it a second time *)
Lemma T_nonstrict_refuted :
  exists (hash : Z -> N) (ops : list (op Z Z)),
    let t := t_run Z Z Z.eqb hash nonstrict_swap pinned_primes 9 10 ops (t_empty Z Z pinned_primes 9 10) in
    let m := spec_run Z Z Z.eqb ops [] in
    t_len Z Z t = 3%nat /\ length m = 2%nat /\
    map fst (t_iter Z Z t) = [55; 110; 55] /\ map fst m = [55; 110].
Proof. exists Z.to_N, witness_ops. vm_compute. repeat split; reflexivity. Qed.

(* non-vacuity: a reachable table with three keys sharing the LAST slot of five as home (so two
   of them wrapped around to slots 0 and 1), satisfying the invariant and the relation *)
Definition example_ops : list (op Z Z) := [TSet Z Z 4 1; TSet Z Z 9 2; TSet Z Z 14 3; TSet Z Z 3 4].
Definition strict_swap (j p : nat) : bool := (p <? j)%nat.

Lemma pinned_ideal_gt : forall n : nat, (n < ideal_size pinned_primes 9 10 n)%nat.
Proof.
  intros n. unfold ideal_size.
  assert (H : (N.of_nat n < ideal_size_N pinned_primes 9 10 (N.of_nat n))%N)
    by (apply ideal_N_gt; vm_compute; reflexivity).
  lia.
Qed.

Lemma T_inv_nonvacuous :
  exists (t : table Z Z) (m : amap Z Z),
    t_inv Z Z Z.to_N t /\ R Z Z t m /\
    slots Z Z t = [Some (4%nat, (9, 2)); Some (4%nat, (14, 3)); None; Some (3%nat, (3, 4)); Some (4%nat, (4, 1))] /\
    m = [(3, 4); (14, 3); (9, 2); (4, 1)].
Proof.
  exists (t_run Z Z Z.eqb Z.to_N strict_swap pinned_primes 9 10 example_ops (t_empty Z Z pinned_primes 9 10)),
         (spec_run Z Z Z.eqb example_ops []).
  destruct (refines_map Z Z Z.eqb Z.to_N strict_swap pinned_primes 9 10 Z.eqb_eq
              (fun j p H => proj1 (Nat.ltb_lt p j) H) (fun j p H => proj1 (Nat.ltb_ge p j) H)
              pinned_ideal_gt example_ops (TSelfCopy Z Z)) as [Hi [Hr _]].
  split; [exact Hi|]. split; [exact Hr|]. split; vm_compute; reflexivity.
Qed.

(* ---------------------------------------------------------------- slot layout (TableLayout.v) *)
From CelloV Require Import TableLayout.
Local Close Scope Z_scope.

(* Table_Size_Round rounds UP to a multiple of sizeof(var) = 8: re-proved for the text of the
   working tree *)
Lemma size_round_ge_proof : forall s : nat,
  s <= size_round s /\ size_round s mod 8 = 0 /\ size_round s < s + 8.
Proof.
  intros s. unfold size_round, table_size_round.
  pose proof (Nat.div_mod (s + 8 - 1) 8 ltac:(lia)) as Hd.
  pose proof (Nat.mod_upper_bound (s + 8 - 1) 8 ltac:(lia)) as Hm.
  split; [lia|]. split; [apply Nat.mod_mul; lia|lia].
Qed.

(* a stored key never reaches the value's header, a stored value never reaches the next slot
   (whose first 8 bytes are its hash word), and slot i+1 starts where slot i ends *)
Lemma slot_layout_proof : forall hdr ks vs i : nat,
  let step := slot_step hdr ks vs in
  8 <= key_off hdr - hdr /\
  key_off hdr + ks <= val_hdr_off hdr ks /\
  val_hdr_off hdr ks + hdr = val_off hdr ks /\
  val_off hdr ks + vs <= step /\
  i * step + step = S i * step /\
  step mod 8 = (2 * hdr) mod 8.
Proof.
  intros hdr ks vs i step. unfold step, slot_step, key_off, val_hdr_off, val_off.
  destruct (size_round_ge_proof ks) as [Hk [Hk8 _]]. destruct (size_round_ge_proof vs) as [Hv [Hv8 _]].
  repeat split; try lia.
  apply Nat.mod_divides in Hk8; [|lia]. apply Nat.mod_divides in Hv8; [|lia].
  destruct Hk8 as [a Ha]. destruct Hv8 as [b Hb]. rewrite Ha, Hb.
  replace (8 + hdr + 8 * a + hdr + 8 * b) with (2 * hdr + (1 + a + b) * 8) by lia.
  apply Nat.mod_add. lia.
Qed.

Lemma layout_shape_proof : table_layout_shape_ok = true.
Proof. reflexivity. Qed.
