(* Properties_C06.v — every managed object is finalised exactly once (statements only). *)
From CelloV Require Import Generated Lifecycle LifecycleProofs.

Theorem lifecycle_source_shape : gc_life_shape = true.
Proof. exact source_shape_ok. Qed.
Print Assumptions lifecycle_source_shape.
