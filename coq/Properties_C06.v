(* Properties_C06.v — every managed object is finalised exactly once (statements only).
   The machine is `run rem_fix sweep_fix` of Lifecycle.v with the two switches taken from
   Generated.v, i.e. read off the C text of the working tree: a revert of either half of the D18
   repair makes these statements ill-typed proofs (broken obligations). *)
From CelloV Require Import Generated Lifecycle LifecycleProofs.
From Coq Require Import List.
Import ListNotations.

(* the fixed shapes of GC.c / Alloc.c / Pointer.c / Thread.c / Cello.h that the model re-states *)
Theorem lifecycle_source_shape : gc_life_shape = true.
Proof. exact source_shape_ok. Qed.
Print Assumptions lifecycle_source_shape.

(* both halves of the D18 repair are present in the C text *)
Theorem lifecycle_repair_present : gc_rem_pending_finalises = true /\ gc_sweep_nulls_first = true.
Proof. exact (conj eq_refl eq_refl). Qed.
Print Assumptions lifecycle_repair_present.

(* D22 repair present: an allocation made by a destructor inside a running sweep cannot start a
   nested collection (which would reuse and free the one pending list); this is the third switch of
   the machine *)
Theorem lifecycle_no_nested_collection : gc_set_defers_in_sweep = true.
Proof. exact eq_refl. Qed.
Print Assumptions lifecycle_no_nested_collection.

(* (the collection threshold rule gc_mitems_rule is read off the source as an expression; the
   theorems below are instances of statements proved for EVERY rule: when a collection runs is tuning)
   for every history — any interleaving of new/new_root/new_raw, del/del_root/del_raw, ownership
   links, forced and threshold collections with any slot order and any marks, stop/start, teardown
   — no destructor runs twice and memory is released exactly as often as the destructor ran *)
Theorem lifecycle_finalised_at_most_once :
  forall (h : list ev) (x : nat),
    let s := run gc_mitems_rule gc_rem_pending_finalises gc_sweep_nulls_first gc_set_defers_in_sweep nopro h in
    fin_count s x <= 1 /\ free_count s x = fin_count s x.
Proof. exact (finalised_at_most_once_sw _ _ _ _ eq_refl eq_refl eq_refl). Qed.
Print Assumptions lifecycle_finalised_at_most_once.

(* the nested destructor calls through owning Boxes never exhaust the fuel of the model, and no
   sweep is left with a non-empty pending list *)
Theorem lifecycle_fuel_adequate :
  forall h : list ev,
    let s := run gc_mitems_rule gc_rem_pending_finalises gc_sweep_nulls_first gc_set_defers_in_sweep nopro h in
    oof s = false /\ pend s = [].
Proof. exact (fuel_adequate_sw _ _ _ _ eq_refl eq_refl eq_refl). Qed.
Print Assumptions lifecycle_fuel_adequate.

(* del / del_root with the collector running, and del_raw always, finalise the object exactly
   once, at once *)
Theorem lifecycle_explicit_delete_finalises :
  forall (h : list ev) (k : kind) (o : nat),
    no_alloc_in_stop_window gc_mitems_rule gc_rem_pending_finalises gc_sweep_nulls_first gc_set_defers_in_sweep nopro h = true ->
    let s := run gc_mitems_rule gc_rem_pending_finalises gc_sweep_nulls_first gc_set_defers_in_sweep nopro h in
    torn s = false -> live s o = true -> kind_of s o = Some k ->
    (k = KRaw \/ running s = true) ->
    let s' := run gc_mitems_rule gc_rem_pending_finalises gc_sweep_nulls_first gc_set_defers_in_sweep nopro (h ++ [EDel k o]) in
    fin_count s' o = 1 /\ free_count s' o = 1.
Proof. exact (explicit_delete_finalises_sw _ _ _ _ eq_refl eq_refl eq_refl). Qed.
Print Assumptions lifecycle_explicit_delete_finalises.

(* through an owning Box: with the collector running, a delete of o finalises exactly once, at
   once, every object that o reaches through ownership (chains of Boxes of any length, cycles) *)
Theorem lifecycle_delete_reaches_owned :
  forall (h : list ev) (k : kind) (o x : nat),
    no_alloc_in_stop_window gc_mitems_rule gc_rem_pending_finalises gc_sweep_nulls_first gc_set_defers_in_sweep nopro h = true ->
    let s := run gc_mitems_rule gc_rem_pending_finalises gc_sweep_nulls_first gc_set_defers_in_sweep nopro h in
    torn s = false -> live s o = true -> kind_of s o = Some k -> running s = true ->
    Reach s o x ->
    let s' := run gc_mitems_rule gc_rem_pending_finalises gc_sweep_nulls_first gc_set_defers_in_sweep nopro (h ++ [EDel k o]) in
    fin_count s' x = 1 /\ free_count s' x = 1.
Proof. exact (delete_reaches_owned_sw _ _ _ _ eq_refl eq_refl eq_refl). Qed.
Print Assumptions lifecycle_delete_reaches_owned.

(* a collection that reclaims a Box finalises exactly once everything the Box reaches through
   ownership, for every sweep order (owner met before or after the owned object — the D18
   scenario) and every set of marks *)
Theorem lifecycle_collect_reaches_owned :
  forall (h : list ev) (order marks : list nat) (b x : nat),
    let s := run gc_mitems_rule gc_rem_pending_finalises gc_sweep_nulls_first gc_set_defers_in_sweep nopro h in
    torn s = false -> running s = true ->
    In b (map fst (reg s)) -> is_root s b = false -> ~ In b marks ->
    Reach s b x ->
    let s' := run gc_mitems_rule gc_rem_pending_finalises gc_sweep_nulls_first gc_set_defers_in_sweep nopro (h ++ [ECollect order marks]) in
    fin_count s' x = 1 /\ free_count s' x = 1.
Proof. exact (collect_reaches_owned_sw _ _ _ _ eq_refl eq_refl eq_refl). Qed.
Print Assumptions lifecycle_collect_reaches_owned.

Example lifecycle_reach_inhabited :
  Reach (run mitems_rule true true true nopro sample_history) 1 2 /\ Reach (run mitems_rule true true true nopro sample_history) 3 4.
Proof. exact sample_reach. Qed.

(* after teardown (thread exit / Cello_Exit) every managed object ever allocated has been
   finalised exactly once and its memory released exactly once *)
Theorem lifecycle_teardown_complete :
  forall (h : list ev) (order : list nat) (x : nat) (b : bool),
    no_alloc_in_stop_window gc_mitems_rule gc_rem_pending_finalises gc_sweep_nulls_first gc_set_defers_in_sweep nopro h = true ->
    let s := run gc_mitems_rule gc_rem_pending_finalises gc_sweep_nulls_first gc_set_defers_in_sweep nopro h in
    torn s = false -> info s x = Some (KManaged, b) ->
    let s' := run gc_mitems_rule gc_rem_pending_finalises gc_sweep_nulls_first gc_set_defers_in_sweep nopro (h ++ [ETeardown order]) in
    fin_count s' x = 1 /\ free_count s' x = 1.
Proof. exact (teardown_complete_sw _ _ _ _ eq_refl eq_refl eq_refl). Qed.
Print Assumptions lifecycle_teardown_complete.

(* the machine refines the specification `sp_run` (the oracle the check evaluates next to the real
   library): along every history in which neither the machine nor the specification flags a misuse
   (no use after delete; no reference to an object the program did not allocate itself) and whose
   stop windows are clean, every object the specification demands to be finalised by now —
   explicitly deleted, reached from a deleted object through owning Boxes, or managed at
   teardown — has been finalised exactly once and released exactly once *)
Theorem lifecycle_refines_spec :
  forall (h : list ev) (x : nat),
    bad (run gc_mitems_rule gc_rem_pending_finalises gc_sweep_nulls_first gc_set_defers_in_sweep nopro h) = false ->
    s_bad (sp_run h) = false ->
    no_alloc_or_del_in_stop_window gc_mitems_rule gc_rem_pending_finalises gc_sweep_nulls_first gc_set_defers_in_sweep nopro h = true ->
    In x (s_must (sp_run h)) ->
    fin_count (run gc_mitems_rule gc_rem_pending_finalises gc_sweep_nulls_first gc_set_defers_in_sweep nopro h) x = 1 /\
    free_count (run gc_mitems_rule gc_rem_pending_finalises gc_sweep_nulls_first gc_set_defers_in_sweep nopro h) x = 1.
Proof. exact (refines_spec_sw _ _ _ _ eq_refl eq_refl eq_refl). Qed.
Print Assumptions lifecycle_refines_spec.

(* the fuel of the specification's ownership chain is never what stops it (so the oracle demands
   everything the property demands): any larger fuel gives the same set *)
Theorem lifecycle_spec_chain_fuel_adequate :
  forall (h : list ev) (o k : nat),
    let p := sp_run h in
    chain (S (length (s_ids p)) + k) (s_owned p) (s_must p) (s_live p) o =
    chain (S (length (s_ids p))) (s_owned p) (s_must p) (s_live p) o.
Proof. exact (spec_chain_fuel_adequate mitems_rule). Qed.
Print Assumptions lifecycle_spec_chain_fuel_adequate.

Example lifecycle_spec_inhabited :
  In 5 (s_must (sp_run sample_history)) /\ s_bad (sp_run sample_history) = false.
Proof. exact sample_spec_must. Qed.

(* non-vacuity with allocating destructors: the objects 10 and 11 allocated by the destructor of 1
   are managed objects of the machine; teardown finalises them *)
Example lifecycle_alloc_inhabited :
  let s := run mitems_rule true true true nopro alloc_history in
  no_alloc_or_del_in_stop_window mitems_rule true true true nopro alloc_history = true /\ bad s = false /\ torn s = false /\
  fin_count s 1 = 1 /\ fin_count s 2 = 1 /\
  info s 10 = Some (KManaged, false) /\ info s 11 = Some (KManaged, false) /\
  fin_count (run mitems_rule true true true nopro (alloc_history ++ [ETeardown []])) 11 = 1.
Proof. exact alloc_history_ok. Qed.

(* non-vacuity of the hypotheses of the theorems above *)
Example lifecycle_hypotheses_inhabited :
  let s := run mitems_rule true true true nopro sample_history in
  no_alloc_or_del_in_stop_window mitems_rule true true true nopro sample_history = true /\
  no_alloc_in_stop_window mitems_rule true true true nopro sample_history = true /\
  torn s = false /\ bad s = false /\ running s = true /\
  live s 1 = true /\ kind_of s 1 = Some KManaged /\ info s 6 = Some (KManaged, false) /\
  live s 3 = true /\ kind_of s 3 = Some KRoot /\ fin_count s 7 = 1 /\ fin_count s 8 = 1.
Proof. exact sample_history_ok. Qed.

(* D18, pinned code (GC_Rem_Ptr only clears the pending entry): an object owned by a Box swept in
   the same collection and met first is never finalised, not even at teardown *)
Theorem lifecycle_d18_refuted_pinned :
  let s := run mitems_rule false false true nopro d18_history in
  no_alloc_or_del_in_stop_window mitems_rule false false true nopro d18_history = true /\ bad s = false /\ torn s = true /\
  info s 2 = Some (KManaged, false) /\ fin_count s 2 = 0 /\ free_count s 2 = 0.
Proof. exact LifecycleProofs.lifecycle_d18_refuted_pinned. Qed.
Print Assumptions lifecycle_d18_refuted_pinned.

(* D22, pinned GC_Set (collection started from inside the running sweep by an allocating
   destructor): the nested sweep takes over the one pending list; object 1 is never finalised *)
Theorem lifecycle_d22_refuted_pinned :
  let s := run mitems_rule true true false nopro d22_history in
  no_alloc_or_del_in_stop_window mitems_rule true true false nopro d22_history = true /\ bad s = false /\ torn s = true /\
  info s 1 = Some (KManaged, false) /\ fin_count s 1 = 0 /\ free_count s 1 = 0.
Proof. exact LifecycleProofs.lifecycle_d22_refuted_pinned. Qed.
Print Assumptions lifecycle_d22_refuted_pinned.

(* only half of the repair (the sweep calls the destructor before clearing the entry): a Box that
   owns itself is finalised twice *)
Theorem lifecycle_sweep_order_refuted_half_repair :
  let s := run mitems_rule true false true nopro selfbox_history in bad s = false /\ fin_count s 1 = 2 /\ free_count s 1 = 2.
Proof. exact LifecycleProofs.lifecycle_sweep_order_refuted_half_repair. Qed.
Print Assumptions lifecycle_sweep_order_refuted_half_repair.

(* F2 (open finding): without the stop-window hypothesis teardown leaves an object behind *)
Theorem lifecycle_stop_window_refuted :
  let s := run mitems_rule true true true nopro stop_window_history in
  no_alloc_in_stop_window mitems_rule true true true nopro stop_window_history = false /\ bad s = false /\ torn s = true /\
  info s 1 = Some (KManaged, false) /\ fin_count s 1 = 0.
Proof. exact LifecycleProofs.lifecycle_stop_window_refuted. Qed.
Print Assumptions lifecycle_stop_window_refuted.

(* ---------------------------------------------------------------------------------------------
   Program exit.  The `main` wrapper of Cello.h (two switches read off the macro text: it registers
   Cello_Exit with atexit before Cello_Main, and it does not call it again after the return) tears the
   collector down on EVERY termination route — return from main, exit() from a nested call, exit()
   inside a with/try block, an uncaught throw, a non-zero exit status, exit after a worker thread —
   once (third switch: Exception_Error leaves only through exit(); the routes include signals turned
   into exceptions, uncaught or caught earlier): every managed object allocated before is finalised
   exactly once by the time the process is gone *)
Theorem lifecycle_terminate_complete :
  forall (r : route) (h : list ev) (order : list nat) (x : nat) (b : bool),
    no_alloc_in_stop_window gc_mitems_rule gc_rem_pending_finalises gc_sweep_nulls_first gc_set_defers_in_sweep nopro h = true ->
    let s := run gc_mitems_rule gc_rem_pending_finalises gc_sweep_nulls_first gc_set_defers_in_sweep nopro h in
    torn s = false -> info s x = Some (KManaged, b) ->
    let s' := terminate gc_mitems_rule gc_rem_pending_finalises gc_sweep_nulls_first gc_set_defers_in_sweep nopro
                        main_registers_atexit main_tears_down_after_return exception_error_exits r order s in
    (fin_count s' x = 1 /\ free_count s' x = 1) /\ torn s' = true.
Proof. exact (terminate_complete_sw _ _ _ _ _ _ _ eq_refl eq_refl eq_refl eq_refl eq_refl eq_refl). Qed.
Print Assumptions lifecycle_terminate_complete.

(* a wrapper that tears down only after Cello_Main has returned (no atexit): exit() below main and an
   uncaught throw leave every managed object behind; returning from main is fine *)
Theorem lifecycle_terminate_refuted_without_atexit :
  let s := terminate mitems_rule true true true nopro false true true RExit [] (run mitems_rule true true true nopro exit_history) in
  no_alloc_in_stop_window mitems_rule true true true nopro exit_history = true /\ bad s = false /\ torn s = false /\
  info s 1 = Some (KManaged, false) /\ fin_count s 1 = 0 /\ fin_count s 2 = 0 /\
  fin_count (terminate mitems_rule true true true nopro false true true RThrow [] (run mitems_rule true true true nopro exit_history)) 1 = 0 /\
  fin_count (terminate mitems_rule true true true nopro false true true RReturn [] (run mitems_rule true true true nopro exit_history)) 1 = 1.
Proof. exact terminate_refuted_without_atexit. Qed.
Print Assumptions lifecycle_terminate_refuted_without_atexit.

(* an Exception_Error that can leave without exit() (_Exit, abort, ...): uncaught exceptions — a
   signal turned into an exception, any throw after one — leave the managed objects behind *)
Theorem lifecycle_terminate_refuted_error_without_exit :
  let s := terminate mitems_rule true true true nopro true false false RSigUncaught [] (run mitems_rule true true true nopro exit_history) in
  bad s = false /\ torn s = false /\ info s 1 = Some (KManaged, false) /\ fin_count s 1 = 0 /\ fin_count s 2 = 0 /\
  fin_count (terminate mitems_rule true true true nopro true false false RSigCaughtThrow [] (run mitems_rule true true true nopro exit_history)) 1 = 0 /\
  fin_count (terminate mitems_rule true true true nopro true false false RSigCaughtReturn [] (run mitems_rule true true true nopro exit_history)) 1 = 1 /\
  fin_count (terminate mitems_rule true true true nopro true false false RSigCaughtExit [] (run mitems_rule true true true nopro exit_history)) 1 = 1.
Proof. exact terminate_refuted_error_without_exit. Qed.
Print Assumptions lifecycle_terminate_refuted_error_without_exit.

Example lifecycle_terminate_inhabited :
  no_alloc_in_stop_window mitems_rule true true true nopro exit_history = true /\ torn (run mitems_rule true true true nopro exit_history) = false /\
  info (run mitems_rule true true true nopro exit_history) 1 = Some (KManaged, false) /\
  fin_count (terminate mitems_rule true true true nopro true false true RExit [] (run mitems_rule true true true nopro exit_history)) 2 = 1 /\
  fin_count (terminate mitems_rule true true true nopro true false true RSigUncaught [] (run mitems_rule true true true nopro exit_history)) 2 = 1.
Proof. exact exit_history_ok. Qed.

(* The theorems that tie the abstract registry of this machine to C17's concrete robin-hood registry
   (lifecycle_glue_sweep, lifecycle_glue_rem, lifecycle_glue_history,
   lifecycle_over_concrete_registry_partial) are in coq/Properties_C06_glue.v: they are statements about
   C17's model, which exists only when C17's own translator can read the tree; props/C06.py re-checks
   them on every run where it can (see design.d/C06.md, "Glue"). *)

(* ---- destructors that open a stop/start window of their own (seeded C06-r7-2) ---- *)
(* GC_Start / GC_Stop only flip gc->running (read off the C text) *)
Theorem lifecycle_start_stop_keep_pending : gc_start_stop_keep_pending = true.
Proof. exact eq_refl. Qed.
Print Assumptions lifecycle_start_stop_keep_pending.

(* a window opened from inside a running sweep (by the destructor the finaliser loop is calling) leaves
   that sweep's pending list alone — and the registry, the running flag and the ledger *)
Theorem lifecycle_window_in_sweep :
  forall s : st, in_sweep s = true ->
    let s' := window gc_start_stop_keep_pending s in
    pend s' = pend s /\ reg s' = reg s /\ running s' = running s /\ log s' = log s.
Proof. exact window_in_sweep_leaves_pending. Qed.
Print Assumptions lifecycle_window_in_sweep.

(* the machine the check runs next to the library: the destructors of the objects `win` bracket with
   stop/start before anything else they do (allocations, a Box's del) — in threshold sweeps, explicit
   collections, deletes and teardown.  Exactly-once still holds: never twice for ANY history; and after
   teardown every managed object has been finalised and released exactly once. *)
Theorem lifecycle_window_exactly_once :
  forall (win : nat -> bool) (h : list ev) (x : nat),
    let pro := dwin win gc_start_stop_keep_pending in
    let s := run gc_mitems_rule gc_rem_pending_finalises gc_sweep_nulls_first gc_set_defers_in_sweep pro h in
    (fin_count s x <= 1 /\ free_count s x = fin_count s x) /\ oof s = false /\ pend s = [] /\
    forall (order : list nat) (b : bool),
      no_alloc_in_stop_window gc_mitems_rule gc_rem_pending_finalises gc_sweep_nulls_first gc_set_defers_in_sweep pro h = true ->
      torn s = false -> info s x = Some (KManaged, b) ->
      let s' := run gc_mitems_rule gc_rem_pending_finalises gc_sweep_nulls_first gc_set_defers_in_sweep pro (h ++ [ETeardown order]) in
      fin_count s' x = 1 /\ free_count s' x = 1.
Proof.
  intros win h x. cbv zeta. change gc_start_stop_keep_pending with true.
  unfold no_alloc_in_stop_window.
  rewrite !(run_ext _ _ _ _ _ (dwin_keep_id win)).
  split; [apply lifecycle_finalised_at_most_once|].
  split; [apply lifecycle_fuel_adequate|]. split; [apply lifecycle_fuel_adequate|].
  intros order b Hn. rewrite (all_from_ext _ _ _ _ _ (dwin_keep_id win)) in Hn.
  rewrite ?(run_ext _ _ _ _ _ (dwin_keep_id win)).
  exact (lifecycle_teardown_complete h order x b Hn).
Qed.
Print Assumptions lifecycle_window_exactly_once.

(* a GC_Start that forgets the pending list it finds (C06-r7-2): two unreachable objects, the first
   brackets — the second is never finalised, not by the sweep and not at teardown *)
Theorem lifecycle_window_refuted_when_start_drops_pending :
  let h := [ENew KManaged false 1 [] []; ENew KManaged false 2 [] [1]; ECollect [1; 2] []; ETeardown []] in
  let s := run mitems_rule true true true (dwin (Nat.eqb 1) false) h in
  bad s = false /\ torn s = true /\ fin_count s 1 = 1 /\ fin_count s 2 = 0 /\
  fin_count (run mitems_rule true true true (dwin (Nat.eqb 1) true) h) 2 = 1.
Proof. vm_compute. repeat split; reflexivity. Qed.
Print Assumptions lifecycle_window_refuted_when_start_drops_pending.
