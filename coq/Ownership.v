(* Ownership.v — executable model of element OWNERSHIP in Cello's containers (property C05).
   MODEL ONLY (no proofs here; see OwnershipProofs.v).

   What is modelled: for Array.c, List.c, Table.c, Tree.c and Box (Pointer.c), WHERE each
   operation brings an embedded element into being (Array_Alloc / List_Alloc / Tree_Alloc /
   zeroed swap space + `assign` into zero-filled memory = construction) and WHERE it calls
   `destruct` on one.  An element is a cell carrying the ownership token its constructor
   obtained (None = zero-filled, never assigned: List_Resize upwards) and a value.
   Byte-wise internal moves (realloc, memmove, rehash, displacement, rotation, predecessor
   copy, sort swaps) move cells and emit no event; at this level they are invisible
   (they are the subject of the slot/tree/array models of C02-C04 and of the ledger
   correspondence run against the real library).

   A world is a numbered family of containers plus the token counter, the list of tokens
   destructed so far and the number of token-less destructs. *)
From Coq Require Import List Arith Bool ZArith.
Import ListNotations.

Record cell := mkcell { ctok : option nat; cval : Z }.

Inductive kind := KArray | KList | KTable | KTree.

Inductive cont :=
| CSeq (k : kind) (items : list cell)
| CMap (k : kind) (binds : list (cell * cell))      (* key cell, value cell; key values distinct *)
| CBox (o : option cell).                           (* the object a Box owns *)

Record world := mkW { conts : list (option cont); next : nat; dead : list (nat * Z); zdead : nat }.
(* dead: (token, value at destruction) of every destructed element, oldest first *)

Definition w_init : world := mkW [] 0 [] 0.

(* ---------------------------------------------------------------- tokens *)
Definition tok_of (c : cell) : list nat := match ctok c with Some t => [t] | None => [] end.
Definition toks (l : list cell) : list nat := flat_map tok_of l.
Definition ptoks (l : list (cell * cell)) : list nat :=
  flat_map (fun kv => tok_of (fst kv) ++ tok_of (snd kv)) l.
Definition cont_toks (c : cont) : list nat :=
  match c with
  | CSeq _ l => toks l
  | CMap _ l => ptoks l
  | CBox (Some x) => tok_of x
  | CBox None => []
  end.
Definition held (cs : list (option cont)) : list nat :=
  flat_map (fun oc => match oc with Some c => cont_toks c | None => [] end) cs.

(* the same with the value the element had when it was destructed (kill lists) *)
Definition tokv_of (c : cell) : list (nat * Z) := match ctok c with Some t => [(t, cval c)] | None => [] end.
Definition tokvs (l : list cell) : list (nat * Z) := flat_map tokv_of l.
Definition ptokvs (l : list (cell * cell)) : list (nat * Z) :=
  flat_map (fun kv => tokv_of (fst kv) ++ tokv_of (snd kv)) l.
Definition cont_tokvs (c : cont) : list (nat * Z) :=
  match c with
  | CSeq _ l => tokvs l
  | CMap _ l => ptokvs l
  | CBox (Some x) => tokv_of x
  | CBox None => []
  end.

Definition zeros (l : list cell) : nat := length (filter (fun c => match ctok c with None => true | _ => false end) l).

Definition cont_len (c : cont) : nat :=
  match c with
  | CSeq _ l => length l
  | CMap _ l => 2 * length l                 (* keys and values alike *)
  | CBox (Some _) => 1
  | CBox None => 0
  end.
Definition cont_zeros (c : cont) : nat := match c with CSeq _ l => zeros l | _ => 0 end.
Definition total_len (cs : list (option cont)) : nat :=
  fold_right (fun oc a => match oc with Some c => cont_len c + a | None => a end) 0 cs.
Definition total_zeros (cs : list (option cont)) : nat :=
  fold_right (fun oc a => match oc with Some c => cont_zeros c + a | None => a end) 0 cs.

(* ---------------------------------------------------------------- construction *)
(* Array_Alloc/List_Alloc/Tree_Alloc + assign into zero-filled memory: a fresh token *)
Definition fresh (nx : nat) (v : Z) : cell := mkcell (Some nx) v.

Fixpoint fresh_cells (nx : nat) (vs : list Z) : list cell :=
  match vs with
  | [] => []
  | v :: r => fresh nx v :: fresh_cells (S nx) r
  end.

Fixpoint fresh_pairs (nx : nat) (kvs : list (Z * Z)) : list (cell * cell) :=
  match kvs with
  | [] => []
  | (k, v) :: r => (fresh nx k, fresh (S nx) v) :: fresh_pairs (S (S nx)) r
  end.

(* result of a container-level operation: new contents, tokens destructed, token-less
   destructs, new counter *)
Record res (A : Type) := mkR { r_val : A; r_kill : list (nat * Z); r_zkill : nat; r_next : nat }.
Arguments mkR {A}. Arguments r_val {A}. Arguments r_kill {A}. Arguments r_zkill {A}. Arguments r_next {A}.

Definition keep {A} (x : A) (nx : nat) : res A := mkR x [] 0 nx.

(* ---------------------------------------------------------------- sequences *)
(* Array_Push / List_Push *)
Definition s_push (l : list cell) (v : Z) (nx : nat) : res (list cell) :=
  mkR (l ++ [fresh nx v]) [] 0 (S nx).

(* Array_Pop / List_Pop: destruct the last element *)
Definition s_pop (l : list cell) (nx : nat) : res (list cell) :=
  match rev l with
  | [] => keep l nx                                   (* raises, unchanged *)
  | x :: _ => mkR (removelast l) (tokv_of x) (zeros [x]) nx
  end.

(* Array_Push_At accepts 0 <= i <= len; List_Push_At accepts i = 0 or 0 <= i < len
   (it locates the element to insert before with List_At, which rejects i = len) *)
Definition s_push_at (k : kind) (l : list cell) (i : nat) (v : Z) (nx : nat) : res (list cell) :=
  if (match k with KList => (i =? 0) || (i <? length l) | _ => i <=? length l end) then mkR (firstn i l ++ fresh nx v :: skipn i l) [] 0 (S nx)
  else keep l nx.

(* Array_Pop_At / List_Pop_At with 0 <= i < len *)
Definition s_pop_at (l : list cell) (i : nat) (nx : nat) : res (list cell) :=
  match nth_error l i with
  | Some x => mkR (firstn i l ++ skipn (S i) l) (tokv_of x) (zeros [x]) nx
  | None => keep l nx
  end.

(* Array_Set / List_Set: `assign` INTO the existing element; a zero-filled element gets its
   token now, a live one keeps it *)
Definition s_set (l : list cell) (i : nat) (v : Z) (nx : nat) : res (list cell) :=
  match nth_error l i with
  | Some x =>
      match ctok x with
      | Some t => mkR (firstn i l ++ mkcell (Some t) v :: skipn (S i) l) [] 0 nx
      | None => mkR (firstn i l ++ fresh nx v :: skipn (S i) l) [] 0 (S nx)
      end
  | None => keep l nx
  end.

(* index of the first element equal (by value) to v *)
Fixpoint find_val (l : list cell) (v : Z) : option nat :=
  match l with
  | [] => None
  | x :: r => if Z.eqb (cval x) v then Some 0 else option_map S (find_val r v)
  end.

(* Array_Rem / List_Rem: remove the first equal element *)
Definition s_rem (l : list cell) (v : Z) (nx : nat) : res (list cell) :=
  match find_val l v with
  | Some i => s_pop_at l i nx
  | None => keep l nx                                  (* ValueError, unchanged *)
  end.

(* Array_Concat / List_Concat / append: push a copy of every element of the argument *)
Definition s_concat (l : list cell) (vs : list Z) (nx : nat) : res (list cell) :=
  mkR (l ++ fresh_cells nx vs) [] 0 (nx + length vs).

(* Array_Resize / List_Resize.  n = 0: clear.  n < len: destruct from the end.
   n > len: Array only reserves capacity; List appends zero-filled elements. *)
Definition s_resize (k : kind) (l : list cell) (n : nat) (nx : nat) : res (list cell) :=
  if n <? length l then mkR (firstn n l) (tokvs (skipn n l)) (zeros (skipn n l)) nx
  else match k with
       | KList => if n =? 0 then keep l nx
                  else keep (l ++ repeat (mkcell None 0%Z) (n - length l)) nx
       | _ => keep l nx
       end.

(* sort (Array): insertion sort by value; a permutation of the cells *)
Fixpoint ins_cell (x : cell) (l : list cell) : list cell :=
  match l with
  | [] => [x]
  | y :: r => if Z.leb (cval x) (cval y) then x :: y :: r else y :: ins_cell x r
  end.
Definition s_sort (l : list cell) : list cell := fold_right ins_cell [] l.

(* Array_Assign / List_Assign: clear, then construct a copy of every element of the source *)
Definition s_assign (l : list cell) (vs : list Z) (nx : nat) : res (list cell) :=
  mkR (fresh_cells nx vs) (tokvs l) (zeros l) (nx + length vs).

(* ---------------------------------------------------------------- maps *)
Fixpoint m_find (l : list (cell * cell)) (k : Z) : option nat :=
  match l with
  | [] => None
  | (a, _) :: r => if Z.eqb (cval a) k then Some 0 else option_map S (m_find r k)
  end.

(* Table_Set: the new key and value are constructed in the swap space FIRST; when the key is
   present the old key and old value are destructed and replaced.
   Tree_Set: when the key is present both are assigned IN PLACE (no construction, no
   destruction); otherwise a node is allocated and both are constructed. *)
Definition m_set (kd : kind) (l : list (cell * cell)) (k v : Z) (nx : nat) : res (list (cell * cell)) :=
  match m_find l k with
  | None => mkR (l ++ [(fresh nx k, fresh (S nx) v)]) [] 0 (S (S nx))
  | Some i =>
      match nth_error l i with
      | Some (a, b) =>
          match kd with
          | KTree => mkR (firstn i l ++ (mkcell (ctok a) k, mkcell (ctok b) v) :: skipn (S i) l) [] 0 nx
          | _ => mkR (firstn i l ++ (fresh nx k, fresh (S nx) v) :: skipn (S i) l)
                     (tokv_of a ++ tokv_of b) 0 (S (S nx))
          end
      | None => keep l nx
      end
  end.

(* Table_Rem / Tree_Rem: destruct key and value of the entry *)
Definition m_rem (l : list (cell * cell)) (k : Z) (nx : nat) : res (list (cell * cell)) :=
  match m_find l k with
  | Some i =>
      match nth_error l i with
      | Some (a, b) => mkR (firstn i l ++ skipn (S i) l) (tokv_of a ++ tokv_of b) 0 nx
      | None => keep l nx
      end
  | None => keep l nx                                  (* KeyError, unchanged *)
  end.

Fixpoint m_set_all (kd : kind) (l : list (cell * cell)) (kvs : list (Z * Z)) (nx : nat) (kill : list (nat * Z))
  : res (list (cell * cell)) :=
  match kvs with
  | [] => mkR l kill 0 nx
  | (k, v) :: r => let s := m_set kd l k v nx in
                   m_set_all kd (r_val s) r (r_next s) (kill ++ r_kill s)
  end.

(* Table_Assign / Tree_Assign: clear, then set every binding of the source *)
Definition m_assign (kd : kind) (l : list (cell * cell)) (kvs : list (Z * Z)) (nx : nat) : res (list (cell * cell)) :=
  m_set_all kd [] kvs nx (ptokvs l).

(* ---------------------------------------------------------------- worlds and operations *)
Inductive op :=
| ONewSeq (k : kind) (vs : list Z)          (* new(Array|List, T, v...) *)
| ONewMap (k : kind) (kvs : list (Z * Z))   (* new(Table|Tree, K, V, k, v, ...) *)
| ONewBox (v : Z)                           (* new(Box, new(T, v)) *)
| OPush (c : nat) (v : Z) | OPop (c : nat)
| OPushAt (c i : nat) (v : Z) | OPopAt (c i : nat)
| OSet (c i : nat) (v : Z)
| ORem (c : nat) (v : Z)
| OConcat (c d : nat)
| OResize (c n : nat)
| OSort (c : nat)
| OAssign (c d : nat)
| OCopy (d : nat)
| ODel (c : nat)
| OMSet (c : nat) (k v : Z) | OMRem (c : nat) (k : Z).

Definition getc (w : world) (c : nat) : option cont :=
  match nth_error (conts w) c with Some (Some x) => Some x | _ => None end.

Fixpoint upd {A} (l : list A) (i : nat) (x : A) : list A :=
  match l, i with
  | [], _ => []
  | _ :: r, 0 => x :: r
  | y :: r, S j => y :: upd r j x
  end.

Definition vals (l : list cell) : list Z := map cval l.
Definition pvals (l : list (cell * cell)) : list (Z * Z) := map (fun kv => (cval (fst kv), cval (snd kv))) l.

(* store the result of a container-level operation on container c *)
Definition put_seq (w : world) (c : nat) (k : kind) (r : res (list cell)) : world :=
  mkW (upd (conts w) c (Some (CSeq k (r_val r)))) (r_next r) (dead w ++ r_kill r) (zdead w + r_zkill r).
Definition put_map (w : world) (c : nat) (k : kind) (r : res (list (cell * cell))) : world :=
  mkW (upd (conts w) c (Some (CMap k (r_val r)))) (r_next r) (dead w ++ r_kill r) (zdead w + r_zkill r).

Definition is_seq_kind (k : kind) := match k with KArray | KList => true | _ => false end.

Definition step (w : world) (o : op) : world :=
  match o with
  | ONewSeq k vs =>
      if is_seq_kind k then
        mkW (conts w ++ [Some (CSeq k (fresh_cells (next w) vs))]) (next w + length vs) (dead w) (zdead w)
      else w
  | ONewMap k kvs =>
      if is_seq_kind k then w else
      let r := m_set_all k [] kvs (next w) [] in
      mkW (conts w ++ [Some (CMap k (r_val r))]) (r_next r) (dead w ++ r_kill r) (zdead w)
  | ONewBox v =>
      mkW (conts w ++ [Some (CBox (Some (fresh (next w) v)))]) (S (next w)) (dead w) (zdead w)
  | OPush c v =>
      match getc w c with Some (CSeq k l) => put_seq w c k (s_push l v (next w)) | _ => w end
  | OPop c =>
      match getc w c with Some (CSeq k l) => put_seq w c k (s_pop l (next w)) | _ => w end
  | OPushAt c i v =>
      match getc w c with Some (CSeq k l) => put_seq w c k (s_push_at k l i v (next w)) | _ => w end
  | OPopAt c i =>
      match getc w c with Some (CSeq k l) => put_seq w c k (s_pop_at l i (next w)) | _ => w end
  | OSet c i v =>
      match getc w c with Some (CSeq k l) => put_seq w c k (s_set l i v (next w)) | _ => w end
  | ORem c v =>
      match getc w c with Some (CSeq k l) => put_seq w c k (s_rem l v (next w)) | _ => w end
  | OConcat c d =>
      if c =? d then w else
      match getc w c, getc w d with
      | Some (CSeq k l), Some (CSeq _ l') => put_seq w c k (s_concat l (vals l') (next w))
      | _, _ => w
      end
  | OResize c n =>
      match getc w c with
      | Some (CSeq k l) => put_seq w c k (s_resize k l n (next w))
      | Some (CMap k l) => if n =? 0 then put_map w c k (mkR [] (ptokvs l) 0 (next w)) else w
      | _ => w
      end
  | OSort c =>
      match getc w c with Some (CSeq KArray l) => put_seq w c KArray (keep (s_sort l) (next w)) | _ => w end
  | OAssign c d =>
      if c =? d then w else
      match getc w c, getc w d with
      | Some (CSeq k l), Some (CSeq _ l') => put_seq w c k (s_assign l (vals l') (next w))
      | Some (CMap k l), Some (CMap _ l') => put_map w c k (m_assign k l (pvals l') (next w))
      | _, _ => w
      end
  | OCopy d =>
      match getc w d with
      | Some (CSeq k l) =>
          mkW (conts w ++ [Some (CSeq k (fresh_cells (next w) (vals l)))]) (next w + length (vals l)) (dead w) (zdead w)
      | Some (CMap k l) =>
          let r := m_set_all k [] (pvals l) (next w) [] in
          mkW (conts w ++ [Some (CMap k (r_val r))]) (r_next r) (dead w ++ r_kill r) (zdead w)
      | _ => w
      end
  | ODel c =>
      match getc w c with
      | Some x => mkW (upd (conts w) c None) (next w) (dead w ++ cont_tokvs x)
                      (zdead w + cont_zeros x)
      | None => w
      end
  | OMSet c k v =>
      match getc w c with Some (CMap kd l) => put_map w c kd (m_set kd l k v (next w)) | _ => w end
  | OMRem c k =>
      match getc w c with Some (CMap kd l) => put_map w c kd (m_rem l k (next w)) | _ => w end
  end.

Definition run (ops : list op) : world := fold_left step ops w_init.

(* the container an operation writes to (None: it only appends a new container) *)
Definition target (o : op) : option nat :=
  match o with
  | ONewSeq _ _ | ONewMap _ _ | ONewBox _ | OCopy _ => None
  | OPush c _ | OPop c | OPushAt c _ _ | OPopAt c _ | OSet c _ _ | ORem c _ | OConcat c _
  | OResize c _ | OSort c | OAssign c _ | ODel c | OMSet c _ _ | OMRem c _ => Some c
  end.

(* ---------------------------------------------------------------- signed indices
   The C functions take an int64 index and normalise a negative one against the current length:
   Array/List get, set, pop_at: i < 0 ? n + i : i;  Array_Push_At: i < 0 ? (n+1) + i : i;  List_Push_At locates
   the node to insert before with List_At (n + i).  An index that is still negative afterwards is refused like one
   that is too large.  [resolve] turns an operation with a signed index into the plain operation it is on the
   container as it stands (a refused index becomes one the plain operation refuses as well), so every run with
   signed indices IS a run of plain operations (OwnershipProofs.srun_is_run) and all theorems carry over. *)
Inductive sop : Type :=
| SOp (o : op)
| SPushAt (c : nat) (i v : Z)
| SPopAt (c : nat) (i : Z)
| SSet (c : nat) (i v : Z).

Definition norm_index (n : nat) (i : Z) : nat :=
  if (i <? 0)%Z then (if (Z.of_nat n + i <? 0)%Z then S n else Z.to_nat (Z.of_nat n + i))
  else if (Z.of_nat (S n) <? i)%Z then S n       (* far beyond the end: refused by every operation; no huge unary number *)
  else Z.to_nat i.

Definition seq_shape (w : world) (c : nat) : option (kind * nat) :=
  match getc w c with Some (CSeq k l) => Some (k, length l) | _ => None end.

Definition resolve (w : world) (s : sop) : op :=
  match s with
  | SOp o => o
  | SPushAt c i v =>
      match seq_shape w c with
      | Some (KList, n) => OPushAt c (norm_index n i) v
      | Some (_, n) => OPushAt c (norm_index (S n) i) v
      | None => OPushAt c 0 v
      end
  | SPopAt c i => match seq_shape w c with Some (_, n) => OPopAt c (norm_index n i) | None => OPopAt c 0 end
  | SSet c i v => match seq_shape w c with Some (_, n) => OSet c (norm_index n i) v | None => OSet c 0 v end
  end.

Definition sstep (w : world) (s : sop) : world := step w (resolve w s).
Definition srun (ss : list sop) : world := fold_left sstep ss w_init.

