(* Threads.v — executable model for property C13 (threads are isolated; join publishes;
   Mutex excludes).  Model only, no proofs (ThreadsProofs.v has them).

   A sequentially consistent interleaving machine.  Global state = one component per thread
   (its *core*: continuation, own collector registry stub, own exception record, own
   thread-local storage, own result trace; and a *sync side*: started/joined flags, the set
   of mutexes it believes it holds, the temporary of a non-atomic increment, what it read
   from other threads) + the mutex table + the shared counter cells + the process-wide
   "aborted" flag (Exception_Error -> exit).  A schedule is a list of thread ids; `gstep t`
   lets thread t execute its next instruction, or leaves the state unchanged when t is
   blocked (lock on an owned mutex, trylock loop, join of a running thread), not started,
   finished, or the process is gone.

   pthread semantics is ASSUMED, not modelled: mutex = owner option, lock blocks while owned,
   trylock answers `busy_result` (read from Mutex_Trylock's EBUSY branch) when owned, unlock
   by a non-owner and a second join are undefined behaviour (`ub`), join blocks until the
   target's function has returned and Thread_Init_Run has torn down its collector.

   C anchors (src/Thread.c, src/Exception.c, src/GC.c):
     lstep on OTry / KEndTry / OThrow    exception_try, exception_try_fail, exception_try_end,
                                         exception_catch, exception_throw (longjmp = `land`)
     OTls*                               Thread_Set/Get/Mem/Rem on current(Thread)->tls
     OAlloc / OCollect / exit            alloc (registers with current(GC)), GC_Mark+GC_Sweep,
                                         GC_Del at the end of Thread_Init_Run
     OLock/OUnlock/OTrySpin/OWith        Mutex_Lock, Mutex_Unlock, Mutex_Trylock, with(..) = start/stop
     OSpawn/OJoin                        Thread_Call (pthread_create), Thread_Join (pthread_join)
   Model switches (Section variables, instantiated from coq/Generated.v):
     clear_on_catch   exception_catch clears `active` when it hands the exception out (repair D3)
     busy_result      what Mutex_Trylock returns on EBUSY (false in the source)
     walk_foreign     false = Thread_Mark walks only the CURRENT thread's TLS table (repaired source);
                      true = the pre-repair code: a collection that reaches another thread's Thread object
                      walks that thread's TLS table while its owner may be changing it, and type_of()
                      writes `head->type = Type` into half written slots — modelled as the loss of a
                      binding in every other running thread's TLS (refuted in the proofs)
     shared_exc       false = the exception record is found through the thread's TLS
                      (Exception_Current = get(current(Thread), "__Exception")); true = the
                      hypothetical variant with ONE process-wide record (refuted in the proofs). *)
From Coq Require Import List Arith Bool.
Import ListNotations.

Definition tid := nat.
Definition mid := nat.
Definition oid := (nat * nat)%type.       (* object = (allocating thread, serial) *)

Inductive op : Type :=
| OAlloc (root : bool)                    (* new(Probe): registered with the CURRENT thread's collector *)
| OUnroot (i : nat)                       (* forget the i-th rooted pointer *)
| OCollect                                (* GC_Mark + GC_Sweep of the current thread's collector *)
| OTlsSet (k v : nat) | OTlsGet (k : nat) | OTlsMem (k : nat) | OTlsRem (k : nat)
| OEmit (v : nat)
| OPub (k : nat)                          (* publish a result object that is NOT owned by the collector's sweep:
                                             k = 0 new_root (registered as a root), k = 1 new_raw; it outlives the thread *)
| OWork (k n : nat)                       (* container work; opaque for the model *)
| OObs                                    (* observe depth / active / #tls keys / #roots *)
| OYield
| OThrow (e : nat)
| OTry (body : list op) (cs : list nat) (h : list op)
| OLock (m : mid) | OUnlock (m : mid) | OTrySpin (m : mid)
| OWith (m : mid) (body : list op)
| OTryOnce (m : mid) (body : list op)      (* if (trylock(m)) { body; unlock(m); }  — skipped when busy *)
| OIncr (m : mid)                         (* cell = cell + 1, as a load and a store *)
| OSpawn (t : tid) | OJoin (t : tid) | OPeek (t : tid)
| OSpawnCopy (v u : tid).                 (* thr v = copy(Thread object of u); call(thr v): u = the current thread or a
                                             finished, joined thread — Thread_Assign copies u's TLS table (a snapshot) *)

Inductive kitem : Type :=
| KOp (o : op)
| KEndTry (cs : list nat) (h : list op)
| KEndWith (m : mid)
| KStore (m : mid).

Inductive ev : Type :=
| EvEmit (v : nat)
| EvPub (k s : nat)
| EvWork (k n : nat)
| EvGet (k v : nat)
| EvMem (k : nat) (b : bool)
| EvObs (d : nat) (a : bool) (ntls nroots : nat)
| EvCaught (e : nat)
| EvFin (l : list oid)
| EvFatal (e : nat)
| EvExit (l : list oid)
| EvRestart.                (* the Thread object was called again (written by the caller) *)

Definition key_error : nat := 0.          (* index of KeyError in the drivers' exception table *)

Record exrec := mkE { depth : nat; active : bool; eobj : option nat }.

Record lstate := mkL {
  me : tid;
  code : list kitem;
  serial : nat;
  reg : list oid;          (* registry of the thread's own collector, newest first *)
  roots : list oid;
  fin : list oid;          (* everything this thread's collector has finalised *)
  exc : exrec;
  tls : list (nat * nat);
  out : list ev;           (* result trace, newest first *)
  done : bool;             (* function returned, collector torn down *)
  fatal : bool }.          (* uncaught exception: Exception_Error -> exit(EXIT_FAILURE) *)

Definition set_code (l : lstate) c := mkL (me l) c (serial l) (reg l) (roots l) (fin l) (exc l) (tls l) (out l) (done l) (fatal l).
Definition set_exc (l : lstate) x := mkL (me l) (code l) (serial l) (reg l) (roots l) (fin l) x (tls l) (out l) (done l) (fatal l).
Definition set_tls (l : lstate) x := mkL (me l) (code l) (serial l) (reg l) (roots l) (fin l) (exc l) x (out l) (done l) (fatal l).
Definition emit (l : lstate) e := mkL (me l) (code l) (serial l) (reg l) (roots l) (fin l) (exc l) (tls l) (e :: out l) (done l) (fatal l).
Definition set_fatal (l : lstate) := mkL (me l) (code l) (serial l) (reg l) (roots l) (fin l) (exc l) (tls l) (out l) (done l) true.

Definition linit (t : tid) (p : list op) : lstate :=
  mkL t (map KOp p) 0 [] [] [] (mkE 0 false None) [] [] false false.

(* Thread_Call on a Thread object whose previous run has finished and been joined: the function runs again
   in a new pthread with a fresh collector and a fresh exception record (Thread_Init_Run); the Thread
   object's TLS table (created by Thread_New) is the same table; serial numbers, the finalisation ledger and
   the result trace (with a marker) continue *)
Definition restart (l : lstate) (p : list op) : lstate :=
  mkL (me l) (map KOp p) (serial l) [] [] (fin l) (mkE 0 false None) (tls l) (EvRestart :: out l) false false.

Definition oid_eqb (a b : oid) : bool := (fst a =? fst b) && (snd a =? snd b).
Definition omem (o : oid) (l : list oid) : bool := existsb (oid_eqb o) l.
Definition nmem (n : nat) (l : list nat) : bool := existsb (Nat.eqb n) l.

Fixpoint drop_nth {A} (i : nat) (l : list A) : list A :=
  match l, i with
  | [], _ => []
  | _ :: r, 0 => r
  | x :: r, S j => x :: drop_nth j r
  end.

Fixpoint tls_get (k : nat) (m : list (nat * nat)) : option nat :=
  match m with [] => None | (k', v) :: r => if k =? k' then Some v else tls_get k r end.
Fixpoint tls_rem (k : nat) (m : list (nat * nat)) : list (nat * nat) :=
  match m with [] => [] | (k', v) :: r => if k =? k' then r else (k', v) :: tls_rem k r end.
Definition tls_set (k v : nat) (m : list (nat * nat)) : list (nat * nat) :=
  match tls_get k m with
  | Some _ => map (fun kv => if k =? fst kv then (k, v) else kv) m
  | None => m ++ [(k, v)]
  end.

(* exception_catch(tuple(cs)): no arguments = catch all *)
Definition catches (cs : list nat) (e : nat) : bool :=
  match cs with [] => true | _ => nmem e cs end.

Section Model.
Variable clear_on_catch : bool.
Variable busy_result : bool.
Variable shared_exc : bool.
Variable walk_foreign : bool.

(* longjmp to the innermost pending try with exception depth d >= 1: the jump lands in the
   `else { exception_try_fail(); } exception_try_end();` part, then exception_catch either
   hands the exception to the handler or jumps again.  None = nothing left to jump to
   (Exception_Error).  Result: new depth, new continuation. *)
Fixpoint land (e : nat) (d : nat) (c : list kitem) : option (nat * list kitem) :=
  match c with
  | [] => None
  | KEndTry cs h :: rest =>
      let d' := d - 1 in
      if catches cs e then Some (d', map KOp h ++ rest)
      else if 1 <=? d' then land e d' rest else None
  | _ :: rest => land e d rest
  end.

(* exception_throw(e) with continuation c (the instruction after the throw) *)
Definition do_throw (l : lstate) (e : nat) (c : list kitem) : lstate :=
  let x := exc l in
  if 1 <=? depth x then
    match land e (depth x) c with
    | Some (d', c') =>
        emit (set_code (set_exc l (mkE d' (negb clear_on_catch) (Some e))) c') (EvCaught e)
    | None => set_fatal (emit (set_code (set_exc l (mkE 0 true (Some e))) []) (EvFatal e))
    end
  else set_fatal (emit (set_code (set_exc l (mkE 0 (active x) (Some e))) []) (EvFatal e)).

(* the thread-local effect of one instruction; synchronisation instructions only advance *)
(* `ok` = the answer of trylock when the instruction is OTryOnce (ignored by every other instruction) *)
Definition lstep (ok : bool) (l : lstate) : lstate :=
  if done l || fatal l then l else
  match code l with
  | [] =>   (* Thread_Init_Run: function returned; del_raw(exc); del_raw(gc) sweeps everything *)
      let dead := rev (reg l) in
      mkL (me l) [] (serial l) [] (roots l) (fin l ++ dead) (exc l) (tls l) (EvExit dead :: out l) true (fatal l)
  | KOp o :: c =>
      match o with
      | OAlloc r =>
          let o := (me l, serial l) in
          mkL (me l) c (S (serial l)) (o :: reg l) (if r then roots l ++ [o] else roots l)
              (fin l) (exc l) (tls l) (out l) (done l) (fatal l)
      | OUnroot i =>
          mkL (me l) c (serial l) (reg l) (drop_nth i (roots l)) (fin l) (exc l) (tls l) (out l) (done l) (fatal l)
      | OCollect =>
          let dead := rev (filter (fun o => negb (omem o (roots l))) (reg l)) in
          mkL (me l) c (serial l) (filter (fun o => omem o (roots l)) (reg l)) (roots l)
              (fin l ++ dead) (exc l) (tls l) (EvFin dead :: out l) (done l) (fatal l)
      | OTlsSet k v => set_code (set_tls l (tls_set k v (tls l))) c
      | OTlsGet k =>
          match tls_get k (tls l) with
          | Some v => set_code (emit l (EvGet k v)) c
          | None => do_throw l key_error c
          end
      | OTlsMem k => set_code (emit l (EvMem k (match tls_get k (tls l) with Some _ => true | None => false end))) c
      | OTlsRem k =>
          match tls_get k (tls l) with
          | Some _ => set_code (set_tls l (tls_rem k (tls l))) c
          | None => do_throw l key_error c
          end
      | OEmit v => set_code (emit l (EvEmit v)) c
      | OPub k =>       (* takes a serial number; never enters the registry of sweepable objects, never finalised *)
          mkL (me l) c (S (serial l)) (reg l) (roots l) (fin l) (exc l) (tls l) (EvPub k (serial l) :: out l) (done l) (fatal l)
      | OWork k n =>
          (* kind 4 = n times `try { get(t, missing) } catch (e in KeyError) { }`: the record is left
             as the last caught KeyError leaves it *)
          let l1 := if (k =? 4) && (1 <=? n)
                    then set_exc l (mkE (depth (exc l)) (negb clear_on_catch) (Some key_error)) else l in
          set_code (emit l1 (EvWork k n)) c
      | OObs => set_code (emit l (EvObs (depth (exc l)) (active (exc l)) (length (tls l)) (length (roots l)))) c
      | OYield => set_code l c
      | OThrow e => do_throw l e c
      | OTry body cs h =>      (* exception_try: depth++, active = false *)
          set_code (set_exc l (mkE (S (depth (exc l))) false (eobj (exc l)))) (map KOp body ++ KEndTry cs h :: c)
      | OWith m body => set_code l (map KOp body ++ KEndWith m :: c)
      | OTryOnce m body => if ok then set_code l (map KOp body ++ KEndWith m :: c) else set_code l c
      | OIncr m => set_code l (KStore m :: c)
      | OLock _ | OUnlock _ | OTrySpin _ | OSpawn _ | OJoin _ | OPeek _ | OSpawnCopy _ _ => set_code l c
      end
  | KEndTry cs h :: c =>
      (* body completed: exception_try_end, then exception_catch looks at `active` *)
      let x := exc l in
      let d' := depth x - 1 in
      if active x then
        match eobj x with
        | Some e =>
            if catches cs e then
              emit (set_code (set_exc l (mkE d' (negb clear_on_catch) (Some e))) (map KOp h ++ c)) (EvCaught e)
            else do_throw (set_exc l (mkE d' true (Some e))) e c
        | None => set_code (set_exc l (mkE d' true None)) c
        end
      else set_code (set_exc l (mkE d' false (eobj x))) c
  | KEndWith _ :: c => set_code l c
  | KStore _ :: c => set_code l c
  end.

(* ---------------------------------------------------------------- the interleaving machine *)

Record sstate := mkS {
  started : bool;
  joined : bool;              (* some thread's join on this thread has returned *)
  holding : list mid;         (* mutexes this thread acquired and has not released *)
  tmp : nat;                  (* the loaded value of a pending non-atomic increment *)
  seen : list (tid * list ev);(* result traces of other threads read by OPeek, newest first *)
  hist : list bool;           (* ghost: one entry per executed instruction, newest first: the trylock answer
                                 of an OTryOnce, true for everything else *)
  tls0 : list (nat * nat);    (* ghost: the TLS snapshot the Thread object was created with (copy of a Thread), [] otherwise *)
  past : list (list bool);    (* ghost: the histories of the earlier, completed runs of this Thread object, newest first *)
  ub : bool }.                (* undefined behaviour reached (unlock of a mutex not held, second join, ...) *)

Record gstate := mkG {
  thr : list (lstate * sstate);
  mtx : mid -> option tid;
  cells : mid -> nat;
  gexc : exrec;               (* only used by the refuted variant shared_exc = true *)
  aborted : bool;
  progs : list (list op) }.   (* the function of every Thread object (immutable) *)

Fixpoint upd {A} (l : list A) (i : nat) (x : A) : list A :=
  match l, i with
  | [], _ => []
  | _ :: r, 0 => x :: r
  | y :: r, S j => y :: upd r j x
  end.

Definition fupd {A} (f : nat -> A) (i : nat) (x : A) : nat -> A :=
  fun j => if j =? i then x else f j.

Definition sinit (st : bool) : sstate := mkS st false [] 0 [] [] [] [] false.
Definition steps (s : sstate) : nat := length (hist s).

Fixpoint init_from (t : tid) (ps : list (list op)) : list (lstate * sstate) :=
  match ps with
  | [] => []
  | p :: r => (linit t p, sinit (t =? 0)) :: init_from (S t) r
  end.

(* thread 0 is the main thread (running from the start), the others wait for OSpawn *)
Definition ginit (ps : list (list op)) : gstate :=
  mkG (init_from 0 ps) (fun _ => None) (fun _ => 0) (mkE 0 false None) false ps.

Definition bump (ok : bool) (s : sstate) : sstate :=
  mkS (started s) (joined s) (holding s) (tmp s) (seen s) (ok :: hist s) (tls0 s) (past s) (ub s).
Definition set_holding (s : sstate) h := mkS (started s) (joined s) h (tmp s) (seen s) (hist s) (tls0 s) (past s) (ub s).
Definition set_tmp (s : sstate) v := mkS (started s) (joined s) (holding s) v (seen s) (hist s) (tls0 s) (past s) (ub s).
Definition add_seen (s : sstate) x := mkS (started s) (joined s) (holding s) (tmp s) (x :: seen s) (hist s) (tls0 s) (past s) (ub s).
Definition set_ub (s : sstate) := mkS (started s) (joined s) (holding s) (tmp s) (seen s) (hist s) (tls0 s) (past s) true.
Definition set_started (s : sstate) := mkS true (joined s) (holding s) (tmp s) (seen s) (hist s) (tls0 s) (past s) (ub s).
(* a new run of the thread: not joined yet, empty history, the old one archived *)
Definition relaunch (s : sstate) : sstate :=
  mkS true false (holding s) (tmp s) (seen s) [] (tls0 s) (hist s :: past s) (ub s).
(* a Thread object made by copy(): started, with the inherited snapshot *)
Definition launch_copy (s : sstate) (tau : list (nat * nat)) : sstate :=
  mkS true false (holding s) (tmp s) (seen s) [] tau [] (ub s).
Definition set_joined (s : sstate) := mkS (started s) true (holding s) (tmp s) (seen s) (hist s) (tls0 s) (past s) (ub s).

Definition rem_mid (m : mid) (h : list mid) : list mid := filter (fun x => negb (x =? m)) h.

(* thread t executes its instruction: core := lstep (through the exception record the
   variant selects), sync side := s' with the step counted *)
Definition advance_ok (ok : bool) (g : gstate) (t : tid) (l : lstate) (s' : sstate) : gstate :=
  let lv := if shared_exc then set_exc l (gexc g) else l in
  let l' := lstep ok lv in
  mkG (upd (thr g) t (l', bump ok s')) (mtx g) (cells g)
      (if shared_exc then exc l' else gexc g) (aborted g || fatal l') (progs g).

Definition advance := advance_ok true.

Definition set_mtx (g : gstate) m v := mkG (thr g) (fupd (mtx g) m v) (cells g) (gexc g) (aborted g) (progs g).
Definition set_cell (g : gstate) m v := mkG (thr g) (mtx g) (fupd (cells g) m v) (gexc g) (aborted g) (progs g).
Definition set_thr (g : gstate) t x := mkG (upd (thr g) t x) (mtx g) (cells g) (gexc g) (aborted g) (progs g).

Definition acquire (g : gstate) (t : tid) (l : lstate) (s : sstate) (m : mid) (spin : bool) : gstate :=
  match mtx g m with
  | None => advance (set_mtx g m (Some t)) t l (set_holding s (m :: holding s))
  | Some _ =>
      if spin && busy_result
      then advance g t l (set_holding s (m :: holding s))     (* trylock claimed success on EBUSY *)
      else g                                                   (* blocked / trylock said false: retry *)
  end.

Definition release (g : gstate) (t : tid) (l : lstate) (s : sstate) (m : mid) : gstate :=
  match mtx g m with
  | Some o => if o =? t
              then advance (set_mtx g m None) t l (set_holding s (rem_mid m (holding s)))
              else set_thr g t (l, set_ub s)
  | None => set_thr g t (l, set_ub s)
  end.

(* pre-repair Thread_Mark: the collecting thread t damages the TLS of the other running threads *)
Fixpoint walk_others (t i : tid) (l : list (lstate * sstate)) : list (lstate * sstate) :=
  match l with
  | [] => []
  | (lx, sx) :: r =>
      (if (i =? t) || negb (started sx) || done lx then (lx, sx) else (set_tls lx (tl (tls lx)), sx))
      :: walk_others t (S i) r
  end.

Definition gstep (t : tid) (g : gstate) : gstate :=
  if aborted g then g else
  match nth_error (thr g) t with
  | None => g
  | Some (l, s) =>
    if negb (started s) || done l || fatal l || ub s then g else
    match code l with
    | KOp (OLock m) :: _ => acquire g t l s m false
    | KOp (OWith m _) :: _ => acquire g t l s m false
    | KOp (OTrySpin m) :: _ => acquire g t l s m true
    | KOp (OTryOnce m _) :: _ =>
        match mtx g m with
        | None => advance (set_mtx g m (Some t)) t l (set_holding s (m :: holding s))
        | Some _ => if busy_result then advance g t l (set_holding s (m :: holding s))
                    else advance_ok false g t l s          (* trylock said false: the section is skipped *)
        end
    | KOp (OUnlock m) :: _ => release g t l s m
    | KEndWith m :: _ => release g t l s m
    | KOp (OIncr m) :: _ =>
        (* the counter is a plain C variable: touching it without holding its mutex is a data race *)
        if nmem m (holding s) then advance g t l (set_tmp s (cells g m))
        else set_thr g t (l, set_ub s)
    | KStore m :: _ => advance (set_cell g m (S (tmp s))) t l s
    | KOp (OSpawn u) :: _ =>
        match nth_error (thr g) u with
        | Some (lu, su) =>
            if started su then
              (* calling a Thread object again: defined only when its previous run has finished AND been joined
                 (otherwise two pthreads share one struct Thread / a handle is lost) *)
              if done lu && joined su then
                match nth_error (progs g) u with
                | Some p => advance (set_thr g u (restart lu p, relaunch su)) t l s
                | None => set_thr g t (l, set_ub s)
                end
              else set_thr g t (l, set_ub s)
            else advance (set_thr g u (lu, set_started su)) t l s
        | None => set_thr g t (l, set_ub s)
        end
    | KOp (OSpawnCopy v u) :: _ =>
        match nth_error (thr g) v, nth_error (thr g) u, nth_error (progs g) v with
        | Some (lv, sv), Some (lu, su), Some p =>
            if started sv then set_thr g t (l, set_ub s)
            else if (u =? t) || (started su && done lu && joined su) then
              (* the new Thread object starts with a SNAPSHOT of the source's TLS table and is private afterwards;
                 Thread_Init_Run gives it a fresh collector and a fresh exception record *)
              let tau := tls (if u =? t then l else lu) in
              advance (set_thr g v (set_tls (linit v p) tau, launch_copy sv tau)) t l s
            else set_thr g t (l, set_ub s)      (* copying the table of a thread that may be changing it: a data race *)
        | _, _, _ => set_thr g t (l, set_ub s)
        end
    | KOp (OJoin u) :: _ =>
        match nth_error (thr g) u with
        | Some (lu, su) =>
            if negb (started su) then advance g t l s          (* Thread_Join: `if (not t->thread) return;` *)
            else if negb (done lu) then g                       (* pthread_join blocks *)
            else if joined su then set_thr g t (l, set_ub s)    (* joining twice is undefined *)
            else advance (set_thr g u (lu, set_joined su)) t l s
        | None => set_thr g t (l, set_ub s)
        end
    | KOp (OPeek u) :: _ =>
        match nth_error (thr g) u with
        | Some (lu, _) => advance g t l (add_seen s (u, out lu))
        | None => set_thr g t (l, set_ub s)
        end
    | KOp OCollect :: _ =>
        if walk_foreign
        then advance (mkG (walk_others t 0 (thr g)) (mtx g) (cells g) (gexc g) (aborted g) (progs g)) t l s
        else advance g t l s
    | _ => advance g t l s
    end
  end.

Definition run (sched : list tid) (g : gstate) : gstate := fold_left (fun g t => gstep t g) sched g.

(* the thread on its own, given the answers its trylock attempts get (h: newest first, one entry per
   instruction); every other synchronisation instruction succeeds at once *)
Definition alone (h : list bool) (l : lstate) : lstate := fold_right lstep l h.
(* the state a run of Thread object t starts from, given the histories of its earlier, completed runs
   (newest first): the first run starts from linit, a later one from the restart of the previous final state *)
Fixpoint base (t : tid) (p : list op) (tau : list (nat * nat)) (pa : list (list bool)) : lstate :=
  match pa with
  | [] => set_tls (linit t p) tau          (* tau = the TLS snapshot a copied Thread object starts with ([] otherwise) *)
  | h :: older => restart (alone h (base t p tau older)) p
  end.
(* ... when every trylock succeeds (nobody else is there) *)
Definition alone_n (n : nat) (l : lstate) : lstate := alone (repeat true n) l.

Definition core (g : gstate) (t : tid) : option lstate := option_map fst (nth_error (thr g) t).
Definition side (g : gstate) (t : tid) : option sstate := option_map snd (nth_error (thr g) t).

(* all threads finished (or nothing can move any more): used by the driver *)
Definition all_done (g : gstate) : bool := forallb (fun ls => done (fst ls)) (thr g).

(* round-robin completion with fuel (driver only) *)
Fixpoint rr (fuel : nat) (n : nat) (g : gstate) : gstate :=
  match fuel with
  | 0 => g
  | S f => if all_done g || aborted g then g
           else rr f n (run (seq 0 n) g)
  end.

End Model.
