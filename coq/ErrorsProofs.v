(* ErrorsProofs.v — C12: raising steps of the Table model change nothing; guarded operations. *)
From Coq Require Import List Arith Bool NArith.
From CelloV Require Import RobinHood TableModel ErrorsModel.
Import ListNotations.

Lemma t_step_raise_unchanged (K V : Type) keq hash swap primes num den (t t' : table K V) o e :
  t_step K V keq hash swap primes num den t o = (t', ORaise V e) -> t' = t.
Proof.
  destruct o as [k v|k|k|k|n|]; simpl; intros H;
    repeat (match type of H with context [match ?x with _ => _ end] => destruct x end);
    inversion H; reflexivity.
Qed.

Lemma run_gop_atomic (S X : Type) (o : gop S X) s s' e :
  run_gop S X o s = (s', Some e) -> s' = s /\ first_failure S X (guards S X o) s = Some e.
Proof.
  unfold run_gop. destruct (first_failure S X (guards S X o) s) eqn:F; intros H; inversion H; subst; auto.
Qed.

Lemma run_gop_ok (S X : Type) (o : gop S X) s s' :
  run_gop S X o s = (s', None) -> s' = body S X o s /\ first_failure S X (guards S X o) s = None.
Proof.
  unfold run_gop. destruct (first_failure S X (guards S X o) s) eqn:F; intros H; inversion H; subst; auto.
Qed.

(* Tree (RBTree.v): a raising step (KeyError of get/rem on an absent key, FormatError of resize to n > 0)
   returns the tree it was given, for every comparison function and every tree *)
From CelloV Require RBTree.
Lemma tree_step_raise_unchanged (K V : Type) (cmp : K -> K -> comparison) (us : bool -> bool -> bool) (t t' : RBTree.rbt K V) o e :
  RBTree.t_step K V cmp us t o = (t', RBTree.ORaise V e) -> t' = t.
Proof.
  destruct o as [k v|k|k|k|n| |kvs]; unfold RBTree.t_step, RBTree.lift; intros H;
    repeat (match type of H with context [match ?x with _ => _ end] => destruct x end);
    inversion H; reflexivity.
Qed.
