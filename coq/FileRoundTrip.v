(* FileRoundTrip.v — the data part of property C20 on the specification of FileModel.v:
   bytes written in ANY chunking are read back identical in ANY chunking after reopening the
   file or after seeking back; stell is the running byte count; seof turns true exactly when a
   read runs into the end.  Transferred to the model of File.c by FileProofs.run_refines. *)
From Coq Require Import List Arith Bool ZArith Lia.
From CelloV Require Import FileModel FileProofs.
Import ListNotations.

Section RoundTrip.
  Variable B : Type.
  Variable zero : B.
  Variables is_ws is_digit is_sign : B -> bool.
  Variable creatable : nat -> bool.
  Variable close_fails : nat -> bool.

  Notation sstep := (spec_step B zero is_ws is_digit is_sign creatable close_fails).
  Notation srun := (spec_run B zero is_ws is_digit is_sign creatable close_fails).
  Notation sworld := (sworld B).
  Notation out := (out B).

  (* consecutive pieces of l with the given sizes *)
  Fixpoint pieces (ns : list nat) (l : list B) : list (list B) :=
    match ns with
    | [] => []
    | n :: r => firstn n l :: pieces r (skipn n l)
    end.

  Lemma pieces_concat : forall ns l, list_sum ns = length l -> concat (pieces ns l) = l.
  Proof.
    induction ns as [|n r IH]; intros l H; simpl in *.
    - destruct l; simpl in *; auto; lia.
    - rewrite IH.
      + apply firstn_skipn.
      + rewrite skipn_length. lia.
  Qed.

  Lemma pieces_lengths : forall ns l, list_sum ns <= length l -> map (@length B) (pieces ns l) = ns.
  Proof.
    induction ns as [|n r IH]; intros l H; simpl in *; auto.
    rewrite IH.
    - rewrite firstn_length. f_equal. lia.
    - rewrite skipn_length. lia.
  Qed.

  Lemma skipn_skipn' : forall (x y : nat) (l : list B), skipn x (skipn y l) = skipn (y + x) l.
  Proof.
    intros x y. induction y as [|y IH]; intros l; simpl; auto.
    destruct l; simpl; auto. destruct x; auto.
  Qed.

  Lemma srun_app : forall l1 l2 (a : sworld),
    srun a (l1 ++ l2) =
    let (a1, o1) := srun a l1 in let (a2, o2) := srun a1 l2 in (a2, o1 ++ o2).
  Proof.
    induction l1 as [|o r IH]; intros l2 a; simpl.
    - destruct (srun a l2); auto.
    - destruct (sstep a o) as [a1 x]. rewrite IH.
      destruct (srun a1 r) as [a2 xs]. destruct (srun a2 l2) as [a3 ys]. auto.
  Qed.

  Lemma srun_cons : forall o r (a : sworld),
    srun a (o :: r) = let (a1, x) := sstep a o in let (a2, xs) := srun a1 r in (a2, x :: xs).
  Proof. reflexivity. Qed.
  Lemma srun_one : forall o (a : sworld), srun a [o] = let (a1, x) := sstep a o in (a1, [x]).
  Proof. intros. simpl. destruct (sstep a o); auto. Qed.
  Lemma srun_nil : forall a : sworld, srun a [] = (a, []).
  Proof. reflexivity. Qed.

  Lemma write_at_end : forall (c d : list B), write_at B zero c (length c) d = c ++ d.
  Proof.
    intros c d. unfold write_at. rewrite firstn_all, Nat.sub_diag. simpl.
    rewrite skipn_all2; [|lia]. rewrite app_nil_r. auto.
  Qed.

  Lemma upd_same : forall A (f : nat -> A) k v, upd f k v k = v.
  Proof. intros. unfold upd. rewrite Nat.eqb_refl. auto. Qed.

  Lemma content_upd : forall (fs : fsys B) p c, content B (upd fs p (Some c)) p = c.
  Proof. intros. unfold content. rewrite upd_same. auto. Qed.

  Definition wrote (d : list B) : out := OkWrite B (Nat.min 1 (length d)).
  Definition got (pc : list B) : out := OkRead B (Nat.min 1 (length pc)) pc.

  (* writing chunks at the end of the file *)
  Lemma swrites : forall i ds (a : sworld) s,
    sw_objs B a i = SOpen s -> m_write (s_mode s) = true ->
    s_pos s = length (content B (sw_fs B a) (s_path s)) ->
    exists (a' : sworld) s',
      srun a (map (OWrite B i) ds) = (a', map wrote ds) /\
      sw_objs B a' i = SOpen s' /\ s_path s' = s_path s /\ s_mode s' = s_mode s /\ s_eof s' = s_eof s /\
      content B (sw_fs B a') (s_path s) = content B (sw_fs B a) (s_path s) ++ concat ds /\
      s_pos s' = length (content B (sw_fs B a') (s_path s)) /\
      (sw_fs B a (s_path s) <> None -> sw_fs B a' (s_path s) <> None).
  Proof.
    intros i ds. induction ds as [|d r IH]; intros a s Hi Hw Hp.
    - exists a, s. simpl. rewrite app_nil_r. repeat split; auto.
    - simpl. unfold s_on_open. rewrite Hi. unfold fwrite. rewrite Hw. simpl negb.
      destruct (length d =? 0) eqn:Hd.
      + (* empty chunk: nothing happens *)
        destruct d as [|b d']; [|simpl in Hd; discriminate]. simpl.
        set (a1 := mkSW B (sw_fs B a) (upd (sw_objs B a) i (SOpen s)) (sw_stack B a)).
        destruct (IH a1 s) as (a' & s' & Hr & H1 & H2 & H3 & H4 & H5 & H6 & H7); auto.
        { unfold a1; simpl. apply upd_same. }
        exists a', s'. rewrite Hr. unfold wrote at 1. simpl.
        split; [reflexivity|]. split; [auto|]. split; [auto|]. split; [auto|]. split; [auto|].
        split; [auto|]. split; [auto|]. exact H7.
      + apply Nat.eqb_neq in Hd. simpl.
        set (c := content B (sw_fs B a) (s_path s)) in *.
        assert (Hat : (if m_append (s_mode s) then length c else s_pos s) = length c)
          by (destruct (m_append (s_mode s)); auto).
        rewrite Hat. rewrite write_at_end.
        set (s1 := set_pos s (length c + length d) (s_eof s)).
        set (a1 := mkSW B (upd (sw_fs B a) (s_path s) (Some (c ++ d))) (upd (sw_objs B a) i (SOpen s1)) (sw_stack B a)).
        destruct (IH a1 s1) as (a' & s' & Hr & H1 & H2 & H3 & H4 & H5 & H6 & H7); auto.
        { unfold a1; simpl. apply upd_same. }
        { unfold a1, s1; simpl. rewrite content_upd, app_length. auto. }
        exists a', s'. rewrite Hr.
        assert (Hw1 : wrote d = OkWrite B 1) by (unfold wrote; f_equal; lia).
        rewrite Hw1.
        unfold a1, s1 in H2, H3, H4, H5, H6, H7. simpl in H2, H3, H4, H5, H6, H7.
        rewrite content_upd in H5.
        split; [reflexivity|]. split; [auto|]. split; [auto|]. split; [auto|]. split; [auto|].
        split; [rewrite H5, <- app_assoc; auto|]. split; [auto|].
        intros _. apply H7. rewrite upd_same. discriminate.
  Qed.

  (* reading chunks that stay inside the file *)
  Lemma sreads : forall i ns (a : sworld) s,
    sw_objs B a i = SOpen s -> m_read (s_mode s) = true ->
    s_pos s + list_sum ns <= length (content B (sw_fs B a) (s_path s)) ->
    exists (a' : sworld) s',
      srun a (map (ORead B i) ns) =
        (a', map got (pieces ns (skipn (s_pos s) (content B (sw_fs B a) (s_path s))))) /\
      sw_objs B a' i = SOpen s' /\ s_path s' = s_path s /\ s_mode s' = s_mode s /\ s_eof s' = s_eof s /\
      sw_fs B a' = sw_fs B a /\ s_pos s' = s_pos s + list_sum ns /\ sw_stack B a' = sw_stack B a.
  Proof.
    intros i ns. induction ns as [|n r IH]; intros a s Hi Hr Hlen.
    - exists a, s. simpl. repeat split; auto.
    - simpl in *. unfold s_on_open. rewrite Hi. unfold fread. rewrite Hr. simpl negb.
      set (c := content B (sw_fs B a) (s_path s)) in *.
      destruct (n =? 0) eqn:Hn.
      + apply Nat.eqb_eq in Hn. subst n. simpl.
        set (a1 := s_set B a i (SOpen s)).
        destruct (IH a1 s) as (a' & s' & Hrun & H1 & H2 & H3 & H4 & H5 & H6 & H7); auto.
        { unfold a1; simpl. apply upd_same. }
        exists a', s'. unfold a1, s_set in Hrun, H5, H7. simpl in Hrun, H5, H7. fold c in Hrun.
        unfold a1, s_set. rewrite Hrun.
        split; [reflexivity|]. repeat split; auto.
      + apply Nat.eqb_neq in Hn.
        assert (Hle : (n <=? length (skipn (s_pos s) c)) = true)
          by (apply Nat.leb_le; rewrite skipn_length; lia).
        rewrite Hle.
        set (s1 := set_pos s (s_pos s + n) (s_eof s)).
        set (a1 := s_set B a i (SOpen s1)).
        cbn [Nat.eqb negb andb].
        destruct (IH a1 s1) as (a' & s' & Hrun & H1 & H2 & H3 & H4 & H5 & H6 & H7); auto.
        { unfold a1; simpl. apply upd_same. }
        { unfold a1, s1; simpl. fold c. lia. }
        exists a', s'. unfold a1, s1, s_set in Hrun, H2, H3, H4, H5, H6, H7.
        simpl in Hrun, H2, H3, H4, H5, H6, H7. fold c in Hrun.
        unfold a1, s1, s_set. rewrite Hrun.
        assert (Hg : got (firstn n (skipn (s_pos s) c)) = OkRead B 1 (firstn n (skipn (s_pos s) c))).
        { unfold got. f_equal. rewrite firstn_length, skipn_length. lia. }
        rewrite Hg. rewrite skipn_skipn'.
        split; [reflexivity|]. repeat split; auto. lia.
  Qed.

  (* single steps of the specification *)
  Lemma sopen_closed : forall (a : sworld) i p m fs' st,
    sw_objs B a i = SClosed -> fopen B creatable (sw_fs B a) p m = Some (fs', st) ->
    sstep a (OOpen B i p m) = (mkSW B fs' (upd (sw_objs B a) i (SOpen st)) (sw_stack B a), OkUnit B).
  Proof. intros a i p m fs' st Hi Hf. simpl. unfold s_reopen, s_open. rewrite Hi, Hf. auto. Qed.

  Lemma sclose_open : forall (a : sworld) i s,
    sw_objs B a i = SOpen s -> close_fails (s_path s) = false ->
    sstep a (OClose B i) = (s_set B a i SClosed, OkUnit B).
  Proof. intros a i s Hi Hc. simpl. unfold s_close. rewrite Hi, Hc. auto. Qed.

  Lemma stell_open : forall (a : sworld) i s,
    sw_objs B a i = SOpen s -> sstep a (OTell B i) = (a, OkNum B (s_pos s)).
  Proof. intros a i s Hi. simpl. unfold s_on_open. rewrite Hi. auto. Qed.

  Lemma seof_open : forall (a : sworld) i s,
    sw_objs B a i = SOpen s -> sstep a (OEof B i) = (a, OkBool B (s_eof s)).
  Proof. intros a i s Hi. simpl. unfold s_on_open. rewrite Hi. auto. Qed.

  Definition trunc_mode (m : mode) : Prop := m = MW \/ m = MWp.
  Definition from_start_mode (m : mode) : Prop := m = MR \/ m = MRp \/ m = MAp.

  (* phase 1: open for writing, write the chunks, ask for the position *)
  Lemma phase_write : forall i p mw ds (a : sworld),
    sw_objs B a i = SClosed -> creatable p = true -> trunc_mode mw ->
    exists (a1 : sworld) s1,
      srun a (OOpen B i p mw :: map (OWrite B i) ds ++ [OTell B i]) =
        (a1, OkUnit B :: map wrote ds ++ [OkNum B (length (concat ds))]) /\
      sw_objs B a1 i = SOpen s1 /\ s_path s1 = p /\ s_mode s1 = mw /\ s_eof s1 = false /\
      content B (sw_fs B a1) p = concat ds /\ s_pos s1 = length (concat ds) /\ sw_fs B a1 p <> None.
  Proof.
    intros i p mw ds a Hi Hc Hm.
    assert (Hf : fopen B creatable (sw_fs B a) p mw = Some (upd (sw_fs B a) p (Some []), mkS p 0 false mw)).
    { unfold fopen. rewrite Hc. destruct Hm as [-> | ->]; auto. }
    rewrite srun_cons. rewrite (sopen_closed a i p mw _ _ Hi Hf).
    set (a0 := mkSW B (upd (sw_fs B a) p (Some [])) (upd (sw_objs B a) i (SOpen (mkS p 0 false mw))) (sw_stack B a)).
    destruct (swrites i ds a0 (mkS p 0 false mw)) as (a1 & s1 & Hr & H1 & H2 & H3 & H4 & H5 & H6 & H7).
    { unfold a0; simpl. apply upd_same. }
    { simpl. destruct Hm as [-> | ->]; auto. }
    { unfold a0; simpl. rewrite content_upd. auto. }
    simpl in H2, H3, H4, H5, H6, H7. unfold a0 in H5, H7. simpl in H5, H7. rewrite content_upd in H5. simpl in H5.
    rewrite srun_app, Hr. cbv beta match. rewrite srun_one, (stell_open a1 i s1 H1). cbv beta match.
    exists a1, s1. rewrite H6, H5.
    split; [reflexivity|]. repeat split; auto.
    apply H7. rewrite upd_same. discriminate.
  Qed.

  (* phase 3: read the chunks back from position 0, then run into the end *)
  Lemma phase_read : forall i ns (a : sworld) s c,
    sw_objs B a i = SOpen s -> m_read (s_mode s) = true -> s_pos s = 0 -> s_eof s = false ->
    content B (sw_fs B a) (s_path s) = c -> list_sum ns = length c ->
    snd (srun a (map (ORead B i) ns ++ [OTell B i; OEof B i; ORead B i 1; OEof B i])) =
      map got (pieces ns c) ++ [OkNum B (length c); OkBool B false; OkRead B 0 []; OkBool B true].
  Proof.
    intros i ns a s c Hi Hr Hp He Hc Hs.
    destruct (sreads i ns a s Hi Hr) as (a' & s' & Hrun & H1 & H2 & H3 & H4 & H5 & H6 & H7).
    { rewrite Hp, Hc. lia. }
    rewrite Hp, Hc in Hrun. simpl skipn in Hrun.
    rewrite srun_app, Hrun. cbv beta match.
    assert (Hpos : s_pos s' = length c) by lia.
    rewrite srun_cons, (stell_open a' i s' H1). cbv beta match.
    rewrite srun_cons, (seof_open a' i s' H1). cbv beta match.
    rewrite srun_cons. cbn [spec_step]. unfold s_on_open at 1. rewrite H1. unfold fread. rewrite H3, Hr. simpl negb.
    rewrite H5, H2, Hc, Hpos. rewrite skipn_all. simpl.
    unfold s_on_open, s_set. simpl. rewrite upd_same. simpl.
    rewrite H4, He. reflexivity.
  Qed.

  Theorem spec_roundtrip_reopen : forall i p mw mr ds ns (a : sworld),
    sw_objs B a i = SClosed -> creatable p = true -> close_fails p = false ->
    trunc_mode mw -> from_start_mode mr ->
    list_sum ns = length (concat ds) ->
    snd (srun a (OOpen B i p mw :: map (OWrite B i) ds ++ [OTell B i] ++
                 [OClose B i; OOpen B i p mr] ++
                 map (ORead B i) ns ++ [OTell B i; OEof B i; ORead B i 1; OEof B i])) =
      OkUnit B :: map wrote ds ++ [OkNum B (length (concat ds))] ++
      [OkUnit B; OkUnit B] ++
      map got (pieces ns (concat ds)) ++
      [OkNum B (length (concat ds)); OkBool B false; OkRead B 0 []; OkBool B true].
  Proof.
    intros i p mw mr ds ns a Hi Hc Hcf Hmw Hmr Hsum.
    destruct (phase_write i p mw ds a Hi Hc Hmw) as (a1 & s1 & Hr1 & H1 & H2 & H3 & H4 & H5 & H6 & H7).
    replace (OOpen B i p mw :: map (OWrite B i) ds ++ [OTell B i] ++ [OClose B i; OOpen B i p mr] ++
             map (ORead B i) ns ++ [OTell B i; OEof B i; ORead B i 1; OEof B i])
      with ((OOpen B i p mw :: map (OWrite B i) ds ++ [OTell B i]) ++ [OClose B i; OOpen B i p mr] ++
             (map (ORead B i) ns ++ [OTell B i; OEof B i; ORead B i 1; OEof B i]))
      by (simpl; rewrite <- !app_assoc; reflexivity).
    rewrite srun_app, Hr1. cbv beta match. rewrite srun_app.
    (* close, reopen *)
    assert (Hcl : sstep a1 (OClose B i) = (s_set B a1 i SClosed, OkUnit B))
      by (apply (sclose_open a1 i s1 H1); rewrite H2; auto).
    set (a2 := s_set B a1 i SClosed) in *.
    assert (Hex : exists c0, sw_fs B a2 p = Some c0).
    { unfold a2; simpl. destruct (sw_fs B a1 p) eqn:E; [eauto|contradiction]. }
    destruct Hex as [c0 Hc0].
    assert (Hop : exists fs3, fopen B creatable (sw_fs B a2) p mr = Some (fs3, mkS p 0 false mr) /\
                              content B fs3 p = concat ds).
    { unfold fopen. rewrite Hc. simpl negb. cbv iota.
      destruct Hmr as [-> | [-> | ->]].
      - rewrite Hc0. eexists; split; eauto.
      - rewrite Hc0. eexists; split; eauto.
      - eexists; split; eauto. rewrite content_upd. unfold a2; simpl; auto. }
    destruct Hop as (fs3 & Hop & Hcont).
    assert (Hi2 : sw_objs B a2 i = SClosed) by (unfold a2; simpl; apply upd_same).
    rewrite srun_cons, Hcl. cbv beta match. rewrite srun_one, (sopen_closed a2 i p mr fs3 _ Hi2 Hop). cbv beta match.
    set (a3 := mkSW B fs3 (upd (sw_objs B a2) i (SOpen (mkS p 0 false mr))) (sw_stack B a2)).
    pose proof (phase_read i ns a3 (mkS p 0 false mr) (concat ds)) as Hrd.
    destruct (srun a3 (map (ORead B i) ns ++ [OTell B i; OEof B i; ORead B i 1; OEof B i])) as [a4 outs].
    simpl in Hrd. rewrite Hrd; auto.
    - simpl. rewrite <- !app_assoc. reflexivity.
    - unfold a3; simpl. apply upd_same.
    - destruct Hmr as [-> | [-> | ->]]; auto.
  Qed.

  (* the three ways of seeking back to the first byte when the position is the length len *)
  Definition back_to_start (len : nat) (off : Z) (o : origin) : Prop :=
    (o = SeekSet /\ off = 0%Z) \/ (o = SeekCur /\ off = (- Z.of_nat len)%Z) \/ (o = SeekEnd /\ off = (- Z.of_nat len)%Z).

  Lemma sseek_open : forall (a : sworld) i s off o s',
    sw_objs B a i = SOpen s -> fseek B (sw_fs B a) s off o = Some s' ->
    sstep a (OSeek B i off o) = (s_set B a i (SOpen s'), OkUnit B).
  Proof. intros a i s off o s' Hi Hf. simpl. unfold s_on_open. rewrite Hi, Hf. auto. Qed.

  Theorem spec_roundtrip_seek : forall i p ds ns off o (a : sworld),
    sw_objs B a i = SClosed -> creatable p = true ->
    back_to_start (length (concat ds)) off o ->
    list_sum ns = length (concat ds) ->
    snd (srun a (OOpen B i p MWp :: map (OWrite B i) ds ++ [OTell B i] ++
                 [OSeek B i off o] ++
                 map (ORead B i) ns ++ [OTell B i; OEof B i; ORead B i 1; OEof B i])) =
      OkUnit B :: map wrote ds ++ [OkNum B (length (concat ds))] ++
      [OkUnit B] ++
      map got (pieces ns (concat ds)) ++
      [OkNum B (length (concat ds)); OkBool B false; OkRead B 0 []; OkBool B true].
  Proof.
    intros i p ds ns off o a Hi Hc Hback Hsum.
    destruct (phase_write i p MWp ds a Hi Hc (or_intror eq_refl)) as (a1 & s1 & Hr1 & H1 & H2 & H3 & H4 & H5 & H6 & H7).
    replace (OOpen B i p MWp :: map (OWrite B i) ds ++ [OTell B i] ++ [OSeek B i off o] ++
             map (ORead B i) ns ++ [OTell B i; OEof B i; ORead B i 1; OEof B i])
      with ((OOpen B i p MWp :: map (OWrite B i) ds ++ [OTell B i]) ++ [OSeek B i off o] ++
             (map (ORead B i) ns ++ [OTell B i; OEof B i; ORead B i 1; OEof B i]))
      by (simpl; rewrite <- !app_assoc; reflexivity).
    rewrite srun_app, Hr1. cbv beta match. rewrite srun_app.
    assert (Hsk : fseek B (sw_fs B a1) s1 off o = Some (set_pos s1 0 false)).
    { unfold fseek. rewrite H2, H5, H6.
      destruct Hback as [[-> ->] | [[-> ->] | [-> ->]]]; simpl.
      - reflexivity.
      - replace (Z.of_nat (length (concat ds)) + - Z.of_nat (length (concat ds)))%Z with 0%Z by lia. reflexivity.
      - replace (Z.of_nat (length (concat ds)) + - Z.of_nat (length (concat ds)))%Z with 0%Z by lia. reflexivity. }
    rewrite srun_one, (sseek_open a1 i s1 off o _ H1 Hsk). cbv beta match.
    set (a2 := s_set B a1 i (SOpen (set_pos s1 0 false))).
    pose proof (phase_read i ns a2 (set_pos s1 0 false) (concat ds)) as Hrd.
    destruct (srun a2 (map (ORead B i) ns ++ [OTell B i; OEof B i; ORead B i 1; OEof B i])) as [a4 outs].
    simpl in Hrd. rewrite Hrd; auto.
    - simpl. rewrite <- !app_assoc. reflexivity.
    - unfold a2; simpl. apply upd_same.
    - rewrite H3. reflexivity.
    - rewrite H2. exact H5.
  Qed.

  (* every seek origin and every offset inside the file: stell reports the target, sread delivers
     the bytes that lie there *)
  Definition seek_target (len pos : nat) (off : Z) (o : origin) : option Z :=
    match o with
    | SeekSet => Some off
    | SeekCur => Some (Z.of_nat pos + off)%Z
    | SeekEnd => Some (Z.of_nat len + off)%Z
    | SeekBad => None
    end.

  Theorem spec_seek_tell_read : forall i off o n t (a : sworld) s,
    sw_objs B a i = SOpen s -> m_read (s_mode s) = true ->
    seek_target (length (content B (sw_fs B a) (s_path s))) (s_pos s) off o = Some (Z.of_nat t) ->
    0 < n -> t + n <= length (content B (sw_fs B a) (s_path s)) ->
    snd (srun a [OSeek B i off o; OTell B i; OEof B i; ORead B i n; OTell B i]) =
      [OkUnit B; OkNum B t; OkBool B false;
       OkRead B 1 (firstn n (skipn t (content B (sw_fs B a) (s_path s)))); OkNum B (t + n)].
  Proof.
    intros i off o n t a s Hi Hr Ht Hn Hlen.
    set (c := content B (sw_fs B a) (s_path s)) in *.
    assert (Hsk : fseek B (sw_fs B a) s off o = Some (set_pos s t false)).
    { unfold fseek. fold c. destruct o; simpl in Ht; try discriminate; inversion Ht as [Ht']; clear Ht.
      all: match goal with |- (if (?e <? 0)%Z then _ else _) = _ => replace e with (Z.of_nat t) by lia end.
      all: destruct (Z.ltb_spec (Z.of_nat t) 0); [lia|]; rewrite Nat2Z.id; auto. }
    rewrite srun_cons, (sseek_open a i s off o _ Hi Hsk). cbv beta match.
    set (a1 := s_set B a i (SOpen (set_pos s t false))).
    assert (Hi1 : sw_objs B a1 i = SOpen (set_pos s t false)) by (unfold a1; simpl; apply upd_same).
    rewrite srun_cons, (stell_open a1 i _ Hi1). cbv beta match.
    rewrite srun_cons, (seof_open a1 i _ Hi1). cbv beta match.
    destruct (sreads i [n] a1 (set_pos s t false) Hi1) as (a2 & s2 & Hrun & H1 & H2 & H3 & H4 & H5 & H6 & H7).
    { simpl. auto. }
    { unfold a1; simpl. fold c. lia. }
    change [ORead B i n; OTell B i] with (map (ORead B i) [n] ++ [OTell B i]).
    rewrite srun_app, Hrun. cbv beta match.
    rewrite srun_one, (stell_open a2 i s2 H1). cbv beta match.
    unfold a1 in *. simpl in *. fold c. rewrite H6.
    assert (Hg : got (firstn n (skipn t c)) = OkRead B 1 (firstn n (skipn t c))).
    { unfold got. f_equal. rewrite firstn_length, skipn_length. lia. }
    rewrite Hg. replace (t + (n + 0)) with (t + n) by lia. reflexivity.
  Qed.

  (* ------------------------------------------------------------------ the same for the model of File.c *)
  Notation runF := (run B zero is_ws is_digit is_sign creatable close_fails true true).

  Definition reopen_history (i p : nat) (mw mr : mode) (ds : list (list B)) (ns : list nat) : list (op B) :=
    OOpen B i p mw :: map (OWrite B i) ds ++ [OTell B i] ++ [OClose B i; OOpen B i p mr] ++
    map (ORead B i) ns ++ [OTell B i; OEof B i; ORead B i 1; OEof B i].
  Definition reopen_outcome (ds : list (list B)) (ns : list nat) : list out :=
    OkUnit B :: map wrote ds ++ [OkNum B (length (concat ds))] ++ [OkUnit B; OkUnit B] ++
    map got (pieces ns (concat ds)) ++
    [OkNum B (length (concat ds)); OkBool B false; OkRead B 0 []; OkBool B true].
  Definition seek_history (i p : nat) (off : Z) (o : origin) (ds : list (list B)) (ns : list nat) : list (op B) :=
    OOpen B i p MWp :: map (OWrite B i) ds ++ [OTell B i] ++ [OSeek B i off o] ++
    map (ORead B i) ns ++ [OTell B i; OEof B i; ORead B i 1; OEof B i].
  Definition seek_outcome (ds : list (list B)) (ns : list nat) : list out :=
    OkUnit B :: map wrote ds ++ [OkNum B (length (concat ds))] ++ [OkUnit B] ++
    map got (pieces ns (concat ds)) ++
    [OkNum B (length (concat ds)); OkBool B false; OkRead B 0 []; OkBool B true].

  (* after ANY history that leaves File i closed, in any chunking of the writes and of the reads *)
  Theorem roundtrip_reopen : forall fs objs pre i p mw mr ds ns,
    (forall j h, objs j <> FObj (Some h)) ->
    let w := fst (runF (w_init B fs objs) pre) in
    w_objs B w i = FObj None -> creatable p = true -> close_fails p = false ->
    trunc_mode mw -> from_start_mode mr -> list_sum ns = length (concat ds) ->
    snd (runF w (reopen_history i p mw mr ds ns)) = reopen_outcome ds ns /\
    concat (pieces ns (concat ds)) = concat ds.
  Proof.
    intros fs objs pre i p mw mr ds ns Hn w Hi Hc Hcf Hmw Hmr Hsum.
    destruct (run_inv B zero is_ws is_digit is_sign creatable close_fails pre _ (inv_init B fs objs Hn)) as [Hinv _].
    fold w in Hinv.
    destruct (run_refines B zero is_ws is_digit is_sign creatable close_fails (reopen_history i p mw mr ds ns) w _ Hinv (equiv_refl B w)) as [Ho _].
    split; [|apply pieces_concat; auto].
    rewrite <- Ho. unfold reopen_history, reopen_outcome.
    apply spec_roundtrip_reopen; auto. simpl. rewrite Hi. reflexivity.
  Qed.

  Theorem roundtrip_seek : forall fs objs pre i p off o ds ns,
    (forall j h, objs j <> FObj (Some h)) ->
    let w := fst (runF (w_init B fs objs) pre) in
    w_objs B w i = FObj None -> creatable p = true ->
    back_to_start (length (concat ds)) off o -> list_sum ns = length (concat ds) ->
    snd (runF w (seek_history i p off o ds ns)) = seek_outcome ds ns /\
    concat (pieces ns (concat ds)) = concat ds.
  Proof.
    intros fs objs pre i p off o ds ns Hn w Hi Hc Hb Hsum.
    destruct (run_inv B zero is_ws is_digit is_sign creatable close_fails pre _ (inv_init B fs objs Hn)) as [Hinv _].
    fold w in Hinv.
    destruct (run_refines B zero is_ws is_digit is_sign creatable close_fails (seek_history i p off o ds ns) w _ Hinv (equiv_refl B w)) as [Ho _].
    split; [|apply pieces_concat; auto].
    rewrite <- Ho. unfold seek_history, seek_outcome.
    apply spec_roundtrip_seek; auto. simpl. rewrite Hi. reflexivity.
  Qed.

  Theorem seek_tell_read_anywhere : forall fs objs pre i h off o n t,
    (forall j h', objs j <> FObj (Some h')) ->
    let w := fst (runF (w_init B fs objs) pre) in
    w_objs B w i = FObj (Some h) ->
    let s := f_st (w_files B w h) in
    let c := content B (w_fs B w) (s_path s) in
    m_read (s_mode s) = true ->
    seek_target (length c) (s_pos s) off o = Some (Z.of_nat t) -> 0 < n -> t + n <= length c ->
    snd (runF w [OSeek B i off o; OTell B i; OEof B i; ORead B i n; OTell B i]) =
      [OkUnit B; OkNum B t; OkBool B false; OkRead B 1 (firstn n (skipn t c)); OkNum B (t + n)].
  Proof.
    intros fs objs pre i h off o n t Hn w Hi s c Hr Ht Hpos Hlen.
    destruct (run_inv B zero is_ws is_digit is_sign creatable close_fails pre _ (inv_init B fs objs Hn)) as [Hinv _].
    fold w in Hinv.
    destruct (run_refines B zero is_ws is_digit is_sign creatable close_fails
                [OSeek B i off o; OTell B i; OEof B i; ORead B i n; OTell B i] w _ Hinv (equiv_refl B w)) as [Ho _].
    rewrite <- Ho.
    apply (spec_seek_tell_read i off o n t (abs B w) s); auto.
    simpl. rewrite Hi. reflexivity.
  Qed.
End RoundTrip.
