(* Properties_C18.v — property C18: build configurations agree on every in-contract program.
   Only statements closed by `exact`, each followed by Print Assumptions; one Example of
   non-vacuity per theorem with hypotheses.
   What is proved here is about the MODEL (coq/Config.v): an abstract interpreter whose only
   configuration-dependent constructs are a switch-guarded error test (`checks`) and a method lookup that
   goes through the type's cache slots (`cache`), the sequence API of Array.c written in it, and the audit
   of the guarded blocks and of the cache wiring of the C source (Generated.v, tools/genx_cfg.py).
   The collector switch is covered on a separate register-machine model, with the collector's safety as a
   hypothesis (C01's statement).  Optimisation levels and the header layout are compiler / ABI matters:
   for those the correspondence run (props/C18.py) is the check. *)
From CelloV Require Import Generated Config ConfigProofs.
From Coq Require Import List Bool ZArith String.
Import ListNotations.

(* 1. one API call: with sound method caches, if no switch-guarded test succeeds, every two
      configurations compute the same state and the same outcome — for every state type, value type
      and body *)
Theorem config_independent :
  forall (St Val : Type) (p : prog St Val) (s : St) (T : types) (c1 c2 : config),
  types_ok T -> fires St Val p s T = false ->
  rst St Val (run St Val c1 p s T) = rst St Val (run St Val c2 p s T) /\
  rout St Val (run St Val c1 p s T) = rout St Val (run St Val c2 p s T).
Proof. exact ConfigProofs.run_indep. Qed.
Print Assumptions config_independent.

Example config_independent_nonvacuous :
  types_ok two_types /\
  fires aseq Z (abody (AGet (-1))) [4; 5; 6]%Z two_types = false /\
  run aseq Z (cfg_build true true true) (abody (AGet (-1))) [4; 5; 6]%Z two_types = ([4; 5; 6]%Z, two_types, OVal 6%Z).
Proof. split; [exact two_types_ok | split; reflexivity]. Qed.

(* 1b. the invariant behind it: from sound caches with equal instance lists, any two configurations end
       in the same state and outcome, with sound caches and untouched instance lists *)
Theorem config_simulation :
  forall (St Val : Type) (p : prog St Val) (s : St) (T1 T2 : types) (c1 c2 : config),
  types_ok T1 -> types_ok T2 -> same_insts T1 T2 -> fires St Val p s T1 = false ->
  rst St Val (run St Val c1 p s T1) = rst St Val (run St Val c2 p s T2) /\
  rout St Val (run St Val c1 p s T1) = rout St Val (run St Val c2 p s T2) /\
  types_ok (rty St Val (run St Val c1 p s T1)) /\ types_ok (rty St Val (run St Val c2 p s T2)) /\
  same_insts (rty St Val (run St Val c1 p s T1)) (rty St Val (run St Val c2 p s T2)) /\
  same_insts T1 (rty St Val (run St Val c1 p s T1)).
Proof. exact ConfigProofs.run_sim. Qed.
Print Assumptions config_simulation.

(* 2. the property's wording: a call that takes no error path in the default build *)
Theorem config_independent_no_error_path :
  forall (St Val : Type) (p : prog St Val) (s : St) (T : types) (c : config),
  types_ok T -> is_raise Val (rout St Val (run St Val cfg_default p s T)) = false ->
  rst St Val (run St Val c p s T) = rst St Val (run St Val cfg_default p s T) /\
  rout St Val (run St Val c p s T) = rout St Val (run St Val cfg_default p s T).
Proof. exact ConfigProofs.run_indep_no_raise. Qed.
Print Assumptions config_independent_no_error_path.

Example config_independent_no_error_path_nonvacuous :
  is_raise Z (rout aseq Z (run aseq Z cfg_default (abody (APopAt 1)) [4; 5; 6]%Z two_types)) = false.
Proof. reflexivity. Qed.

(* 3. whole programs: a history of API calls (exceptions caught by the caller, a crash ends the run)
      on which the default build takes no error path has the same transcript and the same final state
      in every two configurations — for every API written in the interpreter *)
Theorem history_config_independent :
  forall (St Val Op : Type) (body : Op -> prog St Val) (h : list Op) (s : St) (T : types) (c1 c2 : config),
  types_ok T -> no_error_path St Val Op body h s T = true ->
  hst St Val (run_history St Val Op body c1 h s T) = hst St Val (run_history St Val Op body c2 h s T) /\
  hout St Val (run_history St Val Op body c1 h s T) = hout St Val (run_history St Val Op body c2 h s T).
Proof. exact ConfigProofs.history_config_independent. Qed.
Print Assumptions history_config_independent.

Example history_config_independent_nonvacuous :
  no_error_path aseq Z aop abody [APush 1; APush 2; APushAt 9 (-1); AGet (-3); APop; ALen]%Z [] two_types = true /\
  no_error_path unit nat dop dbody [DCall 0 11; DCall 0 10; DCall 1 11; DCall 0 11] tt two_types = true.
Proof. split; vm_compute; reflexivity. Qed.

(* 3b. the weaker hypothesis actually needed: no *guarded* test succeeds (an unguarded throw such as
       the ValueError of rem, or a KeyError, is the same in all builds and may occur) *)
Theorem history_config_independent_guarded :
  forall (St Val Op : Type) (body : Op -> prog St Val) (h : list Op) (s : St) (T : types) (c1 c2 : config),
  types_ok T -> history_fires St Val Op body h s T = false ->
  hst St Val (run_history St Val Op body c1 h s T) = hst St Val (run_history St Val Op body c2 h s T) /\
  hout St Val (run_history St Val Op body c1 h s T) = hout St Val (run_history St Val Op body c2 h s T).
Proof. exact ConfigProofs.history_indep. Qed.
Print Assumptions history_config_independent_guarded.

Example history_config_independent_guarded_nonvacuous :
  afires [APush 1; ARem 7; ALen]%Z [] = false /\
  snd (arun cfg_default [APush 1; ARem 7; ALen]%Z []) = [ODone; ORaise XValueError; OVal 1%Z].
Proof. split; reflexivity. Qed.

(* 3c. how C18 composes with the functional properties: if the DEFAULT build meets a configuration-free
       specification of an API and the specification is defined only inside the contract, then EVERY
       build computes the specification's transcript and final state on every history it accepts *)
Theorem default_spec_lifts_to_every_build :
  forall (St Val Op : Type) (body : Op -> prog St Val) (spec : Op -> St -> option (St * outcome Val)),
  (forall o s T r, types_ok T -> spec o s = Some r -> fires St Val (body o) s T = false) ->
  (forall o s T s' r, types_ok T -> spec o s = Some (s', r) ->
     rst St Val (run St Val cfg_default (body o) s T) = s' /\ rout St Val (run St Val cfg_default (body o) s T) = r) ->
  (forall o s s' r, spec o s = Some (s', r) -> is_crash Val r = false) ->
  forall (h : list Op) (s : St) (T : types) (c : config),
  types_ok T -> all_some (snd (spec_history St Val Op spec h s)) = true ->
  hst St Val (run_history St Val Op body c h s T) = fst (spec_history St Val Op spec h s) /\
  hout St Val (run_history St Val Op body c h s T) = strip OCrash (snd (spec_history St Val Op spec h s)).
Proof. exact ConfigProofs.every_build_meets_spec. Qed.
Print Assumptions default_spec_lifts_to_every_build.

(* its hypotheses are satisfiable: the Array API with its list specification fulfils all three *)
Example default_spec_lifts_to_every_build_nonvacuous :
  (forall o s T r, types_ok T -> aspec o s = Some r -> fires aseq Z (abody o) s T = false) /\
  (forall o s T s' r, types_ok T -> aspec o s = Some (s', r) ->
     rst aseq Z (run aseq Z cfg_default (abody o) s T) = s' /\ rout aseq Z (run aseq Z cfg_default (abody o) s T) = r) /\
  (forall o s s' r, aspec o s = Some (s', r) -> is_crash Z r = false).
Proof. exact ConfigProofs.array_lift_hypotheses. Qed.

(* 4. Type.c alone: on a type whose filled slots are sound, any sequence of lookups returns the same
      instances with the cache (CELLO_CACHE == 1) as without; a freshly initialised type is sound.
      Needs that no two classes share a slot — re-checked on the wiring extracted from Type_Instance *)
Theorem cache_transparent : forall (cs : list cls) (t1 t2 : tyobj),
  cache_ok t1 -> cache_ok t2 -> tinsts t1 = tinsts t2 -> lookups true t1 cs = lookups false t2 cs.
Proof. exact ConfigProofs.lookups_transparent. Qed.
Print Assumptions cache_transparent.

Example cache_transparent_nonvacuous :
  cls_of "Len" = Some 11 /\ cls_of "Hash" = Some 10 /\ cls_of "Cmp" = Some 9 /\ slot_of 10 = Some 6 /\
  cache_ok (fresh_type [(11, 7); (10, 9)]) /\
  lookups true (fresh_type [(11, 7); (10, 9)]) [10; 11; 10; 9] = [Some 9; Some 7; Some 9; None].
Proof. repeat split; try apply fresh_type_ok; vm_compute; reflexivity. Qed.

(* 4b. the soundness hypothesis cannot be dropped: a slot holding another class's instance changes the
       outcome of a call between cache on and cache off *)
Theorem unsound_cache_configs_differ :
  exists T, same_insts T two_types /\
    rout unit nat (run unit nat cfg_default (dbody (DCall 0 10)) tt T) <>
    rout unit nat (run unit nat (cfg_build false true false) (dbody (DCall 0 10)) tt T).
Proof. exact ConfigProofs.unsound_cache_differs. Qed.
Print Assumptions unsound_cache_configs_differ.

(* 4c. CELLO_NGC: a program that reaches objects only through its registers (allocate, read, write,
       re-link, copy or clear a register) observes the same values whether the collector is compiled in
       or not, for every collection schedule — PROVIDED the collector leaves reachable objects as they
       are (`collector_safe`, which is what C01 establishes for the real mark-and-sweep; here it is a
       hypothesis, the collector itself is a parameter) *)
Theorem collector_transparent :
  forall (collect : nat -> heap -> roots -> heap) (ops : list gop) (s : gstate) (c1 c2 : config),
  collector_safe collect ->
  snd (grun_cfg c1 collect 0 ops s) = snd (grun_cfg c2 collect 0 ops s).
Proof. exact ConfigProofs.gc_config_independent. Qed.
Print Assumptions collector_transparent.

(* non-vacuity with a collector that really frees objects: one sweep of everything that is neither in a
   register nor pointed to by a heap entry is safe; on the program below the collected heap ends with
   fewer entries than the uncollected one and the observations are the same *)
Example collector_transparent_nonvacuous :
  collector_safe (fun _ => sweep_unreferenced) /\
  collector_safe (fun _ h _ => h) /\
  let ops := [GAlloc 0 5%Z []; GAlloc 1 6%Z [(0, [])]; GDrop 0; GRead (1, [0]); GWrite (1, [0]) 9%Z;
              GMove 2 (1, [0]); GRead (2, []); GAlloc 1 7%Z []; GRead (1, []); GDrop 2; GRead (1, []); GRead (1, [])] in
  snd (grun_cfg cfg_default (fun _ => sweep_unreferenced) 0 ops g_empty)
    = [GUnit; GUnit; GUnit; GVal 5%Z; GUnit; GUnit; GVal 9%Z; GUnit; GVal 7%Z; GUnit; GVal 7%Z; GVal 7%Z] /\
  List.length (gheap (fst (grun_cfg cfg_default (fun _ => sweep_unreferenced) 0 ops g_empty))) = 1 /\
  List.length (gheap (fst (grun_cfg (cfg_build false false true) (fun _ => sweep_unreferenced) 0 ops g_empty))) = 4.
Proof.
  split; [exact sweep_unreferenced_safe | split; [exact identity_collector_safe | vm_compute; repeat split; reflexivity]].
Qed.

(* 4d. that hypothesis cannot be dropped: a collector that frees a reachable object changes what the
       program reads *)
Theorem unsafe_collector_configs_differ :
  exists (collect : nat -> heap -> roots -> heap) (ops : list gop),
    snd (grun true collect 0 ops g_empty) <> snd (grun false collect 0 ops g_empty).
Proof. exact ConfigProofs.unsafe_collector_differs. Qed.
Print Assumptions unsafe_collector_configs_differ.

(* 5. the interpreter of API bodies reads nothing of the configuration but the check switches and the
      cache flag (the collector switch is the subject of 4c, on its own program model) *)
Theorem run_reads_checks_and_cache_only :
  forall (St Val : Type) (p : prog St Val) (s : St) (T : types) (c1 c2 : config),
  (forall sw, checks c1 sw = checks c2 sw) -> cache c1 = cache c2 -> run St Val c1 p s T = run St Val c2 p s T.
Proof. exact ConfigProofs.run_reads_checks_cache. Qed.
Print Assumptions run_reads_checks_and_cache_only.

Example run_reads_checks_and_cache_only_nonvacuous :
  (forall sw, checks (cfg_build true false true) sw = checks (cfg_build true false false) sw) /\
  cache (cfg_build true false true) = cache (cfg_build true false false).
Proof. split; reflexivity. Qed.

(* 6. Array.c: the contract of each call, arithmetically (index normalisation and bounds tests are the
      ones re-extracted from the source): a guarded test succeeds exactly outside it *)
Theorem array_contract : forall (o : aop) (s : aseq) (T : types),
  fires aseq Z (abody o) s T = false <-> in_contract o s.
Proof. exact ConfigProofs.afires_char. Qed.
Print Assumptions array_contract.

(* 7. Array.c: inside the contract every configuration computes what the configuration-free list
      specification says (state and outcome), for whole histories *)
Theorem array_meets_spec : forall (h : list aop) (s : aseq) (c : config),
  all_some (snd (aspec_history h s)) = true ->
  arun c h s = (fst (aspec_history h s), strip OCrash (snd (aspec_history h s))).
Proof. exact ConfigProofs.array_history_meets_spec. Qed.
Print Assumptions array_meets_spec.

Example array_meets_spec_nonvacuous :
  all_some (snd (aspec_history [APush 3; APushAt 4 0; ASet (-1) 8; APopAt 0; AGet 0; AMem 8; ARem 8; ALen]%Z [])) = true /\
  strip OCrash (snd (aspec_history [APush 3; APushAt 4 0; ASet (-1) 8; APopAt 0; AGet 0; AMem 8; ARem 8; ALen]%Z []))
    = [ODone; ODone; ODone; ODone; OVal 8; OVal 1; ODone; OVal 0]%Z.
Proof. split; reflexivity. Qed.

(* 8. Array.c: every two configurations agree on every history on which no bounds test succeeds *)
Theorem array_config_independent : forall (h : list aop) (s : aseq) (c1 c2 : config),
  afires h s = false -> arun c1 h s = arun c2 h s.
Proof. exact ConfigProofs.array_config_independent. Qed.
Print Assumptions array_config_independent.

Example array_config_independent_nonvacuous :
  afires [APush 1; APush 2; APopAt (-2); AGet 0]%Z [] = false.
Proof. reflexivity. Qed.

(* 9. the hypothesis cannot be dropped: outside the contract the builds differ (checked build raises,
      CELLO_NDEBUG build runs into the access) *)
Theorem out_of_contract_configs_differ :
  exists (o : aop) (s : aseq),
    snd (run aseq Z cfg_default (abody o) s []) = ORaise XIndexOutOfBounds /\
    snd (run aseq Z (cfg_build true false false) (abody o) s []) = OCrash.
Proof. exact ConfigProofs.array_out_of_contract_differs. Qed.
Print Assumptions out_of_contract_configs_differ.

(* 10. the source: the CELLO_*_CHECK switches of Cello.h are exactly the model's six, each derived from
       CELLO_NDEBUG; every `#if CELLO_<X>_CHECK == 1` block of src/*.c is a pure test followed by throw,
       except exactly the three audited ones (two header-field stores in header_init, the poisoning of
       a block about to be freed in dealloc); conditions call only audited readers *)
Theorem source_switches_and_guarded_blocks :
  cfg_check_switches = map switch_name all_switches /\
  forallb block_ok cfg_guarded_blocks = true /\
  forallb known_switch cfg_guarded_blocks = true /\
  list_eqb str4_eqb non_test_blocks audited_non_test = true /\
  forallb (fun f => existsb (String.eqb f) audited_pure_calls) cfg_pure_calls = true.
Proof.
  exact (conj ConfigProofs.switches_from_source
        (conj (proj1 ConfigProofs.guarded_blocks_audited)
        (conj (proj1 (proj2 ConfigProofs.guarded_blocks_audited))
        (conj (proj2 (proj2 ConfigProofs.guarded_blocks_audited)) ConfigProofs.pure_calls_audited)))).
Qed.
Print Assumptions source_switches_and_guarded_blocks.

(* 10b. the source: the thirteen CELLO_BOUND_CHECK blocks (Array, List, Tuple, Table) have the audited
        index normalisation and test — a changed comparison is a broken obligation *)
Theorem source_bound_guards : list_eqb str3_eqb cfg_bound_guards audited_bound_guards = true.
Proof. exact ConfigProofs.bound_guards_audited. Qed.
Print Assumptions source_bound_guards.

(* 11. the source: the sites (file, function) where the collector (CELLO_NGC) is compiled in or out are the audited
       ones (a new one must be looked at); the method cache switch is mentioned in Type.c only; the cache wiring of
       Type_Instance gives every class its own slot, all inside the CELLO_CACHE_NUM slots *)
Theorem source_ngc_and_cache_sites :
  list_eqb pair_eqb cfg_ngc_blocks audited_ngc_blocks = true /\
  list_eqb String.eqb cfg_cache_files audited_cache_files = true /\
  nodupb (map fst cfg_cache_wiring) = true /\
  forallb (fun w : nat * nat => andb (Nat.ltb (fst w) cello_cache_num) (Nat.ltb (snd w) (List.length cfg_class_names))) cfg_cache_wiring = true /\
  List.length cfg_cache_wiring = cello_cache_num.
Proof.
  exact (conj (proj1 ConfigProofs.ngc_cache_sites_audited)
        (conj (proj2 ConfigProofs.ngc_cache_sites_audited) ConfigProofs.cache_wiring_audited)).
Qed.
Print Assumptions source_ngc_and_cache_sites.

(* 12. the object header: one word plus one per enabled ALLOC / MAGIC switch — three words in the
       default build, one under CELLO_NDEBUG *)
Theorem header_words_of_builds : forall (nocache ngc : bool),
  header_words (cfg_build false nocache ngc) = 3 /\ header_words (cfg_build true nocache ngc) = 1.
Proof. exact ConfigProofs.header_words_builds. Qed.
Print Assumptions header_words_of_builds.

(* 13. del: on every object made with new the two kinds of build do the same (finalise and free it); on NULL they
       differ — nothing with the collector (rem finds no entry), ValueError or a crash under CELLO_NGC *)
Theorem del_paths_agree_on_objects_and_differ_on_null :
  (forall (c1 c2 : config) (a : nat), del_model c1 (Some a) = del_model c2 (Some a)) /\
  del_model cfg_default None = DNothing /\
  del_model (cfg_build false false true) None = DRaise XValueError /\
  del_model (cfg_build true false true) None = DCrash.
Proof. exact (conj ConfigProofs.del_agrees_on_objects ConfigProofs.del_null_differs). Qed.
Print Assumptions del_paths_agree_on_objects_and_differ_on_null.

(* 14. therefore a destructor that forwards a possibly-NULL content to del must test it: with the test as Pointer.c
       has it (Generated.cfg_box_del_guarded) Box_Del does the same in every configuration for every content,
       the EMPTY Box included; also element by element for a container of Boxes *)
Theorem owner_destructors_agree : forall (c1 c2 : config),
  (forall x : option nat, owner_del cfg_box_del_guarded c1 x = owner_del cfg_box_del_guarded c2 x) /\
  (forall xs : list (option nat), map (owner_del cfg_box_del_guarded c1) xs = map (owner_del cfg_box_del_guarded c2) xs).
Proof. exact (fun c1 c2 => conj (ConfigProofs.box_del_agrees c1 c2) (ConfigProofs.owners_del_agree c1 c2)). Qed.
Print Assumptions owner_destructors_agree.

(* 14b. without the test the builds disagree on the empty owner (seed C18-r4-2) *)
Theorem unguarded_owner_destructor_configs_differ :
  owner_del false cfg_default None <> owner_del false (cfg_build false false true) None /\
  owner_del false cfg_default None <> owner_del false (cfg_build true false true) None.
Proof. exact ConfigProofs.unguarded_owner_del_differs. Qed.
Print Assumptions unguarded_owner_destructor_configs_differ.

(* 15. the source: every del / del_raw / del_root call inside a destructor of src/*.c is behind a NULL test of its
       argument or passes a field the type's constructor always fills; the list is the audited one *)
Theorem source_destructors_guard_forwarded_del :
  forallb del_forward_ok cfg_del_forwards = true /\
  list_eqb str4_eqb cfg_del_forwards audited_del_forwards = true.
Proof. exact ConfigProofs.del_forwards_audited. Qed.
Print Assumptions source_destructors_guard_forwarded_del.
